#!/usr/bin/env python3
"""Regenerate MANIFEST.json from harness/meta/Cxx.json (one file per claimed property)."""
import json
import subprocess
from pathlib import Path

V = Path(__file__).resolve().parents[1]
props = [json.loads(l) for l in open(V / "properties.jsonl")]
na_path = V / "harness" / "meta" / "not_applicable.json"
na_reasons = json.load(open(na_path)) if na_path.exists() else {}
hooks_path = V / "harness" / "meta" / "hooks.json"
hooks_extra = json.load(open(hooks_path)) if hooks_path.exists() else {}
checks, na = [], []
for p in props:
    pid = p["id"]
    m = V / "harness" / "meta" / f"{pid}.json"
    if m.exists() and (V / "harness" / f"{pid.lower()}.py").exists() and (V / "lean" / "obligations" / f"{pid}.json").exists():
        meta = json.load(open(m))
        checks.append({
            "property_id": pid,
            "quick_cmd": f"./check {pid} --tier quick",
            "thorough_cmd": f"./check {pid} --tier thorough",
            "evidence_file": f"evidence/{pid}.json",
            "replay_cmd_template": f"./check {pid} --replay {{path}}",
            "engine": "lean4-proof+correspondence",
            "level_claimed": {"category": "proof", "text": meta["level_text"], "design_ref": meta.get("design_ref", "DESIGN.md §7")},
            "level_note": meta["level_note"],
            "technique": meta["technique"],
        })
    else:
        na.append({"property_id": pid, "reason": na_reasons.get(pid, "check not built yet in this session (no technical obstacle; see DESIGN.md §7)")})
man = {
    "version": 1,
    "setup_cmd": "sh tools/setup.sh",
    "hooks": {
        "guard": "PYDROBERT_TORCH_VERIF",
        "enable": "no source hooks: the harness instruments pydrobert.torch from outside (module attribute shadowing); the variable is exported by the harness for uniformity",
        "baseline_off_cmd": "cd /repo && env -u PYDROBERT_TORCH_VERIF /venv/bin/python -m pytest -ra -q -p no:cacheprovider --timeout=900 --continue-on-collection-errors",
        "source_commits": hooks_extra.get("source_commits", []),
        "add_only": True,
    },
    "engines": [{
        "name": "lean4-proof+correspondence",
        "path": "check",
        "serves_properties": [c["property_id"] for c in checks],
        "kind_free_text": "Lean 4 theorems about hand-written executable models (lean/PdtVerif), audited with #print axioms; models tied to /repo on every run by a differential correspondence harness (harness/) that also evaluates the property on the implementation's output and searches for a failing input when a proof or the correspondence breaks",
    }],
    "checks": checks,
    "not_applicable": na,
    "notes": "See DESIGN.md. ./check Cxx --tier quick|thorough; VERIF_SEED selects the PRNG seed; VERIF_REPO overrides the repository path (default /repo).",
}
json.dump(man, open(V / "MANIFEST.json", "w"), indent=1)
print(f"{len(checks)} checks, {len(na)} not claimed")
