#!/bin/sh
# usage: tools/sweep_seeds.sh [all|first|last]   (default: first = the first seed of every property; last = the newest)
# The procedure of the brief, literally: apply a seeded change to /repo itself, run the property's quick check
# against /repo, undo the change straight afterwards. Only run this when nothing else is using /repo.
# Results: seeded/SWEEP.json (evidence and replays of these runs go to /tmp, never to evidence/).
cd "$(dirname "$0")/.."
MODE="${1:-first}"
[ -z "$(git -C /repo status --porcelain)" ] || { echo "/repo has local modifications; refusing"; exit 2; }
OUT=/tmp/sweep_out; mkdir -p $OUT
echo "[" > $OUT/sweep.json; FIRST=1; LAST=""
SORT="sort"; [ "$MODE" = last ] && SORT="sort -r"
for d in $(ls -d seeded/C*-* | $SORT); do
  name=$(basename $d); pid=${name%%-*}
  if [ "$MODE" != all ] && [ "$pid" = "$LAST" ]; then continue; fi
  LAST=$pid
  P=$d/patch.diff; [ -f $d/patch.rebased.diff ] && P=$d/patch.rebased.diff
  if ! git -C /repo apply "$PWD/$P" 2>/dev/null; then
    (cd /repo && patch -p1 -F3 --no-backup-if-mismatch < "/verif/$d/patch.diff" >/dev/null 2>&1) || { echo "$name: patch does not apply"; git -C /repo checkout -- .; continue; }
  fi
  VERIF_EVIDENCE_DIR=$OUT/ev VERIF_REPLAY_DIR=$OUT/rp timeout 1800 ./check $pid --tier quick > $OUT/$name.out 2>&1; rc=$?
  git -C /repo checkout -- . ; git -C /repo clean -fdq
  v=$(grep -m1 '^VIOLATION' $OUT/$name.out | cut -c1-160)
  echo "$name exit=$rc ${v:-no-violation-line}"
  [ $FIRST = 1 ] || echo "," >> $OUT/sweep.json; FIRST=0
  printf '{"seed":"%s","check_exit":%s,"violation_line":"%s"}' "$name" "$rc" "$v" >> $OUT/sweep.json
done
echo "]" >> $OUT/sweep.json
cp $OUT/sweep.json seeded/SWEEP.$MODE.json
[ -z "$(git -C /repo status --porcelain)" ] && echo "/repo clean again"
