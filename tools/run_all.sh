#!/bin/sh
# Run every claimed check (tier $1, default quick) in parallel, then validate MANIFEST and evidence files.
# usage: tools/run_all.sh [quick|thorough] [parallelism]
cd "$(dirname "$0")/.."
TIER="${1:-quick}"; PAR="${2:-4}"
mkdir -p /tmp/verif_runall
IDS=$(python3 -c "import json; print(' '.join(c['property_id'] for c in json.load(open('MANIFEST.json'))['checks']))")
echo "$IDS" | tr ' ' '\n' | xargs -P "$PAR" -I{} sh -c "./check {} --tier $TIER > /tmp/verif_runall/{}.out 2>&1; echo \"{} exit=\$? \$(tail -1 /tmp/verif_runall/{}.out)\""
python3-vt - <<'PY'
import json, jsonschema, sys
man = json.load(open('MANIFEST.json'))
jsonschema.validate(man, json.load(open('/root/.vp/MANIFEST.schema.json')))
sch = json.load(open('/root/.vp/EVIDENCE.schema.json'))
bad = 0
for c in man['checks']:
    try:
        ev = json.load(open(c['evidence_file']))
        jsonschema.validate(ev, sch)
        cov = ev['coverage']
        assert cov['obligations'] == cov['discharged'] >= 1, 'obligations != discharged'
    except Exception as e:
        bad += 1
        print('EVIDENCE PROBLEM', c['property_id'], str(e)[:200])
print('manifest valid;', len(man['checks']), 'checks;', bad, 'evidence problems')
PY
