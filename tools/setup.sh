#!/bin/sh
# Offline build of the whole Lean side (models, lemmas, property files) and a smoke test of
# the driver of every check claimed in MANIFEST.json.
set -e
cd "$(dirname "$0")/../lean"
lake build
for pid in $(python3 -c "import json; print(' '.join(c['property_id'] for c in json.load(open('../MANIFEST.json'))['checks']))"); do
  f=$(python3 -c "import json; print(json.load(open('obligations/$pid.json'))['driver'])")
  # the driver must start and answer an unknown op with an error object
  echo '{"op":"__ping__","case":null}' | lake env lean --run "$f" | grep -q '"err"' || { echo "driver $f broken"; exit 1; }
done
echo setup ok
