#!/bin/sh
# Offline build of the whole Lean side (models, lemmas, property files, drivers).
set -e
cd "$(dirname "$0")/../lean"
lake build
for f in Driver/C*Main.lean; do
  # every driver must at least start and answer an unknown op with an error object
  echo '{"op":"__ping__","case":null}' | lake env lean --run "$f" | grep -q '"err"' || { echo "driver $f broken"; exit 1; }
done
echo setup ok
