#!/usr/bin/env python3
"""Write /tmp/benign/<pid>/PROMPT.txt for a fresh sub-agent that writes HARMLESS rewrites (the property keeps holding).
The agent gets ONLY the property text and its own worktree. Used to test that the checks raise no false alarm."""
import json, sys
from pathlib import Path
V = Path(__file__).resolve().parents[1]
pid = sys.argv[1]
n = sys.argv[2] if len(sys.argv) > 2 else "3"
p = next(json.loads(l) for l in open(V / "properties.jsonl") if json.loads(l)["id"] == pid)
rnd = sys.argv[3] if len(sys.argv) > 3 else ""
d = Path(f"/tmp/benign/{pid}{rnd}")
d.mkdir(parents=True, exist_ok=True)
wt = d / "wt"
txt = f"""You are testing whether a verification harness for the Python library sdrobert/pydrobert-pytorch (source under
src/pydrobert/torch) raises FALSE ALARMS. You are NOT shown the harness; do not read anything under /verif.

Set up your own scratch worktree of the repository (never edit /repo itself):
    git -C /repo worktree add --detach {wt} HEAD
Run code against it with:   cd {wt} && PYTHONPATH={wt}/src /venv/bin/python your_script.py
Run the library's tests with: cd {wt} && PYTHONPATH={wt}/src timeout 1500 /venv/bin/python -m pytest -q -p no:cacheprovider --timeout=900 tests/<file>.py
(The machine is shared and busy: export OMP_NUM_THREADS=2 before running anything; run the test FILES that cover the code you
change — say exactly which — rather than the whole suite. tests/test_metadata.py::test_version fails under PYTHONPATH on the
pristine tree too; ignore it.)
NEVER use `git stash` (shared by all worktrees): toggle with `git diff > patch.diff`, `git checkout -- .`, `git apply patch.diff`.
If you call command-line entry points of the library from a script, always pass --num-workers 0 and put your code under
`if __name__ == "__main__":`.

THE PROPERTY (a semantic property users of the library rely on):

  [{p['id']}] {p['title']}
  {p['statement']}
  Quantified over: {p['quantifier']['text']}
  Code it is anchored in: {', '.join(p['anchors']['files'])}

YOUR JOB: produce {n} DIFFERENT, REALISTIC, NON-TRIVIAL changes to the code this property is anchored in (each a separate
patch against the pristine tree) under which the property STILL HOLDS for every input, and every documented behaviour
(return values on valid inputs, documented error classes on invalid ones, files written) is unchanged — the kind of change a
maintainer makes all the time: an internal refactor (helper extracted or inlined, loop turned into vectorised code or the
reverse, recursion into iteration), an equivalent algorithm (different but equivalent index arithmetic, different order of
independent statements, a different temporary dtype that cannot change the result, a cache that is correctly invalidated),
changed private names / attribute layout, changed wording of error MESSAGES (same exception class), different garbage in
padding cells that the documentation leaves unspecified, extra logging, different but equivalent file-writing sequence that
keeps every atomicity guarantee. Do NOT make cosmetic-only patches (comments, whitespace): each patch must change how the
anchored mechanism computes its result, touching at least ~10 lines. The existing test-suite must still pass (run the
test files that cover the code; report what you ran).

Be honest and careful: for each patch argue in 3–6 sentences why the property still holds for EVERY input in the quantifier
(think about empty inputs, ties, boundary sizes, dtypes, restarts). If you are not sure a patch is behaviour-preserving,
drop it and write another one. Also write a small differential script that runs pristine and patched on a few hundred
random inputs and compares the observable results (run it; say what it covered).

For each change k = 1..{n} write, under {d}/out/<k>/ :
  - patch.diff : `git -C {wt} diff` of that change alone against the pristine tree (apply-able with `git apply`)
  - meta.json  : {{"property": "{pid}", "title": "...", "why_property_still_holds": "...", "observable_differences": "none | e.g.
                 error message text, padding garbage", "files_changed": [...], "tests_run": "...", "tests_result": "...",
                 "differential": "what the script compared and on how many inputs"}}
Restore the worktree to pristine between changes (`git -C {wt} checkout -- .`). When completely done remove the worktree:
    git -C /repo worktree remove --force {wt}
(keep the {d}/out directory). Final answer: a short list of the changes (one line each).
"""
if rnd:
    prev = sorted((V / "benign").glob(f"{pid}-*"))
    avoid = "\n".join("  - " + (json.load(open(x / "meta.json")).get("title") or x.name)[:200] for x in prev)
    txt = txt.replace("Be honest and careful:", "Earlier engineers already wrote these rewrites - do something DIFFERENT (other functions, other mechanisms):\n" + avoid +
        "\nFor this round prefer: (i) a CORRECT fast path taken only above a size threshold or for particular dtypes / "
        "layouts (with the slow path kept for the rest); (ii) CORRECT caching / memoisation with proper invalidation "
        "(public attributes may be reassigned after construction, tensors edited in place, objects reused or pickled); "
        "(iii) a different library API for the same effect (other torch ops, other file-system calls with the same "
        "atomicity, pathlib vs os); (iv) a changed evaluation order of independent steps; (v) different-but-equivalent "
        "intermediate dtype / memory layout (contiguous copy vs view) where the result is provably identical; (vi) an "
        "optional argument's default moved (signature default vs `None` sentinel resolved inside) with identical "
        "behaviour for omitted and explicit values.\n\nBe honest and careful:")
(d / "PROMPT.txt").write_text(txt)
print(d / "PROMPT.txt")
