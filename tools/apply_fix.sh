#!/bin/sh
# usage: tools/apply_fix.sh <diff-file> "<commit subject after 'fix: '>"
# applies one proposed repair to /repo and commits it as its own "fix:" commit
set -e
D="$1"; MSG="$2"
cd /repo
git apply --check "$D"
git apply "$D"
BODY=""
MD="${D%.diff}.md"
git add -A
if [ -f "$MD" ]; then
  git commit -q -m "fix: $MSG" -m "$(sed -n '1,60p' "$MD" | cut -c1-200)"
else
  git commit -q -m "fix: $MSG"
fi
git log --oneline | head -1
