#!/usr/bin/env python3
"""fixes/COMMITS.json: which /repo commit carries which proposed repair (matched by `git patch-id`)."""
import json, subprocess
from pathlib import Path
V = Path(__file__).resolve().parents[1]
def pid_of(text):
    r = subprocess.run(["git", "patch-id", "--stable"], input=text, capture_output=True, text=True)
    return r.stdout.split()[0] if r.stdout.strip() else None
commits = subprocess.run(["git", "-C", "/repo", "log", "--format=%h %s", "ca0aabc..HEAD"], capture_output=True, text=True).stdout.strip().splitlines()
by_pid = {}
for line in commits:
    h, subj = line.split(" ", 1)
    if not subj.startswith("fix:"):
        continue
    d = subprocess.run(["git", "-C", "/repo", "show", h], capture_output=True, text=True).stdout
    by_pid[pid_of(d)] = (h, subj)
out = {}
for f in sorted((V / "fixes").glob("*.diff")):
    p = pid_of(f.read_text())
    out[f.name] = {"commit": by_pid[p][0], "subject": by_pid[p][1]} if p in by_pid else None
# sequential diffs without git headers (C14-*): match by hand-kept subject keywords
manual = {"C14-1-lang-bucket-element-length.diff": "length buckets of LangDataLoader",
          "C14-2-empty-dataset-buckets.diff": "accept an empty data set",
          "C14-3-deprecated-spect-loaders-seed.diff": "pass seed by keyword",
          "C14-4-spect-evaluation-default-prefix.diff": "defaults file_prefix",
          "C14-5-len-not-cached.diff": "recompute len()"}
for k, kw in manual.items():
    if out.get(k) is None:
        for h, subj in by_pid.values():
            if kw in subj:
                out[k] = {"commit": h, "subject": subj}
json.dump(out, open(V / "fixes" / "COMMITS.json", "w"), indent=1)
print(sum(v is not None for v in out.values()), "of", len(out), "diffs matched;", "unmatched:", [k for k, v in out.items() if v is None])
