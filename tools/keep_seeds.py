#!/usr/bin/env python3
"""Copy confirmed seeded changes from /tmp/seed/<pid><tag>/out/<k> to /verif/seeded/<pid>-<tag><k>/ using the
summary lines printed by tools/try_seed.sh (files given as arguments). Only seeds whose demo passed on the pristine
tree and failed with the patch are kept; meta.json records what was run here and what the check reported."""
import json, re, shutil, sys
from pathlib import Path
V = Path(__file__).resolve().parents[1]
for log in sys.argv[1:]:
    for line in open(log):
        m = re.match(r"(/tmp/seed/(C\d+)(\w)/out/(\d+)): demo pristine=(\d+) patched=(\d+) \| check exit=(\d+) (.*?) \| (.*)", line)
        if not m:  # re-test of an already kept seed
            m = re.match(r"(/verif/seeded/(C\d+)-(\w)(\d+)): demo pristine=(\d+) patched=(\d+) \| check exit=(\d+) (.*?) \| (.*)", line)
        if not m:
            continue
        src, pid, tag, k, p, q, c, viol, tail = m.groups()
        if p != "0" or q == "0":
            print("NOT CONFIRMED:", line.strip()); continue
        dst = V / "seeded" / f"{pid}-{tag}{k}"
        dst.mkdir(parents=True, exist_ok=True)
        for f in ("patch.diff", "demo.py"):
            if Path(src).resolve() != dst.resolve():
                shutil.copy(Path(src) / f, dst / f)
        meta = {}
        try:
            meta = json.load(open(Path(src) / "meta.json"))
        except Exception:
            pass
        hist = []
        if (dst / "meta.json").exists():
            try:
                hist = json.load(open(dst / "meta.json")).get("check_history", [])
            except Exception:
                pass
        entry = {"tier": "quick" if "[quick]" in tail else "thorough", "check_exit": int(c),
                 "detected": c == "1" and viol.startswith("VIOLATION"),
                 "no_failing_input_found": "no-failing-input-found" in viol, "summary": tail.strip()}
        if entry not in hist:
            hist.append(entry)
        meta.update({
            "property": pid,
            "confirmed_here": {"demo_exit_pristine": int(p), "demo_exit_patched": int(q),
                               "how": "tools/try_seed.sh: scratch worktree of /repo HEAD, demo.py run before and after `git apply patch.diff`, then ./check against the patched worktree"},
            "check_history": hist,
        })
        json.dump(meta, open(dst / "meta.json", "w"), indent=1)
        print(f"{pid}-{tag}{k}: detected={entry['detected']}")
