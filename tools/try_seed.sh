#!/bin/sh
# usage: tools/try_seed.sh <dir with patch.diff + demo.py> <PID> [tier]
# Confirms a seeded change in a scratch worktree of /repo HEAD (demo passes pristine, fails patched),
# then runs the property's check against the patched worktree. Prints one summary line.
D="$(cd "$1" && pwd)"; PID="$2"; TIER="${3:-quick}"
NAME="$(echo "$D" | tr '/' '_')"
WT="/tmp/tryseed/$NAME"
mkdir -p /tmp/tryseed /tmp/tryseed_out
git -C /repo worktree remove --force "$WT" >/dev/null 2>&1
git -C /repo worktree add --detach "$WT" HEAD >/dev/null 2>&1 || { echo "$D: cannot create worktree"; exit 2; }
cd "$WT"
export OMP_NUM_THREADS=2 MKL_NUM_THREADS=2
PYTHONPATH="$WT/src" timeout 900 /venv/bin/python "$D/demo.py" > /tmp/tryseed_out/$NAME.pristine 2>&1; P=$?
PATCH="$D/patch.diff"
[ -f "$D/patch.rebased.diff" ] && PATCH="$D/patch.rebased.diff"   # context refreshed after later fix: commits
if ! git apply "$PATCH" 2>/tmp/tryseed_out/$NAME.apply; then
  # later fix: commits may have moved the context lines: retry with fuzz and keep the refreshed diff
  if patch -p1 -F3 --no-backup-if-mismatch < "$D/patch.diff" >/tmp/tryseed_out/$NAME.apply 2>&1; then
    git diff > "$D/patch.rebased.diff"
  else
    echo "$D: PATCH DOES NOT APPLY ($(head -c 200 /tmp/tryseed_out/$NAME.apply))"
    git -C /repo worktree remove --force "$WT"; exit 2
  fi
fi
PYTHONPATH="$WT/src" timeout 900 /venv/bin/python "$D/demo.py" > /tmp/tryseed_out/$NAME.patched 2>&1; Q=$?
cd /verif
VERIF_REPO="$WT" VERIF_EVIDENCE_DIR=/tmp/tryseed_out/ev_$NAME VERIF_REPLAY_DIR=/tmp/tryseed_out/rp_$NAME \
  timeout 3000 ./check "$PID" --tier "$TIER" > /tmp/tryseed_out/$NAME.check 2>&1; C=$?
V="$(grep -m1 '^VIOLATION' /tmp/tryseed_out/$NAME.check)"
echo "$D: demo pristine=$P patched=$Q | check exit=$C ${V:-no-violation-line} | $(tail -1 /tmp/tryseed_out/$NAME.check | cut -c1-160)"
git -C /repo worktree remove --force "$WT"
