#!/usr/bin/env python3
"""Persist harmless-rewrite results: tools/keep_benign.py <log of tools/try_benign.sh lines>.
Copies /tmp/benign/<pid>/out/<k>/{patch.diff,meta.json} to /verif/benign/<pid>-<k>/ and appends the check's verdict
to meta.json `check_history` (alarm = the check exited non-zero or printed a VIOLATION line)."""
import json, re, shutil, sys
from pathlib import Path
V = Path(__file__).resolve().parents[1]
for line in open(sys.argv[1]):
    m = re.match(r"(\S+): benign \| check exit=(\d+) (.*?) \| (.*)", line.strip())
    if not m:
        continue
    src, code, vio, summary = Path(m.group(1)), int(m.group(2)), m.group(3), m.group(4)
    mm = re.search(r"(C\d\d)([a-z]?)/out/(\d+)$", str(src)) or re.search(r"benign/(C\d\d)-([a-z]?)(\d+)$", str(src))
    pid, k = mm.group(1), mm.group(2) + mm.group(3)
    dst = V / "benign" / f"{pid}-{k}"
    dst.mkdir(parents=True, exist_ok=True)
    if src.resolve() != dst.resolve():
        for f in ("patch.diff", "meta.json"):
            if (src / f).exists() and not (f == "meta.json" and (dst / f).exists()):
                shutil.copy(src / f, dst / f)
    meta = json.load(open(dst / "meta.json")) if (dst / "meta.json").exists() else {"property": pid}
    alarm = code != 0 or vio.startswith("VIOLATION")
    meta.setdefault("check_history", []).append({"tier": "quick", "check_exit": code, "alarm": alarm, "summary": summary})
    json.dump(meta, open(dst / "meta.json", "w"), indent=1)
    print(f"{pid}-{k}: alarm={alarm}")
