#!/usr/bin/env python3
"""Write /tmp/seed/<pid>/PROMPT.txt for a fresh mutation-seeding sub-agent (gets ONLY the property text)."""
import json, sys
from pathlib import Path
V = Path(__file__).resolve().parents[1]
pid = sys.argv[1]
tag = sys.argv[2] if len(sys.argv) > 2 else "a"
p = next(json.loads(l) for l in open(V / "properties.jsonl") if json.loads(l)["id"] == pid)
d = Path(f"/tmp/seed/{pid}{tag}")
d.mkdir(parents=True, exist_ok=True)
wt = d / "wt"
txt = f"""You are testing how good a verification harness is at catching regressions in the Python library
sdrobert/pydrobert-pytorch (source under src/pydrobert/torch). You are NOT shown the harness; do not read anything under /verif.

Set up your own scratch worktree of the repository (never edit /repo itself):
    git -C /repo worktree add --detach {wt} HEAD
Run code against it with:   cd {wt} && PYTHONPATH={wt}/src /venv/bin/python your_script.py
Run the library's tests with: cd {wt} && PYTHONPATH={wt}/src timeout 1500 /venv/bin/python -m pytest -q -p no:cacheprovider --timeout=900 tests/<file>.py
(The machine is shared and busy: export OMP_NUM_THREADS=2 before running anything; run the test FILES that cover the code you
change — say exactly which — rather than the whole suite, which takes hours here. tests/test_metadata.py::test_version fails under
PYTHONPATH on the pristine tree too; ignore it.)
NEVER use `git stash` in the worktree (the stash is shared by all worktrees of /repo and other engineers are working in
parallel): toggle with `git diff > patch.diff`, `git checkout -- .`, `git apply patch.diff`.
If you call command-line entry points of the library from a script, always pass --num-workers 0 and put your code under
`if __name__ == "__main__":` (a spawn pool with an unguarded main hangs).

THE PROPERTY (a semantic property users of the library rely on):

  [{p['id']}] {p['title']}
  {p['statement']}
  Quantified over: {p['quantifier']['text']}
  Code it is anchored in: {', '.join(p['anchors']['files'])}

YOUR JOB: produce {{N}} DIFFERENT, REALISTIC changes to the library source (each one a separate patch against the pristine
tree — the kind of slip a maintainer could make in a refactor or an "optimisation": an off-by-one, a swapped index, a
dropped branch, a wrong default, stale state, a changed tie-break, a wrong clamp...) such that each change

  1. BREAKS the property above (at least one of its clauses) for some input / configuration / history,
  2. still imports and runs, and the library's EXISTING test-suite still passes with it (run at least the test files that
     cover the changed code, and the full suite once per patch if you can; report exactly what you ran and the pass counts),
  3. needs something SPECIFIC to manifest — a particular configuration, an unusual input (empty sequence, ties, lengths
     at a boundary, sizes not divisible, a later epoch, a second call on the same object, a particular option combination,
     two sites that each look fine alone) — NOT something any ordinary call would expose at once.

Make the {{N}} changes target different clauses/mechanisms of the property where possible. Keep each patch small (a few lines).
@AVOID@

For each change k = 1..{{N}} write, under {d}/out/<k>/ :
  - patch.diff   : `git -C {wt} diff` of that change alone against the pristine tree (apply-able with `git apply`)
  - demo.py      : a small self-contained program that exits 0 on the pristine tree and exits non-zero (assert failure)
                   with the patch applied; it must exercise the library through its public API and check the PROPERTY
                   (not an implementation detail). Run it both ways yourself and record the outcome.
  - meta.json    : {{"property": "{pid}", "title": "...", "clause_broken": "...", "what_it_needs_to_manifest": "...",
                   "files_changed": [...], "tests_run": "...", "tests_result": "...", "demo_pristine": "pass", "demo_patched": "fail"}}
Restore the worktree to pristine between changes (`git -C {wt} checkout -- .`). When completely done remove the worktree:
    git -C /repo worktree remove --force {wt}
(keep the {d}/out directory). Final answer: a short list of the changes (one line each: what, where, what it needs to manifest).
"""
n = sys.argv[3] if len(sys.argv) > 3 else "2"
avoid = ""
prev = sorted((V / "seeded").glob(f"{pid}-*"))
if prev:
    avoid = "Earlier engineers already produced the following changes for this property — do something DIFFERENT (other functions, other clauses, other trigger conditions):\n" + "\n".join(
        "  - " + (json.load(open(d / "meta.json")).get("title") or json.load(open(d / "meta.json")).get("clause_broken") or d.name)[:200] for d in prev)
flavour = ""
if tag >= "c":
    flavour = ("\nFor this round prefer changes of these kinds (at least two of your changes should be of one of them): "
               "(a) TWO COOPERATING SITES that each look fine alone (e.g. a helper's contract changed slightly and one caller "
               "that relied on the old contract; a default changed in one place and a duplicated constant elsewhere); "
               "(b) STALE or SHARED STATE that only a multi-step sequence of operations on the same object exposes (a cache, a "
               "buffer reused between calls, an attribute updated too early/late, behaviour on the second call / after an "
               "exception / after a restart); (c) a fault at a particular point of a multi-step operation; (d) behaviour that "
               "depends on an argument's memory layout, dtype, device-independent aliasing (same tensor passed twice) or on "
               "whether an optional argument is omitted vs passed with its default value.\n")
if tag >= "f":
    flavour += ("Also welcome this round: (e) an 'optimisation' that takes a different code path only above a SIZE "
                "threshold or only for particular dtypes (precision silently reduced, last block dropped); (f) a function "
                "that now MUTATES an object owned by the caller (argument tensor/dict/list edited in place, a public "
                "attribute frozen at construction and no longer re-read); (g) an ERROR PATH changed (an input that used to "
                "raise is now silently accepted with a wrong result, or the reverse for a legal boundary input); (h) "
                "INCONSISTENT or degenerate-but-legal inputs (empty batch elements, ids present in only part of a corpus, "
                "duplicate entries, zero-length sequences mixed with long ones).\n")
if tag >= "g":
    flavour += ("New this round, also welcome: (i) a fault visible only through ONE of several equivalent entry points "
                "(functional vs module vs torch.jit.script'ed module vs command-line tool; path vs open file; keyword vs "
                "positional); (j) a fault that shows only after copy / deepcopy / pickle / state_dict round trip of an "
                "object, or on the second of two objects built in one process; (k) index / length arguments of an unusual "
                "but legal type (int32 or uint8 tensors, numpy integers, python bools, 0-dim tensors, negative dims); "
                "(l) an interaction between two options that are rarely combined; (m) a fault in the LAST or FIRST "
                "iteration of a loop only (final frame, final batch, first epoch after a restart).\n")
txt = txt.replace("@AVOID@", avoid + flavour)
(d / "PROMPT.txt").write_text(txt.replace("{N}", n))
print(d / "PROMPT.txt")
