#!/usr/bin/env python3
"""Fold findings/Cxx.json fragments into the committed known_findings.json."""
import json
from pathlib import Path
V = Path(__file__).resolve().parents[1]
out, seen = [], set()
for p in sorted((V / "findings").glob("*.json")):
    for e in json.load(open(p)).get("findings", []):
        k = (e.get("property"), e.get("signature"))
        if k not in seen:
            seen.add(k)
            out.append(e)
# fixed entries: attach the /repo commit of the repair (fixes/COMMITS.json, keyed by diff name)
import re
cpath = V / "fixes" / "COMMITS.json"
commits = json.load(open(cpath)) if cpath.exists() else {}
for e in out:
    if e.get("status") == "fixed" and not e.get("commit"):
        text = json.dumps(e)
        hits = [commits[n]["commit"] for n in re.findall(r"(C\d+-[A-Za-z0-9_.-]+?\.diff)", text) if commits.get(n)]
        if hits:
            e["commit"] = hits[0] if len(set(hits)) == 1 else sorted(set(hits))
out.sort(key=lambda e: (e.get("property", ""), e.get("signature", "")))
json.dump({"comment": "known = genuine defect recorded, not repaired (suppresses exactly this signature); "
                      "fixed = repaired by the named fix: commit in /repo (suppresses nothing)",
           "findings": out}, open(V / "known_findings.json", "w"), indent=1)
print(len(out), "findings")
