#!/bin/sh
# usage: tools/try_benign.sh <dir with patch.diff> <PID> [tier]
# Applies a HARMLESS rewrite in a scratch worktree of /repo HEAD and runs the property's check against it:
# the check must exit 0 without a VIOLATION line (anything else is a false alarm to analyse). One summary line.
D="$(cd "$1" && pwd)"; PID="$2"; TIER="${3:-quick}"
NAME="$(echo "$D" | tr '/' '_')"
WT="/tmp/tryseed/$NAME"
mkdir -p /tmp/tryseed /tmp/tryseed_out
git -C /repo worktree remove --force "$WT" >/dev/null 2>&1
git -C /repo worktree add --detach "$WT" HEAD >/dev/null 2>&1 || { echo "$D: cannot create worktree"; exit 2; }
cd "$WT"
export OMP_NUM_THREADS=2 MKL_NUM_THREADS=2
if ! git apply "$D/patch.diff" 2>/tmp/tryseed_out/$NAME.apply; then
  echo "$D: PATCH DOES NOT APPLY ($(head -c 200 /tmp/tryseed_out/$NAME.apply))"
  git -C /repo worktree remove --force "$WT"; exit 2
fi
cd /verif
VERIF_REPO="$WT" VERIF_EVIDENCE_DIR=/tmp/tryseed_out/ev_$NAME VERIF_REPLAY_DIR=/tmp/tryseed_out/rp_$NAME \
  timeout 3000 ./check "$PID" --tier "$TIER" > /tmp/tryseed_out/$NAME.check 2>&1; C=$?
V="$(grep -m1 '^VIOLATION' /tmp/tryseed_out/$NAME.check)"
echo "$D: benign | check exit=$C ${V:-no-violation-line} | $(tail -1 /tmp/tryseed_out/$NAME.check | cut -c1-160)"
git -C /repo worktree remove --force "$WT"
