import Driver.Proto
