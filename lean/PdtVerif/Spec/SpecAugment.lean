import PdtVerif.Model.SpecAugment
/-!
# Spec for C08 — what the property demands of SpecAugment

Declarative statements only; they mention the model's *types* (`Params`, masks as
`(start, width)` pairs) but none of its arithmetic.

* `MaskOK size absCap propCap m` — the mask lies inside `0..size`, its width is
  non-negative and at most both caps.
* `WarpOK len maxWarp w0 w` — there is a half-window `W` with `0 ≤ W ≤ maxWarp`,
  `W < len/2`, `W ≤ w0 < len - W`, `|w| ≤ W`; consequently `0 ≤ w0 + w < len`.
* `Masked tm fm j k` — cell `(j, k)` lies in some time band or some frequency band.
* `MaskedImage x tm fm y` — `y` has the shape of `x`, is `0` on masked cells and equal to `x`
  elsewhere.
* `SplineSystem` — the linear system `polyharmonic_spline(order=1)` solves for three 1-D
  knots; `SplineSystemPhi φ` — the same for any radial function (`phi3`: order 3).
* `InRange lo hi x` — every entry of `x` lies in `[lo, hi]`.

Mathlib-free (the driver evaluates the `…b` versions).
-/
namespace PdtVerif.SpecAugment

/-- `⌊size · prop⌋`, the length-proportional cap. -/
def propFloor (size : Nat) (prop : Rat) : Int := ((size : Rat) * prop).floor

structure MaskOK (size : Nat) (absCap : Nat) (propCap : Int) (m : Int × Int) : Prop where
  width_nonneg : 0 ≤ m.2
  width_le_abs : m.2 ≤ (absCap : Int)
  width_le_prop : m.2 ≤ propCap
  start_nonneg : 0 ≤ m.1
  end_le : m.1 + m.2 ≤ (size : Int)

def maskOKb (size : Nat) (absCap : Nat) (propCap : Int) (m : Int × Int) : Bool :=
  decide (0 ≤ m.2) && decide (m.2 ≤ (absCap : Int)) && decide (m.2 ≤ propCap) && decide (0 ≤ m.1)
    && decide (m.1 + m.2 ≤ (size : Int))

/-- Bounds on a warp centre `w0` and shift `w` for a sequence of `len` cells. -/
structure WarpOK (len : Nat) (maxWarp : Rat) (W w0 w : Rat) : Prop where
  W_nonneg : 0 ≤ W
  W_le_max : W ≤ maxWarp
  W_lt_half : W < (len : Rat) / 2
  centre_ge : W ≤ w0
  centre_lt : w0 < (len : Rat) - W
  shift_ge : -W ≤ w
  shift_le : w ≤ W
  dest_nonneg : 0 ≤ w0 + w
  dest_lt : w0 + w < (len : Rat)

def warpOKb (len : Nat) (maxWarp : Rat) (W w0 w : Rat) : Bool :=
  decide (0 ≤ W) && decide (W ≤ maxWarp) && decide (W < (len : Rat) / 2) && decide (W ≤ w0)
    && decide (w0 < (len : Rat) - W) && decide (-W ≤ w) && decide (w ≤ W) && decide (0 ≤ w0 + w)
    && decide (w0 + w < (len : Rat))

/-- Cell `j` of an axis is covered by one of the `(start, width)` bands. -/
def Covered (ms : List (Int × Int)) (j : Nat) : Prop :=
  ∃ m ∈ ms, m.1 ≤ (j : Int) ∧ (j : Int) < m.1 + m.2

def Masked (tm fm : List (Int × Int)) (j k : Nat) : Prop := Covered tm j ∨ Covered fm k

/-- `y` is `x` with exactly the masked cells zeroed. -/
structure MaskedImage (x : List (List Rat)) (tm fm : List (Int × Int)) (y : List (List Rat)) : Prop where
  rows : y.length = x.length
  cols : ∀ j, (h : j < y.length) → (hx : j < x.length) → (y[j]).length = (x[j]).length
  zero : ∀ j k, (hj : j < y.length) → (hk : k < (y[j]).length) → Masked tm fm j k → y[j][k] = 0
  same : ∀ j k, (hj : j < y.length) → (hk : k < (y[j]).length) → (hx : j < x.length) →
    (hxk : k < (x[j]).length) → ¬ Masked tm fm j k → y[j][k] = x[j][k]

/-- Order-1 polyharmonic spline in one dimension (`_apply_interpolation`, `φ(r) = r`):
`x ↦ Σ wᵢ |x − cᵢ| + v₁ x + v₀`. -/
def splineEval (c1 c2 c3 w1 w2 w3 v1 v0 : Rat) (x : Rat) : Rat :=
  w1 * rabs (x - c1) + w2 * rabs (x - c2) + w3 * rabs (x - c3) + v1 * x + v0

/-- The system `_solve_interpolation` solves for three 1-D knots `cᵢ` with values `yᵢ`:
the interpolation rows `A w + B v = f` (the pinned ends are mapped to themselves) and the
orthogonality rows `Bᵀ w = 0`. -/
structure SplineSystem (k : Knots) (w1 w2 w3 v1 v0 : Rat) : Prop where
  at1 : splineEval k.c1 k.c2 k.c3 w1 w2 w3 v1 v0 k.c1 = k.c1
  at2 : splineEval k.c1 k.c2 k.c3 w1 w2 w3 v1 v0 k.c2 = k.y2
  at3 : splineEval k.c1 k.c2 k.c3 w1 w2 w3 v1 v0 k.c3 = k.c3
  orth0 : w1 + w2 + w3 = 0
  orth1 : w1 * k.c1 + w2 * k.c2 + w3 * k.c3 = 0

/-- `_phi(r, 3) = r ** 3`, the radial function of the order-3 spline. -/
def phi3 (r : Rat) : Rat := r * r * r

/-- Polyharmonic spline in one dimension for a radial function `φ` (`_apply_interpolation`):
`x ↦ Σ wᵢ φ(|x − cᵢ|) + v₁ x + v₀`.  `φ = id` is `splineEval`. -/
def splineEvalPhi (φ : Rat → Rat) (c1 c2 c3 w1 w2 w3 v1 v0 : Rat) (x : Rat) : Rat :=
  w1 * φ (rabs (x - c1)) + w2 * φ (rabs (x - c2)) + w3 * φ (rabs (x - c3)) + v1 * x + v0

/-- The system `_solve_interpolation` solves for the three knots and a radial function `φ`:
interpolation rows and orthogonality rows, as `SplineSystem`. -/
structure SplineSystemPhi (φ : Rat → Rat) (k : Knots) (w1 w2 w3 v1 v0 : Rat) : Prop where
  at1 : splineEvalPhi φ k.c1 k.c2 k.c3 w1 w2 w3 v1 v0 k.c1 = k.c1
  at2 : splineEvalPhi φ k.c1 k.c2 k.c3 w1 w2 w3 v1 v0 k.c2 = k.y2
  at3 : splineEvalPhi φ k.c1 k.c2 k.c3 w1 w2 w3 v1 v0 k.c3 = k.c3
  orth0 : w1 + w2 + w3 = 0
  orth1 : w1 * k.c1 + w2 * k.c2 + w3 * k.c3 = 0

/-- Every entry of a `T × F` image lies in `[lo, hi]`. -/
def InRange (lo hi : Rat) (x : List (List Rat)) : Prop := ∀ row ∈ x, ∀ v ∈ row, lo ≤ v ∧ v ≤ hi

def inRangeb (lo hi : Rat) (x : List (List Rat)) : Bool :=
  x.all (fun row => row.all (fun v => decide (lo ≤ v) && decide (v ≤ hi)))

/-- A list is non-decreasing. -/
def Monotone (l : List Rat) : Prop := ∀ i j, (hi : i < l.length) → (hj : j < l.length) → i ≤ j → l[i] ≤ l[j]

def monotoneb : List Rat → Bool
  | [] => true
  | [_] => true
  | a :: b :: t => decide (a ≤ b) && monotoneb (b :: t)

end PdtVerif.SpecAugment
