/-!
# Spec for C09: per-sequence pad, slice, filter

Everything here is about ONE sequence `xs : List α` (its valid part, already cut to its
length). There are no batches, masks or buffers in this file.

* `padSeq mode value l r xs` — the standard constant / reflect / replicate padding of `xs`
  by `l` elements on the left and `r` on the right (the rule of `torch.nn.functional.pad`).
* `slice xs a b` — elements `a ≤ i < b`.
* `chunkSeq mode value xs start stop` — "pad, then slice": the slice `[start, stop)` of `xs`
  where indices left of `0` / right of `|xs|` lie in the padding.
* `compact mask xs` — the elements of `xs` whose mask bit is set, in order.

No Mathlib imports: the driver evaluates these as the oracle.
-/
namespace PdtVerif.PadSlice

inductive Mode where
  | constant | reflect | replicate
  deriving Repr, DecidableEq

/-- Is a pad `(l, r)` legal for a sequence of length `n` under `mode`?  Constant: always.
Replicate: the sequence must be non-empty. Reflect: both pads strictly below the length. -/
def legalPad (mode : Mode) (n l r : Nat) : Bool :=
  match mode with
  | .constant => true
  | .replicate => decide (1 ≤ n)
  | .reflect => decide (l < n) && decide (r < n)

/-- Standard padding of one sequence. `value` doubles as the (unreachable when
`legalPad` holds) default of the partial list accessors. -/
def padSeq {α} (mode : Mode) (value : α) (l r : Nat) (xs : List α) : List α :=
  match mode with
  | .constant => List.replicate l value ++ xs ++ List.replicate r value
  | .replicate =>
      List.replicate l (xs.headD value) ++ xs ++ List.replicate r (xs.getLastD value)
  | .reflect =>
      (List.range l).map (fun i => xs.getD (l - i) value) ++ xs
        ++ (List.range r).map (fun i => xs.getD (xs.length - 2 - i) value)

/-- `xs[a:b]` -/
def slice {α} (xs : List α) (a b : Nat) : List α := (xs.take b).drop a

/-- Left / right padding a slice `[start, stop)` of a length-`n` sequence needs
(none for an empty or inverted slice). -/
def needLeft (start stop : Int) : Nat := if stop ≤ start then 0 else (-start).toNat
def needRight (n : Nat) (start stop : Int) : Nat :=
  if stop ≤ start then 0 else (stop - (n : Int)).toNat

/-- Pad-then-slice. Empty and inverted slices give the empty chunk. -/
def chunkSeq {α} (mode : Mode) (value : α) (xs : List α) (start stop : Int) : List α :=
  if stop ≤ start then []
  else
    let l := needLeft start stop
    let r := needRight xs.length start stop
    slice (padSeq mode value l r xs) (start + l).toNat (stop + l).toNat

/-- Requested chunk length. -/
def chunkLen (start stop : Int) : Nat := (stop - start).toNat

/-- Elements whose mask bit is set, in order. -/
def compact {α} (mask : List Bool) (xs : List α) : List α :=
  ((mask.zip xs).filter (fun p => p.1)).map (fun p => p.2)

/-- Positions of the true cells of a mask, counted from `i`, in increasing order. -/
def trueIdxFrom (i : Nat) : List Bool → List Nat
  | [] => []
  | b :: m => if b then i :: trueIdxFrom (i + 1) m else trueIdxFrom (i + 1) m

/-- Positions of the true cells of a mask, in increasing order: entry `j` is the position of the
`j`-th true cell (the documentation of `pad_masked_sequence`: `x_[j] = x[i]` for the `j`-th true `i`). -/
def trueIdx (mask : List Bool) : List Nat := trueIdxFrom 0 mask

end PdtVerif.PadSlice
