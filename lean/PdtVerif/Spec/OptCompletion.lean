import PdtVerif.Spec.Levenshtein
/-!
# Spec for C03: optimal-completion targets and the hard OCD loss

Fix costs `c`, a reference `ref` (already cut at its end-of-sequence position) and a
hypothesis prefix `p`.

* `IsBest c ref p m` — **declarative**: `m` is the smallest edit distance any completion
  `p ++ cmpl` of the prefix can still reach (attained by some completion, lower bound of all).
* `prefixDists c ref p` — the column `[lev (ref.take j) p | j = 0..|ref|]`;
  `best c ref p` — its minimum. `best_completion` (Properties/C03) proves
  `IsBest c ref p (best c ref p)` for non-negative costs, which makes `best` the executable
  form of "min over all completions".
* `IsTarget c ref p t` — appending `t` does not raise that smallest reachable distance.
* `lossCell` — the hard OCD loss of one prefix: minus the average (weighted) log-probability of
  the target set, `0` for an empty set.

Mathlib-free (the driver evaluates `best` through the DP, see `Model/OptCompletion.lean`).
-/
namespace PdtVerif.OptCompletion
open PdtVerif.Lev

variable {α : Type} [DecidableEq α]

/-- Minimum of a list of rationals (`0` for the empty list; every use is on a non-empty list). -/
def listMin : List Rat → Rat
  | [] => 0
  | [a] => a
  | a :: b :: l => min a (listMin (b :: l))

/-- `m` is the smallest edit distance to `ref` that a completion of `p` can reach. -/
def IsBest (c : Costs) (ref p : List α) (m : Rat) : Prop :=
  (∃ cmpl, lev c ref (p ++ cmpl) = m) ∧ ∀ cmpl, m ≤ lev c ref (p ++ cmpl)

/-- Distances of every prefix of the reference to `p`: entry `j` is `lev (ref.take j) p`. -/
def prefixDists (c : Costs) (ref p : List α) : List Rat :=
  (List.range (ref.length + 1)).map (fun j => lev c (ref.take j) p)

/-- Executable characterisation of the smallest reachable distance: `min_j lev (ref.take j) p`. -/
def best (c : Costs) (ref p : List α) : Rat := listMin (prefixDists c ref p)

/-- `t` is an optimal next token of `p`: it can be appended without raising the smallest edit
distance a completion can still reach. -/
def IsTarget (c : Costs) (ref p : List α) (t : α) : Prop := best c ref (p ++ [t]) = best c ref p

instance (c : Costs) (ref p : List α) (t : α) : Decidable (IsTarget c ref p t) := by
  unfold IsTarget; infer_instance

/-- The same notion phrased only with the declarative `IsBest` (no reference to the DP column). -/
def IsTargetDecl (c : Costs) (ref p : List α) (t : α) : Prop :=
  ∃ m, IsBest c ref p m ∧ IsBest c ref (p ++ [t]) m

/-- `k` is the length of a prefix of the (cut) hypothesis that the output has a row for: all of
`0..hypLen`, or `0..hypLen-1` when the last one is excluded. -/
def ValidPrefix (excl : Bool) (hypLen k : Nat) : Prop := if excl then k < hypLen else k ≤ hypLen

instance (excl : Bool) (hypLen k : Nat) : Decidable (ValidPrefix excl hypLen k) := by
  unfold ValidPrefix; infer_instance

/-- Spec of the loss at one prefix with target set `S` (a duplicate-free list): minus the mean of
`w s * lsm s` over `S`; `0` when `S` is empty. -/
def lossSpec (w lsm : Int → Rat) (S : List Int) : Rat :=
  if S = [] then 0 else -((S.map (fun s => w s * lsm s)).sum) / (S.length : Rat)

end PdtVerif.OptCompletion
