import PdtVerif.Model.CommandLine
/-!
# Spec for C17: what the command-line tools are supposed to do

Declarative statements only; the theorems in `Properties/C17.lean` relate the model of the
code (`Model/CommandLine.lean`) to these.

* `IsFileOf p s f` — `f` is the file of some utterance: `f = p ++ u ++ s`.
* `Canon` / `SegCanon` — run lists / segment lists that an alignment can produce:
  positive lengths, neighbouring labels different.
* `Tiles off ref` — the segments partition the frames from `off` on, in order.
* `totalEdits`, `totalRef`, `erSpec` — the figure the error-rate command must print.
* `pooled` — the moments `(Σx, Σx², n)` of all lengths of all files together.
* `IsFirstN` — "the `n` first utterances in a given order".
-/
namespace PdtVerif.CommandLine

/-- `f` is `prefix + utt + suffix` for some utterance id. -/
def IsFileOf {α : Type} (p s f : List α) : Prop := ∃ u, f = p ++ u ++ s

/-- Canonical run list: every count positive, neighbouring values different. -/
def Canon {τ : Type} : List (τ × Nat) → Prop
  | [] => True
  | [(_, n)] => 0 < n
  | (t, n) :: (t', n') :: rest => 0 < n ∧ t ≠ t' ∧ Canon ((t', n') :: rest)

/-- The segments tile the frames starting at `off`: each starts where the previous one
stopped and none has negative length. -/
def Tiles {τ : Type} (off : Int) : List (Seg τ) → Prop
  | [] => True
  | s :: rest => s.start = off ∧ s.start ≤ s.stop ∧ Tiles s.stop rest

/-- Segments an alignment can produce: non-empty segments, neighbouring tokens different. -/
def SegCanon {τ : Type} : List (Seg τ) → Prop
  | [] => True
  | [s] => s.start < s.stop
  | s :: s' :: rest => s.start < s.stop ∧ s.tok ≠ s'.tok ∧ SegCanon (s' :: rest)

/-- Total number of edits over the common utterances (`er'` = C02's count for one pair). -/
def totalEdits {υ τ : Type} (er' : List τ → List τ → Nat) (pairs : List (Pair υ τ)) : Nat :=
  (pairs.map (fun p => er' p.2.1 p.2.2)).sum

/-- Total reference length. -/
def totalRef {υ τ : Type} (pairs : List (Pair υ τ)) : Nat :=
  (pairs.map (fun p => p.2.1.length)).sum

/-- What the error-rate command must write. Total mode: `Σ edits / Σ |ref|`
(`--distances`: `Σ edits / #utterances`), undefined (`zeroDiv`) when the denominator is 0.
`--per-utt`: one line per utterance, `edits / |ref|` (`--distances`: `edits`), undefined as
soon as a needed `|ref|` is 0. No batch size appears. -/
def erSpec {υ τ : Type} (er' : List τ → List τ → Nat) (distances perUtt : Bool)
    (pairs : List (Pair υ τ)) : ErOut υ :=
  if perUtt then
    if !distances && pairs.any (fun p => p.2.1.length == 0) then .zeroDiv
    else .perUtt (pairs.map (fun p =>
      (p.1, if distances then (er' p.2.1 p.2.2 : Rat) else (er' p.2.1 p.2.2 : Rat) / (p.2.1.length : Rat))))
  else
    let den := if distances then pairs.length else totalRef pairs
    if den == 0 then .zeroDiv else .total ((totalEdits er' pairs : Rat) / (den : Rat))

/-- `er` (on interned ids) is the relabelling-invariant count `er'` (on tokens): whatever
injective numbering of the tokens of a pair is used, the count is the same. Every edit
distance has this property; `error_rate` only ever compares tokens for equality. -/
def Relabels {τ : Type} (er : List Nat → List Nat → Nat) (er' : List τ → List τ → Nat) : Prop :=
  ∀ (f : τ → Nat) (r h : List τ),
    (∀ a ∈ r ++ h, ∀ b ∈ r ++ h, f a = f b → a = b) → er (r.map f) (h.map f) = er' r h

/-- `sel` are `n` first elements of `all` in the order `le` (all of them if there are fewer):
a duplicate-free part of `all` of the right size such that everything selected precedes
everything left out. -/
def IsFirstN {υ : Type} (le : υ → υ → Bool) (n : Nat) (all sel : List υ) : Prop :=
  sel.length = min n all.length ∧ (∃ rest, (sel ++ rest).Perm all ∧
    ∀ x ∈ sel, ∀ y ∈ rest, le x y = true) ∧ sel.Pairwise (fun a b => le a b = true)

/-- `d` is the restriction of the sub-directories `subdirs` of the tree `tree` to the utterances
`ids`: a file is in `d` exactly when it is a file of `tree`, in one of those sub-directories, and
is THE file `prefix + u + suffix` of some `u ∈ ids`. Nothing about `tree` is assumed (it may hold
files of utterances that are in no other sub-directory, names that do not match, sub-directories
that are not in `subdirs`). -/
def IsRestriction {σ α : Type} (p s : List α) (subdirs : List σ) (tree : List (σ × List α))
    (ids : List (List α)) (d : List (σ × List α)) : Prop :=
  ∀ sub f, (sub, f) ∈ d ↔ ((sub, f) ∈ tree ∧ sub ∈ subdirs ∧ ∃ u ∈ ids, f = p ++ u ++ s)

/-- Ids strictly increasing (what a sorted listing of distinct names is). -/
def StrictSorted {υ β : Type} (lt : υ → υ → Bool) (l : List (υ × β)) : Prop :=
  l.Pairwise (fun a b => lt a.1 b.1 = true)

end PdtVerif.CommandLine
