import PdtVerif.Model.CommandLineTimed
/-!
# Spec for the timed transcript commands (C17): "times to within one frame"

* `frameBack f x` — what an entry `(token, start, end)` is after seconds -> frames -> seconds at
  `f` ms per frame (C11's `toFrames`, then `frame * f / 1000`).
* `CloseT shift x y` — "came back the same to within one frame": same token, the start recovered
  in `(start - shift, start]`, the end in `(end - shift, end + shift)` (C11's `Close` on triples).
-/
namespace PdtVerif.CommandLine
open PdtVerif.Transcripts (Timed toFrames)

/-- seconds -> frames -> seconds for one entry. -/
def frameBack (f : Rat) (x : Timed) : Timed :=
  (x.1, (((toFrames (some f) x.2.1 x.2.2).1 : Int) : Rat) * f / 1000,
        (((toFrames (some f) x.2.1 x.2.2).2 : Int) : Rat) * f / 1000)

/-- Same token, times within one frame shift (`shift` seconds). -/
def CloseT (shift : Rat) (x y : Timed) : Prop :=
  y.1 = x.1 ∧ x.2.1 - shift < y.2.1 ∧ y.2.1 ≤ x.2.1 ∧ x.2.2 - shift < y.2.2 ∧ y.2.2 < x.2.2 + shift

end PdtVerif.CommandLine
