/-!
# Spec: weighted Levenshtein distance (shared by C01, C02, C03)

* `Edit`, `Aligns s ref hyp` — an edit script `s` turns `ref` into `hyp`;
* `scriptCost`, `numEdits` — weighted cost / number of insertions+deletions+substitutions;
* `lev` — the textbook recursion (executable, used as oracle by the drivers);
* `IsLevDist c ref hyp d` — `d` is attained by some script and is a lower bound of all.

Mathlib-free: the drivers evaluate `lev`.
-/
namespace PdtVerif.Lev

structure Costs where
  ins : Rat
  del : Rat
  sub : Rat
  deriving Repr

/-- One step of an edit script. `ins y` inserts hypothesis token `y`; `del x` deletes
reference token `x`; `sub x y` replaces `x` by a *different* `y`; `keep x` matches. -/
inductive Edit (α : Type) where
  | ins (y : α)
  | del (x : α)
  | sub (x y : α)
  | keep (x : α)
  deriving Repr, DecidableEq

/-- `Aligns s ref hyp`: reading `s` left to right consumes `ref` and produces `hyp`. -/
inductive Aligns {α : Type} : List (Edit α) → List α → List α → Prop where
  | nil : Aligns [] [] []
  | ins {s r h} (y : α) : Aligns s r h → Aligns (.ins y :: s) r (y :: h)
  | del {s r h} (x : α) : Aligns s r h → Aligns (.del x :: s) (x :: r) h
  | sub {s r h} (x y : α) : x ≠ y → Aligns s r h → Aligns (.sub x y :: s) (x :: r) (y :: h)
  | keep {s r h} (x : α) : Aligns s r h → Aligns (.keep x :: s) (x :: r) (x :: h)

def Edit.cost {α} (c : Costs) : Edit α → Rat
  | .ins _ => c.ins
  | .del _ => c.del
  | .sub _ _ => c.sub
  | .keep _ => 0

def Edit.isEdit {α} : Edit α → Bool
  | .keep _ => false
  | _ => true

def scriptCost {α} (c : Costs) (s : List (Edit α)) : Rat := (s.map (Edit.cost c)).sum

/-- Number of insertions, deletions and substitutions in the script. -/
def numEdits {α} (s : List (Edit α)) : Nat := s.countP Edit.isEdit

/-- Substitution-or-match cost of aligning `x` with `y`. -/
def subCost {α} [DecidableEq α] (c : Costs) (x y : α) : Rat := if x = y then 0 else c.sub

/-- The textbook recursion (on the heads of the two lists). -/
def lev {α} [DecidableEq α] (c : Costs) : List α → List α → Rat
  | [], h => c.ins * h.length
  | r, [] => c.del * r.length
  | x :: r, y :: h =>
    min (min (lev c r (y :: h) + c.del) (lev c (x :: r) h + c.ins)) (lev c r h + subCost c x y)

/-- `d` is *the* weighted edit distance: attained by a script, and a lower bound of every script. -/
def IsLevDist {α} (c : Costs) (ref hyp : List α) (d : Rat) : Prop :=
  (∃ s, Aligns s ref hyp ∧ scriptCost c s = d) ∧ ∀ s, Aligns s ref hyp → d ≤ scriptCost c s

def unitCosts : Costs := ⟨1, 1, 1⟩

end PdtVerif.Lev
