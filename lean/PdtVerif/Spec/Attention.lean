import PdtVerif.Model.Attention
/-!
# Declarative spec for C20

`attendSpec`: attention as the reader would write it down — throw the masked positions
away, weight each kept value by `e(score) / Σ_kept e(score)`, add up.  Masked keys and
values do not occur in it at all.

`mhaSpec`: multi-headed attention as the class docstring states it — head `h` projects
query/key/value with the `h`-th block of rows of `W^Q/W^K/W^V` (and the `h`-th block of the
bias, when there is one), runs the wrapped single-head attention with THE SAME mask,
the heads are concatenated and projected with `W^C`.

Core Lean only (the driver evaluates both as the oracle).
-/
namespace PdtVerif.Attention

variable {κ : Type} [Add κ] [Mul κ] [Div κ] [Zero κ]

/-- The (key, value) pairs at the kept positions, in order. -/
def keptPairs (ks vs : List (List κ)) (mask : List Bool) : List (List κ × List κ) :=
  ((ks.zip vs).zip mask).filterMap (fun p => if p.2 then some p.1 else none)

/-- Masked convex combination of the kept values. -/
def attendSpec (th e : κ → κ) (fl : Flavour κ) (D : Nat) (q : List κ) (ks vs : List (List κ))
    (mask : Option (List Bool)) : List κ :=
  let kept := keptPairs ks vs (effMask mask ks.length)
  let Z := (kept.map (fun kv => e (score th fl q kv.1))).sum
  (List.range D).map (fun d =>
    (kept.map (fun kv => e (score th fl q kv.1) / Z * kv.2.getD d 0)).sum)

/-- Rows `h*d … (h+1)*d - 1` of a projection matrix / entries of a bias: head `h`'s block. -/
def headBlock {α : Type} (d h : Nat) (W : List α) : List α := (W.drop (h * d)).take d

/-- Head `h` of the docstring: `single_head_attention(W^Q_h q, W^K_h key, W^V_h value, mask)`. -/
def headSpec (th e : κ → κ) (m : MHA κ) (q : List κ) (ks vs : List (List κ))
    (mask : Option (List Bool)) (h : Nat) : List κ :=
  attendSpec th e m.inner m.dv
    (linear (headBlock m.dq h m.WQ) (m.bQ.map (headBlock m.dq h)) q)
    (ks.map (linear (headBlock m.dk h m.WK) (m.bK.map (headBlock m.dk h))))
    (vs.map (linear (headBlock m.dv h m.WV) (m.bV.map (headBlock m.dv h))))
    mask

/-- `out = W^C cat(head_0, …, head_{H-1}) (+ b^C)`. -/
def mhaSpec (th e : κ → κ) (m : MHA κ) (q : List κ) (ks vs : List (List κ))
    (mask : Option (List Bool)) : List κ :=
  linear m.WC m.bC ((List.range m.numHeads).map (headSpec th e m q ks vs mask)).flatten

/-- `mhaSpec` with head `h` using `eh h` in place of `exp` (see `mhaForwardH`). -/
def mhaSpecH (th : κ → κ) (eh : Nat → κ → κ) (m : MHA κ) (q : List κ) (ks vs : List (List κ))
    (mask : Option (List Bool)) : List κ :=
  linear m.WC m.bC
    ((List.range m.numHeads).map (fun h => headSpec th (eh h) m q ks vs mask h)).flatten

/-- "A bias exactly on the projections for which one was requested". -/
def BiasAsRequested (f : BiasFlags) (m : MHA κ) : Prop :=
  m.bQ.isSome = f.wq ∧ m.bK.isSome = f.wk ∧ m.bV.isSome = f.wv ∧ m.bC.isSome = f.wc

end PdtVerif.Attention
