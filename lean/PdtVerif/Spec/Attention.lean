import PdtVerif.Model.Attention
/-!
# Declarative spec for C20

`attendSpec`: attention as the reader would write it down — throw the masked positions
away, weight each kept value by `e(score) / Σ_kept e(score)`, add up.  Masked keys and
values do not occur in it at all.

`mhaSpec`: multi-headed attention as the class docstring states it — head `h` projects
query/key/value with the `h`-th block of rows of `W^Q/W^K/W^V` (and the `h`-th block of the
bias, when there is one), runs the wrapped single-head attention with THE SAME mask,
the heads are concatenated and projected with `W^C`.

Core Lean only (the driver evaluates both as the oracle).
-/
namespace PdtVerif.Attention

variable {κ : Type} [Add κ] [Mul κ] [Div κ] [Zero κ]

/-- The (key, value) pairs at the kept positions, in order. -/
def keptPairs (ks vs : List (List κ)) (mask : List Bool) : List (List κ × List κ) :=
  ((ks.zip vs).zip mask).filterMap (fun p => if p.2 then some p.1 else none)

/-- Masked convex combination of the kept values. -/
def attendSpec (th e : κ → κ) (fl : Flavour κ) (D : Nat) (q : List κ) (ks vs : List (List κ))
    (mask : Option (List Bool)) : List κ :=
  let kept := keptPairs ks vs (effMask mask ks.length)
  let Z := (kept.map (fun kv => e (score th fl q kv.1))).sum
  (List.range D).map (fun d =>
    (kept.map (fun kv => e (score th fl q kv.1) / Z * kv.2.getD d 0)).sum)

/-! ## The attention over a sequence as the mixture of the attentions over its consecutive blocks

Cut the sequence into consecutive blocks (`ns` = block lengths, the remainder is a last block).  Block `B`
enters with its SHARE `m_B` = the sum of the whole-sequence attention weights inside it; a block without a
kept position has share 0 and is left out (the code returns NaN there).  `mergeBlocks` is
`Σ_B m_B · attend(block B)_d`, the lists being consumed block by block; the weights `ws` of the WHOLE
sequence are cut along with keys, values and mask.  (`C20_split_merge`: this is `attend` of the whole
sequence — what an implementation working block by block, or a hierarchical / streaming softmax, relies on,
and what the harness checks on the implementation for a random split.) -/

/-- One block's contribution to coordinate `d`: share times the block's own attention output. -/
def blockTerm (th e : κ → κ) (fl : Flavour κ) (D : Nat) (q : List κ) (d : Nat)
    (ws : List κ) (ks vs : List (List κ)) (m : List Bool) : κ :=
  if true ∈ m then ws.sum * (attend th e fl D q ks vs (some m)).getD d 0 else 0

/-- `Σ_B share_B · attend(block B)_d` over the consecutive blocks `ns` describes. -/
def mergeBlocks (th e : κ → κ) (fl : Flavour κ) (D : Nat) (q : List κ) (d : Nat) :
    List Nat → List κ → List (List κ) → List (List κ) → List Bool → κ
  | [], ws, ks, vs, m => blockTerm th e fl D q d ws ks vs m
  | n :: ns, ws, ks, vs, m =>
    blockTerm th e fl D q d (ws.take n) (ks.take n) (vs.take n) (m.take n)
      + mergeBlocks th e fl D q d ns (ws.drop n) (ks.drop n) (vs.drop n) (m.drop n)

/-! ## The score functions as the docstrings write them (index sums) -/

/-- `Σ_{i < n} f i`. -/
def sumTo (n : Nat) (f : Nat → κ) : κ := ((List.range n).map f).sum

/-- Entry `(i, j)` of a matrix stored as a list of rows. -/
def entry (W : List (List κ)) (i j : Nat) : κ := (W.getD i []).getD j 0

/-- Entry `i` of an optional bias vector; no bias = nothing is added. -/
def biasAt (b : Option (List κ)) (i : Nat) : κ :=
  match b with
  | none => 0
  | some b => b.getD i 0

/-- The three docstring formulas, `Q = query_size`, `K = key_size`:

* dot:      `e = scale_factor Σ_i query_i key_i`
* general:  `e = Σ_i query_i (Σ_j W_ij key_j + b_i)`      (bias inside: `W key + b`)
* concat:   `e = Σ_i v_i tanh(Σ_c W_ic [query, key]_c + b_i)` (bias inside the `tanh`, none on `v`),
  with `[query, key]_c = query_c` for `c < Q` and `key_{c-Q}` otherwise. -/
def scoreSpec (th : κ → κ) (Q K : Nat) : Flavour κ → List κ → List κ → κ
  | .dot c, q, k => sumTo Q (fun i => q.getD i 0 * k.getD i 0) * c
  | .general W b, q, k =>
    sumTo Q (fun i => q.getD i 0 * (sumTo K (fun j => entry W i j * k.getD j 0) + biasAt b i))
  | .concat W b v, q, k =>
    sumTo v.length (fun i => v.getD i 0 *
      th (sumTo Q (fun c => entry W i c * q.getD c 0)
        + sumTo K (fun c => entry W i (Q + c) * k.getD c 0) + biasAt b i))

/-- The parameters have the shapes the constructors allocate. -/
def Flavour.WellShaped (Q K : Nat) : Flavour κ → Prop
  | .dot _ => Q = K
  | .general W b => W.length = Q ∧ (∀ r ∈ W, r.length = K) ∧ (∀ bb, b = some bb → bb.length = Q)
  | .concat W b v => W.length = v.length ∧ (∀ r ∈ W, r.length = Q + K) ∧
      (∀ bb, b = some bb → bb.length = v.length)

/-- Rows `h*d … (h+1)*d - 1` of a projection matrix / entries of a bias: head `h`'s block. -/
def headBlock {α : Type} (d h : Nat) (W : List α) : List α := (W.drop (h * d)).take d

/-- Head `h` of the docstring: `single_head_attention(W^Q_h q, W^K_h key, W^V_h value, mask)`. -/
def headSpec (th e : κ → κ) (m : MHA κ) (q : List κ) (ks vs : List (List κ))
    (mask : Option (List Bool)) (h : Nat) : List κ :=
  attendSpec th e m.inner m.dv
    (linear (headBlock m.dq h m.WQ) (m.bQ.map (headBlock m.dq h)) q)
    (ks.map (linear (headBlock m.dk h m.WK) (m.bK.map (headBlock m.dk h))))
    (vs.map (linear (headBlock m.dv h m.WV) (m.bV.map (headBlock m.dv h))))
    mask

/-- `out = W^C cat(head_0, …, head_{H-1}) (+ b^C)`. -/
def mhaSpec (th e : κ → κ) (m : MHA κ) (q : List κ) (ks vs : List (List κ))
    (mask : Option (List Bool)) : List κ :=
  linear m.WC m.bC ((List.range m.numHeads).map (headSpec th e m q ks vs mask)).flatten

/-- `mhaSpec` with head `h` using `eh h` in place of `exp` (see `mhaForwardH`). -/
def mhaSpecH (th : κ → κ) (eh : Nat → κ → κ) (m : MHA κ) (q : List κ) (ks vs : List (List κ))
    (mask : Option (List Bool)) : List κ :=
  linear m.WC m.bC
    ((List.range m.numHeads).map (fun h => headSpec th (eh h) m q ks vs mask h)).flatten

/-- "A bias exactly on the projections for which one was requested". -/
def BiasAsRequested (f : BiasFlags) (m : MHA κ) : Prop :=
  m.bQ.isSome = f.wq ∧ m.bK.isSome = f.wk ∧ m.bV.isSome = f.wv ∧ m.bC.isSome = f.wc

/-! ## Shapes: the broadcasting rule and what `check_input` accepts, declaratively -/

/-- Size of the `j`-th axis counted from the LAST one; axes a shape does not have count as 1. -/
def axisR (s : List Nat) (j : Nat) : Nat := s.reverse.getD j 1

/-- The torch / numpy broadcasting rule: align the shapes at the last axis; at every position the
two sizes are equal or one of them is 1; the result takes the size that is not 1. -/
def BroadcastTo (a b c : List Nat) : Prop :=
  c.length = max a.length b.length ∧
  ∀ j, j < c.length →
    (axisR a j = axisR b j ∨ axisR a j = 1 ∨ axisR b j = 1) ∧
    axisR c j = if axisR a j = 1 then axisR b j else axisR a j

/-- The conditions under which `check_input` accepts a call, and the shape `full = (E*, T, F*, D)`
over which scores, mask and value are jointly broadcast: `query` has one axis fewer than `key`,
`value` as many; the last axes of `query` / `key` are `query_size` / `key_size`; `dim` names an
axis of `key` other than the last one and is not `-1`; `query.unsqueeze(dim)` and `key` (without
their last axes) broadcast to some `e`, `e` and the mask (if any) to `e'`, `e' + (1,)` and `value` to
`full`; for `MultiHeadedAttention` the last axis of `value` is `value_size`. -/
structure InputOk (querySize keySize : Nat) (valueSize : Option Nat) (dim : Int)
    (q k v : List Nat) (mask : Option (List Nat)) (full : List Nat) : Prop where
  rank_query : q.length + 1 = k.length
  rank_value : k.length = v.length
  size_query : q.getLast? = some querySize
  size_key : k.getLast? = some keySize
  dim_hi : dim ≤ (k.length : Int) - 2
  dim_ne : dim ≠ -1
  dim_lo : -(k.length : Int) + 1 ≤ dim
  bcast : ∃ e e', BroadcastTo (insertAt (seqAxis dim k.length) 1 q).dropLast k.dropLast e ∧
    (match mask with
      | none => e' = e
      | some ms => BroadcastTo e ms e') ∧
    BroadcastTo (e' ++ [1]) v full
  size_value : ∀ n, valueSize = some n → v.getLast? = some n

/-- The scores CARRY the sequence axis: `key`, or the mask the scores are filled with, has the full length
`T = full[i]` at the sequence axis `i` (documented shapes: all of key, value and mask have it).  Axis `i` of
`key` is axis `key.dim() - 2 - i` of the mask counted from its last one.  `check_input` does NOT test this:
it accepts a key and a mask of size 1 there against longer values, and `forward` then returns the SUM of the
values (see `attendSeqB`); the tensor-level model describes the code only under this guard. -/
def seqAxisCarried (dim : Int) (k : List Nat) (mask : Option (List Nat)) (full : List Nat) : Bool :=
  let i := seqAxis dim k.length
  k.getD i 1 == full.getD i 1 ||
    match mask with
    | none => false
    | some ms => axisR ms (k.length - 2 - i) == full.getD i 1

/-- The conditions whose failure is reported BEFORE any broadcasting is attempted
(`ValueError`; `RuntimeError` in `MultiHeadedAttention`). -/
def RanksSizesDimOk (querySize keySize : Nat) (dim : Int) (q k v : List Nat) : Prop :=
  q.length + 1 = k.length ∧ k.length = v.length ∧ q.getLast? = some querySize ∧
  k.getLast? = some keySize ∧ dim ≤ (k.length : Int) - 2 ∧ dim ≠ -1 ∧ -(k.length : Int) + 1 ≤ dim

end PdtVerif.Attention
