import PdtVerif.Model.Beam
/-!
# Declarative spec for beam search (C04)

* `chain spec p` — the language model's own chained log-probability of the token sequence
  `p`, where `spec h` is the score vector the model assigns after the history `h`;
* `IsTopK` — what is assumed of `Tensor.topk`: *any* `K` distinct in-range indices that are
  maximal (nothing left out beats anything chosen) listed best first; ties may be broken in
  any way;
* `EosOnlyLast`, `SortedScores` — the shape clauses of the property;
* `completeFrom` — all complete sequences with finite score (ended by their first eos, or of
  the full length), the oracle for the completeness clause.

* `Score.apart`, `sepB` — "this selection is decided by a margin of more than `m`", the hypothesis
  of the skeleton-stability theorems.

Core Lean only (the driver evaluates `chain`, `completeFrom` and `sepB` - the latter through `sepFast`).
-/
namespace PdtVerif.Beam

/-- Entry `v` of a score row; out-of-vocabulary tokens have probability zero. -/
def tokScore (row : List Score) (v : Int) : Score :=
  if v < 0 then none else row.getD v.toNat none

def chainFrom (spec : List Int → List Score) (pre : List Int) (acc : Score) : List Int → Score
  | [] => acc
  | v :: rest => chainFrom spec (pre ++ [v]) (acc.add (tokScore (spec pre) v)) rest

/-- `log P(p) = Σ_i log P(p_i | p_0 … p_{i-1})`. -/
def chain (spec : List Int → List Score) (p : List Int) : Score :=
  chainFrom spec [] (some 0) p

/-- The contract of `topk` on one row. -/
structure IsTopK (c : List Score) (K : Nat) (inds : List Nat) : Prop where
  length : inds.length = K
  nodup : inds.Nodup
  bound : ∀ i ∈ inds, i < c.length
  sorted : inds.Pairwise fun i j => Score.le (c.getD j none) (c.getD i none) = true
  maximal : ∀ i ∈ inds, ∀ j, j < c.length → j ∉ inds →
    Score.le (c.getD j none) (c.getD i none) = true

def SelOK (sel : Sel) : Prop := ∀ c K, K ≤ c.length → IsTopK c K (sel c K)

/-- eos (when set) occurs at most as the last token. -/
def EosOnlyLast (eos : Option Int) (p : List Int) : Prop :=
  ∀ e, eos = some e → e ∉ p.dropLast

/-- Non-increasing; because `-inf ≤ x` only, every `-inf` entry is followed by `-inf` only. -/
def SortedScores (l : List Score) : Prop := l.Pairwise fun a b => Score.le b a = true

/-- All sequences with finite score that are complete within `T` more steps after `pre`. -/
def completeFrom (spec : List Int → List Score) (V : Nat) (eos : Option Int) :
    Nat → List Int → List (List Int)
  | 0, pre => [pre]
  | T + 1, pre =>
    (List.range V).flatMap fun (v : Nat) =>
      if (tokScore (spec pre) (v : Int)).isNone then []
      else if eos = some (v : Int) then [pre ++ [(v : Int)]]
      else completeFrom spec V eos T (pre ++ [(v : Int)])

/-! ### Margins (used by `C04_skeleton_stable`; evaluated by the driver on every selection) -/

/-- `a` lies more than `m` above `b` (`-inf` lies below everything finite). -/
def Score.apart (m : Rat) : Score → Score → Bool
  | some x, some y => decide (y + m < x)
  | some _, none => true
  | none, _ => false

/-- Every selected finite candidate is more than `m` away from every other candidate: the
selection is decided by a margin of more than `m`. (Executable.) -/
def sepB (m : Rat) (c : List Score) (inds : List Nat) : Bool :=
  inds.all fun i => (c.getD i none).isNone || (List.range c.length).all fun j =>
    j == i || Score.apart m (c.getD i none) (c.getD j none)
      || Score.apart m (c.getD j none) (c.getD i none)

/-- `x` lies outside `[lo, hi]` (`-inf` lies outside every such interval). -/
def Score.clear (lo hi : Rat) : Score → Bool
  | none => true
  | some x => decide (x < lo) || decide (hi < x)

/-- `sepB` evaluated in ONE pass over the candidates per selected index, with the two bounds `c[i] - m`,
`c[i] + m` computed once (`sepB` looks every candidate up by its position, which is quadratic on a list -
minutes for the 2^15 candidates of a large-vocabulary case - and adds `m` twice per pair). Equal to `sepB`
on every input (`sepFast_eq`, `Lemmas/BeamStable.lean`; `C04_sepFast_eq`); this is what the driver runs. -/
def sepFast (m : Rat) (c : List Score) (inds : List Nat) : Bool :=
  inds.all fun i =>
    match c.getD i none with
    | none => true
    | some v =>
      let lo := v - m
      let hi := v + m
      c.zipIdx.all fun p => p.2 == i || Score.clear lo hi p.1

end PdtVerif.Beam
