import PdtVerif.Model.Slicing
/-!
# Declarative slicing policies (the docstring of `SliceSpectData` / `ChunkTokenSequencesBySlices`)

Everything here is stated per sequence, without tensors, masks or index vectors. The model
(`Model/Slicing.lean`) works on batch-flattened tensors; the property theorems relate the two.
Only the `Win`, `Tok` and `WinType` types are shared with the model.

Core Lean only (the driver evaluates these as the oracle).
-/
namespace PdtVerif.SlicePolicy
open PdtVerif.Slicing

/-- Windows of one sequence labelled with its batch index, sequences in batch order:
"in order, each labelled with its source element". -/
def labelRows (rows : List (List (Int × Int))) : List Win :=
  (List.range rows.length).flatMap fun n => (rows.getD n []).map fun w => ⟨w.1, w.2, n⟩

/-! ## 'fixed': a window every `lobe + 1` frames -/

/-- Window size: `1 + 2 * lobe` for symmetric windows, `1 + lobe` otherwise. -/
def fixedSize (lobe : Nat) : WinType → Nat
  | .symmetric => 2 * lobe + 1
  | _ => lobe + 1

/-- Offset of the first window: `0` when only valid windows are wanted; otherwise
`(lobe + 1) / 2 - size / 2` (symmetric), `-lobe` (causal), `0` (future). -/
def fixedOffset (lobe : Nat) (wt : WinType) (validOnly : Bool) : Int :=
  if validOnly then 0 else
  match wt with
  | .symmetric => (((lobe + 1) / 2 : Nat) : Int) - ((2 * lobe + 1) / 2 : Nat)
  | .causal => -(lobe : Int)
  | .future => 0

/-- Start of the `k`-th candidate window. -/
def fixedStart (lobe : Nat) (wt : WinType) (validOnly : Bool) (k : Nat) : Int :=
  fixedOffset lobe wt validOnly + (k : Int) * (lobe + 1 : Nat)

/-- The "middle" index of a window starting at `start`: `start + size / 2` (symmetric), the last
index (causal), the first index (future). -/
def fixedMid (lobe : Nat) (wt : WinType) (start : Int) : Int :=
  match wt with
  | .symmetric => start + ((2 * lobe + 1) / 2 : Nat)
  | .causal => start + (lobe + 1 : Nat) - 1
  | .future => start

/-- Valid-only: the window fits in `[0, len)`. Otherwise: its middle index is inside. -/
def fixedKeep (lobe : Nat) (wt : WinType) (validOnly : Bool) (len : Nat) (start : Int) : Bool :=
  if validOnly then decide (0 ≤ start) && decide (start + fixedSize lobe wt ≤ len)
  else decide (fixedMid lobe wt start < len)

/-- All kept windows of a sequence of length `len`, in order of `k`. No window with `k > len` is
ever kept (`fixedKeep_bound` in the lemmas), so the range is not a restriction. -/
def fixedRow (lobe : Nat) (wt : WinType) (validOnly : Bool) (len : Nat) : List (Int × Int) :=
  ((List.range (len + 1)).filter fun k => fixedKeep lobe wt validOnly len (fixedStart lobe wt validOnly k)).map
    fun k => (fixedStart lobe wt validOnly k, fixedStart lobe wt validOnly k + fixedSize lobe wt)

/-- `lens[n]` is the length of sequence `n`. -/
def fixed (lobe : Nat) (wt : WinType) (validOnly : Bool) (lens : List Nat) : List Win :=
  labelRows (lens.map (fixedRow lobe wt validOnly))

/-! ## 'ali': runs of equal labels, widened by whole runs -/

/-- Scan with the current label `cur`, the start `s` of the current run and the position `p`. -/
def runsAux (cur : Int) (s p : Nat) : List Int → List (Nat × Nat)
  | [] => [(s, p)]
  | x :: xs => if x == cur then runsAux cur s (p + 1) xs else (s, p) :: runsAux x p (p + 1) xs

/-- The maximal blocks of equal neighbouring labels as half-open index ranges: a run starts at
`t` iff `t = 0` or `ali[t-1] ≠ ali[t]`. -/
def runs : List Int → List (Nat × Nat)
  | [] => []
  | x :: xs => runsAux x 0 1 xs

/-- Window `m` runs from the start of run `m - lobe` (symmetric, causal) or `m` to the end of
run `m + lobe` (symmetric, future) or `m`. If such a run does not exist the window is dropped
(valid-only) or the furthest existing run in that direction is used. -/
def aliRow (lobe : Nat) (wt : WinType) (validOnly : Bool) (ali : List Int) (len : Nat) :
    List (Int × Int) :=
  let rs := runs (ali.take len)
  let M := rs.length
  (List.range M).filterMap fun m =>
    let back := if wt.doLeft then lobe else 0
    let fwd := if wt.doRight then lobe else 0
    if validOnly then
      if m < back ∨ M ≤ m + fwd then none
      else some (((rs.getD (m - back) (0, 0)).1 : Int), ((rs.getD (m + fwd) (0, 0)).2 : Int))
    else
      some (((rs.getD (m - back) (0, 0)).1 : Int), ((rs.getD (min (m + fwd) (M - 1)) (0, 0)).2 : Int))

def ali (lobe : Nat) (wt : WinType) (validOnly : Bool) (rows : List (List Int)) (lens : List Nat) :
    List Win :=
  labelRows (List.zipWith (aliRow lobe wt validOnly) rows lens)

/-! ## 'ref': token segments, widened by frames -/

/-- The length of the segmented sequence when it is not given: the end of the last token. -/
def refOther (toks : List Tok) (inLen : Nat) : Int :=
  match (toks.take inLen).getLast? with
  | none => 0
  | some tk => tk.2.2

/-- Keep or discard a segment `[s, e)` widened to `[s', e')`: discarded when a boundary is missing
(negative start or end); when it is empty or inverted after widening; when valid-only and not
inside `[0, other]`; when not valid-only and not overlapping `[0, other)`. -/
def refDecide (validOnly : Bool) (other s e s' e' : Int) : Option (Int × Int) :=
  if s < 0 ∨ e < 0 then none
  else if e' ≤ s' then none
  else if validOnly then (if s' < 0 ∨ other < e' then none else some (s', e'))
  else (if e' ≤ 0 ∨ other ≤ s' then none else some (s', e'))

/-- One token's window: the start moves `lobe` frames left for symmetric / causal windows, the end
`lobe` frames right for symmetric / future windows. -/
def refWindow (lobe : Nat) (wt : WinType) (validOnly : Bool) (other : Int) (tk : Tok) :
    Option (Int × Int) :=
  refDecide validOnly other tk.2.1 tk.2.2
    (if wt.doLeft then tk.2.1 - lobe else tk.2.1) (if wt.doRight then tk.2.2 + lobe else tk.2.2)

/-- Only the first `inLen` tokens belong to the sequence. -/
def refRow (lobe : Nat) (wt : WinType) (validOnly : Bool) (toks : List Tok) (inLen : Nat)
    (other : Int) : List (Int × Int) :=
  (toks.take inLen).filterMap (refWindow lobe wt validOnly other)

/-- `others[n] = none`: the frame length of sequence `n` was not given. -/
def ref (lobe : Nat) (wt : WinType) (validOnly : Bool) (rows : List (List Tok)) (inLens : List Nat)
    (others : List (Option Int)) : List Win :=
  labelRows ((List.range rows.length).map fun n =>
    let toks := rows.getD n []
    let inLen := inLens.getD n 0
    refRow lobe wt validOnly toks inLen ((others.getD n none).getD (refOther toks inLen)))

/-! ## every valid window lies inside its sequence -/

def Inside (w : Win) (len : Int) : Prop := 0 ≤ w.start ∧ w.start < w.stop ∧ w.stop ≤ len

instance (w : Win) (len : Int) : Decidable (Inside w len) := by unfold Inside; infer_instance

/-! ## token chunking -/

/-- The segment of a token is known: both boundaries present and in order. -/
def tokKnown (tk : Tok) : Bool := decide (0 ≤ tk.2.1) && decide (0 ≤ tk.2.2) && decide (tk.2.1 ≤ tk.2.2)

/-- Contained in the slice, or overlapping it when partial matches are allowed. -/
def tokInSlice (partialOk : Bool) (sl : Int × Int) (tk : Tok) : Bool :=
  if partialOk then decide (sl.1 < tk.2.2) && decide (tk.2.1 < sl.2)
  else decide (sl.1 ≤ tk.2.1) && decide (tk.2.2 ≤ sl.2)

/-- The kept tokens, in order, before any re-expression of boundaries. -/
def tokensKept (partialOk : Bool) (toks : List Tok) (sl : Int × Int) (refLen : Option Nat) :
    List Tok :=
  ((match refLen with
    | none => toks
    | some l => toks.take l)).filter fun tk => tokKnown tk && tokInSlice partialOk sl tk

/-- Boundaries as offsets from the slice start — **minus** — unless retained. -/
def relTok (retain : Bool) (start : Int) (tk : Tok) : Tok :=
  if retain then tk else (tk.1, tk.2.1 - start, tk.2.2 - start)

def tokensRow (partialOk retain : Bool) (toks : List Tok) (sl : Int × Int) (refLen : Option Nat) :
    List Tok :=
  (tokensKept partialOk toks sl refLen).map (relTok retain sl.1)

/-- Per batch element. -/
def tokens (partialOk retain : Bool) (refs : List (List Tok)) (slices : List (Int × Int))
    (refLens : Option (List Nat)) : List (List Tok) :=
  (List.range refs.length).map fun n =>
    tokensRow partialOk retain (refs.getD n []) (slices.getD n (0, 0)) (refLens.map fun l => l.getD n 0)

/-! ## chunking a data directory: one utterance -/

/-- The windows the chosen policy prescribes for one utterance taken alone: its `T` frames
('fixed'), its alignment ('ali'), its token segments with the end of the last token as length
('ref'). -/
def dirWindows (policy : Policy) (lobe : Nat) (wt : WinType) (validOnly : Bool) (u : Utt) : List Win :=
  match policy with
  | .fixed => fixed lobe wt validOnly [u.T]
  | .ali => ali lobe wt validOnly [u.ali] [u.T]
  | .ref => ref lobe wt validOnly [u.ref] [u.ref.length] [none]

/-- The chunked utterance: one chunk per window, holding the utterance's tokens restricted to the
window (`tokensRow`). -/
def dirSpec (policy : Policy) (lobe : Nat) (wt : WinType) (validOnly partialOk retain : Bool) (u : Utt) :
    List (Win × List Tok) :=
  (dirWindows policy lobe wt validOnly u).map fun w =>
    (w, tokensRow partialOk retain u.ref (w.start, w.stop) none)

end PdtVerif.SlicePolicy
