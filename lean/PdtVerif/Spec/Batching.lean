/-!
# Declarative spec for C14 — "batching loses nothing"

The tidy statements a reader checks in minutes. Nothing here mentions the dictionary of
pending batches, the `Counter`, the quantile indices or the padding arithmetic.

* Per bucket, a bucketing sampler must deliver the bucket's indices (`proj`), in sampler
  order, cut into consecutive groups of the bucket's size (`fullChunks`); what is left
  over (`remainder`, shorter than the size) is the one batch that may be short / dropped.
* The reported length is the number of batches delivered.
* A context window is `feat[clamp(frame - left + i, 0, T - 1)]` for `i = 0 .. left + right`.
* Collation: cutting row `n` of the padded batch back to its reported size gives the
  original sequence, everything beyond holds the pad value; a time-first batch is read column
  by column (`columns`); the optional sort is the stable descending one (`IsStableDescSort`).

Mathlib-free: the driver evaluates these as the oracle.
-/
namespace PdtVerif.Batching.Spec

/-- The indices of bucket `h`, in sampler order. -/
def proj (i2b : Nat → Option Nat) (h : Nat) (order : List Nat) : List Nat :=
  order.filter (fun x => i2b x == some h)

/-- Consecutive groups of exactly `n` elements (fuel = length). -/
def fullChunksAux {α} (n : Nat) : Nat → List α → List (List α)
  | 0, _ => []
  | fuel + 1, l => if l.length < n ∨ n = 0 then [] else l.take n :: fullChunksAux n fuel (l.drop n)

def fullChunks {α} (n : Nat) (l : List α) : List (List α) := fullChunksAux n l.length l

/-- What is left after the full groups: the last `|l| mod n` elements. -/
def remainder {α} (n : Nat) (l : List α) : List α := l.drop (l.length / n * n)

/-- Number of batches a bucket with `count` members and size `n` delivers. -/
def bucketBatches (drop : Bool) (count n : Nat) : Nat :=
  count / n + (if drop ∨ count % n = 0 then 0 else 1)

/-- `clamp(frame - left + i, 0, T - 1)` in natural-number arithmetic (truncated subtraction
clamps at 0). -/
def clampIdx (T frame left i : Nat) : Nat := min (frame + i - left) (T - 1)

/-- The context window around `frame`. -/
def window {α} (dflt : α) (feat : List α) (frame left right : Nat) (reverse : Bool) : List α :=
  let w := (List.range (left + right + 1)).map
    (fun i => feat.getD (clampIdx feat.length frame left i) dflt)
  if reverse then w.reverse else w

/-- Cut every padded row back to its reported size. -/
def cutBack {β} (rows : List (List β)) (sizes : List Nat) : List (List β) :=
  List.zipWith (fun r n => r.take n) rows sizes

/-- Every cell beyond the reported size holds the pad value. -/
def padCellsOk {β} [DecidableEq β] (pad : β) (rows : List (List β)) (sizes : List Nat) : Bool :=
  (List.zipWith (fun r n => (r.drop n).all (fun c => decide (c = pad))) rows sizes).all id

/-- Column `n` of a time-first batch `[t][n]` (the cells of batch entry `n` along time). -/
def column {β} (n : Nat) (tf : List (List β)) : List β := tf.filterMap (fun row => row[n]?)

/-- A time-first batch of `N` entries read entry by entry: `columns N tf = [n][t]`. -/
def columns {β} (N : Nat) (tf : List (List β)) : List (List β) :=
  (List.range N).map (fun n => column n tf)

/-- A padded batch member read entry by entry in the layout the loader REPORTS (`loader.batch_first`
at the time of the call): `[n][t]` as it is, `[t][n]` through its columns. -/
def readRows {β} (batchFirst : Bool) (N : Nat) (m : List (List β)) : List (List β) :=
  if batchFirst then m else columns N m

/-- `s` lists its elements by non-increasing `key` and keeps, within every class of equal `key`,
the order those elements have in `l`: the specification of a STABLE descending sort of `l`. -/
def IsStableDescSort {α} (key : α → Nat) (l s : List α) : Prop :=
  s.Pairwise (fun a b => key b ≤ key a) ∧
  ∀ k : Nat, s.filter (fun a => key a == k) = l.filter (fun a => key a == k)

/-- Split a concatenation back by the reported sizes. -/
def splitBySizes {β} : List Nat → List β → List (List β)
  | [], _ => []
  | n :: ns, l => l.take n :: splitBySizes ns (l.drop n)

end PdtVerif.Batching.Spec
