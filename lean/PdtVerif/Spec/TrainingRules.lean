import PdtVerif.Model.Controller
/-!
# The stated rules of training control (C15) — declarative side

No history, no countdowns, no index arithmetic.  Each of the two criteria (early stopping,
learning-rate reduction) is described by

* `ref`      — the validation metric at the epoch the patience count was last reset
               (`none` = nothing recorded yet, i.e. `+∞`),
* `refEpoch` — that epoch,
* `fails`    — how many consecutive epochs since then failed to undercut `ref` by the threshold,
* `wait`     — epochs of burn-in / cool-down still to pass; while waiting, nothing is tested and
               the reference floats along (it is the metric of the latest epoch).

A *reset* is an improvement by at least the threshold **or the firing of the rate criterion
itself** (after a reduction the reference is the value of the epoch that fired).

Rules:
* stop  ⇔  the epoch budget is reached, or early stopping is enabled (`threshold ≠ 0`) and
  `fails ≥ patience`;
* the rate criterion *fires* when, outside burn-in/cool-down, the `patience`-th consecutive
  failure happens; the rate is multiplied by the factor exactly when it fires and the change
  exceeds `epsilon`; all optimizer groups then carry the new rate.

Only `Params` is shared with the model (`rnd` is the float rounding; `rnd = id` is exact
arithmetic).
-/
namespace PdtVerif.TrainingRules
open PdtVerif.Controller

structure Crit where
  refEpoch : Nat
  ref : Option Rat
  fails : Nat
  wait : Nat
deriving DecidableEq

/-- "the validation metric has failed to undercut `ref` by the threshold" (criterion enabled) -/
def undercutFails (P : Params) (thr : Rat) (ref : Option Rat) (v : Rat) : Bool :=
  match ref with
  | none => false
  | some r => decide (thr ≠ 0 ∧ P.rnd (r - v) < thr)

structure SpecState where
  epoch : Nat
  es : Crit
  rlr : Crit
  lr : Rat
  groups : List Rat

structure SpecOut where
  /-- early stopping says stop -/
  esStop : Bool
  /-- the epoch budget is used up -/
  budgetStop : Bool
  /-- the rate criterion fired (patience-th consecutive failure outside cool-down) -/
  fire : Bool
  /-- the rate was multiplied (fired and the change is not negligible) -/
  reduce : Bool
  /-- learning rate after this epoch -/
  lr : Rat

def SpecOut.stop (o : SpecOut) : Bool := o.esStop || o.budgetStop

def specInit (P : Params) (groups : List Rat) : SpecState :=
  { epoch := 0,
    es := { refEpoch := 0, ref := none, fails := 0, wait := P.esBurn },
    rlr := { refEpoch := 0, ref := none, fails := 0, wait := P.rlrBurn },
    lr := P.initLr.getD P.optDefault,
    groups := match P.initLr with
      | some l => groups.map (fun _ => l)
      | none => groups }

/-- the rules started on an optimizer that was *not* synchronised with `log10_learning_rate`
(no `load_model_and_optimizer_for_epoch` at epoch 0): the rate the rules multiply is still the
recorded one, the optimizer's groups keep their own rates until the first reduction -/
def specInitRaw (P : Params) (groups : List Rat) : SpecState :=
  { specInit P groups with groups := groups }

/-- one epoch of a criterion that is not firing: wait, fail, or reset -/
def Crit.next (P : Params) (thr : Rat) (c : Crit) (e : Nat) (v : Rat) : Crit :=
  if c.wait ≠ 0 then { refEpoch := e, ref := some v, fails := 0, wait := c.wait - 1 }
  else if undercutFails P thr c.ref v then { c with fails := c.fails + 1 }
  else { c with refEpoch := e, ref := some v, fails := 0 }

def budgetReached (P : Params) (e : Nat) : Bool :=
  match P.numEpochs with
  | none => false
  | some n => decide (n ≠ 0 ∧ n ≤ e)

def specStep (P : Params) (T : SpecState) (v : Rat) : SpecState × SpecOut :=
  let e := T.epoch + 1
  let es' := T.es.next P P.esThr e v
  let esStop := decide (P.esThr ≠ 0 ∧ P.esPat ≤ es'.fails)
  let fire := decide (T.rlr.wait = 0) && undercutFails P P.rlrThr T.rlr.ref v
                && decide (P.rlrPat ≤ T.rlr.fails + 1)
  let newLr := P.rnd (T.lr * P.rlrFactor)
  let reduce := fire && decide (P.rlrEps < P.rnd (T.lr - newLr))
  let rlr' : Crit :=
    if fire then { refEpoch := e, ref := some v, fails := 0, wait := P.rlrCool }
    else T.rlr.next P P.rlrThr e v
  let lr' := if reduce then newLr else T.lr
  ({ epoch := e, es := es', rlr := rlr', lr := lr',
     groups := if reduce then T.groups.map (fun _ => newLr) else T.groups },
   { esStop := esStop, budgetStop := budgetReached P e, fire := fire, reduce := reduce, lr := lr' })

def specRun (P : Params) : SpecState → List Rat → SpecState × List SpecOut
  | T, [] => (T, [])
  | T, v :: vs =>
    let (T', o) := specStep P T v
    let (T'', os) := specRun P T' vs
    (T'', o :: os)

/-- "training has not yet been told to stop by early stopping": before every one of the given
epochs the failure count is still below the patience.  (After such a stop the rules say
nothing; the code keeps going with a sliding reference — modelled, not specified.) -/
def liveRun (P : Params) : SpecState → List Rat → Prop
  | _, [] => True
  | T, v :: vs => T.es.fails < P.esPat ∧ liveRun P (specStep P T v).1 vs

/-- the rules applied epoch by epoch until they say stop (that epoch included) -/
def specUntilStop (P : Params) : SpecState → List Rat → List SpecOut
  | _, [] => []
  | T, v :: vs =>
    if (specStep P T v).2.stop then [(specStep P T v).2]
    else (specStep P T v).2 :: specUntilStop P (specStep P T v).1 vs

end PdtVerif.TrainingRules
