import PdtVerif.Spec.OptCompletion
import PdtVerif.Model.LevRow
/-!
# Spec for C03 at the level of the whole output: rows, reductions, the executable oracle

* `RowProp pad P row` — what the property says about ONE row of the output tensor: the row is a
  list `S` followed only by padding, `S` has no repetition, and `S` holds exactly the tokens `t`
  with `P t` (`P` = "appending `t` does not raise the smallest reachable distance" for a prefix of
  the hypothesis, `P` = nothing for a prefix past its end). Neither the order inside `S` nor the
  number of padding entries (the width `C` of the tensor) is fixed by it.
* `stripPad`, `rowCheck`, `rowAgree` — the two per-row judgements the harness makes, written as
  executable functions so that the driver can evaluate them on the implementation's own output:
  `rowCheck` against an oracle set, `rowAgree` against the model's row (stripped rows as
  multisets). `C03_rowcheck` / `C03_rowagree` prove both sound and complete for `RowProp`.
* `oracleTargets` — the executable oracle: filter a candidate list by
  `min (DP column of p ++ [t]) = min (DP column of p)`; `C03_oracle` proves it is the target set.
* `lossSumSpec`, `lossMeanSpec` — the declarative `sum` / `mean` reductions over a
  `(prefix, batch)`-indexed family of cells.

Mathlib-free (the driver evaluates all of it).
-/
namespace PdtVerif.OptCompletion
open PdtVerif.Lev

/-- What the property says about one row of the output. -/
def RowProp (pad : Int) (P : Int → Prop) (row : List Int) : Prop :=
  ∃ (S : List Int) (m : Nat), row = S ++ List.replicate m pad ∧ pad ∉ S ∧ S.Nodup ∧ ∀ t, t ∈ S ↔ P t

/-- The row without its trailing padding entries (the harness's `_strip`). -/
def stripPad (pad : Int) (row : List Int) : List Int :=
  (row.reverse.dropWhile (· == pad)).reverse

def nodupB : List Int → Bool
  | [] => true
  | x :: l => !l.contains x && nodupB l

/-- The harness's judgement of one implementation row against the oracle set `O`: padding only as
a suffix, no token twice, listed tokens = oracle tokens. -/
def rowCheck (pad : Int) (O : List Int) (row : List Int) : Bool :=
  let S := stripPad pad row
  !S.contains pad && nodupB S && S.all (fun t => O.contains t) && O.all (fun t => S.contains t)

/-- The harness's correspondence test of one implementation row against the model's row: the
stripped rows agree as multisets. -/
def rowAgree (pad : Int) (modelRow implRow : List Int) : Bool :=
  (stripPad pad implRow).isPerm (stripPad pad modelRow)

/-! ### executable oracle -/

/-- `best` evaluated through the shared sweep-form DP (`C03_best_dp`: equals `best`). -/
def bestDP (c : Costs) (ref p : List Int) : Rat := listMin (dpRow c ref p)

def dedupInts (l : List Int) : List Int :=
  l.foldl (fun acc x => if acc.contains x then acc else acc ++ [x]) []

/-- The candidates `t` with `best (p ++ [t]) = best p`, each once. -/
def oracleTargets (c : Costs) (cands ref p : List Int) : List Int :=
  (dedupInts cands).filter (fun t => bestDP c ref (p ++ [t]) == bestDP c ref p)

/-! ### reductions -/

/-- `reduction = "sum"`: the sum of all cells. -/
def lossSumSpec (H N : Nat) (cell : Nat → Nat → Rat) : Rat :=
  ((List.range H).map (fun k => ((List.range N).map (fun n => cell k n)).sum)).sum

/-- `reduction = "mean"`: per sequence `n` the cells are summed over the prefixes and divided by
the number of prefixes that have at least one target (`1` if there is none), then the `N`
per-sequence values are averaged. -/
def lossMeanSpec (H N : Nat) (cell : Nat → Nat → Rat) (has : Nat → Nat → Bool) : Rat :=
  ((List.range N).map (fun n =>
      ((List.range H).map (fun k => cell k n)).sum
        / ((max ((List.range H).filter (fun k => has k n)).length 1 : Nat) : Rat))).sum / (N : Rat)

end PdtVerif.OptCompletion
