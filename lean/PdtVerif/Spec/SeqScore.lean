/-!
# C07 — declarative specifications (what the property demands)

All definitions are executable and Mathlib-free; the driver evaluates them as the oracle.
-/
namespace PdtVerif.SeqScore.Spec

/-- A token is in the vocabulary `[0, V)`. -/
def inVocab (V : Nat) (h : Int) : Bool := decide (0 ≤ h) && decide (h < (V : Int))

/-- The part of a sequence up to **and including** its first `eos` (everything when there is
none, or when `eos` is unset). -/
def cutAtEos (eos : Option Int) (hyp : List Int) : List Int :=
  match eos with
  | none => hyp
  | some e => hyp.take (hyp.idxOf e + 1)

/-- **Sequence log-probability**: the sum, over the positions `t` up to and including the first
`eos` whose token is in the vocabulary, of `lsm t (hyp t)`. -/
def seqScore (V : Nat) (eos : Option Int) (lsm : Nat → Nat → Rat) (hyp : List Int) : Rat :=
  (((cutAtEos eos hyp).zipIdx.filter (fun ht => inVocab V ht.1)).map
    (fun ht => lsm ht.2 ht.1.toNat)).sum

/-- Remove adjacent repeats. -/
def dedupAdjacent : List Nat → List Nat
  | [] => []
  | [a] => [a]
  | a :: b :: rest => if a == b then dedupAdjacent (b :: rest) else a :: dedupAdjacent (b :: rest)

/-- **Greedy CTC labels**: frame-wise best labels within the valid length, repeats then
blanks removed. -/
def greedyLabels (blank : Nat) (len : Nat) (argmax : List Nat) : List Nat :=
  (dedupAdjacent (argmax.take len)).filter (fun a => a != blank)

/-- **Greedy CTC score**: sum (product) of the frame maxima within the valid length. -/
def greedyScore (isProbs : Bool) (len : Nat) (maxima : List Rat) : Rat :=
  if isProbs then (maxima.take len).foldr (· * ·) 1 else (maxima.take len).sum

/-- `fill_after_eos`, declaratively: keep up to and including the first `eos`, then `eos`. -/
def fillSpec (eos : Nat) (s : List Nat) : List Nat :=
  s.take (s.idxOf eos + 1) ++ List.replicate (s.length - (s.idxOf eos + 1)) eos

/-- **Support** of the walk with step limit `T`: the eos-truncated sequences of length `≤ T`,
written as rows of length `T` padded with `eos` (all `V^T` rows when `eos` is unset). -/
def support (V : Nat) (eos : Option Nat) : Nat → List (List Nat)
  | 0 => [[]]
  | T + 1 => (List.range V).flatMap (fun v =>
      if some v = eos then [v :: List.replicate T v]
      else (support V eos T).map (fun s => v :: s))

/-- Probability of a row of the support under a language model given by its conditional
probabilities `p hist v`: the product over the positions up to and including the first `eos`. -/
def seqProb (eos : Option Nat) (p : List Nat → Nat → Rat) : List Nat → List Nat → Rat
  | _, [] => 1
  | hist, v :: rest =>
    p hist v * (if some v = eos then 1 else seqProb eos p (hist ++ [v]) rest)

/-- **Chained score** of a drawn path under the language model: the sum of the conditional
log-probabilities of its tokens. -/
def chained (lm : List Nat → Nat → Rat) : List Nat → List Nat → Rat
  | _, [] => 0
  | hist, v :: rest => lm hist v + chained lm (hist ++ [v]) rest

/-- The path a sequence of draws produces: up to and including the first `eos`. -/
def pathOf (eos : Option Nat) (draws : List Nat) : List Nat :=
  match eos with
  | none => draws
  | some e => draws.take (draws.idxOf e + 1)

end PdtVerif.SeqScore.Spec
