/-!
# Spec for C06: Katz back-off evaluated directly on an n-gram table

The table is abstract: a partial function from n-grams (tokens oldest first, the predicted
token last) to a pair *(log-probability, back-off weight)*.  A log-probability of `none`
stands for `-∞` ("listed but impossible" – the same as not listed, for the recursion).

`bo tbl w ctx` is the property's recursion, word for word:

* the listed value if the n-gram `ctx ++ [w]` is present and finite, otherwise
* the context's back-off weight (zero if the context is not listed) plus the value for the
  context shortened by its oldest token;
* with an empty context there is nothing left to shorten: the value is `-∞`.

`context` is the left-padding rule: the `N-1` most recent tokens of the history prefix
`h[:i]`, padded on the left with the start symbol.

No imports: this file is evaluated by the driver as the oracle.
-/
namespace PdtVerif.Backoff

/-- log-probability (`none` = -∞) and back-off weight of a listed n-gram. -/
abbrev Entry := Option Rat × Rat

/-- An n-gram table. -/
abbrev Table := List Int → Option Entry

/-- The listed log-probability if the n-gram is present and finite. -/
def finiteP (tbl : Table) (k : List Int) : Option Rat :=
  match tbl k with
  | some (some p, _) => some p
  | _ => none

/-- The back-off weight of a context; zero (log 1) when the context is not listed. -/
def beta (tbl : Table) (ctx : List Int) : Rat :=
  match tbl ctx with
  | some (_, b) => b
  | none => 0

/-- Katz back-off: log P(w | ctx); `none` = -∞. -/
def bo (tbl : Table) (w : Int) : List Int → Option Rat
  | [] => finiteP tbl [w]
  | c :: tl =>
    match finiteP tbl (c :: tl ++ [w]) with
    | some p => some p
    | none => (bo tbl w tl).map (beta tbl (c :: tl) + ·)

/-- The last `n` elements of a list (all of it when shorter). -/
def lastN {α} (n : Nat) (l : List α) : List α := l.drop (l.length - n)

/-- The context used for position `i` of history `h` by a model of order `N`:
the `N-1` most recent tokens of `h[:i]`, left-padded with `sos`. -/
def context (N : Nat) (sos : Int) (h : List Int) (i : Nat) : List Int :=
  lastN (N - 1) (List.replicate (N - 1) sos ++ h.take i)

/-- A finite table given as an association list (first match wins). -/
def ofList (l : List (List Int × Entry)) : Table :=
  fun k => (l.find? (fun e => e.1 == k)).map (·.2)

/-- The whole row of next-token log-probabilities for a vocabulary of size `V`. -/
def row (tbl : Table) (V : Nat) (ctx : List Int) : List (Option Rat) :=
  (List.range V).map (fun w => bo tbl (Int.ofNat w) ctx)

end PdtVerif.Backoff
