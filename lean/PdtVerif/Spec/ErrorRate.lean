import PdtVerif.Spec.Levenshtein
/-!
# Spec for C02: edit counts of minimum-cost alignments

* `cut` — the transcript named by a padded column: everything before the first `eos`
  (plus that `eos` when `include_eos` and one exists); the whole column without `eos`;
* `allScripts r h` — *every* edit script turning `r` into `h` (`mem_allScripts_iff` in
  `Lemmas/ErrorRate.lean`: exactly the scripts with `Aligns s r h`);
* `optimalEditCounts c r h` — the edit counts of the scripts of minimal cost (`= lev`);
  `minEdits`/`maxEdits` their extremes — the brute-force oracle of the property;
* `optCounts` — a second, polynomial oracle (row DP carrying, per cell, the minimal cost and
  the *set* of edit counts of all optimal scripts); the driver cross-checks the two.
* `IsOptimal`, `CountOfOptimal` — the declarative statement used by the theorems.

Mathlib-free: the driver evaluates the oracles.
-/
namespace PdtVerif.ErrorRate
open PdtVerif.Lev

variable {α : Type} [DecidableEq α]

/-- The transcript a padded column stands for. -/
def cut (eos : Option α) (includeEos : Bool) (toks : List α) : List α :=
  match eos with
  | none => toks
  | some e =>
    toks.takeWhile (fun t => decide (t ≠ e)) ++ (if includeEos && toks.contains e then [e] else [])

/-- Sequence `n` of a batch tensor: row `n` of an `(N, L)` tensor when `batch_first`, column `n`
of an `(L, N)` tensor otherwise. -/
def column (batchFirst : Bool) (t : List (List α)) (n : Nat) (dflt : α) : List α :=
  if batchFirst then t.getD n [] else t.map (fun row => row.getD n dflt)

/-- Entry (batch element `n`, position `k`) of a batch result in the given layout. -/
def entry {β : Type} (batchFirst : Bool) (out : List (List β)) (n k : Nat) : Option β :=
  if batchFirst then (out[n]?).bind (fun row => row[k]?) else (out[k]?).bind (fun row => row[n]?)

/-- The transposed `(N, L)` tensor of an `(L, N)` tensor. -/
def transpose (N : Nat) (t : List (List α)) (dflt : α) : List (List α) :=
  (List.range N).map (fun n => t.map (fun row => row.getD n dflt))

/-- `s` is a minimum-cost alignment of `r` and `h`. -/
def IsOptimal (c : Costs) (r h : List α) (s : List (Edit α)) : Prop :=
  Aligns s r h ∧ ∀ s', Aligns s' r h → scriptCost c s ≤ scriptCost c s'

/-- `m` is the number of edits of some minimum-cost alignment. -/
def CountOfOptimal (c : Costs) (r h : List α) (m : Nat) : Prop :=
  ∃ s, IsOptimal c r h s ∧ numEdits s = m

/-- Every edit script from `r` to `h`. -/
def allScripts : List α → List α → List (List (Edit α))
  | [], [] => [[]]
  | [], y :: h => (allScripts [] h).map (Edit.ins y :: ·)
  | x :: r, [] => (allScripts r []).map (Edit.del x :: ·)
  | x :: r, y :: h =>
    (allScripts (x :: r) h).map (Edit.ins y :: ·)
      ++ (allScripts r (y :: h)).map (Edit.del x :: ·)
      ++ (allScripts r h).map ((if x = y then Edit.keep x else Edit.sub x y) :: ·)

/-- Edit counts of all scripts whose cost is the weighted Levenshtein distance. -/
def optimalEditCounts (c : Costs) (r h : List α) : List Nat :=
  ((allScripts r h).filter (fun s => scriptCost c s == lev c r h)).map numEdits

def minEdits (c : Costs) (r h : List α) : Option Nat := (optimalEditCounts c r h).min?
def maxEdits (c : Costs) (r h : List α) : Option Nat := (optimalEditCounts c r h).max?

/-! ### Polynomial oracle: minimal cost and the set of edit counts of all optimal scripts -/

/-- Sorted duplicate-free insertion. -/
def insertNat (n : Nat) : List Nat → List Nat
  | [] => [n]
  | m :: ms => if n < m then n :: m :: ms else if n = m then m :: ms else m :: insertNat n ms

def unionNat (a b : List Nat) : List Nat := a.foldl (fun acc n => insertNat n acc) b

abbrev OptCell := Rat × List Nat

/-- Best of three candidates: minimal cost, union of the counts of those attaining it. -/
def best3 (a b d : OptCell) : OptCell :=
  let m := min (min a.1 b.1) d.1
  let pick := fun (x : OptCell) => if x.1 = m then x.2 else []
  (m, unionNat (pick a) (unionNat (pick b) (pick d)))

def bump (cost : Rat) (k : Nat) (x : OptCell) : OptCell := (x.1 + cost, x.2.map (· + k))

def optSweep (c : Costs) (y : α) : List α → OptCell → List OptCell → OptCell → List OptCell
  | x :: xs, diag, up :: rest, left =>
    let cell := best3 (bump c.del 1 left) (bump c.ins 1 up)
      (if x = y then diag else bump c.sub 1 diag)
    cell :: optSweep c y xs up rest cell
  | _, _, _, _ => []

def optStep (c : Costs) (ref : List α) (y : α) (row : List OptCell) : List OptCell :=
  match row with
  | [] => []
  | d0 :: rest => bump c.ins 1 d0 :: optSweep c y ref d0 rest (bump c.ins 1 d0)

def optRow0 (c : Costs) (ref : List α) : List OptCell :=
  (List.range (ref.length + 1)).map (fun (j : Nat) => (c.del * (j : Rat), [j]))

/-- For every prefix `hyp.take k`, `k = 0..|hyp|`: (minimal cost, sorted edit counts of all
optimal scripts) of `ref` against that prefix. -/
def optCountsPrefixes (c : Costs) (ref hyp : List α) : List OptCell :=
  let step := fun (acc : List OptCell × List OptCell) (y : α) =>
    let row := optStep c ref y acc.1
    (row, acc.2 ++ [row.getD ref.length (0, [])])
  let r0 := optRow0 c ref
  (hyp.foldl step (r0, [r0.getD ref.length (0, [])])).2

def optCounts (c : Costs) (ref hyp : List α) : OptCell :=
  (optCountsPrefixes c ref hyp).getLastD (0, [])

end PdtVerif.ErrorRate
