import PdtVerif.Model.DataDir
/-!
# Spec for C12: the well-formed data directory, the documented repairs, the recount

`Documented d` is the numbered list of the docstring of `validate_spect_data_set`, condition
by condition, as a property of the stored tensors (no loop, no state, no order).
`TokensNonneg d` is the one condition the code enforces beyond the docstring (token ids are
not negative; the property's domain has it as a precondition). `WellFormed = both`.

`repairUtt fix` applies the five documented repairs of the docstring wherever they apply and
changes nothing else; `fix = none` repairs nothing.

Only the data types come from the model file. Everything here is decidable and Mathlib-free
(the driver evaluates it as the oracle).
-/
namespace PdtVerif.DataDir

/-- `p` holds of the file if there is one. -/
def optAll {α} (p : α → Prop) : Option α → Prop
  | none => True
  | some a => p a

instance {α} (p : α → Prop) [DecidablePred p] (o : Option α) : Decidable (optAll p o) := by
  cases o <;> simp only [optAll] <;> infer_instance

/-- "has one dimension". -/
def AliData.is1d : AliData → Prop
  | .vec _ => True
  | .nd _ _ => False

/-- "same size first axis as the features" (says nothing about a tensor that is not 1-D). -/
def AliData.lenIs (T : Nat) : AliData → Prop
  | .vec v => v.length = T
  | .nd _ _ => True

/-- "1 or 2 dimensions". -/
def RefData.dimOk : RefData → Prop
  | .d1 _ | .d2 _ | .d2w _ _ => True
  | .nd _ => False

def RefData.is2d : RefData → Bool
  | .d2 _ | .d2w _ _ => true
  | _ => false

/-- "if 2-dimensional, the second dimension has length 3". -/
def RefData.widthOk : RefData → Prop
  | .d2w _ _ => False
  | _ => True

def RefData.rows : RefData → List Row
  | .d2 rows => rows
  | _ => []

/-- 6.3.2: both boundaries negative, or `0 ≤ start ≤ end ≤ T`. -/
def RowOk (T : Nat) (r : Row) : Prop :=
  (r.s < 0 ∧ r.e < 0) ∨ (0 ≤ r.s ∧ r.s ≤ r.e ∧ r.e ≤ (T : Int))

instance (T : Nat) (r : Row) : Decidable (RowOk T r) := by unfold RowOk; infer_instance
instance (a : AliData) : Decidable a.is1d := by cases a <;> simp only [AliData.is1d] <;> infer_instance
instance (T : Nat) (a : AliData) : Decidable (a.lenIs T) := by
  cases a <;> simp only [AliData.lenIs] <;> infer_instance
instance (r : RefData) : Decidable r.dimOk := by cases r <;> simp only [RefData.dimOk] <;> infer_instance
instance (r : RefData) : Decidable r.widthOk := by
  cases r <;> simp only [RefData.widthOk] <;> infer_instance

/-- The docstring of `validate_spect_data_set`, condition by condition. -/
structure Documented (d : Dir) : Prop where
  /-- 1. All tensors are on the CPU. -/
  c1 : ∀ u ∈ d, u.feat.dev = .cpu ∧ optAll (fun a => a.dev = .cpu) u.ali
        ∧ optAll (fun r => r.dev = .cpu) u.ref
  /-- 2. All features are tensor instances … -/
  c2a : ∀ u ∈ d, u.feat.isTensor = true
  /-- 2. … of the same dtype. -/
  c2b : ∀ u ∈ d, ∀ v ∈ d, u.feat.dtype = v.feat.dtype
  /-- 3. All features have two dimensions. -/
  c3 : ∀ u ∈ d, u.feat.dims.length = 2
  /-- 4. All features have the same size second dimension. -/
  c4 : ∀ u ∈ d, ∀ v ∈ d, u.feat.dims[1]? = v.feat.dims[1]?
  /-- 5.1 All alignments are long tensors. -/
  c51 : ∀ u ∈ d, optAll (fun a => a.dtype = .i64) u.ali
  /-- 5.2 All alignments have one dimension. -/
  c52 : ∀ u ∈ d, optAll (fun a => a.data.is1d) u.ali
  /-- 5.3 Features and alignments have the same number of frames. -/
  c53 : ∀ u ∈ d, optAll (fun a => a.data.lenIs u.feat.T) u.ali
  /-- 6.1 All references are long tensors. -/
  c61 : ∀ u ∈ d, optAll (fun r => r.dtype = .i64) u.ref
  /-- 6.2 All references have the same number of dimensions … -/
  c62a : ∀ u ∈ d, ∀ v ∈ d, optAll (fun r => optAll (fun q => r.data.is2d = q.data.is2d) v.ref) u.ref
  /-- 6.2 … either 1 or 2. -/
  c62b : ∀ u ∈ d, optAll (fun r => r.data.dimOk) u.ref
  /-- 6.3.1 If 2-dimensional, the second dimension has length 3. -/
  c631 : ∀ u ∈ d, optAll (fun r => r.data.widthOk) u.ref
  /-- 6.3.2 Boundaries are both negative or `0 ≤ start ≤ end ≤ T`. -/
  c632 : ∀ u ∈ d, optAll (fun r => ∀ row ∈ r.data.rows, RowOk u.feat.T row) u.ref

/-- Not in the docstring, enforced by the code: no negative token id. -/
def TokensNonneg (d : Dir) : Prop :=
  ∀ u ∈ d, optAll (fun r => ∀ t ∈ r.data.toks, 0 ≤ t) u.ref

def WellFormed (d : Dir) : Prop := Documented d ∧ TokensNonneg d

instance (d : Dir) : Decidable (Documented d) :=
  decidable_of_iff
    ((∀ u ∈ d, u.feat.dev = .cpu ∧ optAll (fun a => a.dev = .cpu) u.ali
        ∧ optAll (fun r => r.dev = .cpu) u.ref)
     ∧ (∀ u ∈ d, u.feat.isTensor = true)
     ∧ (∀ u ∈ d, ∀ v ∈ d, u.feat.dtype = v.feat.dtype)
     ∧ (∀ u ∈ d, u.feat.dims.length = 2)
     ∧ (∀ u ∈ d, ∀ v ∈ d, u.feat.dims[1]? = v.feat.dims[1]?)
     ∧ (∀ u ∈ d, optAll (fun a => a.dtype = .i64) u.ali)
     ∧ (∀ u ∈ d, optAll (fun a => a.data.is1d) u.ali)
     ∧ (∀ u ∈ d, optAll (fun a => a.data.lenIs u.feat.T) u.ali)
     ∧ (∀ u ∈ d, optAll (fun r => r.dtype = .i64) u.ref)
     ∧ (∀ u ∈ d, ∀ v ∈ d, optAll (fun r => optAll (fun q => r.data.is2d = q.data.is2d) v.ref) u.ref)
     ∧ (∀ u ∈ d, optAll (fun r => r.data.dimOk) u.ref)
     ∧ (∀ u ∈ d, optAll (fun r => r.data.widthOk) u.ref)
     ∧ (∀ u ∈ d, optAll (fun r => ∀ row ∈ r.data.rows, RowOk u.feat.T row) u.ref))
    ⟨fun ⟨a, b, c, d, e, f, g, h, i, j, k, l, m⟩ => ⟨a, b, c, d, e, f, g, h, i, j, k, l, m⟩,
     fun h => ⟨h.c1, h.c2a, h.c2b, h.c3, h.c4, h.c51, h.c52, h.c53, h.c61, h.c62a, h.c62b,
               h.c631, h.c632⟩⟩

instance (d : Dir) : Decidable (TokensNonneg d) := by unfold TokensNonneg; infer_instance
instance (d : Dir) : Decidable (WellFormed d) := by unfold WellFormed; infer_instance

/-! ## The documented repairs -/

/-- Repair 1: any CUDA tensor becomes a CPU tensor. -/
def repairDev (fix : Option Nat) (dev : Device) : Device := if fix.isSome then .cpu else dev

/-- Repair 2: a reference or alignment of a narrower integer type is upcast to long.
(The docstring names bytes and 32-bit integers; the code also upcasts int8 and int16.) -/
def repairLong (fix : Option Nat) (dt : DType) : DType :=
  if fix.isSome ∧ dt.narrowInt = true then .i64 else dt

/-- Repair 5: an alignment exceeding the number of frames by at most `fix` is cropped. -/
def repairAliData (fix : Option Nat) (T : Nat) : AliData → AliData
  | .vec v =>
    match fix with
    | some k => if T < v.length ∧ v.length ≤ T + k then .vec (v.take T) else .vec v
    | none => .vec v
  | .nd s fl => .nd s fl

/-- Repairs 3 and 4 on one reference token. -/
def repairRow (fix : Option Nat) (T : Nat) (r : Row) : Row :=
  match fix with
  | none => r
  | some k =>
    -- 3. only one of the two boundaries is there: remove it
    if (r.s < 0 ∧ 0 ≤ r.e) ∨ (0 ≤ r.s ∧ r.e < 0) then { r with s := -1, e := -1 }
    -- 4. the exclusive end exceeds T by at most k and the start stays at or below the new end
    else if 0 ≤ r.s ∧ r.s ≤ r.e ∧ (T : Int) < r.e ∧ r.e ≤ (T : Int) + k ∧ r.s ≤ (T : Int) then
      { r with e := T }
    else r

def repairRefData (fix : Option Nat) (T : Nat) : RefData → RefData
  | .d2 rows => .d2 (rows.map (repairRow fix T))
  | x => x

def repairUtt (fix : Option Nat) (u : Utt) : Utt :=
  { feat := { u.feat with dev := repairDev fix u.feat.dev }
    ali := u.ali.map fun a =>
      ⟨repairLong fix a.dtype, repairDev fix a.dev, repairAliData fix u.feat.T a.data⟩
    ref := u.ref.map fun r =>
      ⟨repairLong fix r.dtype, repairDev fix r.dev, repairRefData fix u.feat.T r.data⟩ }

/-- The directory with every documented repair applied. -/
def repair (fix : Option Nat) (d : Dir) : Dir := d.map (repairUtt fix)

/-! ## The recount: every reported number as a function of the stored tensors -/

/-- The stored alignment entry by entry (storage order; a 1-D alignment is its own list). -/
def Utt.aliVals (u : Utt) : List Int :=
  match u.ali with
  | some a => a.data.flat
  | none => []

def Utt.refRows (u : Utt) : List Row :=
  match u.ref with
  | some r => (r.data.infoRows).getD []
  | none => []

def maxOr (dflt : Int) (l : List Int) : Int := l.foldl max dflt

/-- Number of maximal runs of `i` in `l`: positions holding `i` whose predecessor does not. -/
def segCount (i : Int) : List Int → Nat
  | [] => 0
  | [x] => if x = i then 1 else 0
  | x :: y :: rest => (if x = i ∧ y ≠ i then 1 else 0) + segCount i (y :: rest)

def sumInt (l : List Int) : Int := l.foldr (· + ·) 0

/-- `rcount_i`: the number of frames the tokens `i` occupy according to their boundaries, or -1 if
`i` does not occur or one of its tokens has no boundaries. (An empty segment `start = end`, which
validation accepts, occupies 0 frames.) -/
def rcountOf (rows : List Row) (i : Int) : Int :=
  let mine := rows.filter (fun r => r.tok = i)
  if mine ≠ [] ∧ mine.all (fun r => decide (0 ≤ r.s ∧ r.s ≤ r.e)) then sumInt (mine.map fun r => r.e - r.s)
  else -1

/-- The report as a recount of the directory `d`. -/
def recount (d : Dir) : List (String × Int) :=
  let ali := d.flatMap Utt.aliVals
  let rows := d.flatMap Utt.refRows
  let maxAli := maxOr (-1) ali
  let maxRef := maxOr (-1) (rows.map (·.tok))
  [("num_utterances", (d.length : Int)), ("total_frames", (((d.map (·.feat.T)).sum : Nat) : Int)),
   ("max_ali_class", maxAli), ("max_ref_class", maxRef),
   -- the sum of R over the directory if references are available, -1 if not
   ("total_tokens", if d.any (fun u => u.ref.isSome) then (rows.length : Int) else -1)]
  ++ (match d.getLast? with
      | some u => (u.feat.dims[1]?).toList.map fun (F : Nat) => ("num_filts", (F : Int))
      | none => [])
  ++ classKeys "count_" "segs_" maxAli (fun i => (ali.count i : Int))
       (fun i => (((d.map fun u => segCount i u.aliVals).sum : Nat) : Int))
  ++ classKeys "rcount_" "rsegs_" maxRef (rcountOf rows)
       (fun i => ((rows.filter (fun r => r.tok = i)).length : Int))

/-! ## Utterance discovery: which ids a data set lists, as a property of the directory listings -/

/-- The file `x` counts towards the data set: it carries the prefix and the suffix. -/
def Matches (pre suf x : FName) : Prop := pre <+: x ∧ suf <:+ x

/-- `x` is a file of utterance `id`: it counts, and `id` is what remains when the prefix and the
suffix are cut off. -/
def IsFileOf (pre suf id x : FName) : Prop := Matches pre suf x ∧ id = stripName pre suf x

/-- The directory with listing `files` holds a file of utterance `id`. -/
def InDir (pre suf : FName) (files : List FName) (id : FName) : Prop := ∃ x ∈ files, IsFileOf pre suf id x

/-- A companion sub-directory (`ali/`, `ref/`) is in use: it is looked at, exists, and holds at least
one file that counts. -/
def DirUsed (pre suf : FName) : Option (List FName) → Prop
  | none => False
  | some files => ∃ x ∈ files, Matches pre suf x

/-- `id` is an utterance of the data set: it has a feature file, it belongs to the subset if one
was given, and it has a file in every companion sub-directory in use. -/
def Discovered (pre suf : FName) (subset : List FName) (l : Listing) (id : FName) : Prop :=
  InDir pre suf l.feat id ∧ (subset ≠ [] → id ∈ subset)
  ∧ (DirUsed pre suf l.ali → InDir pre suf (l.ali.getD []) id)
  ∧ (DirUsed pre suf l.ref → InDir pre suf (l.ref.getD []) id)

end PdtVerif.DataDir
