/-!
# Specification for C05: CTC prefix mass and the prefix-beam recursion

Tokens are `0 … V-1`, the blank symbol is `V`.  A *frame* gives the probability of the
blank, the probability of repeating token `v` (staying on the same prefix) and the
probability of *extending* prefix `q` by token `v`.  Without a language model
`ext q v = tok v`; with shallow fusion `ext q v` is the fused score of `v` after `q`.

* `mass V frames p` — **the true prefix mass**: the sum, over all alignments
  `a ∈ {0..V}^T`, of the product of the per-frame weights of `a`, restricted to the
  alignments that collapse to `p` (merge repeats, drop blanks).  Computed by enumeration.
* `exact V frames` — the forward variables `(NB_t p, B_t p)`: mass of the alignments that
  collapse to `p` and end in a non-blank / in a blank (or are empty).
* `beamRun V frames keeps` — **the standard prefix-beam recursion**: a finite map from
  prefixes to `(nb, b)`; per frame every entry spawns its non-extending candidate and
  `V` extending candidates, candidates denoting the same prefix are merged, and the
  candidates named by `keeps[t]` survive.  `IsTopK` says that a choice of survivors is a
  legitimate "best `width` by total mass" choice.

Mathlib-free and executable: the driver evaluates all three.
-/
namespace PdtVerif.Ctc

structure Frame where
  blank : Rat
  tok : Nat → Rat
  ext : List Nat → Nat → Rat

/-! ## True mass by enumeration of alignments -/

/-- State of reading an alignment left to right: the collapsed prefix so far, the last
symbol read (`none` before the first one; `some V` is the blank) and the weight. -/
structure AState where
  pre : List Nat
  last : Option Nat
  w : Rat
  deriving Repr, DecidableEq

def aInit : AState := ⟨[], none, 1⟩

/-- Read symbol `s` at a frame: a blank keeps the prefix; a repeat of the previous
non-blank symbol keeps the prefix; anything else appends `s`. -/
def stepSym (V : Nat) (f : Frame) (st : AState) (s : Nat) : AState :=
  if s = V then ⟨st.pre, some V, st.w * f.blank⟩
  else if st.last = some s then ⟨st.pre, some s, st.w * f.tok s⟩
  else ⟨st.pre ++ [s], some s, st.w * f.ext st.pre s⟩

/-- Read a whole alignment (frame `t` weighs symbol `t`). -/
def runAlign (V : Nat) (frames : List Frame) (a : List Nat) : AState :=
  (frames.zip a).foldl (fun st fs => stepSym V fs.1 st fs.2) aInit

/-- All alignments of length `T` over the symbols `0 … V`. -/
def allAlign (V : Nat) : Nat → List (List Nat)
  | 0 => [[]]
  | T + 1 => (allAlign V T).flatMap (fun a => (List.range (V + 1)).map (fun s => a ++ [s]))

/-- `collapse` in the textbook form (for reference; `runAlign` computes the same prefix):
merge adjacent repeats, then drop blanks. -/
def dedupAdj : List Nat → List Nat
  | [] => []
  | [a] => [a]
  | a :: b :: r => if a = b then dedupAdj (b :: r) else a :: dedupAdj (b :: r)

def collapse (V : Nat) (a : List Nat) : List Nat := (dedupAdj a).filter (· ≠ V)

/-- The true mass of prefix `p`. -/
def mass (V : Nat) (frames : List Frame) (p : List Nat) : Rat :=
  ((allAlign V frames.length).map (fun a =>
    let st := runAlign V frames a
    if st.pre = p then st.w else 0)).sum

/-! ## Forward variables -/

/-- One frame of the forward recursion on `(NB, B)`:
`B' p = (NB p + B p)·blank`,
`NB' p = NB p·tok(last p) + [p = q ++ [v]]·(B q + [last q ≠ v]·NB q)·ext q v`. -/
def stepFn (V : Nat) (f : Frame) (S : List Nat → Rat × Rat) (p : List Nat) : Rat × Rat :=
  let stay : Rat := match p.getLast? with
    | some v => (S p).1 * f.tok v
    | none => 0
  let grow : Rat := match p.getLast? with
    | some v =>
      let q := p.dropLast
      if v < V then ((S q).2 + (if q.getLast? = some v then 0 else (S q).1)) * f.ext q v else 0
    | none => 0
  (stay + grow, ((S p).1 + (S p).2) * f.blank)

def exactInit (p : List Nat) : Rat × Rat := if p = [] then (0, 1) else (0, 0)

/-- `(NB_T p, B_T p)` after all frames, nothing pruned. -/
def exact (V : Nat) (frames : List Frame) : List Nat → Rat × Rat :=
  frames.foldl (fun S f => stepFn V f S) exactInit

/-! ## The map-based prefix-beam recursion -/

/-- prefix ↦ (nb, b), as an association list in beam order. -/
abbrev Beam := List (List Nat × (Rat × Rat))

def Beam.get (bm : Beam) (p : List Nat) : Rat × Rat :=
  match bm.lookup p with
  | some x => x
  | none => (0, 0)

def Beam.keys (bm : Beam) : List (List Nat) := bm.map (·.1)

def Beam.total (bm : Beam) (p : List Nat) : Rat := (bm.get p).1 + (bm.get p).2

/-- Candidate prefixes of a frame: every beam entry unchanged and extended by each token. -/
def cands (V : Nat) (bm : Beam) : List (List Nat) :=
  bm.keys ++ bm.keys.flatMap (fun q => (List.range V).map (fun v => q ++ [v]))

/-- One frame: the merged candidate masses are the forward recursion applied to the
current map (which is zero outside the beam); the prefixes in `keep` survive, in the
order of `keep`. -/
def beamStep (V : Nat) (f : Frame) (keep : List (List Nat)) (bm : Beam) : Beam :=
  (keep.filter (fun p => (cands V bm).contains p)).map (fun p => (p, stepFn V f bm.get p))

def beamInit : Beam := [([], (0, 1))]

def beamRun (V : Nat) : List Frame → List (List (List Nat)) → Beam → Beam
  | f :: fs, k :: ks, bm => beamRun V fs ks (beamStep V f k bm)
  | _, _, bm => bm

/-- Total candidate mass of `p` at a frame (what the pruning compares). -/
def candTotal (V : Nat) (f : Frame) (bm : Beam) (p : List Nat) : Rat :=
  (stepFn V f bm.get p).1 + (stepFn V f bm.get p).2

/-- `keep` is a legitimate choice of the best `width` candidates: distinct candidates, as
many as the width allows, listed by non-increasing total, none of the dropped candidates
better than a kept one. -/
structure IsTopK (V : Nat) (f : Frame) (width : Nat) (bm : Beam) (keep : List (List Nat)) : Prop where
  nodup : keep.Nodup
  sub : ∀ p ∈ keep, p ∈ cands V bm
  card : keep.length = min width (cands V bm).eraseDups.length
  sorted : keep.Pairwise (fun p q => candTotal V f bm q ≤ candTotal V f bm p)
  best : ∀ p ∈ cands V bm, p ∉ keep → ∀ q ∈ keep, candTotal V f bm p ≤ candTotal V f bm q

/-- Boolean version for the driver. -/
def isTopKB (V : Nat) (f : Frame) (width : Nat) (bm : Beam) (keep : List (List Nat)) : Bool :=
  let cs := (cands V bm).eraseDups
  let tot := candTotal V f bm
  let rec nodup : List (List Nat) → Bool
    | [] => true
    | a :: r => !(r.contains a) && nodup r
  let rec sorted : List (List Nat) → Bool
    | [] => true
    | [_] => true
    | a :: b :: r => decide (tot b ≤ tot a) && sorted (b :: r)
  nodup keep && keep.all (fun p => cs.contains p)
  && keep.length == min width cs.length
  && sorted keep
  && cs.all (fun p => keep.contains p || keep.all (fun q => decide (tot p ≤ tot q)))

end PdtVerif.Ctc
