import PdtVerif.Model.Transcripts
/-!
# Declarative side of C11

What the property demands, stated without reference to how `_parsing.py` works:

* which transcripts are *expressible* in a format (`topOk`, `uttOk`, `ctmOk`, `tgOk`, …),
* what reading back must return (`the same thing`; for ctm: the mandated order `specCtm`;
  for TextGrid: times rounded to the print precision, `specFill` for the gap filling),
* the frame round trip bound.

Everything here is executable (the driver evaluates it as the oracle) and Mathlib-free.
-/
namespace PdtVerif.Transcripts

/-! ## trn -/

/-- Characters a token may consist of: no white space, no `{`; inside an alternate also no
`/` and no `}` (outside they are ordinary word characters). -/
def tokCharOk (inAlt : Bool) (c : Char) : Bool :=
  !isPyWhite c && c != '{' && (!inAlt || (c != '/' && c != '}'))

def tokOk (inAlt : Bool) (s : List Char) : Bool := !s.isEmpty && s.all (tokCharOk inAlt)

mutual
def itemOk : Bool → Item → Bool
  | inAlt, .tok s => tokOk inAlt s
  | _, .alt bs => branchesOk bs
def seqOk : Bool → List Item → Bool
  | _, [] => true
  | inAlt, x :: xs => itemOk inAlt x && seqOk inAlt xs
/-- At least one branch, the last one non-empty (sclite "seg faults on empty alternates";
the reader raises), every element expressible inside an alternate. -/
def branchesOk : List (List Item) → Bool
  | [] => false
  | [b] => !b.isEmpty && seqOk true b
  | b :: b' :: bs => seqOk true b && branchesOk (b' :: bs)
end

/-- Utterance ids: anything without parentheses (spaces are part of the id). -/
def uttOk (u : List Char) : Bool := u.all (fun c => c != '(' && c != ')')

-- Nesting depth (0 for a token).
mutual
def Item.depth : Item → Nat
  | .tok _ => 0
  | .alt bs => branchesDepth bs + 1
def seqDepth : List Item → Nat
  | [] => 0
  | x :: xs => max x.depth (seqDepth xs)
def branchesDepth : List (List Item) → Nat
  | [] => 0
  | b :: bs => max (seqDepth b) (branchesDepth bs)
end

/-! ## ctm -/

/-- Order of `(token, start, end)` inside an utterance that the format mandates (lines are
sorted by start, then duration, then token). -/
def timedLe (a b : Timed) : Bool :=
  decide (a.2.1 < b.2.1) || (a.2.1 == b.2.1 &&
  (decide (a.2.2 < b.2.2) || (a.2.2 == b.2.2 &&
  (decide (a.1 < b.1) || a.1 == b.1))))

/-- Order of utterances: by `(wfn, chan)`. -/
def wcLe (wc : String → String × String) (a b : String × List Timed) : Bool :=
  let x := wc a.1
  let y := wc b.1
  decide (x.1 < y.1) || (x.1 == y.1 && (decide (x.2 < y.2) || x.2 == y.2))

/-- Expressible: non-negative times with `start ≤ end`. -/
def timedOk (x : Timed) : Bool := decide (0 ≤ x.2.1) && decide (x.2.1 ≤ x.2.2)

/-- What `read_ctm ∘ write_ctm` has to return: the utterances that have at least one token,
ordered by `(wfn, chan)`, each with its tokens in the mandated order. -/
def specCtm (wc : String → String × String) (ts : Transcripts) : Transcripts :=
  ((ts.filter (fun ut => !ut.2.isEmpty)).mergeSort (wcLe wc)).map
    (fun ut => (ut.1, ut.2.mergeSort timedLe))

/-! ## TextGrid -/

/-- Gap filling, declaratively: walking the entries with the previous end (initially the
tier's xmin), a fill interval goes exactly where `prev_end < next_start`, and a last one up
to xmax. -/
def specFill (ft : String) (xmax : Rat) : Rat → List Timed → List Timed
  | prev, [] => if prev < xmax then [(ft, prev, xmax)] else []
  | prev, (tok, s, e) :: rest =>
    (if prev < s then [(ft, prev, s)] else []) ++ (tok, s, e) :: specFill ft xmax e rest

def absRat (x : Rat) : Rat := if x < 0 then -x else x

/-- `|a - b| ≤ ½·10⁻ᵖ` as a proposition: `a` is within half a unit of the `p`-th decimal of `b`. -/
def Near (p : Nat) (a b : Rat) : Prop :=
  b - (1/2) / ((10 ^ p : Nat) : Rat) ≤ a ∧ a ≤ b + (1/2) / ((10 ^ p : Nat) : Rat)

/-- `|a - b| ≤ ½·10⁻ᵖ`. -/
def withinHalfUlp (p : Nat) (a b : Rat) : Bool :=
  decide (absRat (a - b) ≤ (1/2 : Rat) / ((10 ^ p : Nat) : Rat))

/-! ## text layers -/

/-- `;;` occurs in the string (it starts a comment in a ctm file). -/
def hasComment : List Char → Bool
  | [] => false
  | [_] => false
  | c :: d :: rest => (c == ';' && d == ';') || hasComment (d :: rest)

/-- A printable ctm column: non-empty, no white space, no `;;`. -/
def ctmFieldOk (s : List Char) : Bool :=
  !s.isEmpty && s.all (fun c => !isPyWhite c) && !hasComment s

/-- A printable ctm line: three printable columns, two non-negative decimals. -/
def SegTOk (wfn chan tok : List Char) (start dur : Dec) : Bool :=
  ctmFieldOk wfn && ctmFieldOk chan && ctmFieldOk tok && decide (0 ≤ start.mant) && decide (0 ≤ dur.mant)

/-- A TextGrid label the format can hold: no `"` (the writer does not escape it) and no carriage
return (text-mode reading turns it into a new line); new lines are fine. -/
def tgLabelOk (s : String) : Bool := s.toList.all (fun c => c != '"' && c != '\r')

/-- A tier name: no line break. -/
def tgNameOk (s : String) : Bool := s.toList.all (fun c => c != '\n' && c != '\r')

def TgBody.textOk : TgBody → Bool
  | .points l => l.all (fun e => decide (0 ≤ e.1.mant) && tgLabelOk e.2)
  | .intervals l => l.all (fun e => decide (0 ≤ e.1.mant) && decide (0 ≤ e.2.1.mant) && tgLabelOk e.2.2)

/-- A structured file whose text reads back as itself: non-negative numbers, printable name and labels. -/
def TgFile.textOk (f : TgFile) : Bool :=
  decide (0 ≤ f.xmin.mant) && decide (0 ≤ f.xmax.mant) && decide (0 ≤ f.tmin.mant) && decide (0 ≤ f.tmax.mant) &&
  tgNameOk f.name && f.body.textOk

/-! ## frames -/

/-- `|a - b| < shift`. -/
def withinShift (shift a b : Rat) : Bool := decide (absRat (a - b) < shift)

/-- The id of a token as the documentation of `transcript_to_token` gives it: without a `token2id` the token
itself ("`unk` has no effect"); with one, `token2id[token]`; a token that is not a key becomes the `unk` id —
`token2id[unk]` if `unk` is a key, else `unk` itself — and, without an `unk`, stays itself. An empty
`token2id` is a vocabulary in which every token is unknown; `unk = 0` is an id like any other. -/
def specId (token2id : Option (List (Tok × Int))) (unk : Option Tok) (t : Tok) : Tok :=
  match token2id with
  | none => t
  | some m => match m.lookup t with
    | some v => .i v
    | none => match unk with
      | none => t
      | some u => match m.lookup u with
        | some v => .i v
        | none => u

/-- Only an integer can be stored in the token tensor. -/
def idOfTok : Tok → Except FrErr Int
  | .i v => .ok v
  | .s _ => .error .badId

end PdtVerif.Transcripts
