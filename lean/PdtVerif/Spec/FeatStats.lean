import PdtVerif.Model.FeatStats
/-!
# Declarative spec for C18

* pooled population statistics of a list of frames (one coefficient);
* the recursive regression formula for deltas on an edge-extended signal `e : Int → Rat`;
* where order `u`, time `t` and the other coordinates land in the output of `feat_deltas`;
* the return recursion `R_t = r_t + γ R_{t+1}`, `R_T = 0`.

Executable and Mathlib-free (the driver evaluates it as the oracle).
-/
namespace PdtVerif.FeatStats

/-! ## Pooled statistics -/

/-- Population mean `Σ x / n`. -/
def poolMean (l : List Rat) : Rat := l.sum / l.length

/-- Biased (population) variance `(1/n) Σ (x − μ)²`. -/
def poolVar (l : List Rat) : Rat :=
  (l.map (fun x => (x - poolMean l) * (x - poolMean l))).sum / l.length

/-- Bessel-corrected variance `(1/(n−1)) Σ (x − μ)²`. -/
def poolVarBessel (l : List Rat) : Rat :=
  (l.map (fun x => (x - poolMean l) * (x - poolMean l))).sum / ((l.length : Rat) - 1)

/-! ## Which entries of a tensor belong to which coefficient; the normalisation formula -/

/-- The frames of coefficient `i` of the normalised dimension `dim`: all entries of `x` whose
`dim`-th coordinate is `i`, in row-major order of the remaining coordinates.  Stated on flat
positions only (`unravel`), independent of the model's `transpose/flatten` chain. -/
def coeffEntries (x : Tensor) (dim i : Nat) : List Rat :=
  ((List.range x.numel).filter (fun k => (unravel x.shape k).getD dim 0 == i)).map (x.data.getD · 0)

/-- The documented formula `y[…, i, …] = (x[…, i, …] − mean[i]) / max(std[i], eps)`, entry by
entry: the output has the shape of `x`, and the entry at flat position `k` uses the statistics
of the coefficient `i = (multi-index of k)[dim]`. -/
def mvnSpec (x : Tensor) (dim : Nat) (mean std : List Rat) (eps : Rat) : Tensor :=
  { shape := x.shape
    data := (List.range x.numel).map (fun k =>
      let i := (unravel x.shape k).getD dim 0
      (x.data.getD k 0 - mean.getD i 0) / max (std.getD i 0) eps) }

/-- The statistic `mean_var_norm` uses for coefficient `i`: the supplied one, else the input's own. -/
def statUsed (given? : Option (List Rat)) (own : Rat) (i : Nat) : Rat :=
  match given? with
  | some v => v.getD i 0
  | none => own

/-! ## What the module holds after any sequence of `accumulate` / `store` calls -/

/-- All frames of coefficient `i` in a list of chunks (each chunk = per-coefficient frame lists). -/
def poolOf (chunks : List (List (List Rat))) (i : Nat) : List Rat := chunks.flatMap (fun c => c.getD i [])

/-- Number of frames in a list of chunks. -/
def framesOf (chunks : List (List (List Rat))) : Nat := (chunks.map (fun c => (c.headD []).length)).sum

/-- The pooled mean and (biased or Bessel-corrected) variance of every coefficient. -/
def pooledStats (chunks : List (List (List Rat))) (bessel : Bool) : List Rat × List Rat :=
  let X := (chunks.headD []).length
  ((List.range X).map (fun i => poolMean (poolOf chunks i)),
   (List.range X).map (fun i => if bessel then poolVarBessel (poolOf chunks i) else poolVar (poolOf chunks i)))

/-- `store(bessel)` succeeds iff something was accumulated and it holds the documented minimum
number of frames (1, or 2 under Bessel's correction). -/
def storeOk (pending : List (List (List Rat))) (bessel : Bool) : Bool :=
  !pending.isEmpty && decide ((if bessel then 2 else 1) ≤ framesOf pending)

/-- The chunks whose frames are in the buffers after the calls `ops`, starting with `pending`:
everything accumulated since the last `store(delete_stats=True)` that did not raise. -/
def pendingSpec (pending : List (List (List Rat))) : List MvnOp → List (List (List Rat))
  | [] => pending
  | .accumulate c :: ops => pendingSpec (pending ++ [c]) ops
  | .store del bessel :: ops =>
    if del && storeOk pending bessel then pendingSpec [] ops else pendingSpec pending ops

/-- The stored statistics after the calls `ops`: those of the last `store` that did not raise —
the pooled statistics of the chunks pending at that moment — else what was there before. -/
def statsSpec (pending : List (List (List Rat))) (cur : Option (List Rat × List Rat)) :
    List MvnOp → Option (List Rat × List Rat)
  | [] => cur
  | .accumulate c :: ops => statsSpec (pending ++ [c]) cur ops
  | .store del bessel :: ops =>
    if storeOk pending bessel then
      statsSpec (if del then [] else pending) (some (pooledStats pending bessel)) ops
    else statsSpec pending cur ops

/-! ## Deltas -/

/-- `Σ_{k=1..w} k · (e(t+k) − e(t−k))`. -/
def regNumer (e : Int → Rat) (t : Int) : Nat → Rat
  | 0 => 0
  | k + 1 => ((k + 1 : Nat) : Rat) * (e (t + (k + 1 : Nat)) - e (t - (k + 1 : Nat))) + regNumer e t k

/-- One regression step: `Δe(t) = Σ_{k=1..w} k (e(t+k) − e(t−k)) / (2 Σ_{k=1..w} k²)`. -/
def regDelta (w : Nat) (e : Int → Rat) (t : Int) : Rat :=
  regNumer e t w / ((2 * sumSquares w : Nat) : Rat)

/-- Deltas of order `u` of the (already extended) signal `e`: order 0 is the signal. -/
def deltaSpec (w : Nat) (e : Int → Rat) : Nat → Int → Rat
  | 0 => e
  | u + 1 => regDelta w (deltaSpec w e u)

/-- Deltas of orders `0..order` of one row: the recursive formula on the row extended by the
chosen padding, read off at `t = 0..T-1`. -/
def deltaRowSpec (mode : PadMode) (order w : Nat) (row : List Rat) : List (List Rat) :=
  (List.range (order + 1)).map (fun u =>
    (List.range row.length).map (fun (t : Nat) => deltaSpec w (extAt mode row) u (t : Int)))

/-- The output of `feat_deltas` as an index map (`td`, `dm` already normalised): the output has
the shape of `x` with a new axis of size `order+1` inserted at `dm` (stack) or with axis `dm`
multiplied by `order+1` (concatenate, order-major); its entry at `(…, u, …)` is the order-`u`
delta along `td` of the 1-D signal through the remaining coordinates. -/
def featDeltasIndexMap (x : Tensor) (td dm : Nat) (concatenate : Bool) (order w : Nat)
    (mode : PadMode) : Tensor :=
  let T := x.shape.getD td 1
  let S := x.shape.getD dm 1
  let oshape :=
    if concatenate then x.shape.set dm (S * (order + 1))
    else x.shape.take dm ++ [order + 1] ++ x.shape.drop dm
  let data := (List.range (prod oshape)).map (fun k =>
    let o := unravel oshape k
    let u := if concatenate then o.getD dm 0 / S else o.getD dm 0
    let idx := if concatenate then o.set dm (o.getD dm 0 % S) else o.eraseIdx dm
    let signal := (List.range T).map (fun i => x.data.getD (ravel x.shape (idx.set td i)) 0)
    deltaSpec w (extAt mode signal) u (idx.getD td 0 : Nat))
  { shape := oshape, data := data }

/-- The whole of `feat_deltas`: the argument checks (width ≥ 1, `time_dim` and `dim` in range,
at least one frame along `time_dim`, a padding the mode allows for that number of frames —
whether or not the tensor has any entry), then the index map. -/
def featDeltasSpec (x : Tensor) (dim timeDim : Int) (concatenate : Bool) (order w : Nat)
    (mode : PadMode) : Option Tensor := do
  if w < 1 then none
  let D := x.shape.length
  let td ← normDim timeDim D
  let dm ← normDim dim (if concatenate then D else D + 1)
  let T := x.shape.getD td 1
  if T = 0 ∨ !(padLegal mode (w * order) T) then none
  pure (featDeltasIndexMap x td dm concatenate order w mode)

/-! ## Returns -/

/-- `R = r₀ + γ (r₁ + γ (r₂ + …))`, the return of the first step of a reward sequence. -/
def retSpec (g : Rat) : List Rat → Rat
  | [] => 0
  | x :: xs => x + g * retSpec g xs

/-- All returns of a reward sequence: `R_t` for `t = 0..T-1`. -/
def returnsSpec (g : Rat) (rs : List Rat) : List Rat :=
  (List.range rs.length).map (fun t => retSpec g (rs.drop t))

end PdtVerif.FeatStats
