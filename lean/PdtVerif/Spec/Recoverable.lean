import PdtVerif.Model.Checkpoint
/-!
# Spec for C16: what "recoverable" means for the files a killed process leaves behind

`Rec P vals tr d`: a controller started on disk `d`
* reads a history that is a prefix of the uninterrupted one (exactly the rows of epochs `1..k`,
  header in place, `k ≤ vals.length`; a row is identified by its epoch, see the model's header),
* can load model and optimizer of the last recorded epoch `k` and of the best recorded epoch
  `bestOf (vals.take k)`, and gets exactly the states `U tr k` and `U tr best` an uninterrupted run
  saved for them.
Anything else may lie around (temp files, superseded checkpoints): garbage is allowed.

`SafeAt` / `SafeFmt`: the file-name condition under which an update is crash safe (checkpoint
before history row); `Inj` (formats with `{epoch}`) implies it for every metric history.

`ExactLB`: the directory holds the files of the last and best recorded epoch and nothing else.
`AllLoadable`: every recorded epoch can be loaded with exactly its state.
-/
namespace PdtVerif.Checkpoint

/-- The history file is one the code can keep appending to: absent, empty, or header first. -/
def csvHealthy : Option (List Line) → Bool
  | none => true
  | some [] => true
  | some (.header :: _) => true
  | some (.row _ :: _) => false
  | some (.torn :: _) => false

def Rec (P : Params) (vals : List (Option Int)) (tr : Train) (d : Disk) : Prop :=
  ∃ k, recorded d = some k ∧ csvHealthy d.csv = true ∧ k ≤ vals.length ∧
    loadState P d k = some (U tr k) ∧
    loadState P d (bestOf (vals.take k)) = some (U tr (bestOf (vals.take k)))

/-- `Rec` with the number of recorded epochs named. -/
def RecAt (P : Params) (vals : List (Option Int)) (tr : Train) (d : Disk) (k : Nat) : Prop :=
  recorded d = some k ∧ csvHealthy d.csv = true ∧ k ≤ vals.length ∧
    loadState P d k = some (U tr k) ∧
    loadState P d (bestOf (vals.take k)) = some (U tr (bestOf (vals.take k)))

theorem Rec_iff (P : Params) (vals : List (Option Int)) (tr : Train) (d : Disk) :
    Rec P vals tr d ↔ ∃ k, RecAt P vals tr d k := Iff.rfl

/-- Executable version of `Rec` (used by the driver and by `decide` in counterexamples). -/
def recOk (P : Params) (vals : List (Option Int)) (tr : Train) (d : Disk) : Bool :=
  match recorded d with
  | none => false
  | some k =>
      csvHealthy d.csv && decide (k ≤ vals.length) &&
      decide (loadState P d k = some (U tr k)) &&
      decide (loadState P d (bestOf (vals.take k)) = some (U tr (bestOf (vals.take k))))

/-- Paths of the checkpoints of epoch `e` (epoch 0 has none). -/
def epochPaths (P : Params) (e : Nat) : List Path :=
  if e = 0 then [] else [P.mpath e, P.opath e]

/-- The directory holds exactly the files of the last (`k`) and best recorded epoch. -/
def ExactLB (P : Params) (vals : List (Option Int)) (d : Disk) (k : Nat) : Prop :=
  ∀ p, (d.files.get p).isSome = true ↔
    p ∈ epochPaths P k ++ epochPaths P (bestOf (vals.take k))

def exactLBOk (P : Params) (vals : List (Option Int)) (d : Disk) (k : Nat) : Bool :=
  let want := epochPaths P k ++ epochPaths P (bestOf (vals.take k))
  d.files.all (fun x => want.contains x.1) && want.all (fun p => (d.files.get p).isSome)

/-- Every recorded epoch `1..k` is loadable with exactly the state saved for it. -/
def AllLoadable (P : Params) (tr : Train) (d : Disk) (k : Nat) : Prop :=
  ∀ j, 1 ≤ j → j ≤ k → loadState P d j = some (U tr j)

/-- `RecAt` plus: every recorded epoch is loadable with exactly its state (keep-everything mode). -/
def RecAll (P : Params) (vals : List (Option Int)) (tr : Train) (d : Disk) (k : Nat) : Prop :=
  RecAt P vals tr d k ∧ AllLoadable P tr d k

/-- File-name formats that are injective in the epoch (they contain the `{epoch}` field). -/
structure Inj (P : Params) : Prop where
  km : ∀ a b, P.km a = P.km b → a = b
  ko : ∀ a b, P.ko a = P.ko b → a = b

/-- The update of epoch `k+1` is *checkpoint-first*: it does not refuse and the code's
`save_info_first` is `False` — the new file names differ from those of the last and of the
last-best epoch (keep-last-and-best) / of every recorded epoch (keep-everything). Depends on the
formats and the metric history only, not on the disk. -/
def SafeAt (P : Params) (vals : List (Option Int)) (k : Nat) : Prop :=
  refuses P vals k = false ∧ infoFirst Quirks.fixed P vals k Disk.blank = false

/-- Every update of the metric history is checkpoint-first. Weaker than `Inj`: formats that depend
on a metric (or on the epoch modulo something) qualify for the histories on which no two epochs that
are alive together share a name. -/
def SafeFmt (P : Params) (vals : List (Option Int)) : Prop :=
  ∀ k, k < vals.length → SafeAt P vals k

/-- Keep-last-and-best: the last epoch `k` and the best epoch do not share a file name (unless they
are the same epoch). Established by every update that did not refuse (`refuses … (k-1) = false`). -/
def Sep (P : Params) (vals : List (Option Int)) (k : Nat) : Prop :=
  P.keepLB = true → bestOf (vals.take k) ≠ k →
    P.km k ≠ P.km (bestOf (vals.take k)) ∧ P.ko k ≠ P.ko (bestOf (vals.take k))

end PdtVerif.Checkpoint
