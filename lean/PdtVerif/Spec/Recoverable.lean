import PdtVerif.Model.Checkpoint
/-!
# Spec for C16: what "recoverable" means for the files a killed process leaves behind

`Rec P vals tr d`: a controller started on disk `d`
* reads a history that is a prefix of the uninterrupted one (exactly the rows of epochs `1..k`,
  header in place, `k ≤ vals.length`; a row is identified by its epoch, see the model's header),
* can load model and optimizer of the last recorded epoch `k` and of the best recorded epoch
  `bestOf (vals.take k)`, and gets exactly the states `U tr k` and `U tr best` an uninterrupted run
  saved for them.
Anything else may lie around (temp files, superseded checkpoints): garbage is allowed.

`SafeAt` / `SafeFmt`: the file-name condition under which an update is crash safe (checkpoint
before history row); `Inj` (formats with `{epoch}`) implies it for every metric history.

`ExactLB`: the directory holds the files of the last and best recorded epoch and nothing else.
`AllLoadable`: every recorded epoch can be loaded with exactly its state.
-/
namespace PdtVerif.Checkpoint

/-- The history file is one the code can keep appending to: absent, empty, or header first. -/
def csvHealthy : Option (List Line) → Bool
  | none => true
  | some [] => true
  | some (.header :: _) => true
  | some (.row _ :: _) => false
  | some (.torn :: _) => false

def Rec (P : Params) (vals : List (Option Int)) (tr : Train) (d : Disk) : Prop :=
  ∃ k, recorded d = some k ∧ csvHealthy d.csv = true ∧ k ≤ vals.length ∧
    loadState P d k = some (U tr k) ∧
    loadState P d (bestOf (vals.take k)) = some (U tr (bestOf (vals.take k)))

/-- `Rec` with the number of recorded epochs named. -/
def RecAt (P : Params) (vals : List (Option Int)) (tr : Train) (d : Disk) (k : Nat) : Prop :=
  recorded d = some k ∧ csvHealthy d.csv = true ∧ k ≤ vals.length ∧
    loadState P d k = some (U tr k) ∧
    loadState P d (bestOf (vals.take k)) = some (U tr (bestOf (vals.take k)))

theorem Rec_iff (P : Params) (vals : List (Option Int)) (tr : Train) (d : Disk) :
    Rec P vals tr d ↔ ∃ k, RecAt P vals tr d k := Iff.rfl

/-- Executable version of `Rec` (used by the driver and by `decide` in counterexamples). -/
def recOk (P : Params) (vals : List (Option Int)) (tr : Train) (d : Disk) : Bool :=
  match recorded d with
  | none => false
  | some k =>
      csvHealthy d.csv && decide (k ≤ vals.length) &&
      decide (loadState P d k = some (U tr k)) &&
      decide (loadState P d (bestOf (vals.take k)) = some (U tr (bestOf (vals.take k))))

/-- Paths of the checkpoints of epoch `e` (epoch 0 has none). -/
def epochPaths (P : Params) (e : Nat) : List Path :=
  if e = 0 then [] else [P.mpath e, P.opath e]

/-- The directory holds exactly the files of the last (`k`) and best recorded epoch. -/
def ExactLB (P : Params) (vals : List (Option Int)) (d : Disk) (k : Nat) : Prop :=
  ∀ p, (d.files.get p).isSome = true ↔
    p ∈ epochPaths P k ++ epochPaths P (bestOf (vals.take k))

def exactLBOk (P : Params) (vals : List (Option Int)) (d : Disk) (k : Nat) : Bool :=
  let want := epochPaths P k ++ epochPaths P (bestOf (vals.take k))
  d.files.all (fun x => want.contains x.1) && want.all (fun p => (d.files.get p).isSome)

/-- Every recorded epoch `1..k` is loadable with exactly the state saved for it. -/
def AllLoadable (P : Params) (tr : Train) (d : Disk) (k : Nat) : Prop :=
  ∀ j, 1 ≤ j → j ≤ k → loadState P d j = some (U tr j)

/-- `RecAt` plus: every recorded epoch is loadable with exactly its state (keep-everything mode). -/
def RecAll (P : Params) (vals : List (Option Int)) (tr : Train) (d : Disk) (k : Nat) : Prop :=
  RecAt P vals tr d k ∧ AllLoadable P tr d k

/-- File-name formats that are injective in the epoch (they contain the `{epoch}` field). -/
structure Inj (P : Params) : Prop where
  km : ∀ a b, P.km a = P.km b → a = b
  ko : ∀ a b, P.ko a = P.ko b → a = b

/-- The update of epoch `k+1` is *checkpoint-first*: it does not refuse and the code's
`save_info_first` is `False` — the new file names differ from those of the last and of the
last-best epoch (keep-last-and-best) / of every recorded epoch (keep-everything). Depends on the
formats and the metric history only, not on the disk. -/
def SafeAt (P : Params) (vals : List (Option Int)) (k : Nat) : Prop :=
  refuses P vals k = false ∧ infoFirst Quirks.fixed P vals k Disk.blank = false

/-- Every update of the metric history is checkpoint-first. Weaker than `Inj`: formats that depend
on a metric (or on the epoch modulo something) qualify for the histories on which no two epochs that
are alive together share a name. -/
def SafeFmt (P : Params) (vals : List (Option Int)) : Prop :=
  ∀ k, k < vals.length → SafeAt P vals k

/-- Keep-last-and-best: the last epoch `k` and the best epoch do not share a file name (unless they
are the same epoch). Established by every update that did not refuse (`refuses … (k-1) = false`). -/
def Sep (P : Params) (vals : List (Option Int)) (k : Nat) : Prop :=
  P.keepLB = true → bestOf (vals.take k) ≠ k →
    P.km k ≠ P.km (bestOf (vals.take k)) ∧ P.ko k ≠ P.ko (bestOf (vals.take k))

/-! ## any order of the calls of a save (see `Model/Checkpoint.lean`, `saveOrders`)

`Shuffle as bs l`: the declarative notion the executable `shuffles` enumerates (`mem_shuffles_iff`).
`Disk.Eqv`: two disks no controller can tell apart. `RunsAny` / `KilledAny` / `CrashesAny`: process lifetimes
in which EVERY update may make its calls in any order the model admits (`updateOrders`) — the relational
counterpart of `runLoop` / `crashSession` / `faulty`, which fix the pinned code's order. -/

/-- `l` is an interleaving of `as` and `bs`: each keeps its own order. -/
inductive Shuffle {α : Type} : List α → List α → List α → Prop
  | nil : Shuffle [] [] []
  | left {a : α} {as bs l : List α} : Shuffle as bs l → Shuffle (a :: as) bs (a :: l)
  | right {b : α} {as bs l : List α} : Shuffle as bs l → Shuffle as (b :: bs) (b :: l)

/-- Two disks a controller cannot tell apart: the same file under every path, the same history. -/
def Disk.Eqv (d d' : Disk) : Prop := (∀ q, d.files.get q = d'.files.get q) ∧ d.csv = d'.csv

/-- A process with `k` epochs cached, holding state `s`, on disk `d` completes some further updates — each one
in ANY order the model admits (`updateOrders`: any interleaving of the save pipelines, clean-up in any
order) — and then has `k'` epochs cached, holds `s'`, and the disk is `d'`. -/
inductive RunsAny (Q : Quirks) (P : Params) (vals : List (Option Int)) (tr : Train) :
    Nat → St → Disk → Nat → St → Disk → Prop
  | refl (k : Nat) (s : St) (d : Disk) : RunsAny Q P vals tr k s d k s d
  | step {k : Nat} {s : St} {d : Disk} {k' : Nat} {s' : St} {d' : Disk} (rm : List Path) (L : List FsOp) :
      k < vals.length → L ∈ updateOrders Q P vals k d (tr.step (k + 1) s) rm →
      RunsAny Q P vals tr (k + 1) (tr.step (k + 1) s) (exec d L) k' s' d' →
      RunsAny Q P vals tr k s d k' s' d'

/-- One process lifetime that ends in a kill: a new controller on `d`, load, some complete updates, then the
first `i` calls of the next update (`torn`: call `i` is a `torch.save` that got half-way) — every update in
any admitted order. -/
inductive KilledAny (Q : Quirks) (P : Params) (vals : List (Option Int)) (tr : Train) (d : Disk) : Disk → Prop
  | mk {k : Nat} {s : St} {k' : Nat} {s' : St} {d1 : Disk} (rm : List Path) (L : List FsOp) (i : Nat)
      (torn : Bool) :
      startSession P d = some (k, s) → RunsAny Q P vals tr k s d k' s' d1 → k' < vals.length →
      L ∈ updateOrders Q P vals k' d1 (tr.step (k' + 1) s') rm →
      KilledAny Q P vals tr d (if torn then tornDisk tearW d1 L i else exec d1 (L.take i))

/-- Any number of such lifetimes, one after the other, each on the files the previous one left. -/
inductive CrashesAny (Q : Quirks) (P : Params) (vals : List (Option Int)) (tr : Train) : Disk → Disk → Prop
  | nil (d : Disk) : CrashesAny Q P vals tr d d
  | cons {d d1 d2 : Disk} : KilledAny Q P vals tr d d1 → CrashesAny Q P vals tr d1 d2 →
      CrashesAny Q P vals tr d d2

end PdtVerif.Checkpoint
