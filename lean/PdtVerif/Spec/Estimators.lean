import PdtVerif.Model.Estimators
/-!
# C19 — declarative side: exact expectations and averages over the whole sample space

Mathlib-free and executable (the driver evaluates these over `Rat`).

A finite sample space is a list of points; each point carries its probability `p`, the
directional derivative `dp` of that probability along the chosen direction of parameter
space (a *formal tangent*: nothing is assumed about it except what a theorem states),
and the values of the integrand / control variate at the point.
-/
namespace PdtVerif.Estimators

structure Pt (α : Type) where
  /-- `P(b)` -/
  p : α
  /-- derivative of `P(b)` along the direction under consideration -/
  dp : α
  /-- `func(b)` (with its own gradient, usually 0) -/
  f : Dual α
  /-- `cv(b)` -/
  c : Dual α
  /-- the float value of `log P(b)` as the implementation computed it (it cancels) -/
  lv : α
deriving Repr

section
variable {α : Type} [Zero α] [One α] [Add α] [Sub α] [Mul α] [Div α] [NatCast α]

def Dual.smul (w : α) (a : Dual α) : Dual α := ⟨w * a.val, w * a.grad⟩

/-- `P(b)` as a dual number -/
def Pt.pD (b : Pt α) : Dual α := ⟨b.p, b.dp⟩

/-- `log P(b)` as a dual number: value as computed, gradient `P'(b)/P(b)` -/
def Pt.logpD (b : Pt α) : Dual α := ⟨b.lv, b.dp / b.p⟩

/-- **Exact expectation and its exact derivative**: `Σ_b P(b)·g(b)` as a dual number, i.e.
value `Σ P g` and gradient `Σ (P' g + P g')`. -/
def expectD (Ω : List (Pt α)) (g : Pt α → Dual α) : Dual α :=
  Dual.sum (Ω.map fun b => b.pD * g b)

/-- all `N`-tuples over `Ω` (the sample space of `N` i.i.d. draws) -/
def tuples {β : Type} : Nat → List β → List (List β)
  | 0, _ => [[]]
  | n + 1, Ω => Ω.flatMap fun b => (tuples n Ω).map (b :: ·)

/-- probability of a tuple of independent draws -/
def weight {β : Type} (w : β → α) (t : List β) : α := (t.map w).foldr (· * ·) 1

/-- **Average over the whole sample space** `Ω^N` of the value and of the gradient returned
by an estimator `G`; the weights are plain numbers (they are not differentiated). -/
def meanOver {β : Type} (w : β → α) (N : Nat) (Ω : List β) (G : List β → Dual α) : Dual α :=
  Dual.sum ((tuples N Ω).map fun t => Dual.smul (weight w t) (G t))

/-- what `DirectEstimator` sees at point `b` -/
def Pt.directSample (useCv : Bool) (b : Pt α) : DirectSample α :=
  ⟨b.f, if useCv then some b.c else none, b.logpD⟩

end

/-- Point of the sample space of an importance-sampling problem: proposal probability `q`
(tangent `dq`: along proposal parameters), density `P(b)` as a dual number, `func(b)`. -/
structure ISPt (α : Type) where
  q : α
  dq : α
  p : Dual α
  f : Dual α
deriving Repr

def ISPt.sample {α : Type} (b : ISPt α) : ISSample α := ⟨b.f, b.p, ⟨b.q, b.dq⟩⟩

/-! ## Conditional relaxed samples: what `csample` is meant to return

`csample(b)` must be distributed as the relaxed sample given that it thresholds to `b`.  In
reparametrised form (uniform `v`) this is a closed formula in the distribution's OWN parameters —
the `logits` that `rsample` and `log_prob` use.  The code evaluates the formula with
`clamp_probs(self.probs)` instead; the two agree while the clamp is inactive. -/
section RelaxedSpec
variable {α : Type} [Zero α] [One α] [Add α] [Sub α] [Mul α] [Div α] [Neg α] [OfNat α 2]
  [LT α] [DecidableLT α] (T : Transc α)

/-- LogisticBernoulli: `z(u)` at the uniform point of the region of `b`, written with
`q = P(H(z) ≠ b) = σ((1 − 2b)·logits)` (no `1 − σ` cancellation): `C19_csample_spec`. -/
def lbCsampleSpec (eps logit v b : α) : α :=
  let q := (1 - b) * T.sigmoid logit + b * T.sigmoid (-logit)
  (2 * b - 1) * T.log (v / ((1 - v) * q) + 1) + b * eps

/-- GumbelOneHotCategorical: the code's formula with the class probabilities `exp(logits)` -/
def gCsampleSpec (eps : α) (logits vs b : List α) : List α :=
  gCsample T eps (logits.map T.exp) vs b

end RelaxedSpec

end PdtVerif.Estimators
