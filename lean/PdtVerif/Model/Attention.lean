/-!
# Model of `_attn.py` (global soft attention and multi-headed attention)

The model is written for ONE element of the broadcast batch: a query vector `q`, and per
sequence position `t` a key vector `ks[t]`, a value vector `vs[t]` and a keep flag
`mask[t]` (`mask = none` is the call without a mask).  Broadcasting a query against batched
keys is torch behaviour; the harness expands the tensors explicitly and feeds every element
of the broadcast batch to this model (and separately checks implicit = explicit expansion).

It follows `GlobalSoftAttention.forward`:

    e = self.score(query, key)                    -- `score`, three flavours
    e = e.masked_fill(~mask, -inf)                -- `maskedExp`: e(-inf) = 0
    a = softmax(e, dim)                           -- `softmaxMasked`: w_t = e(s_t) / Σ e(s_·)
    return (a.unsqueeze(-1) * value).sum(dim)     -- `wsumCoord`, one output coordinate each

The carrier `κ` only needs `+ * / 0`; `exp` and `tanh` are PARAMETERS (`e`, `th`).  The
theorems instantiate `κ` with an arbitrary linearly ordered field and assume only
`∀ x, 0 < e x`; the driver instantiates `κ := Float`, `e := Float.exp`, `th := Float.tanh`
for the tolerance stream.  All elements of `κ` are finite numbers: the model does not
contain `±inf`/`nan`, which is exactly the finiteness restriction of `C20_blind`.

`MultiHeadedAttention`: `MHA` holds what the constructor creates (`build` is the
constructor's wiring of the four bias flags), `mhaForward` is `forward` for one broadcast
element: project with `WQ/WK/WV`, `unflatten` into heads, call the wrapped single-head
attention with the head axis as one more batch axis and the mask `unsqueeze`d so that it
broadcasts along the head axis, `flatten`, project with `WC`.

No Mathlib imports here: this file is also used by the driver.
-/
namespace PdtVerif.Attention

section Generic
variable {κ : Type} [Add κ] [Mul κ] [Div κ] [Zero κ]

/-- `(x * y).sum(-1)`. -/
def dot (x y : List κ) : κ := (List.zipWith (· * ·) x y).sum

/-- `torch.nn.functional.linear(x, W, b)`: `W` has one row per output coordinate. -/
def linear (W : List (List κ)) (b : Option (List κ)) (x : List κ) : List κ :=
  match b with
  | none => W.map (fun r => dot x r)
  | some b => List.zipWith (· + ·) (W.map (fun r => dot x r)) b

/-- The three score functions with their parameters. -/
inductive Flavour (κ : Type) where
  /-- `DotProductSoftAttention(scale_factor)` -/
  | dot (scale : κ)
  /-- `GeneralizedDotProductSoftAttention`: `weight` (query_size × key_size), optional `bias` -/
  | general (W : List (List κ)) (b : Option (List κ))
  /-- `ConcatSoftAttention`: `weight` (hidden × (query_size + key_size)), optional `bias`, `v` -/
  | concat (W : List (List κ)) (b : Option (List κ)) (v : List κ)

/-- `score(query, key)` at one position. `th` stands for `tanh`. -/
def score (th : κ → κ) : Flavour κ → List κ → List κ → κ
  | .dot c, q, k => dot q k * c
  | .general W b, q, k => dot q (linear W b k)
  | .concat W b v, q, k => dot ((linear W b (q ++ k)).map th) v

/-- `exp` of the scores after `masked_fill(~mask, -inf)`: masked positions give exactly 0. -/
def maskedExp (e : κ → κ) (ss : List κ) (mask : List Bool) : List κ :=
  List.zipWith (fun s m => if m then e s else 0) ss mask

/-- `softmax` over the sequence dimension of the masked scores. -/
def softmaxMasked (e : κ → κ) (ss : List κ) (mask : List Bool) : List κ :=
  let ex := maskedExp e ss mask
  let Z := ex.sum
  ex.map (· / Z)

/-- Coordinate `d` of `(a.unsqueeze(-1) * value).sum(dim)`. -/
def wsumCoord (ws : List κ) (vs : List (List κ)) (d : Nat) : κ :=
  (List.zipWith (fun w v => w * v.getD d 0) ws vs).sum

/-- The mask actually applied: no mask = keep everything. -/
def effMask (mask : Option (List Bool)) (T : Nat) : List Bool :=
  mask.getD (List.replicate T true)

/-- The attention weights `a` of `forward`. -/
def weights (th e : κ → κ) (fl : Flavour κ) (q : List κ) (ks : List (List κ))
    (mask : Option (List Bool)) : List κ :=
  softmaxMasked e (ks.map (score th fl q)) (effMask mask ks.length)

/-- `GlobalSoftAttention.forward` for one broadcast element; `D` = size of the last
dimension of `value`. -/
def attend (th e : κ → κ) (fl : Flavour κ) (D : Nat) (q : List κ) (ks vs : List (List κ))
    (mask : Option (List Bool)) : List κ :=
  let ws := weights th e fl q ks mask
  (List.range D).map (wsumCoord ws vs)

/-! ### Block-by-block accumulation

A memory-saving implementation of the last line of `forward` does not build the full
`(E*, T, C*, D)` product: it cuts the sequence axis into consecutive blocks and adds up the weighted
sums of the blocks (`out = 0; for blk in blocks: out += (a[blk].unsqueeze(-1) * value[blk]).sum(dim)`).
`chunks ns l` is that cut for ANY list `ns` of block lengths (what is left after the last length is one
more block, so every position belongs to exactly one block; lengths may be 0 or overshoot);
`attendChunked` is `attend` with the weighted sum accumulated over the blocks by a left fold.
`C20_chunked` / `C20_chunked_any_order` prove that this is `attend`, whatever the blocks and whatever the
order in which they are visited. -/

/-- Consecutive blocks of the given lengths, the remainder as a last block. -/
def chunks {α : Type} : List Nat → List α → List (List α)
  | [], l => [l]
  | n :: ns, l => l.take n :: chunks ns (l.drop n)

/-- The blocks of weights paired with the blocks of values. -/
def blocks (ns : List Nat) (ws : List κ) (vs : List (List κ)) : List (List κ × List (List κ)) :=
  (chunks ns ws).zip (chunks ns vs)

/-- `out = 0; for (a_blk, v_blk) in bs: out += (a_blk * v_blk).sum()` for coordinate `d`. -/
def accumulate (bs : List (List κ × List (List κ))) (d : Nat) : κ :=
  bs.foldl (fun acc p => acc + wsumCoord p.1 p.2 d) 0

/-- Coordinate `d` of the weighted sum accumulated block by block. -/
def wsumChunked (ns : List Nat) (ws : List κ) (vs : List (List κ)) (d : Nat) : κ :=
  accumulate (blocks ns ws vs) d

/-- `forward` with the weighted sum accumulated over the consecutive blocks `ns` describes. -/
def attendChunked (th e : κ → κ) (fl : Flavour κ) (D : Nat) (ns : List Nat) (q : List κ)
    (ks vs : List (List κ)) (mask : Option (List Bool)) : List κ :=
  let ws := weights th e fl q ks mask
  (List.range D).map (wsumChunked ns ws vs)

/-! ## Multi-headed attention -/

/-- What `MultiHeadedAttention.__init__` creates. -/
structure MHA (κ : Type) where
  numHeads : Nat
  dq : Nat
  dk : Nat
  dv : Nat
  WQ : List (List κ)
  WK : List (List κ)
  WV : List (List κ)
  WC : List (List κ)
  bQ : Option (List κ)
  bK : Option (List κ)
  bV : Option (List κ)
  bC : Option (List κ)
  inner : Flavour κ

/-- The bias flags a caller passes to the constructor. -/
structure BiasFlags where
  wq : Bool
  wk : Bool
  wv : Bool
  wc : Bool
  deriving Repr, DecidableEq

/-- Everything else the constructor is given / initialises (the bias vectors are the ones
`torch.nn.Linear` would allocate if asked to). -/
structure MHAParams (κ : Type) where
  numHeads : Nat
  dq : Nat
  dk : Nat
  dv : Nat
  WQ : List (List κ)
  WK : List (List κ)
  WV : List (List κ)
  WC : List (List κ)
  bQ : List κ
  bK : List κ
  bV : List κ
  bC : List κ
  inner : Flavour κ

/-- How the constructor turns the requested flags into the flags handed to the four
`torch.nn.Linear`s. `repaired`: each projection gets its own flag. -/
def wireFlags (f : BiasFlags) : BiasFlags := f

/-- The PINNED constructor: `bias_WK = is_bool(bias_WQ)`, `bias_WV = is_bool(bias_WQ)`. -/
def wireFlagsPinned (f : BiasFlags) : BiasFlags := { f with wk := f.wq, wv := f.wq }

def optBias (flag : Bool) (b : List κ) : Option (List κ) := if flag then some b else none

/-- `MultiHeadedAttention.__init__` given the flag wiring. -/
def buildWith (wire : BiasFlags → BiasFlags) (f : BiasFlags) (p : MHAParams κ) : MHA κ :=
  let g := wire f
  { numHeads := p.numHeads, dq := p.dq, dk := p.dk, dv := p.dv,
    WQ := p.WQ, WK := p.WK, WV := p.WV, WC := p.WC,
    bQ := optBias g.wq p.bQ, bK := optBias g.wk p.bK, bV := optBias g.wv p.bV,
    bC := optBias g.wc p.bC, inner := p.inner }

/-- The (repaired) constructor. -/
def build (f : BiasFlags) (p : MHAParams κ) : MHA κ := buildWith wireFlags f p

/-- `unflatten(x, -1, [H, d])`: row `h` is `x[h*d : (h+1)*d]`. -/
def unflatten (H d : Nat) (x : List κ) : List (List κ) :=
  (List.range H).map (fun h => (x.drop (h * d)).take d)

/-- Reading index `i` of an axis that torch broadcasts: a size-1 axis repeats its entry. -/
def bget {α : Type} (r : List α) (i : Nat) (dflt : α) : α :=
  if r.length = 1 then r.getD 0 dflt else r.getD i dflt

/-! ### The sequence axis of the scores against the sequence axis of the values (audit E)

`check_input` only asks that scores, mask and value be jointly BROADCASTABLE.  It therefore also accepts a
call in which neither `key` nor `mask` has the full length at the sequence axis (size 1 there) while `value`
has `T > 1` positions — not a documented shape (`key (B*, T, C*, K)`, `value (B*, T, C*, D)` share `T`).
`forward` then takes the softmax over the scores' OWN axis (one entry: weight 1) and
`a.unsqueeze(-1) * value` broadcasts that weight along the `T` values: the result is the SUM of the values,
not their average.  `attend` (and `tensorApply` below, which reads the key through broadcasting and so
normalises over `T` equal scores) does NOT describe the code there; `attendSeqB` does: the weights are taken
over the positions the scores have and are then read through broadcasting (`bget`) along the positions of
`value`.  With as many score positions as values it IS `attend` (`C20_seq_axis_carried`); the theorems
about whole calls carry the guard `seqAxisCarried`. -/

/-- `forward` for one broadcast element when the scores have `ks.length` positions and `value` has
`vs.length`: `(a.unsqueeze(-1) * value).sum(dim)` with `a` broadcast along the sequence axis. -/
def attendSeqB (th e : κ → κ) (fl : Flavour κ) (D : Nat) (q : List κ) (ks vs : List (List κ))
    (mask : Option (List Bool)) : List κ :=
  let ws := weights th e fl q ks mask
  (List.range D).map (wsumCoord ((List.range vs.length).map (fun t => bget ws t 0)) vs)

/-- The part of `forward` after the mask has been given its head axis: `hm h` is the mask
seen by head `h` once torch has broadcast it against the `(…, T, …, H)` scores. -/
def mhaCore (th e : κ → κ) (m : MHA κ) (q : List κ) (ks vs : List (List κ))
    (hm : Nat → Option (List Bool)) : List κ :=
  let qh := unflatten m.numHeads m.dq (linear m.WQ m.bQ q)
  let kh := ks.map (fun k => unflatten m.numHeads m.dk (linear m.WK m.bK k))
  let vh := vs.map (fun v => unflatten m.numHeads m.dv (linear m.WV m.bV v))
  let heads := (List.range m.numHeads).map (fun h =>
    attend th e m.inner m.dv (qh.getD h []) (kh.map (·.getD h [])) (vh.map (·.getD h [])) (hm h))
  linear m.WC m.bC heads.flatten

/-- `mask.unsqueeze(-1)` of a `(T,)` mask: shape `(T, 1)`. -/
def unsqueezeLast (mask : List Bool) : List (List Bool) := mask.map (fun b => [b])

/-- `MultiHeadedAttention.forward` (repaired: `mask.unsqueeze(-1)`) for one broadcast
element: the `(T, 1)` mask is broadcast along the head axis by torch. -/
def mhaForward (th e : κ → κ) (m : MHA κ) (q : List κ) (ks vs : List (List κ))
    (mask : Option (List Bool)) : List κ :=
  mhaCore th e m q ks vs
    (fun h => mask.map (fun mm => (unsqueezeLast mm).map (fun r => bget r h false)))

/-! ### Per-head stand-ins for `exp` (what a max-subtracting softmax computes)

`torch.softmax` subtracts the largest score of each softmax column before exponentiating; with
strongly negative scores the plain `exp` underflows in floating point while the shifted one
does not.  `mhaCoreH` / `mhaForwardH` are `mhaCore` / `mhaForward` with a separate function
`eh h` in place of `exp` for head `h`; the driver runs them with `eh h x = exp (x - c_h)`,
`c_h` the largest kept score of head `h` (`mhaHeadScores`).  `C20_shift_invariant` /
`C20_multihead_shift` prove that this is the same function of the inputs whenever
`eh h x = e x * g_h` with `g_h ≠ 0` (here `g_h = exp (-c_h)`). -/

/-- The scores head `h` computes before masking. -/
def mhaHeadScores (th : κ → κ) (m : MHA κ) (q : List κ) (ks : List (List κ)) (h : Nat) : List κ :=
  let qh := unflatten m.numHeads m.dq (linear m.WQ m.bQ q)
  let kh := ks.map (fun k => unflatten m.numHeads m.dk (linear m.WK m.bK k))
  (kh.map (·.getD h [])).map (score th m.inner (qh.getD h []))

/-- `mhaCore` with head `h` using `eh h` in place of `exp`. -/
def mhaCoreH (th : κ → κ) (eh : Nat → κ → κ) (m : MHA κ) (q : List κ) (ks vs : List (List κ))
    (hm : Nat → Option (List Bool)) : List κ :=
  let qh := unflatten m.numHeads m.dq (linear m.WQ m.bQ q)
  let kh := ks.map (fun k => unflatten m.numHeads m.dk (linear m.WK m.bK k))
  let vh := vs.map (fun v => unflatten m.numHeads m.dv (linear m.WV m.bV v))
  let heads := (List.range m.numHeads).map (fun h =>
    attend th (eh h) m.inner m.dv (qh.getD h []) (kh.map (·.getD h [])) (vh.map (·.getD h []))
      (hm h))
  linear m.WC m.bC heads.flatten

/-- `mhaForward` with head `h` using `eh h` in place of `exp`. -/
def mhaForwardH (th : κ → κ) (eh : Nat → κ → κ) (m : MHA κ) (q : List κ)
    (ks vs : List (List κ)) (mask : Option (List Bool)) : List κ :=
  mhaCoreH th eh m q ks vs
    (fun h => mask.map (fun mm => (unsqueezeLast mm).map (fun r => bget r h false)))

/-! ### The mask axis at batch level (layout of the class docstring: `dim = 0`, query
`(B, Q)`, key `(T, B, K)`, value `(T, B, V)`, mask `(T, B)`; head tensors `(T, B, H, d)`,
scores `(T, B, H)`) -/

inductive MaskAxis where
  /-- `mask.unsqueeze(-1)`: `(T, B, 1)` (repaired) -/
  | last
  /-- `mask.unsqueeze(-2)`: `(T, 1, B)` (PINNED) -/
  | secondLast
  deriving Repr, DecidableEq

/-- Is the unsqueezed mask broadcastable against `(T, B, H)` scores and does the result keep
that shape?  (`secondLast` with `H = 1 < B` broadcasts to `(T, B, B)` and then fails in
`WC`; it is reported as not legal here.) -/
def maskAxisLegal (ax : MaskAxis) (B H : Nat) : Bool :=
  match ax with
  | .last => true
  | .secondLast => B == 1 || B == H

/-- Entry `(t, b, h)` of the unsqueezed `(T, B)` mask after broadcasting to `(T, B, H)`. -/
def headMaskView (ax : MaskAxis) (mask : List (List Bool)) (t b h : Nat) : Bool :=
  let row := mask.getD t []
  match ax with
  | .last => bget (bget (row.map (fun x => [x])) b []) h false
  | .secondLast => bget (bget [row] b []) h false

/-- `forward` for batch element `b` under either placement of the mask's head axis. `qs` is
`B × Q`; `kss`, `vss` are given batch-major (`B × T × ·`), `mask` is `T × B` as in the call. -/
def mhaBatchElem (th e : κ → κ) (ax : MaskAxis) (m : MHA κ) (qs : List (List κ))
    (kss vss : List (List (List κ))) (mask : List (List Bool)) (b : Nat) : Option (List κ) :=
  if maskAxisLegal ax qs.length m.numHeads then
    some (mhaCore th e m (qs.getD b []) (kss.getD b []) (vss.getD b [])
      (fun h => some ((List.range mask.length).map (fun t => headMaskView ax mask t b h))))
  else none

/-! ## Constructors: the optional arguments AS THE CALLER SPELLS THEM (improvement round f)

Every optional constructor argument is an `Option`: `none` = the caller omitted it (for `out_size` / `d_v`
also: passed `None`, the documented spelling of "unset").  `resolve` is what `__init__` makes of them — the
DOCUMENTED defaults: `dim = 0`, `scale_factor = 1`, `bias = False`, `hidden_size = 1000`, `out_size = value_size`,
`d_v = max(1, value_size // num_heads)`, the four `bias_W*` flags `False`.  Nothing else is kept: the modules the
model builds from a resolved configuration do not know whether an argument was passed (there is no "was it
given" state), so a call that omits an argument and a call that passes its documented default build the SAME
module.  The driver resolves the arguments of every generated construction with these functions. -/

/-- Optional arguments of `DotProductSoftAttention(size, dim, scale_factor)`,
`GeneralizedDotProductSoftAttention(query_size, key_size, dim, bias)` and
`ConcatSoftAttention(query_size, key_size, dim, bias, hidden_size)`; arguments a flavour does not have
stay `none`. -/
structure SingleArgs (κ : Type) where
  dim : Option Int := none
  scaleFactor : Option κ := none
  bias : Option Bool := none
  hiddenSize : Option Nat := none

/-- What the constructor stores. -/
structure SingleCfg (κ : Type) where
  dim : Int
  scaleFactor : κ
  bias : Bool
  hiddenSize : Nat

/-- `__init__` of the single-head flavours; `one` is the carrier's 1 (the documented `scale_factor`). -/
def SingleArgs.resolve (one : κ) (a : SingleArgs κ) : SingleCfg κ :=
  { dim := a.dim.getD 0, scaleFactor := a.scaleFactor.getD one, bias := a.bias.getD false,
    hiddenSize := a.hiddenSize.getD 1000 }

/-- The score function a dot-product module has after construction: ONLY the resolved scale. -/
def mkDot (c : SingleCfg κ) : Flavour κ := .dot c.scaleFactor

/-- … a generalised module: `b` is the vector `torch` allocates when a bias is requested. -/
def mkGeneral (c : SingleCfg κ) (W : List (List κ)) (b : Option (List κ)) : Flavour κ :=
  .general W (if c.bias then b else none)

/-- … a concat module (`W` has `hidden_size` rows, `v` has `hidden_size` entries). -/
def mkConcat (c : SingleCfg κ) (W : List (List κ)) (b : Option (List κ)) (v : List κ) : Flavour κ :=
  .concat W (if c.bias then b else none) v

/-- Optional arguments of `MultiHeadedAttention(query_size, key_size, value_size, num_heads,
single_head_attention, out_size, d_v, bias_WQ, bias_WK, bias_WV, bias_WC)`. -/
structure MultiArgs where
  outSize : Option Nat := none
  dv : Option Nat := none
  biasWQ : Option Bool := none
  biasWK : Option Bool := none
  biasWV : Option Bool := none
  biasWC : Option Bool := none

structure MultiCfg where
  outSize : Nat
  dv : Nat
  flags : BiasFlags

/-- `MultiHeadedAttention.__init__`: `out_size` defaults to `value_size`, `d_v` to
`max(1, value_size // num_heads)`, the flags to `False`.  (`d_q`, `d_k` and `dim` are read off the wrapped
module: they are not arguments.) -/
def MultiArgs.resolve (valueSize numHeads : Nat) (a : MultiArgs) : MultiCfg :=
  { outSize := a.outSize.getD valueSize, dv := a.dv.getD (max 1 (valueSize / numHeads)),
    flags := ⟨a.biasWQ.getD false, a.biasWK.getD false, a.biasWV.getD false, a.biasWC.getD false⟩ }

end Generic

/-! ## Shapes: `check_input` and the shape of the result -/

inductive ShapeErr where
  | value    -- ValueError (RuntimeError in MultiHeadedAttention.check_input)
  | runtime  -- RuntimeError from broadcasting
  deriving Repr, DecidableEq

/-- Two axis sizes are broadcastable: equal, or one of them is 1. -/
def compat1 (x y : Nat) : Bool := x == y || x == 1 || y == 1

/-- The size of the broadcast axis. -/
def pick1 (x y : Nat) : Nat := if x = 1 then y else x

/-- Broadcasting of two shapes given innermost axis first. -/
def bcastRev : List Nat → List Nat → Option (List Nat)
  | [], ys => some ys
  | xs, [] => some xs
  | x :: xs, y :: ys =>
    if compat1 x y then (bcastRev xs ys).map (fun r => pick1 x y :: r) else none

/-- `broadcast_shapes(a, b)` (trailing axes aligned). -/
def broadcastShapes (a b : List Nat) : Option (List Nat) :=
  (bcastRev a.reverse b.reverse).map List.reverse

/-- The axis of `key` that `dim` names (negative `dim` counts from the end of `key`). -/
def seqAxis (dim : Int) (keyDim : Nat) : Nat :=
  if dim ≥ 0 then dim.toNat else (dim + keyDim).toNat

/-- `x.unsqueeze(i)` on shapes / indices: a new entry at position `i`. -/
def insertAt {α : Type} (i : Nat) (x : α) (l : List α) : List α := l.take i ++ [x] ++ l.drop i

/-- `GlobalSoftAttention.check_input`: `ok full`, where `full = (E*, T, F*, D)` is the shape to which
scores (`query.unsqueeze(dim)` against `key`, last axis dropped), mask and value are jointly
broadcast.  (repaired: `dim == -1` is rejected — the pinned code tests `key_dim == -1`, which never
holds.)  `valueSize = some n` adds `MultiHeadedAttention`'s check of `value.size(-1)`. -/
def checkInputFull (querySize keySize : Nat) (valueSize : Option Nat) (dim : Int)
    (q k v : List Nat) (mask : Option (List Nat)) : Except ShapeErr (List Nat) :=
  let keyDim := k.length
  if q.length + 1 ≠ keyDim then .error .value
  else if keyDim ≠ v.length then .error .value
  else if q.getLast? ≠ some querySize then .error .value
  else if k.getLast? ≠ some keySize then .error .value
  else if dim > (keyDim : Int) - 2 ∨ dim = -1 ∨ dim < -(keyDim : Int) + 1 then .error .value
  else
    match broadcastShapes (insertAt (seqAxis dim keyDim) 1 q).dropLast k.dropLast with
    | none => .error .runtime
    | some eShape =>
      match (match mask with
        | none => some eShape
        | some ms => broadcastShapes eShape ms) with
      | none => .error .runtime
      | some eShape' =>
        match broadcastShapes (eShape' ++ [1]) v with
        | none => .error .runtime
        | some full =>
          match valueSize with
          | none => .ok full
          | some n => if v.getLast? ≠ some n then .error .value else .ok full

/-- `check_input` followed by the shape `forward` returns: the sequence axis is summed away. -/
def checkInput (querySize keySize : Nat) (valueSize : Option Nat) (dim : Int)
    (q k v : List Nat) (mask : Option (List Nat)) : Except ShapeErr (List Nat) :=
  match checkInputFull querySize keySize valueSize dim q k v mask with
  | .error err => .error err
  | .ok full => .ok (full.eraseIdx (seqAxis dim k.length))

/-! ## Tensors: broadcasting and the sequence axis as index arithmetic

A tensor is a shape and a function from multi-indices (one entry per axis) to values.  Torch's
broadcasting is the index map `bidx`: align the shapes at the LAST axis, read entry 0 along every
size-1 axis, ignore leading index entries the tensor has no axis for.  `tensorApply` is `forward` at
tensor level: `check_input`, then for every index of the output the per-element function (`attend`,
`mhaForward`) applied to what the four argument tensors hold at the broadcast positions, the sequence
axis being axis `seqAxis dim key.dim()` of key / value / mask. -/

structure Tensor (α : Type) where
  shape : List Nat
  val : List Nat → α

/-- Position read along an axis of size `n` when the broadcast index is `i`. -/
def bpos (n i : Nat) : Nat := if n = 1 then 0 else i

/-- The index at which a tensor of shape `s` is read when it is broadcast to a shape whose
multi-index is `idx`: shapes are aligned at the LAST axis (`zipWith` on the reversed lists stops at
the shorter one, so leading entries of `idx` the tensor has no axis for are ignored), a size-1
axis is read at 0. -/
def bidx (s idx : List Nat) : List Nat :=
  (List.zipWith bpos s.reverse idx.reverse).reverse

/-- Reading through broadcasting. -/
def Tensor.read {α : Type} (t : Tensor α) (idx : List Nat) : α := t.val (bidx t.shape idx)

/-- `t.expand(s)` / `t.broadcast_to(s)`: the explicitly expanded tensor. -/
def Tensor.expand {α : Type} (t : Tensor α) (s : List Nat) : Tensor α :=
  { shape := s, val := fun idx => t.read idx }

/-- What one element of the broadcast batch sees: `eidx` indexes `(E*, F*)` (sequence axis removed),
`i` is the sequence axis, `T` its length, `Q K D` the vector sizes. -/
def elemAt {κ : Type} (i T Q K D : Nat) (q k v : Tensor κ) (mask : Option (Tensor Bool))
    (eidx : List Nat) : List κ × List (List κ) × List (List κ) × Option (List Bool) :=
  ((List.range Q).map (fun j => q.read (eidx ++ [j])),
   (List.range T).map (fun t => (List.range K).map (fun j => k.read (insertAt i t eidx ++ [j]))),
   (List.range T).map (fun t => (List.range D).map (fun j => v.read (insertAt i t eidx ++ [j]))),
   mask.map (fun mt => (List.range T).map (fun t => mt.read (insertAt i t eidx))))

/-- `forward` at tensor level for a per-element function `f` returning `outSize D` numbers
(`attend …` with `outSize = id`; `mhaForward …` with `outSize = fun _ => out_size`). -/
def tensorApply {κ : Type} [Zero κ]
    (f : Nat → List κ → List (List κ) → List (List κ) → Option (List Bool) → List κ)
    (outSize : Nat → Nat) (querySize keySize : Nat) (valueSize : Option Nat) (dim : Int)
    (q k v : Tensor κ) (mask : Option (Tensor Bool)) : Except ShapeErr (Tensor κ) :=
  match checkInputFull querySize keySize valueSize dim q.shape k.shape v.shape
      (mask.map (·.shape)) with
  | .error err => .error err
  | .ok full =>
    let i := seqAxis dim k.shape.length
    let T := full.getD i 0
    let D := full.getLastD 0
    .ok { shape := (full.eraseIdx i).dropLast ++ [outSize D],
          val := fun idx =>
            let el := elemAt i T querySize keySize D q k v mask idx.dropLast
            (f D el.1 el.2.1 el.2.2.1 el.2.2.2).getD (idx.getLastD 0) 0 }

end PdtVerif.Attention
