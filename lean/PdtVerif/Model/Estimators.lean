/-!
# C19 — executable model of the estimators, relaxed distributions and combinatorics

Anchors: `_mc.py`, `_enumerate_estimator.py`, `_straight_through.py`, `_combinatorics.py`
of `pydrobert.torch`.  No Mathlib: core Lean only.  Everything numeric is generic over a
carrier `α` (executed at `Rat` — exact — and, for the transcendental formulas, at `Float`;
theorems instantiate `α` with an arbitrary field / with `ℝ`).

Modelling decisions (each mirrors what the Python does):

* A tensor that carries a gradient is a *dual number* `(val, grad)` — the value and the
  derivative along one (arbitrary) direction of parameter space.  `detach` zeroes `grad`.
  autograd is taken at its documented meaning (it returns the derivative), so `+ - *` on
  tensors are the dual-number operations.
* A log-space tensor `log x` with `x > 0` is stored as the dual number of `x` (`LogD`):
  `log a - log b` is `a / b`, `- math.log N` is `/ N`, `.exp()` gives `x` back.  The only
  place where the *value* of a log-probability is used linearly (`fb.detach() * log_pb`
  in `DirectEstimator` / `RelaxEstimator`) takes that value as an input.
* Random draws (`proposal.sample`, `torch.rand`, `torch.bernoulli`) are inputs.
-/
namespace PdtVerif.Estimators

/-! ## Dual numbers -/

structure Dual (α : Type) where
  val : α
  grad : α
deriving Repr, BEq

namespace Dual
variable {α : Type}

instance [Zero α] : Zero (Dual α) := ⟨⟨0, 0⟩⟩
instance [Add α] : Add (Dual α) := ⟨fun a b => ⟨a.val + b.val, a.grad + b.grad⟩⟩
instance [Sub α] : Sub (Dual α) := ⟨fun a b => ⟨a.val - b.val, a.grad - b.grad⟩⟩
instance [Add α] [Mul α] : Mul (Dual α) :=
  ⟨fun a b => ⟨a.val * b.val, a.grad * b.val + a.val * b.grad⟩⟩

/-- `x.detach()` -/
def detach [Zero α] (a : Dual α) : Dual α := ⟨a.val, 0⟩
/-- a tensor without gradient -/
def const [Zero α] (x : α) : Dual α := ⟨x, 0⟩
/-- division by a python number -/
def divConst [Div α] (a : Dual α) (n : α) : Dual α := ⟨a.val / n, a.grad / n⟩
/-- quotient rule -/
def div [Sub α] [Mul α] [Div α] (a b : Dual α) : Dual α :=
  ⟨a.val / b.val, (a.grad * b.val - a.val * b.grad) / (b.val * b.val)⟩

/-- `xs.sum(0)` -/
def sum [Zero α] [Add α] (xs : List (Dual α)) : Dual α := xs.foldr (· + ·) 0
/-- `xs.mean(0)` = `sum / N` -/
def mean [Zero α] [Add α] [Div α] [NatCast α] (xs : List (Dual α)) : Dual α :=
  (sum xs).divConst (xs.length : α)
end Dual

/-- `log x` for a positive dual number `x`, stored as `x` (see the header). -/
structure LogD (α : Type) where
  under : Dual α
deriving Repr

namespace LogD
variable {α : Type}
/-- `la - lb` -/
def sub [Sub α] [Mul α] [Div α] (a b : LogD α) : LogD α := ⟨a.under.div b.under⟩
/-- `l - math.log(n)` -/
def subLogConst [Div α] (a : LogD α) (n : α) : LogD α := ⟨a.under.divConst n⟩
/-- `l.detach()` (value kept, gradient `x'/x` becomes 0) -/
def detach [Zero α] (a : LogD α) : LogD α := ⟨a.under.detach⟩
/-- `l.exp()` -/
def exp (a : LogD α) : Dual α := a.under
end LogD

/-! ## The estimators' combination logic (`is_log = False`) -/

section Estimators
variable {α : Type} [Zero α] [Add α] [Sub α] [Mul α] [Div α] [NatCast α]

/-- What `DirectEstimator.__call__` sees of one Monte-Carlo sample `b`:
`func(b)`, `cv(b)` (if a control variate is configured) and `proposal.log_prob(b)`. -/
structure DirectSample (α : Type) where
  f : Dual α
  c : Option (Dual α)
  logp : Dual α

/-- `fb` for one sample: `func(b)`, or `func(b) - cv(b) + cv_mean` with a control variate. -/
def directFb (cvMean : Option (Dual α)) (s : DirectSample α) : Dual α :=
  match s.c, cvMean with
  | some c, some m => s.f - c + m
  | _, _ => s.f

/-- `DirectEstimator.__call__`, `is_log = False`.
```
fb = func(b); if cv: fb = fb - cv(b) + cv_mean
deriv = (fb.detach() * log_pb).mean(0); fb = fb.mean(0)
v = fb + deriv - deriv.detach()
``` -/
def directEstimate (ss : List (DirectSample α)) (cvMean : Option (Dual α)) : Dual α :=
  let fb : List (Dual α) := ss.map (directFb cvMean)
  let deriv := Dual.mean (List.zipWith (fun f l => f.detach * l) fb (ss.map (·.logp)))
  let fbm := Dual.mean fb
  fbm + deriv - deriv.detach

/-- One sample of `ImportanceSamplingEstimator`: `func(b)`, the density `P(b)` behind
`density.log_prob(b)` and the proposal probability `Q(b)` behind `proposal.log_prob(b)`. -/
structure ISSample (α : Type) where
  f : Dual α
  p : Dual α
  q : Dual α

/-- `ImportanceSamplingEstimator.__call__`, `self_normalize = False`, `is_log = False`.
```
lqb = lqb.detach() + 0 * lqb.sum()        # value of log Q, no gradient
llr = lpb - lqb - math.log(mc_samples)
v = (fb * llr.exp()).sum(0)
``` -/
def isEstimate (ss : List (ISSample α)) : Dual α :=
  let n : α := (ss.length : α)
  Dual.sum (ss.map fun s =>
    let lqb : LogD α := (LogD.mk s.q).detach
    let llr : LogD α := ((LogD.mk s.p).sub lqb).subLogConst n
    s.f * llr.exp)

/-- `EnumerateEstimator.__call__`, `is_log = False`: `(fb * log_pb.exp()).sum(0)` over the
enumerated support; each entry is `(func(b), P(b))`. -/
def enumerateEstimate (pts : List (Dual α × Dual α)) : Dual α :=
  Dual.sum (pts.map fun fp => fp.1 * (LogD.mk fp.2).exp)

/-- One sample of `RelaxEstimator`: `func(b)`, `cv(z)`, `cv(zcond)`, `tlog_prob(b)`. -/
structure RelaxSample (α : Type) where
  f : Dual α
  cvz : Dual α
  cvzcond : Dual α
  logp : Dual α

/-- `RelaxEstimator.__call__`, `is_log = False`, no `cv_params`.
```
fb_cvzcond = fb - cvzcond
deriv = fb_cvzcond.detach() * log_pb          # per sample
fb = (fb_cvzcond + cvz).mean(0)
v = fb + deriv - deriv.detach()               # broadcast over samples
return v.mean(0)
``` -/
def relaxEstimate (ss : List (RelaxSample α)) : Dual α :=
  let fbc : List (Dual α) := ss.map fun s => s.f - s.cvzcond
  let deriv : List (Dual α) := List.zipWith (fun x l => x.detach * l) fbc (ss.map (·.logp))
  let fbm := Dual.mean (List.zipWith (· + ·) fbc (ss.map (·.cvz)))
  Dual.mean (deriv.map fun d => fbm + d - d.detach)

/-- `StraightThroughEstimator.__call__`, `is_log = False`: `func(threshold(z)).mean(0)`. -/
def stEstimate (fbs : List (Dual α)) : Dual α := Dual.mean fbs

end Estimators

/-! ## Independent Metropolis–Hastings (no gradient) -/

section IMH
variable {α σ : Type} [Add α] [Sub α] [Div α] [NatCast α] [LT α] [DecidableLT α]

/-- The chain of `IndependentMetropolisHastingsEstimator.__call__` (one batch element).
`ratio b = density.log_prob(b) - proposal.log_prob(b)`; the list holds, for every step
`n`, the proposal draw and `log u_n` (`none` = `-inf`, i.e. `u_n = 0`).
State: step index, last sample, last ratio, running sum `v`. -/
def imhLoop (ratio : σ → α) (f : σ → α) (burnIn : Nat) :
    Nat → σ → α → Option α → List (σ × Option α) → Option α
  | _, _, _, v, [] => v
  | n, last, lastR, v, (cur, lu) :: rest =>
    let curR := ratio cur
    let accept : Bool := match lu with
      | none => true
      | some l => decide (l < curR - lastR)
    let curR' := if accept then curR else lastR
    let cur' := if accept then cur else last
    let v' : Option α :=
      if burnIn ≤ n then (if n = burnIn then some (f cur') else v.map (· + f cur')) else v
    imhLoop ratio f burnIn (n + 1) cur' curR' v' rest

/-- `find_initial_sample` for one batch element: draws are consumed until one lies in the
support of the density; at most `tries` draws. Returns the start and the unused draws. -/
def findInitial (inSupport : σ → Bool) : Nat → List σ → Option (σ × List σ)
  | 0, _ => none
  | _, [] => none
  | t + 1, d :: ds => if inSupport d then some (d, ds) else findInitial inSupport t ds

/-- Whole call: `init = some b` is a supplied `initial_sample`, `none` draws it.
`draws` are the successive results of `proposal.sample([1])`, `lus` the `log u_n`.
Result `none` = an error was raised (no start found / not enough inputs). -/
def imhEstimate (ratio : σ → α) (f : σ → α) (inSupport : σ → Bool) (mcSamples burnIn tries : Nat)
    (init : Option σ) (draws : List σ) (lus : List (Option α)) : Option α :=
  let start : Option (σ × List σ) := match init with
    | some b => some (b, draws)
    | none => findInitial inSupport tries draws
  match start with
  | none => none
  | some (b0, rest) =>
    if rest.length < mcSamples ∨ lus.length < mcSamples then none else
    match imhLoop ratio f burnIn 0 b0 (ratio b0) none
        ((rest.take mcSamples).zip (lus.take mcSamples)) with
    | none => none
    | some v => some (v / ((mcSamples - burnIn : Nat) : α))

/-! ### value semantics of the chain

`imhLoop` threads a running sum.  What it sums are VALUES: `f b_t` is computed once, at step
`t`, from the state `b_t` the chain has at that step, and is a number from then on — nothing a
later step does can change it.  The functions below say this directly: the chain as a list of
states, and the list of recorded values `f b_t` (`t ≥ burn_in`).  `C19_imh_values` proves that
`imhEstimate` is the mean of that list for ANY densities, draws and uniforms;
`C19_imh_recorded_prefix` that more steps only append to it.

In the implementation states and recorded values are tensors, and a callback may return a tensor
that shares storage with its argument (`f(b) = b`, `b[..., 0]`, `b.squeeze(-1)`, a no-op cast), or a
view of a table it keeps.  That the implementation nevertheless behaves as this list of values — no
buffer reused between steps ever reaches a recorded value, an `initial_sample`, or a tensor the
proposal / the callback handed out — is NOT provable here (the model has no storage): it is what
the correspondence checks, by running every estimator with callbacks written in each of those ways
next to the same function returning a fresh tensor. -/

/-- one step of the chain: the new state and its log-ratio -/
def imhStep (ratio : σ → α) (last : σ) (lastR : α) (cur : σ) (lu : Option α) : σ × α :=
  let curR := ratio cur
  let accept : Bool := match lu with
    | none => true
    | some l => decide (l < curR - lastR)
  (if accept then cur else last, if accept then curR else lastR)

/-- the chain states `b_1, b_2, …` (one per step), given the start and its log-ratio -/
def imhChain (ratio : σ → α) : σ → α → List (σ × Option α) → List σ
  | _, _, [] => []
  | last, lastR, (cur, lu) :: rest =>
    let s := imhStep ratio last lastR cur lu
    s.1 :: imhChain ratio s.1 s.2 rest

/-- state (and its log-ratio) after a list of steps -/
def imhAfter (ratio : σ → α) : σ → α → List (σ × Option α) → σ × α
  | last, lastR, [] => (last, lastR)
  | last, lastR, (cur, lu) :: rest =>
    let s := imhStep ratio last lastR cur lu
    imhAfter ratio s.1 s.2 rest

/-- the values the loop records: `f b_t` for the kept states, in the order of the steps -/
def imhRecorded (ratio : σ → α) (f : σ → α) (burnIn : Nat) (b0 : σ) (steps : List (σ × Option α)) :
    List α :=
  ((imhChain ratio b0 (ratio b0) steps).drop burnIn).map f

/-- the whole call as the list of recorded values (`none`: an error was raised) -/
def imhValues (ratio : σ → α) (f : σ → α) (inSupport : σ → Bool) (mcSamples burnIn tries : Nat)
    (init : Option σ) (draws : List σ) (lus : List (Option α)) : Option (List α) :=
  let start : Option (σ × List σ) := match init with
    | some b => some (b, draws)
    | none => findInitial inSupport tries draws
  match start with
  | none => none
  | some (b0, rest) =>
    if rest.length < mcSamples ∨ lus.length < mcSamples then none else
    some (imhRecorded ratio f burnIn b0 ((rest.take mcSamples).zip (lus.take mcSamples)))

/-! ### a density that vanishes on part of the proposal's support

`density.log_prob(b) = -inf` for a proposal `b` outside the density's support is the situation
`find_initial_sample` exists for.  In the loop such a proposal has `cur_ratio = -inf`; it is never accepted
(`-inf - last_ratio > log u` is false, also for `u = 0`).  What happens to the BOOK-KEEPING differs:

* pinned tree: `cur_ratio = accept * cur_ratio + (~accept) * last_ratio` is `0 · (-inf) + 1 · last_ratio = NaN`;
  `last_ratio` is NaN from then on and no comparison with NaN holds: every later proposal is rejected — the
  chain is frozen at the state it had (finding `C19.imh.ninf_ratio_poisons_chain`);
* repaired (`fixes/C19-imh-ninf-ratio.diff`, `torch.where(accept, cur_ratio, last_ratio)`): `last_ratio` stays the
  ratio of the state the chain is in.

`ratio b = none` stands for `-inf`; the start lies in the support (ratio `r0` finite). -/

/-- the log-ratio the loop carries: a number, or NaN (pinned tree only) -/
inductive LR (α : Type) where
  | fin (r : α)
  | nan
deriving Repr

/-- one step; `poison = true`: the pinned arithmetic blend, `false`: the repaired `torch.where` -/
def imhStepS (poison : Bool) (ratio : σ → Option α) (last : σ) (lastR : LR α) (cur : σ)
    (lu : Option α) : σ × LR α :=
  match lastR with
  | .nan => (last, .nan)               -- `x - NaN > log u` is false, `0 · x + 1 · NaN = NaN`
  | .fin r =>
    match ratio cur with
    | none => (last, if poison then .nan else .fin r)
    | some c =>
      let accept : Bool := match lu with
        | none => true
        | some l => decide (l < c - r)
      (if accept then cur else last, .fin (if accept then c else r))

/-- the chain states, one per step -/
def imhChainS (poison : Bool) (ratio : σ → Option α) : σ → LR α → List (σ × Option α) → List σ
  | _, _, [] => []
  | last, lastR, (cur, lu) :: rest =>
    let s := imhStepS poison ratio last lastR cur lu
    s.1 :: imhChainS poison ratio s.1 s.2 rest

/-- state and carried log-ratio after a list of steps -/
def imhAfterS (poison : Bool) (ratio : σ → Option α) : σ → LR α → List (σ × Option α) → σ × LR α
  | last, lastR, [] => (last, lastR)
  | last, lastR, (cur, lu) :: rest =>
    let s := imhStepS poison ratio last lastR cur lu
    imhAfterS poison ratio s.1 s.2 rest

/-- the recorded values `f b_t`, `t ≥ burn_in`, of a chain started at `b0` with finite log-ratio `r0` -/
def imhRecordedS (poison : Bool) (ratio : σ → Option α) (f : σ → α) (burnIn : Nat) (b0 : σ) (r0 : α)
    (steps : List (σ × Option α)) : List α :=
  ((imhChainS poison ratio b0 (.fin r0) steps).drop burnIn).map f

end IMH

/-! ## Relaxed distributions (`_straight_through.py`), generic in `exp`/`log` -/

/-- The transcendental primitives (documented meaning of `torch.exp`/`torch.log`). -/
structure Transc (α : Type) where
  exp : α → α
  log : α → α

section Relaxed
variable {α : Type} [Zero α] [One α] [Add α] [Sub α] [Mul α] [Div α] [Neg α] [OfNat α 2]
  [LE α] [DecidableLE α] [LT α] [DecidableLT α] [DecidableEq α] (T : Transc α)

/-- `x.log1p()` -/
def Transc.log1p (x : α) : α := T.log (1 + x)
/-- `x.sigmoid()` -/
def Transc.sigmoid (x : α) : α := 1 / (1 + T.exp (-x))

/-- `LogisticBernoulli.rsample`: `logits + u.log() - (-u).log1p()` -/
def lbRsample (logit u : α) : α := logit + T.log u - T.log1p (-u)

/-- `LogisticBernoulli.log_prob` -/
def lbLogProb (logit z : α) : α :=
  let ginv := logit - z
  ginv - 2 * T.log1p (T.exp ginv)

/-- `LogisticBernoulli.threshold`: `(z >= 0).to(z)` -/
def lbThreshold (z : α) : α := if 0 ≤ z then 1 else 0

/-- Documented meaning of `-binary_cross_entropy_with_logits(logits, b)`:
`b log σ(l) + (1 - b) log (1 - σ(l))`.  (Not what is executed: at saturated logits `1 - σ(l)`
rounds to `0` in floating point.) -/
def lbTlogProbDoc (logit b : α) : α :=
  b * T.log (T.sigmoid logit) + (1 - b) * T.log (1 - T.sigmoid logit)

/-- `LogisticBernoulli.tlog_prob`: `-binary_cross_entropy_with_logits(logits, b)` in the form
torch evaluates it, `-((1 - b) * l + log(1 + exp(-l)))` (stable at saturated logits; equal to
`lbTlogProbDoc` over the reals for EVERY `b`: `C19_tlog_doc`). -/
def lbTlogProb (logit b : α) : α :=
  -((1 - b) * logit + T.log1p (T.exp (-logit)))

/-- `torch.distributions.utils.clamp_probs(x)` = `x.clamp(min=eps, max=1 - eps)` with
`eps = finfo(dtype).eps`: first `max(x, eps)`, then `min(·, 1 - eps)`. -/
def clampProbs (eps x : α) : α :=
  let y := if x < eps then eps else x
  if 1 - eps < y then 1 - eps else y

/-- `LogisticBernoulli.rsample` including the clamp of the uniform draw:
`u = clamp_probs(torch.rand(..)); z = logits + u.log() - (-u).log1p()` -/
def lbRsampleC (eps logit u : α) : α := lbRsample T logit (clampProbs eps u)

/-- `LogisticBernoulli.csample` with the uniform draw `v` and `eps = finfo.eps`:
```
zcond = v / ((1 - v) * ((1 - b) * probs + b * (1 - probs))) + 1
zcond = (2 * b - 1) * zcond.log()
return zcond + b * eps
``` -/
def lbCsample (eps p v b : α) : α :=
  let zc := v / ((1 - v) * ((1 - b) * p + b * (1 - p))) + 1
  (2 * b - 1) * T.log zc + b * eps

/-- `LogisticBernoulli.csample` as called: BOTH the uniform draw and `self.probs` go through
`clamp_probs` (`v = clamp_probs(torch.rand_like(b)); probs = clamp_probs(self.probs)`), which is
what keeps the sample finite for `probs ∈ {0, 1}` and draws `∈ {0, 1}`. -/
def lbCsampleC (eps p v b : α) : α := lbCsample T eps (clampProbs eps p) (clampProbs eps v) b

/-- `LogisticBernoulli.clog_prob`; `none` = `-inf` (`threshold(zcond) != b`). -/
def lbClogProb (logit zc b : α) : Option α :=
  if lbThreshold zc ≠ b then none
  else some (-zc + (1 - b) * logit + T.log1p (T.exp logit) - 2 * T.log1p (T.exp (logit - zc)))

/-! ### Gumbel / one-hot categorical -/

def sumL (l : List α) : α := l.foldr (· + ·) 0

/-- first index of a maximal entry (`argmax(-1)`): returns (index, value). -/
def argmaxFrom : Nat → Nat → α → List α → Nat
  | _, bi, _, [] => bi
  | i, bi, bv, x :: xs => if bv < x then argmaxFrom (i + 1) i x xs else argmaxFrom (i + 1) bi bv xs

def argmax : List α → Nat
  | [] => 0
  | x :: xs => argmaxFrom 1 0 x xs

def oneHot (k n : Nat) : List α := (List.range n).map fun j => if j = k then 1 else 0

/-- `GumbelOneHotCategorical.rsample`: `logits - (-u.log()).log()` -/
def gRsample (logits us : List α) : List α :=
  List.zipWith (fun l u => l - T.log (-(T.log u))) logits us

/-- `GumbelOneHotCategorical.log_prob` -/
def gLogProb (logits z : List α) : α :=
  sumL (List.zipWith (fun l z => let g := l - z; g - T.exp g) logits z)

/-- `GumbelOneHotCategorical.threshold` -/
def gThreshold (z : List α) : List α := oneHot (argmax z) z.length

/-- `GumbelOneHotCategorical.tlog_prob`: `logits.masked_select(b.bool())` -/
def gTlogProb (logits b : List α) : α :=
  sumL (List.zipWith (fun l b => if b = 0 then 0 else l) logits b)

/-- `x.abs().clamp_min(1.0)` -/
def absClampMin1 (x : α) : α :=
  let a := if x < 0 then -x else x
  if a < 1 then 1 else a

/-- `GumbelOneHotCategorical.csample` with uniform draws `vs` (after fixes/C19-gumbel-guard: the
margin that keeps the conditioned class the strict maximum is RELATIVE, `eps * max(1, |z_k|)`;
the pinned code subtracted an absolute `eps`, which floating point absorbs for `|z_k| >= 2`):
```
log_v = v.log()
zcond_match = -(-log_v).log() * b
zcond_match_k = zcond_match.sum(-1)
zcond_nomatch = -(-log_v / probs - (log_v * b).sum(-1)).log()
zcond_nomatch = min(zcond_match_k - eps * zcond_match_k.abs().clamp_min(1), zcond_nomatch) * (1 - b)
return zcond_match + zcond_nomatch
``` -/
def gCsample (eps : α) (probs vs b : List α) : List α :=
  let logv := vs.map T.log
  let zmatch := List.zipWith (fun lv b => -(T.log (-lv)) * b) logv b
  let zk := sumL zmatch
  let s := sumL (List.zipWith (· * ·) logv b)
  let nomat := List.zipWith (fun lv p => -(T.log (-lv / p - s))) logv probs
  let guard := zk - eps * absClampMin1 zk
  let nomat' := List.zipWith (fun nm b => (if guard < nm then guard else nm) * (1 - b)) nomat b
  List.zipWith (· + ·) zmatch nomat'

/-- `GumbelOneHotCategorical.rsample` including `u = clamp_probs(torch.rand(..))` -/
def gRsampleC (eps : α) (logits us : List α) : List α :=
  gRsample T logits (us.map (clampProbs eps))

/-- `GumbelOneHotCategorical.csample` as called: `probs = clamp_probs(self.probs)`,
`log_v = clamp_probs(torch.rand_like(b)).log()` -/
def gCsampleC (eps : α) (probs vs b : List α) : List α :=
  gCsample T eps (probs.map (clampProbs eps)) (vs.map (clampProbs eps)) b

/-- `GumbelOneHotCategorical.clog_prob`; `none` = `-inf`. -/
def gClogProb (logits zc b : List α) : Option α :=
  if gThreshold zc ≠ b then none else
  let negb := b.map (1 - ·)
  let lg := List.zipWith (· * ·) logits negb
  let g := List.zipWith (fun l z => let g := l - z; g - T.exp g) lg zc
  let zk := sumL (List.zipWith (· * ·) zc b)
  let G := List.zipWith (fun l nb => -(T.exp (l - zk)) * nb) lg negb
  some (sumL (List.zipWith (· - ·) g G))

/-! ### Parameters of the two relaxed distributions: the two constructions, batch / event shape,
sample-shape broadcasting

Tensors are flat lists in row-major order together with their shape.  Either distribution is
constructed with exactly one of `probs=` / `logits=`; the other attribute is a `lazy_property`
derived from the given one.  `LogisticBernoulli`: every entry is one variable
(`batch_shape = param.shape`, `event_shape = ()`, `is_binary=True` conversions, elementwise).
`GumbelOneHotCategorical`: the LAST axis is the class axis (`batch_shape = shape[:-1]`,
`event_shape = shape[-1:]`); the constructor normalises along it. -/

/-- which keyword the distribution was constructed with -/
inductive Ctor where
  | probs
  | logits
deriving Repr, DecidableEq

/-- `probs_to_logits(probs, is_binary=True)`: `ps = clamp_probs(probs); ps.log() - (-ps).log1p()` -/
def probsToLogitsBin (eps p : α) : α :=
  let ps := clampProbs eps p
  T.log ps - T.log1p (-ps)

/-- `probs_to_logits(probs)` (not binary): `clamp_probs(probs).log()` -/
def probsToLogits (eps p : α) : α := T.log (clampProbs eps p)

/-- What a relaxed distribution object holds after construction (flat, row-major tensors of
shape `batchShape ++ eventShape`). -/
structure RelaxedParams (α : Type) where
  batchShape : List Nat
  eventShape : List Nat
  probs : List α
  logits : List α

/-- number of entries of a tensor of that shape -/
def prodL (s : List Nat) : Nat := s.foldr (· * ·) 1

/-- `LogisticBernoulli(probs=data)` / `LogisticBernoulli(logits=data)`, `data` of shape `shape`:
```
self._param = self.probs = probs          | self._param = self.logits = logits
logits = probs_to_logits(probs, True)     | probs = logits_to_probs(logits, True)   # sigmoid
batch_shape = param.shape; event_shape = ()
``` -/
def lbParams (eps : α) (c : Ctor) (shape : List Nat) (data : List α) : RelaxedParams α :=
  match c with
  | .probs => ⟨shape, [], data, data.map (probsToLogitsBin T eps)⟩
  | .logits => ⟨shape, [], data.map T.sigmoid, data⟩

/-- the rows of the last axis (`V` entries each) of a flat tensor with `n` rows -/
def rowsOf (V : Nat) : Nat → List α → List (List α)
  | 0, _ => []
  | n + 1, l => l.take V :: rowsOf V n (l.drop V)

/-- `probs / probs.sum(-1, keepdim=True)` on one row -/
def normRow (row : List α) : List α :=
  let s := sumL row
  row.map (· / s)

/-- `logits.log_softmax(-1)` on one row (documented meaning: `x_j - log Σ exp x`) -/
def logSoftmaxRow (row : List α) : List α :=
  let lse := T.log (sumL (row.map T.exp))
  row.map (· - lse)

/-- `logits_to_probs(logits)` = `softmax(logits, -1)` on one row -/
def softmaxRow (row : List α) : List α :=
  let s := sumL (row.map T.exp)
  row.map fun x => T.exp x / s

/-- `GumbelOneHotCategorical(probs=data)` / `(logits=data)`, `data` of shape `shape` (at least one
axis; the last one is the class axis):
```
self.probs = probs / probs.sum(-1, keepdim=True)   | self.logits = logits.log_softmax(-1)
logits = probs_to_logits(self.probs)               | probs = logits_to_probs(self.logits)  # softmax(-1)
batch_shape, event_shape = shape[:-1], shape[-1:]
``` -/
def gParams (eps : α) (c : Ctor) (shape : List Nat) (data : List α) : RelaxedParams α :=
  let V := shape.getLastD 1
  let B := shape.dropLast
  let rows := rowsOf V (prodL B) data
  match c with
  | .probs =>
    let ps := rows.map normRow
    ⟨B, [V], ps.flatten, (ps.map fun r => r.map (probsToLogits T eps)).flatten⟩
  | .logits =>
    let ls := rows.map (logSoftmaxRow T)
    ⟨B, [V], (ls.map (softmaxRow T)).flatten, ls.flatten⟩

/-- `dist.expand(pre ++ batch_shape)` (new leading batch axes): both attributes are `expand`ed,
i.e. repeated along the new axes; the event shape stays. -/
def RelaxedParams.expand (P : RelaxedParams α) (pre : List Nat) : RelaxedParams α :=
  ⟨pre ++ P.batchShape, P.eventShape, (List.replicate (prodL pre) P.probs).flatten,
    (List.replicate (prodL pre) P.logits).flatten⟩

/-- Broadcasting of a tensor of shape `sample_shape ++ batch_shape` (draws, samples, `b`) against
a parameter of shape `batch_shape` (`B` entries): the entry of flat index `n` meets the parameter
entry of flat index `n % B`. -/
def paramAt (xs : List α) (B n : Nat) : α := xs.getD (n % B) 0

/-- The same for the categorical relaxation: row `r` of a tensor of shape
`sample_shape ++ batch_shape ++ [V]` meets parameter row `r % B`. -/
def paramRowAt (xs : List α) (V B r : Nat) : List α := (xs.drop ((r % B) * V)).take V

/-- `LogisticBernoulli.rsample(sample_shape)` on the whole tensor: `us` is `torch.rand(shape)`,
`shape = sample_shape ++ batch_shape` -/
def lbRsampleT (eps : α) (P : RelaxedParams α) (us : List α) : List α :=
  us.zipIdx.map fun un => lbRsampleC T eps (paramAt P.logits (prodL P.batchShape) un.2) un.1

/-- `LogisticBernoulli.csample(b)` on the whole tensor (`vs = torch.rand_like(b)`) -/
def lbCsampleT (eps : α) (P : RelaxedParams α) (vs bs : List α) : List α :=
  (vs.zip bs).zipIdx.map fun vbn =>
    lbCsampleC T eps (paramAt P.probs (prodL P.batchShape) vbn.2) vbn.1.1 vbn.1.2

/-- `LogisticBernoulli.tlog_prob(b)` on the whole tensor -/
def lbTlogProbT (P : RelaxedParams α) (bs : List α) : List α :=
  bs.zipIdx.map fun bn => lbTlogProb T (paramAt P.logits (prodL P.batchShape) bn.2) bn.1

/-- `GumbelOneHotCategorical.rsample` on the whole tensor; `us` are the rows of `torch.rand` -/
def gRsampleT (eps : α) (P : RelaxedParams α) (us : List (List α)) : List (List α) :=
  let V := P.eventShape.headD 1
  us.zipIdx.map fun un => gRsampleC T eps (paramRowAt P.logits V (prodL P.batchShape) un.2) un.1

/-- `GumbelOneHotCategorical.csample(b)` on the whole tensor -/
def gCsampleT (eps : α) (P : RelaxedParams α) (vs bs : List (List α)) : List (List α) :=
  let V := P.eventShape.headD 1
  (vs.zip bs).zipIdx.map fun vbn =>
    gCsampleC T eps (paramRowAt P.probs V (prodL P.batchShape) vbn.2) vbn.1.1 vbn.1.2

/-- `GumbelOneHotCategorical.tlog_prob(b)`: shape `b.shape[:-1]`, one number per row -/
def gTlogProbT (P : RelaxedParams α) (bs : List (List α)) : List α :=
  let V := P.eventShape.headD 1
  bs.zipIdx.map fun bn => gTlogProb (paramRowAt P.logits V (prodL P.batchShape) bn.2) bn.1

/-! ### The distribution OBJECT: lazily cached attributes and derived objects

`RelaxedParams` is what a distribution IS (values).  The python object is less than that: the
constructor stores the attribute it was given (`self._param = self.probs = …` resp. `self.logits`);
the other one is a `lazy_property`, computed on the first read and then stored in `self.__dict__`;
`expand` builds the NEW object from what it finds there:
```
if "probs" in self.__dict__:  new._param = new.probs = self.probs.expand(batch_shape)
if "logits" in self.__dict__: new._param = new.logits = self.logits.expand(batch_shape)
```
So what a derived object holds depends on what was read on the original before (`csample` reads
`probs`; `rsample`, `log_prob`, `tlog_prob`, `clog_prob`, `mean` read `logits`).  The model below
follows that state; `C19_obj_lb_history` / `C19_obj_cat_history` show that what the object DENOTES
does not depend on it. -/

/-- `t.expand(pre + t.shape)` of a flat row-major tensor, `k = prod(pre)` -/
def tile {β : Type} (k : Nat) (xs : List β) : List β := (List.replicate k xs).flatten

/-- the object as python holds it: `probs?` / `logits?` = the entry of `self.__dict__`, if any -/
structure RelaxedObj (α : Type) where
  batchShape : List Nat
  eventShape : List Nat
  probs? : Option (List α)
  logits? : Option (List α)

/-- the bodies of the two `lazy_property`s: `logits_to_probs(self.logits, ..)` and
`probs_to_logits(self.probs, ..)` on a whole (flat) tensor -/
structure Conv (α : Type) where
  toProbs : List α → List α
  toLogits : List α → List α

/-- `self.probs`: the stored tensor if `"probs" in self.__dict__`, else the `lazy_property` body on
`self.logits`, whose result is stored.  -> (value, object afterwards).  (`getD []`: the
constructor always stores one of the two.) -/
def RelaxedObj.readProbs (C : Conv α) (o : RelaxedObj α) : List α × RelaxedObj α :=
  match o.probs? with
  | some p => (p, o)
  | none =>
    let p := C.toProbs (o.logits?.getD [])
    (p, { o with probs? := some p })

/-- `self.logits`, the same way -/
def RelaxedObj.readLogits (C : Conv α) (o : RelaxedObj α) : List α × RelaxedObj α :=
  match o.logits? with
  | some l => (l, o)
  | none =>
    let l := C.toLogits (o.probs?.getD [])
    (l, { o with logits? := some l })

/-- `self.expand(pre + self.batch_shape)`: each attribute that is in `__dict__` is expanded, the
other one stays lazy on the new object -/
def RelaxedObj.expand (o : RelaxedObj α) (pre : List Nat) : RelaxedObj α :=
  ⟨pre ++ o.batchShape, o.eventShape, o.probs?.map (tile (prodL pre)), o.logits?.map (tile (prodL pre))⟩

/-- what an operation does to the object: reads of the two attributes (every method is a sequence
of these as far as the object's state goes) and `expand`, after which the history continues on the
derived object -/
inductive ObjOp where
  | probs
  | logits
  | expand (pre : List Nat)
deriving Repr

def RelaxedObj.step (C : Conv α) (o : RelaxedObj α) : ObjOp → RelaxedObj α
  | .probs => (o.readProbs C).2
  | .logits => (o.readLogits C).2
  | .expand pre => o.expand pre

/-- a whole history, left to right -/
def RelaxedObj.run (C : Conv α) (o : RelaxedObj α) (h : List ObjOp) : RelaxedObj α :=
  h.foldl (RelaxedObj.step C) o

/-- what the object denotes: what a reader of `batch_shape`, `event_shape`, `probs`, `logits` gets -/
def RelaxedObj.params (C : Conv α) (o : RelaxedObj α) : RelaxedParams α :=
  ⟨o.batchShape, o.eventShape, (o.readProbs C).1, (o.readLogits C).1⟩

/-- the leading axes a history adds: `expand(pre₁ + ·)` then `expand(pre₂ + ·)` gives `pre₂ ++ pre₁` -/
def preOf (h : List ObjOp) : List Nat :=
  h.foldl (fun acc op => match op with | .expand pre => pre ++ acc | _ => acc) []

/-- `LogisticBernoulli.__init__`: the given tensor is stored under its own name, nothing else -/
def lbObj (c : Ctor) (shape : List Nat) (data : List α) : RelaxedObj α :=
  match c with
  | .probs => ⟨shape, [], some data, none⟩
  | .logits => ⟨shape, [], none, some data⟩

/-- `logits_to_probs(·, is_binary=True)` / `probs_to_logits(·, is_binary=True)`: elementwise -/
def lbConv (eps : α) : Conv α := ⟨List.map T.sigmoid, List.map (probsToLogitsBin T eps)⟩

/-- `GumbelOneHotCategorical.__init__`: the given tensor is normalised along the class axis and
stored under its own name -/
def gObj (c : Ctor) (shape : List Nat) (data : List α) : RelaxedObj α :=
  let V := shape.getLastD 1
  let B := shape.dropLast
  let rows := rowsOf V (prodL B) data
  match c with
  | .probs => ⟨B, [V], some (rows.map normRow).flatten, none⟩
  | .logits => ⟨B, [V], none, some (rows.map (logSoftmaxRow T)).flatten⟩

/-- `logits_to_probs(·)` = softmax along the last axis (`V` classes); `probs_to_logits(·)` =
`log(clamp_probs(·))` elementwise -/
def gConv (eps : α) (V : Nat) : Conv α :=
  ⟨fun ls => ((rowsOf V (ls.length / V) ls).map (softmaxRow T)).flatten, List.map (probsToLogits T eps)⟩

end Relaxed

/-! ## Combinatorics (`_combinatorics.py`) -/

/-- The loop of `simple_random_sampling_without_replacement` for one batch element:
```
p = remainder_ell / remainder_t; b_t = bernoulli(p)
remainder_ell -= b_t; remainder_t = (remainder_t - 1).clamp_min(1)
```
The Bernoulli outcomes are inputs; the result lists `(p_t, b_t)`. -/
def srsworLoop : Rat → Rat → List Rat → List (Rat × Rat)
  | _, _, [] => []
  | ell, rt, o :: os =>
    (ell / rt, o) :: srsworLoop (ell - o) (if rt - 1 < 1 then 1 else rt - 1) os

inductive SrsworResult where
  | error
  | ok (steps : List (Rat × Rat))
deriving Repr

/-- `simple_random_sampling_without_replacement(total, given, out_size)`; `outcomes` must
have `out_size` entries (the harness supplies exactly the draws that were requested). -/
def srswor (total given : Nat) (outcomes : List Rat) : SrsworResult :=
  if total < given then .error
  else if outcomes.length < total then .error
  else .ok (srsworLoop (given : Rat) (if (total : Rat) < 1 then 1 else (total : Rat)) outcomes)

/-- `torch.bernoulli(p)` can only return `o`: `o ∈ {0,1}`, `p = 1` forces 1, `p = 0` forces 0. -/
def bernoulliConsistent (po : Rat × Rat) : Bool :=
  (po.2 == 0 || po.2 == 1) && (po.1 != 1 || po.2 == 1) && (po.1 != 0 || po.2 == 0)

/-! ### binomial_coefficient -/

def cumprodFrom : Nat → List Nat → List Nat
  | _, [] => []
  | acc, x :: xs => (acc * x) :: cumprodFrom (acc * x) xs

def cumsumFrom : Nat → List Nat → List Nat
  | _, [] => []
  | acc, x :: xs => (acc + x) :: cumsumFrom (acc + x) xs

/-- `x = arange(L + 2); x[0] = 1; x = x.cumprod(0)`  (so `x[i] = i!`, `i ≤ L + 1`). -/
def factTable (L : Nat) : List Nat := cumprodFrom 1 (1 :: List.range' 1 (L + 1))

/-- The `length_ ≤ 20` branch for one element (`L = length.max()`); integers unbounded.
```
length_m_count = (length - count).clamp_min(-1); count = count.clamp_max(L)
binom = trunc_divide(x[length], x[count] * x[length_m_count])   # x[-1] is the last entry
binom.masked_fill_(length_m_count == -1, 0)
``` -/
def binomFact (L n k : Nat) : Nat :=
  let x := factTable L
  let lmc : Int := if (n : Int) - k < -1 then -1 else (n : Int) - k
  let k' := if L < k then L else k
  let idx : Nat := if lmc = -1 then L + 1 else lmc.toNat
  let q := x.getD n 0 / (x.getD k' 0 * x.getD idx 0)
  if lmc = -1 then 0 else q

/-- next row of the `length_ > 20` table: `binom[c, 0] = 0; binom[c, 1:] = binom[c-1, :-1].cumsum(0)` -/
def binomNextRow (row : List Nat) : List Nat := 0 :: cumsumFrom 0 row.dropLast

/-- row `c` of the table with `L + 1` columns (`binom[0] = 1`). -/
def binomRow (L : Nat) : Nat → List Nat
  | 0 => List.replicate (L + 1) 1
  | c + 1 => binomNextRow (binomRow L c)

/-- The `length_ > 20` branch: `binom.flatten()[length + count * (L + 1)]`. -/
def binomRec (L n k : Nat) : Nat := (binomRow L k).getD n 0

/-- `binomial_coefficient` for one element of a batch whose largest length is `L`. -/
def binomialCoefficient (L n k : Nat) : Nat :=
  if 20 < L then binomRec L n k else binomFact L n k

/-! ### SimpleRandomSamplingWithoutReplacement.log_prob

`log_partition` is computed in log space from a table of log-factorials; as everywhere in this
file a log-space tensor is modelled by the number under the logarithm (`cumsum` of logs =
`cumprod`, a difference of logs = a quotient).
```
log_factorial = arange(1, out_size + 1).log().cumsum(0)            # entry i = log (i+1)!
t_idx = (total - 1).clamp_min(0); g_idx = (given - 1).clamp_min(0)
tmg_idx = (total - given - 1).clamp_min(0)
log_partition = log_factorial[t_idx] - log_factorial[g_idx] - log_factorial[tmg_idx]
log_prob(value) = -log_partition
``` -/

/-- `exp(log_factorial)`: entry `i` is `(i+1)!`, `out_size` entries. -/
def srsworFactTable (outSize : Nat) : List Nat := cumprodFrom 1 (List.range' 1 outSize)

/-- `(x - 1).clamp_min(0)` as an index -/
def srsworIdx (x : Int) : Nat := (if x - 1 < 0 then 0 else x - 1).toNat

/-- `exp(log_partition)` for one batch element -/
def srsworPartition (outSize total given : Nat) : Rat :=
  let F := srsworFactTable outSize
  (F.getD (srsworIdx total) 0 : Rat)
    / ((F.getD (srsworIdx given) 0 : Rat) * (F.getD (srsworIdx ((total : Int) - given)) 0 : Rat))

/-- `exp(log_prob(value))`: the same number for every `value` -/
def srsworProb (outSize total given : Nat) : Rat := 1 / srsworPartition outSize total given

/-! #### the SRSWOR distribution OBJECT

`log_partition` is a `lazy_property` (computed from the counts on the first read — `log_prob` reads
it — and stored in `__dict__`); `expand` expands the two counts and
```
if "log_partition" in self.__dict__: new.log_partition = self.log_partition.expand(batch_shape)
```
-/

/-- the object as python holds it (flat row-major tensors over the batch; `partition?` = the entry
`log_partition` of `__dict__`, exponentiated) -/
structure SrsworObj where
  batchShape : List Nat
  outSize : Nat
  total : List Nat
  given : List Nat
  partition? : Option (List Rat)

/-- `self.log_partition` -/
def SrsworObj.readPartition (o : SrsworObj) : List Rat × SrsworObj :=
  match o.partition? with
  | some p => (p, o)
  | none =>
    let p := List.zipWith (srsworPartition o.outSize) o.total o.given
    (p, { o with partition? := some p })

/-- `self.expand(pre + self.batch_shape)` -/
def SrsworObj.expand (o : SrsworObj) (pre : List Nat) : SrsworObj :=
  ⟨pre ++ o.batchShape, o.outSize, tile (prodL pre) o.total, tile (prodL pre) o.given,
    o.partition?.map (tile (prodL pre))⟩

/-- reads of the lazy attribute (`log_partition`, `log_prob`, `_log_normalizer`) and `expand` -/
inductive SrsworOp where
  | partition
  | expand (pre : List Nat)
deriving Repr

def SrsworObj.step (o : SrsworObj) : SrsworOp → SrsworObj
  | .partition => o.readPartition.2
  | .expand pre => o.expand pre

def SrsworObj.run (o : SrsworObj) (h : List SrsworOp) : SrsworObj := h.foldl SrsworObj.step o

/-- `exp(log_prob(value))` per batch element: `(-self.log_partition).expand(..)` -/
def SrsworObj.probs (o : SrsworObj) : List Rat := o.readPartition.1.map (1 / ·)

def preOfS (h : List SrsworOp) : List Nat :=
  h.foldl (fun acc op => match op with | .expand pre => pre ++ acc | _ => acc) []

/-- `__init__`: the broadcast counts, nothing cached -/
def srsworObj (shape : List Nat) (outSize : Nat) (total given : List Nat) : SrsworObj :=
  ⟨shape, outSize, total, given, none⟩

/-! ### enumerate_* -/

/-- `enumerate_vocab_sequences(length, V)`: row `s`, column `r` is `(s / V^r) % V`
(the strided `view(...)[length - t - 1] = range_` assignments). -/
def enumVocab (length V : Nat) : List (List Nat) :=
  (List.range (V ^ length)).map fun s => (List.range length).map fun r => (s / V ^ r) % V

def enumBinary (length : Nat) : List (List Nat) := enumVocab length 2

/-- `_enumerate_binary_sequences_with_cardinality_int`: `support[support.sum(1) == count]` -/
def enumCard (length count : Nat) : List (List Nat) :=
  (enumBinary length).filter fun s => s.foldr (· + ·) 0 == count

/-- valid rows (`keep`) of `_enumerate_binary_sequences_with_cardinality_tensor` for one batch
element of length `length ≤ lmax`: rows of the `lmax` table with index `< 2^length` and the
right sum. -/
def enumCardTensor (lmax length count : Nat) : List (List Nat) :=
  (((enumBinary lmax).zip (List.range (2 ^ lmax))).filter fun si =>
    decide (si.2 < 2 ^ length) && si.1.foldr (· + ·) 0 == count).map (·.1)

/-! ## The estimator OBJECT (sixth round): attributes, assignments, calls

Every function above models ONE call of a freshly constructed estimator.  In user code an estimator
is an object that is kept: it is called again, and its documented public attributes (`mc_samples`,
`func`, `cv`, `cv_mean`, `density`, `self_normalize`, `is_log`, `burn_in`, `initial_sample`,
`initial_sample_tries`, `proposal`) are assigned between calls.  The pinned constructors store their
(validated) arguments and nothing derived from them, and `__call__` assigns nothing to `self`: the
state of the object IS its attribute record.  The model says exactly that: an object is a record, an
assignment replaces a field, a call is a function of the record as it is at that moment and of the
draws the call consumes.  (A constructor that stored `-log(mc_samples)` next to `mc_samples` would
need a record with one more field that assignments do not touch - the pinned code has no such
field.)

What this cannot see, and what the correspondence checks: that the python `__call__` really reads
every attribute at call time (the harness constructs each estimator with OTHER attribute values,
calls it, assigns the attributes and compares the next call with this model run on the same
history, and with a freshly constructed estimator). -/

section Life

/-- an operation on an estimator object: `est.<attr> = value` (any function on the attribute record
that the caller composes from field updates) or `est()` with the draws it consumes -/
inductive EstOp (A D : Type) where
  | set (upd : A → A)
  | call (draws : D)

variable {A D R : Type}

/-- one operation.  State: the attribute record, and the results returned so far. -/
def estStep (call : A → D → R) : A × List R → EstOp A D → A × List R
  | (a, rs), .set upd => (upd a, rs)
  | (a, rs), .call d => (a, rs ++ [call a d])

/-- a whole history on an object constructed with the attribute values `a` -/
def estRun (call : A → D → R) (a : A) (h : List (EstOp A D)) : A × List R :=
  h.foldl (estStep call) (a, [])

/-- the attribute values in force after a history: the assignments in order (calls change nothing) -/
def attrsAfter (a : A) : List (EstOp A D) → A
  | [] => a
  | .set upd :: h => attrsAfter (upd a) h
  | .call _ :: h => attrsAfter a h

/-- per call of a history: the attribute values in force at that call, and its draws -/
def callsAt (a : A) : List (EstOp A D) → List (A × D)
  | [] => []
  | .set upd :: h => callsAt (upd a) h
  | .call d :: h => (a, d) :: callsAt a h

end Life

section LifeEstimators
variable {α σ : Type} [Zero α] [Add α] [Sub α] [Mul α] [Div α] [NatCast α]

/-- `ImportanceSamplingEstimator.__call__` with the divisor written as the code writes it:
`llr = lpb - lqb - math.log(self.mc_samples)` - the attribute, not the number of rows of `b` -/
def isEstimateN (n : Nat) (ss : List (ISSample α)) : Dual α :=
  Dual.sum (ss.map fun s =>
    let lqb : LogD α := (LogD.mk s.q).detach
    let llr : LogD α := ((LogD.mk s.p).sub lqb).subLogConst (n : α)
    s.f * llr.exp)

/-- what `ImportanceSamplingEstimator.__init__` stores.  A sample point is a `σ`; `func`, `density`
(`P(b)` behind `density.log_prob`) and `proposal` (`Q(b)` behind `proposal.log_prob`) are what the
call evaluates at the drawn points. -/
structure ISAttrs (α σ : Type) where
  mcSamples : Nat
  func : σ → Dual α
  density : σ → Dual α
  proposal : σ → Dual α
  selfNormalize : Bool
  isLog : Bool

/-- `ImportanceSamplingEstimator.__call__` on an object: `b = self.proposal.sample([self.mc_samples])`
takes the first `mc_samples` draws of the stream.  `none`: the modes the model does not cover
(`self_normalize`, `is_log`), fewer draws than `mc_samples`, or an object made invalid by the assignment
`mc_samples = 0` (only the constructor checks `is_posi`; the call then raises ValueError from
`math.log(0)` - audit F: the total formula would have returned the empty sum 0). -/
def isCall (a : ISAttrs α σ) (draws : List σ) : Option (Dual α) :=
  if a.selfNormalize || a.isLog then none
  else if a.mcSamples = 0 then none
  else if draws.length < a.mcSamples then none
  else some (isEstimateN a.mcSamples
    ((draws.take a.mcSamples).map fun b => ⟨a.func b, a.density b, a.proposal b⟩))

/-- the proposal as `DirectEstimator` uses it: `P(b)` with its tangent, and the float value of
`log P(b)` the implementation computes (it cancels) -/
structure ProposalD (α σ : Type) where
  p : σ → Dual α
  lv : σ → α

/-- what `DirectEstimator.__init__` stores -/
structure DirectAttrs (α σ : Type) where
  mcSamples : Nat
  func : σ → Dual α
  cv : Option (σ → Dual α)
  cvMean : Option (Dual α)
  proposal : ProposalD α σ
  isLog : Bool

/-- what `DirectEstimator.__call__` sees of a drawn point, given the attributes at call time -/
def DirectAttrs.sample (a : DirectAttrs α σ) (b : σ) : DirectSample α :=
  ⟨a.func b, a.cv.map (· b), ⟨a.proposal.lv b, (a.proposal.p b).grad / (a.proposal.p b).val⟩⟩

/-- `DirectEstimator.__call__` on an object (`is_log = False`).  `none` also for the two invalid
objects assignments can produce and no constructor check prevents (audit F: the total formulas returned a
number there): `mc_samples = 0` (the code returns NaN, the mean of an empty tensor) and a control
variate in force without a `cv_mean` (`fb - cvb + None` raises TypeError; `directFb` would silently
return `func(b)`). -/
def directCall (a : DirectAttrs α σ) (draws : List σ) : Option (Dual α) :=
  if a.isLog then none
  else if a.mcSamples = 0 then none
  else if a.cv.isSome && a.cvMean.isNone then none
  else if draws.length < a.mcSamples then none
  else some (directEstimate ((draws.take a.mcSamples).map a.sample) a.cvMean)

end LifeEstimators

section LifeIMH
variable {α σ : Type} [Add α] [Sub α] [Div α] [NatCast α] [LT α] [DecidableLT α]

/-- what `IndependentMetropolisHastingsEstimator.__init__` stores; `density` and `proposal` enter
the call through `density.log_prob - proposal.log_prob` (`ratio`) and through the support test of
`find_initial_sample` -/
structure IMHAttrs (α σ : Type) where
  mcSamples : Nat
  burnIn : Nat
  tries : Nat
  func : σ → α
  ratio : σ → α
  inSupport : σ → Bool
  init : Option σ
  isLog : Bool

/-- `IndependentMetropolisHastingsEstimator.__call__` on an object (`is_log = False`): draws of the
proposal and the logs of the uniform draws.  (`burn_in < mc_samples` is checked by the constructor
only; after an assignment that breaks it nothing is recorded and the call fails: `none`.) -/
def imhCall (a : IMHAttrs α σ) (d : List σ × List (Option α)) : Option α :=
  if a.isLog then none
  else imhEstimate a.ratio a.func a.inSupport a.mcSamples a.burnIn a.tries a.init d.1 d.2

end LifeIMH

end PdtVerif.Estimators
