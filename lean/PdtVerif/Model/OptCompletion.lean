import PdtVerif.Spec.OptCompletion
import PdtVerif.Model.LevRow
/-!
# Model of `_string.py::_string_matching(return_mask=True)`, `optimal_completion`,
# `hard_optimal_completion_distillation_loss`

Per batch column, with the *shared padded* sizes `R = ref.length`, `H = hyp.length`
(the column lists handed to the model are the whole padded columns, garbage after the
end-of-sequence token included).

What follows the code line by line:

* `cutLen` — `_lens_from_eos` + the `include_eos` adjustment (one more only if an eos exists);
* `effCosts` — the `ins == del == sub > 0` shortcut (unit costs);
* `maskStep` — one iteration of the `hyp_idx` loop: `ins_mask`, the insertion/substitution
  minima (`candRow`), the vectorised deletion `(del_mat + row).min(1)` (`delMatMin`, lower
  triangular `(i-j)·d`, `+inf` above the diagonal), `torch.where(not_done, row, last_row)`,
  `masked_fill(rrange > ref_lens, inf)` (the **masked row is the one carried** to the next
  iteration, as in the code; `+inf` is `none`), `mins`,
  `(row[:-1] == mins) & not_done`;
* `colMasks` — `masks[0]` (`row_mask[0] = ref_lens > 0`), the loop with its
  `range(1, H + (0 if exclude_last else 1))` bounds, the final `& (arange(R) < ref_lens)`;
* `propagate`, `sortPairs`, `dropDup`, `select` — `optimal_completion`'s duplicate propagation over
  the whole padded reference row, `sort` + `gather`, neighbour comparison
  (`mask[..., :-1] & (ref[:, :-1] != ref[:, 1:])`, last column kept), `masked_select`;
* `targetsBatch` — `counts`, `C = counts.max()`, `masked_scatter_` through the flattened buffer
  (`scatterRows` consumes the flat selected tokens row by row in `(prefix, batch)` order);
* `lossCell`, `lossCells`, `lossMean` — cross entropy with `ignore_index`, `masked_fill`, division by the
  clamped count, the three reductions.

Mathlib-free; the driver runs it.
-/
namespace PdtVerif.OptCompletion
open PdtVerif.Lev

/-! ### lengths and costs -/

/-- Index of the first `eos` (the list's length if there is none). -/
def firstIdx (eos : Int) : List Int → Nat
  | [] => 0
  | x :: xs => if x = eos then 0 else firstIdx eos xs + 1

/-- `ref_lens` / `hyp_lens` of `_string_matching`. -/
def cutLen (eos : Option Int) (includeEos : Bool) (toks : List Int) : Nat :=
  match eos with
  | none => toks.length
  | some e =>
    let l := firstIdx e toks
    if includeEos then (if l = toks.length then l else l + 1) else l

/-- `if ins_cost == del_cost == sub_cost > 0.0: ins_cost = del_cost = sub_cost = 1.0`. -/
def effCosts (c : Costs) : Costs :=
  if c.ins = c.del ∧ c.del = c.sub ∧ 0 < c.sub then unitCosts else c

/-! ### extended rationals: `none` is `+inf` -/

abbrev ERat := Option Rat

def eadd (a : ERat) (q : Rat) : ERat := a.map (· + q)

def emin : ERat → ERat → ERat
  | none, b => b
  | a, none => a
  | some a, some b => some (min a b)

/-- `row = last_row + ins_cost * ins_mask` followed by
`row[1:] = torch.min(row[1:], last_row[:-1] + sub_cost * neq_mask)`: the tail of the candidate row
`v` (`diag = last[j]`, `ups = last[j+1..]`). -/
def candTail (c : Costs) (y : Int) : List Int → ERat → List ERat → List ERat
  | x :: xs, diag, up :: rest =>
    emin (eadd up c.ins) (eadd diag (subCost c x y)) :: candTail c y xs up rest
  | _, _, _ => []

/-- The candidate row `v` (insertion / substitution minima) before deletions are considered. -/
def candRow (c : Costs) (ref : List Int) (y : Int) (last : List ERat) : List ERat :=
  match last with
  | [] => []
  | d0 :: rest => eadd d0 c.ins :: candTail c y ref d0 rest

/-- Entry `i` of `(del_mat + v).min(1)`: `del_mat[i][j] = (i - j)·d` for `j ≤ i` and `+inf` above the
diagonal, so the minimum runs over `j ≤ i` of `v[j] + (i - j)·d`. -/
def delMatEntry (d : Rat) (v : List ERat) (i : Nat) : ERat :=
  ((List.range (i + 1)).map
    (fun j => eadd (v.getD j none) (d * ((i - j : Nat) : Rat)))).foldl emin none

/-- `row, _ = (del_mat + row).min(1)`. -/
def delMatMin (d : Rat) (v : List ERat) : List ERat :=
  (List.range v.length).map (delMatEntry d v)

/-- One DP step in the code's vectorised form. -/
def stepRowDM (c : Costs) (ref : List Int) (y : Int) (last : List ERat) : List ERat :=
  delMatMin c.del (candRow c ref y last)

/-- `row.masked_fill(rrange > ref_lens, inf)`: entries `0..refLen` kept, the rest `+inf`. -/
def maskFill (refLen : Nat) (row : List ERat) : List ERat :=
  row.take (refLen + 1) ++ List.replicate (row.length - (refLen + 1)) none

/-- `row.min(0)`. -/
def rowMinE (row : List ERat) : ERat := row.foldl emin none

/-- `not_done = (hyp_idx - (0 if exclude_last else 1)) < hyp_lens`. -/
def notDone (excl : Bool) (hypLen k : Nat) : Bool :=
  if excl then decide (k < hypLen) else decide (k ≤ hypLen)

/-- One iteration `hyp_idx = k ≥ 1` of the loop in `_string_matching` (return_mask branch).
Returns the carried (masked) row and `row_mask` (before the final `& (arange < ref_lens)`). -/
def maskStep (c : Costs) (excl : Bool) (ref hyp : List Int) (refLen hypLen k : Nat)
    (row : List ERat) : List ERat × List Bool :=
  let nd := notDone excl hypLen k
  -- ins_mask = (hyp_lens >= hyp_idx).float(); row = last_row + ins_cost * ins_mask
  let c' : Costs := { c with ins := if k ≤ hypLen then c.ins else 0 }
  let y := hyp.getD (k - 1) 0
  let new := stepRowDM c' ref y row
  let row1 := if nd then new else row
  let row2 := maskFill refLen row1
  let mins := rowMinE row2
  (row2, (List.range ref.length).map (fun j => (row2.getD j none == mins) && nd))

/-- `n` iterations starting at `hyp_idx = k`. -/
def maskLoop (c : Costs) (excl : Bool) (ref hyp : List Int) (refLen hypLen : Nat) :
    Nat → Nat → List ERat → List (List Bool)
  | 0, _, _ => []
  | n + 1, k, row =>
    let r := maskStep c excl ref hyp refLen hypLen k row
    r.2 :: maskLoop c excl ref hyp refLen hypLen n (k + 1) r.1

/-- `masks[0]`: zeros with `row_mask[0] = ref_lens > 0`. -/
def mask0 (R refLen : Nat) : List Bool :=
  (List.range R).map (fun j => decide (j = 0) && decide (0 < refLen))

/-- `mask & (arange(R) < ref_lens)`. -/
def andLt (refLen : Nat) (m : List Bool) : List Bool :=
  (List.range m.length).map (fun j => m.getD j false && decide (j < refLen))

/-- Number of loop iterations: `len(range(1, H + (0 if exclude_last else 1)))`. -/
def nIter (excl : Bool) (H : Nat) : Nat := H + (if excl then 0 else 1) - 1

/-- The `(H', R)` mask of one batch column returned by `_string_matching(return_mask=True)`. -/
def colMasks (c : Costs) (excl : Bool) (ref hyp : List Int) (refLen hypLen : Nat) :
    List (List Bool) :=
  (mask0 ref.length refLen ::
    maskLoop c excl ref hyp refLen hypLen (nIter excl hyp.length) 1 ((row0 c ref).map some)).map
    (andLt refLen)

/-! ### `optimal_completion`: mask → target lists -/

/-- `(mask.unsqueeze(2) & (ref.unsqueeze(1) == ref.unsqueeze(2))).any(3)`: position `i` is set when
some set position `j` of the WHOLE padded row carries the same token. -/
def propagate (ref : List Int) (mask : List Bool) : List Bool :=
  ref.map (fun x => (ref.zip mask).any (fun yb => yb.2 && (x == yb.1)))

def insertBy (p : Int × Bool) : List (Int × Bool) → List (Int × Bool)
  | [] => [p]
  | q :: l => if p.1 ≤ q.1 then p :: q :: l else q :: insertBy p l

/-- `ref.sort(1)` and `mask.gather(2, src)`: (token, flag) pairs sorted by token. -/
def sortPairs (l : List (Int × Bool)) : List (Int × Bool) := l.foldr insertBy []

/-- `mask[..., :-1] & (ref[:, :-1] != ref[:, 1:])` followed by the untouched last column. -/
def dropDup : List (Int × Bool) → List (Int × Bool)
  | [] => []
  | [p] => [p]
  | p :: q :: l => (p.1, p.2 && (p.1 != q.1)) :: dropDup (q :: l)

/-- `ref.masked_select(mask)`. -/
def select (l : List (Int × Bool)) : List Int := (l.filter (·.2)).map (·.1)

/-- Target tokens of one prefix of one column, before padding. -/
def selectTargets (ref : List Int) (mask : List Bool) : List Int :=
  select (dropDup (sortPairs (ref.zip (propagate ref mask))))

structure Cfg where
  eos : Option Int
  includeEos : Bool
  excludeLast : Bool
  costs : Costs
  padding : Int

/-- Per prefix `k = 0..H'-1` the unpadded target list of one column. -/
def colSelected (cfg : Cfg) (ref hyp : List Int) : List (List Int) :=
  (colMasks (effCosts cfg.costs) cfg.excludeLast ref hyp
    (cutLen cfg.eos cfg.includeEos ref) (cutLen cfg.eos cfg.includeEos hyp)).map (selectTargets ref)

/-- `targets.masked_scatter_(counts.unsqueeze(-1) > arange(C), targets_flat)`: row by row, the next
`count` tokens of the flat buffer, then padding. -/
def scatterRows (C : Nat) (pad : Int) : List Nat → List Int → List (List Int)
  | [], _ => []
  | cnt :: cnts, flat =>
    (flat.take cnt ++ List.replicate (C - cnt) pad) :: scatterRows C pad cnts (flat.drop cnt)

/-- The unpadded lists in `(prefix, batch)` row-major order. -/
def rowsKN (cfg : Cfg) (refs hyps : List (List Int)) : List (List Int) :=
  let cols := List.zipWith (colSelected cfg) refs hyps
  let H := (hyps.headD []).length
  ((List.range (1 + nIter cfg.excludeLast H)).map
    (fun k => cols.map (fun col => col.getD k []))).flatten

/-- `optimal_completion` on a batch of padded columns: `(C, rows)` with the `H'·N` rows of the
`(H', N, C)` tensor in row-major order. -/
def targetsBatch (cfg : Cfg) (refs hyps : List (List Int)) : Nat × List (List Int) :=
  let rows := rowsKN cfg refs hyps
  let flat := rows.flatten
  let counts := rows.map List.length
  let C := counts.foldl max 0
  (C, scatterRows C cfg.padding counts flat)

/-! ### `hard_optimal_completion_distillation_loss` -/

/-- Loss of one `(prefix, batch)` cell: `cross_entropy(..., ignore_index, reduction="none")`,
`masked_fill(padding_mask, 0).sum(2) / (~padding_mask).sum(2).clamp_min(1)`. -/
def lossCell (ignore : Int) (w lsm : Int → Rat) (row : List Int) : Rat :=
  (row.map (fun s => if s = ignore then 0 else -(w s * lsm s))).sum
    / ((max (row.filter (· ≠ ignore)).length 1 : Nat) : Rat)

inductive Reduction where
  | none | sum | mean

def lookup (l : List Rat) (s : Int) : Rat := l.getD s.toNat 0

/-- The cells `[k][n]` of the `(H, N)` loss matrix. `lsm[k][n]` is the log-softmax vector,
`rows` are the padded target rows in `(prefix, batch)` order. -/
def lossCells (ignore : Int) (w : Int → Rat) (N : Nat) (lsm : List (List (List Rat)))
    (rows : List (List Int)) : List (List Rat) :=
  (List.range lsm.length).map (fun k => (List.range N).map (fun n =>
    lossCell ignore w (lookup ((lsm.getD k []).getD n [])) (rows.getD (k * N + n) [])))

/-- Is any target of the row real (`(~padding_mask).any(2)`)? -/
def hasTarget (ignore : Int) (row : List Int) : Bool := row.any (· != ignore)

def lossMean (ignore : Int) (N : Nat) (cells : List (List Rat)) (rows : List (List Int)) : Rat :=
  let perCol := (List.range N).map (fun n =>
    ((List.range cells.length).map (fun k => (cells.getD k []).getD n 0)).sum
      / ((max ((List.range cells.length).filter
            (fun k => hasTarget ignore (rows.getD (k * N + n) []))).length 1 : Nat) : Rat))
  perCol.sum / (N : Rat)

end PdtVerif.OptCompletion
