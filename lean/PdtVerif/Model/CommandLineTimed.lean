import PdtVerif.Model.CommandLine
import PdtVerif.Model.Transcripts
/-!
# Model of the timed transcript commands of `command_line.py` (property C17)

`ctm-to-torch-token-data-dir`, `torch-token-data-dir-to-ctm`,
`textgrids-to-torch-token-data-dir`, `torch-token-data-dir-to-textgrids` at the level of the
commands: which file is written under which name, in which order the utterances are read back,
what is handed to the writers of `_parsing.py`. The text formats and the seconds <-> frames
arithmetic are C11's model (`Model/Transcripts.lean`: `readCtm`, `writeCtm`, `writeTextGrid`,
`readTextGrid`, `transcriptToToken`, `tokenToTranscript`), used here unchanged.

* `saveRows` — `_save_transcripts_to_dir_do_work`: `transcript_to_token(transcript, token2id,
  frame_shift_ms, unk)` (the `(R, 3)` tensor as a list of rows).
* `timedToDir` — the pool over the `(basename, transcript)` pairs of `ctm_to_torch_token_data_dir`
  / `textgrids_to_torch_token_data_dir`, in delivery order, `torch.save` = create-or-replace; an
  exception ends the command.
* `backTimed` — `_TranscriptDataSet.__getitem__` (`token_to_transcript`, `ValueError` when an id
  has no token) followed by what `write_ctm` / `write_textgrid` unpack from each element (a
  `(token, start, end)` triple; a bare token cannot be written).
* `dirToTimed` — `_load_transcripts_from_data_dir`: select, slice, sort the utterance ids, load
  each file and convert it back (what `torch_token_data_dir_to_ctm` passes to `write_ctm`).
* `maxFrame`, `tgLength`, `tgMethod1`, `tokToTextGrid` — `_torch_token_data_dir_to_textgrids_do_work` with
  `--infer`: the length `T = ref[..., 1:].max() * frame_shift_ms / 1000`, method 1 (every row
  `end > start >= 0`: interval tier) and the call `write_textgrid(transcript, path, 0.0, T,
  tier_name, point_tier, precision)` through the path branch (which forwards everything but
  `point_tier`: `Transcripts.writeTextGridVia`).

No Mathlib imports.
-/
namespace PdtVerif.CommandLine
open PdtVerif.Transcripts (Timed Transcripts Tok TElem FrErr toFrames transcriptToToken
  tokenToTranscript TgFile TgErr TgWriteOpts writeTextGridVia)

/-- A ctm line / TextGrid interval `(token, start, end)` as the element `transcript_to_token`
iterates over. -/
def timedElem (x : Timed) : TElem := .timed (.s x.1) x.2.1 x.2.2

/-- `_save_transcripts_to_dir_do_work` on a transcript of `(token, start, end)` triples with
`--frame-shift-ms f`: the rows `(id, start frame, end frame)` of the tensor that is saved. -/
def saveRows (t2i : List (Tok × Int)) (f : Rat) (unk : Option Tok) (t : List Timed) :
    Except FrErr (List (Int × Int × Int)) :=
  transcriptToToken (some t2i) (some f) unk (t.map timedElem)

/-- The pool of `ctm_to_torch_token_data_dir` / `textgrids_to_torch_token_data_dir`:
`delivered` = the `(utterance, transcript)` pairs in the order the workers took them; the file
is `prefix + utt + suffix`. -/
def timedToDir (p s : List Char) (t2i : List (Tok × Int)) (f : Rat) (unk : Option Tok)
    (delivered : List (List Char × List Timed)) :
    Except FrErr (Dir (List Char) (List (Int × Int × Int))) :=
  (exceptAll (delivered.map (fun ut =>
    (saveRows t2i f unk ut.2).map (fun rows => (fileName p s ut.1, rows))))).map (Dir.writeAll [])

/-- What the writers can unpack from an element: `(token : str, start, end)`. An id without
token (`ValueError` of `_TranscriptDataSet`) or a token without times: `none`. -/
def elemTimed : TElem → Option Timed
  | .timed (.s tok) a b => some (tok, a, b)
  | _ => none

/-- One file read back: `token_to_transcript(tok, id2token, frame_shift_ms)`, every element
a writable triple. -/
def backTimed (i2t : List (Int × Tok)) (f : Rat) (rows : List (Int × Int × Int)) :
    Option (List Timed) :=
  optAll ((tokenToTranscript (some i2t) (some f) rows).map elemTimed)

/-- `_load_transcripts_from_data_dir(dir, id2token, prefix, suffix, frame_shift_ms)`: the
utterances in sorted order, each with its transcript. `none` = an exception. -/
def dirToTimed (le : List Char → List Char → Bool) (p s : List Char) (i2t : List (Int × Tok))
    (f : Rat) (d : Dir (List Char) (List (Int × Int × Int))) : Option Transcripts :=
  let utts := (listedUtts p s (d.map (·.1))).mergeSort (fun a b => le a b)
  optAll (utts.map (fun u => (d.get (fileName p s u)).bind (fun rows =>
    (backTimed i2t f rows).map (fun t => (String.ofList u, t)))))

/-! ## token dir -> TextGrid files (`--infer`) -/

/-- `T = ref[..., 1:].max()` over all start and end frames. On an empty tensor (`R = 0`: a TextGrid
whose tier has no interval is stored as a `(0, 3)` tensor) `max()` raises `RuntimeError`; that case is
caught by `tokToTextGrid` BEFORE this value is used (`TgCmdErr.emptyMax`), so the `0` below is never
the model's answer for the command. -/
def maxFrame (rows : List (Int × Int × Int)) : Int :=
  match rows.flatMap (fun r => [r.2.1, r.2.2]) with
  | [] => 0
  | x :: xs => xs.foldl max x

/-- `T = (T * frame_shift_ms) / 1000`. -/
def tgLength (f : Rat) (rows : List (Int × Int × Int)) : Rat := ((maxFrame rows : Int) : Rat) * f / 1000

/-- Method 1 applies: `((ref[..., 2] > ref[..., 1]) & (ref[..., 1] >= 0)).all()`. -/
def tgMethod1 (rows : List (Int × Int × Int)) : Bool :=
  rows.all (fun r => decide (r.2.1 < r.2.2) && decide (0 ≤ r.2.1))

/-- The options `_torch_token_data_dir_to_textgrids_do_work` passes to
`write_textgrid(transcript, path, 0.0, T, tier_name, point_tier, precision)`. -/
def tgOpts (T : Rat) (tierName : String) (pointTier : Bool) (precision : Nat) : TgWriteOpts :=
  { startTime := some 0, endTime := some T, tierName := tierName, pointTier := some pointTier,
    precision := precision }

inductive TgCmdErr where
  | emptyMax      -- `RuntimeError`: `ref[..., 1:].max()` on a tensor without rows (`R = 0`)
  | otherMethod   -- the rows do not pass the test of method 1 (methods 2 and 3 are not modelled)
  | value         -- `ValueError`: an id without token, or "could not write textgrid"
  deriving Repr, DecidableEq

/-- `_torch_token_data_dir_to_textgrids_do_work` for one `(R, 3)` file with `--infer`: the length
`T` (a `RuntimeError` when there are no rows — evaluated first, as in the code), method 1,
`token_to_transcript`, the check that every id has a token, and `write_textgrid` through its path
branch, which forwards exactly the options `fwd` (every exception of the writer is re-raised as
`ValueError`). -/
def tokToTextGrid (fwd : List String) (i2t : List (Int × Tok)) (f : Rat) (tierName : String)
    (precision : Nat) (rows : List (Int × Int × Int)) : Except TgCmdErr TgFile :=
  if rows.isEmpty then .error .emptyMax
  else if !tgMethod1 rows then .error .otherMethod
  else match backTimed i2t f rows with
    | none => .error .value
    | some t =>
      match writeTextGridVia fwd t (tgOpts (tgLength f rows) tierName false precision) with
      | .ok g => .ok g
      | .error _ => .error .value

end PdtVerif.CommandLine
