/-!
# Model of `_parsing.py::parse_arpa_lm` at the level of lines

The reader is a small state machine over the lines of the file: look for `\data\`, read the
`ngram n=c` counts (blank lines skipped), then sections `\n-grams:` of entry lines until
`\end\`; afterwards the number of entries per order is compared with the counts.
`parseArpa` follows exactly that control flow, including

* the shared `line` variable: the line that ends the counts loop / an entries loop is the
  one examined next as section header or `\end\`;
* the *implicit back-off rule*: in a non-final order a line with exactly `n+1` fields is
  tried as "n tokens + back-off" by calling `float()` on the last field; if that fails the
  fields are kept and the length check rejects the line;
* dictionary semantics of repeated keys (the later value wins, then the count check fails).

What is **not** modelled: the three regular expressions and `float()` that classify and
split a single line. A line arrives here already classified (`Line`), and every field
carries the result `float()` would give (`num`). That lexing is exercised by the
correspondence only. Known divergence, outside the property: a file that ends directly
after a `\n-grams:` header makes the real reader loop forever; the model reports an error.

No Mathlib imports: the driver runs this file.
-/
namespace PdtVerif.NgramArpa

/-- One whitespace-separated field of an entry line, with what `float(s)` returns. -/
structure Field where
  s : String
  num : Option Rat
  deriving Repr, DecidableEq

inductive Line where
  | other                                   -- anything else (preamble, garbage)
  | blank
  | data                                    -- `\data\`
  | count (n c : Nat)                       -- `ngram n=c`
  | header (n : Nat)                        -- `\n-grams:`
  | entry (logp : Rat) (fields : List Field)
  | end_                                    -- `\end\`
  deriving Repr

/-- A parsed entry: `logb = none` for the highest order (only the log-probability is stored). -/
structure PEntry where
  key : List String
  logp : Rat
  logb : Option Rat
  deriving Repr, DecidableEq

/-- `dict_[tokens] = value`. -/
def insert (d : List PEntry) (e : PEntry) : List PEntry :=
  if d.any (fun x => x.key == e.key) then d.map (fun x => if x.key == e.key then e else x)
  else d ++ [e]

/-- `ngram_counts.extend(...)`; `ngram_counts[n - 1] = count` (`n ≥ 1`). -/
def setCount (cs : List Nat) (n c : Nat) : List Nat :=
  (cs ++ List.replicate (n - cs.length) 0).set (n - 1) c

/-- One entry line of the section of order `n` in a file of `N` orders. `none` = `IOError`. -/
def addEntry (N n : Nat) (ds : List (List PEntry)) (p : Rat) (fs : List Field) :
    Option (List (List PEntry)) :=
  let split : List Field × Rat :=
    if fs.length = n + 1 ∧ n < N then
      match fs.getLast?.bind (·.num) with
      | some b => (fs.dropLast, b)
      | none => (fs, 0)
    else (fs, 0)
  if split.1.length ≠ n then none
  else
    let e : PEntry := ⟨split.1.map (·.s), p, if n ≠ N then some split.2 else none⟩
    some (ds.modify (n - 1) (fun d => insert d e))

/-- The final check `len(dict_) != ngram_count`. -/
def finish (cs : List Nat) (ds : List (List PEntry)) : Except String (List (List PEntry)) :=
  if (ds.map List.length) = cs then .ok ds else .error "IOError"

inductive St where
  | seek
  | counts (cs : List Nat)
  | sect (cs : List Nat) (ds : List (List PEntry)) (n : Nat)

def parseGo : List Line → St → Except String (List (List PEntry))
  | [], _ => .error "IOError"
  | l :: rest, .seek =>
    match l with
    | .data => parseGo rest (.counts [])
    | _ => parseGo rest .seek
  | l :: rest, .counts cs =>
    match l with
    | .blank => parseGo rest (.counts cs)
    | .count n c => if n = 0 then .error "unmodelled" else parseGo rest (.counts (setCount cs n c))
    | .end_ => finish cs (List.replicate cs.length [])
    | .header n =>
      if n = 0 then .error "unmodelled"
      else if n > cs.length then .error "IOError"
      else parseGo rest (.sect cs (List.replicate cs.length []) n)
    | _ => .error "IOError"
  | l :: rest, .sect cs ds n =>
    match l with
    | .blank => parseGo rest (.sect cs ds n)
    | .entry p fs =>
      match addEntry cs.length n ds p fs with
      | some ds' => parseGo rest (.sect cs ds' n)
      | none => .error "IOError"
    | .end_ => finish cs ds
    | .header n' =>
      if n' = 0 then .error "unmodelled"
      else if n' > cs.length then .error "IOError"
      else parseGo rest (.sect cs ds n')
    | _ => .error "IOError"

/-- `parse_arpa_lm` on classified lines (values in the file's base). -/
def parseArpa (lines : List Line) : Except String (List (List PEntry)) := parseGo lines .seek

/-! ## the writer the round trip is stated for -/

/-- A numeric field as a writer prints it: any text whose `float()` is the value. -/
def numField (q : Rat) : Field := ⟨"#", some q⟩

/-- One entry line. `implicit`: a zero back-off is left out (IRSTLM / SRILM style). -/
def printEntry (implicit : Bool) (isTop : Bool) (tok : String → Field) (e : PEntry) : Line :=
  let keyFields := e.key.map tok
  match e.logb with
  | none => .entry e.logp keyFields
  | some b =>
    if isTop then .entry e.logp keyFields
    else if implicit && b == 0 then .entry e.logp keyFields
    else .entry e.logp (keyFields ++ [numField b])

def printSections (implicit : Bool) (tok : String → Field) (N : Nat) :
    Nat → List (List PEntry) → List Line
  | _, [] => []
  | n, d :: rest =>
    (.header n :: d.map (printEntry implicit (n == N) tok)) ++ (.blank :: printSections implicit tok N (n + 1) rest)

/-- The file for a table `t` (orders lowest first): preamble, `\data\`, counts, sections,
`\end\`. `tok` turns a token into a field, i.e. also decides whether the token text happens
to read as a number. -/
def printArpa (implicit : Bool) (tok : String → Field) (t : List (List PEntry)) : List Line :=
  [.other, .data] ++ (t.zipIdx.map (fun (d, i) => Line.count (i + 1) d.length)) ++ [.blank] ++
    printSections implicit tok t.length 1 t ++ [.end_]

end PdtVerif.NgramArpa
