import PdtVerif.Model.Transcripts
/-!
# Text layers of the ctm and TextGrid formats (C11)

`Model/Transcripts.lean` has ctm at record level (`Seg` with rational fields) and TextGrid as a
structured file (`TgFile` with `Dec` numbers).  This file adds what lies between those and the
characters in the file:

* decimal numerals: `natDigits` / `fixedDigits` / `Dec.chars` (what `'%.{p}f'` and, for finite
  decimals, `repr(float)` print) and `parseDec` / `parseFloat` (what `float(...)` accepts, without
  `inf`/`nan`/underscores);
* Python text-file behaviour: `pyLines` (iteration over a file: split after every `'\n'`),
  `universalNewlines` (`'\r\n'`, `'\r'` ↦ `'\n'` on reading), `crlf` (`newline="\r\n"` on writing);
* ctm: `SegT.line` (`"{} {} {} {} {}\n".format(...)`), `cutComment` (`line.split(";;")[0]`),
  `splitWs` (`str.split()`), `readCtmFields` (5 or 6 columns), `readCtmText` (`read_ctm` on the
  text of a file: look-up before number parsing, first failing line raises);
* TextGrid: `TgFile.chars` (the exact characters `write_textgrid` writes), `parseTg` (a sequential
  parser for that layout — the regular expressions of `_textgrid.py` *restricted to what the writer
  produces*: it is not a regex engine and returns `none` on anything else), `readTextGridText`;
* several tiers: `tierSelect` / `readTextGridDoc` (`tier_id` by first matching name or by Python
  index, negative indices from the end).

No Mathlib imports: the driver runs this file.
-/
namespace PdtVerif.Transcripts

/-! ## decimal numerals -/

def digitChar (n : Nat) : Char :=
  match n % 10 with
  | 0 => '0' | 1 => '1' | 2 => '2' | 3 => '3' | 4 => '4'
  | 5 => '5' | 6 => '6' | 7 => '7' | 8 => '8' | _ => '9'

def digitVal? (c : Char) : Option Nat :=
  if c = '0' then some 0 else if c = '1' then some 1 else if c = '2' then some 2
  else if c = '3' then some 3 else if c = '4' then some 4 else if c = '5' then some 5
  else if c = '6' then some 6 else if c = '7' then some 7 else if c = '8' then some 8
  else if c = '9' then some 9 else none

def isDigit (c : Char) : Bool := (digitVal? c).isSome

/-- Decimal digits of `n`, most significant first, no leading zeros (`"0"` for zero); `fuel ≥ n`
is always enough. -/
def natDigitsF : Nat → Nat → List Char
  | 0, n => [digitChar n]
  | f + 1, n => if n < 10 then [digitChar n] else natDigitsF f (n / 10) ++ [digitChar n]

def natDigits (n : Nat) : List Char := natDigitsF n n

/-- The last `w` decimal digits of `m`, zero padded: the fractional part of `'%.{w}f'`. -/
def fixedDigits : Nat → Nat → List Char
  | 0, _ => []
  | w + 1, m => fixedDigits w (m / 10) ++ [digitChar m]

/-- The characters of a `Dec`: `-`? integer part, and `.` + exactly `prec` digits when `prec > 0`. -/
def Dec.chars (d : Dec) : List Char :=
  let a := d.mant.natAbs
  let q := 10 ^ d.prec
  (if d.mant < 0 then ['-'] else []) ++ natDigits (a / q) ++
    (if d.prec = 0 then [] else '.' :: fixedDigits d.prec (a % q))

/-- `acc`, then the digits of the string appended in base ten; `none` on a non-digit. -/
def parseDigits : Nat → List Char → Option Nat
  | acc, [] => some acc
  | acc, c :: cs => match digitVal? c with
    | some d => parseDigits (acc * 10 + d) cs
    | none => none

def parseNat (s : List Char) : Option Nat := if s.isEmpty then none else parseDigits 0 s

/-- Sign, digits, optionally a point and digits (at least one digit in total); the value is kept as
mantissa and number of fractional digits, so that printing and parsing are inverse on the nose. -/
def parseUnsignedDec (body : List Char) : Option (Nat × Nat) :=
  match body.span isDigit with
  | (ip, []) => (parseNat ip).map (fun n => (n, 0))
  | (ip, c :: fp) =>
    if c = '.' then
      if ip.isEmpty && fp.isEmpty then none
      else (parseDigits 0 (ip ++ fp)).map (fun n => (n, fp.length))
    else none

def parseDec (s : List Char) : Option Dec :=
  match s with
  | [] => none
  | c :: r =>
    if c = '-' then (parseUnsignedDec r).map (fun (n, p) => ⟨-(n : Int), p⟩)
    else if c = '+' then (parseUnsignedDec r).map (fun (n, p) => ⟨(n : Int), p⟩)
    else (parseUnsignedDec (c :: r)).map (fun (n, p) => ⟨(n : Int), p⟩)

/-- The tier bounds are matched by `\d+\.?\d*`: no sign. -/
def parseDecNonneg (s : List Char) : Option Dec :=
  (parseUnsignedDec s).map (fun (n, p) => ⟨(n : Int), p⟩)

/-- `int(s)` for the exponent: sign, at least one digit. -/
def parseInt (s : List Char) : Option Int :=
  match s with
  | [] => none
  | c :: r =>
    if c = '-' then (parseNat r).map (fun n => -(n : Int))
    else if c = '+' then (parseNat r).map (fun n => (n : Int))
    else (parseNat (c :: r)).map (fun n => (n : Int))

def isExpChar (c : Char) : Bool := c == 'e' || c == 'E'

/-- `float(s)` on decimal literals with an optional exponent, surrounding white space ignored.
`inf`, `nan` and digit-group underscores are not modelled (`none` = `ValueError`). -/
def parseFloat (s : List Char) : Option Rat :=
  match (strip s).span (fun c => !isExpChar c) with
  | (m, []) => (parseDec m).map Dec.val
  | (m, _ :: ex) =>
    match parseDec m, parseInt ex with
    | some d, some k =>
      if 0 ≤ k then some (d.val * ((10 ^ k.toNat : Nat) : Rat))
      else some (d.val / ((10 ^ (-k).toNat : Nat) : Rat))
    | _, _ => none

/-- The finite decimal expansion of `x` with the fewest (but at least one) fractional digits —
what `repr(float)` prints for a float that is a short decimal in `[1e-4, 1e16)`; `none` when `x`
has no expansion with at most `fuel` fractional digits. -/
def decOfRatF : Nat → Nat → Rat → Option Dec
  | 0, _, _ => none
  | fuel + 1, p, x =>
    let y := x * ((10 ^ p : Nat) : Rat)
    if y.den = 1 then some ⟨y.num, p⟩ else decOfRatF fuel (p + 1) x

def decOfRat (x : Rat) : Option Dec := decOfRatF 40 1 x

/-! ## Python text files -/

/-- Iterating over a text file: pieces ending in `'\n'` (the last one possibly without). -/
def pyLinesAux : List Char → List Char → List (List Char)
  | cur, [] => if cur.isEmpty then [] else [cur]
  | cur, c :: cs => if c = '\n' then (cur ++ ['\n']) :: pyLinesAux [] cs else pyLinesAux (cur ++ [c]) cs

def pyLines (s : List Char) : List (List Char) := pyLinesAux [] s

/-- Reading with `newline=None` (the default of `open`): `'\r\n'` and a lone `'\r'` become `'\n'`. -/
def universalNewlines : List Char → List Char
  | [] => []
  | [c] => if c = '\r' then ['\n'] else [c]
  | c :: d :: ds =>
    if c = '\r' then
      if d = '\n' then '\n' :: universalNewlines ds else '\n' :: universalNewlines (d :: ds)
    else c :: universalNewlines (d :: ds)

/-- Writing through a file opened with `newline="\r\n"`: every `'\n'` becomes `'\r\n'`. -/
def crlf : List Char → List Char
  | [] => []
  | c :: cs => if c = '\n' then '\r' :: '\n' :: crlf cs else c :: crlf cs

/-! ## ctm text -/

/-- One ctm line before printing: strings and decimals. -/
structure SegT where
  wfn : List Char
  chan : List Char
  start : Dec
  dur : Dec
  tok : List Char
  deriving Repr, DecidableEq

/-- `"{} {} {} {} {}\n".format(wfn, chan, start, duration, token)`. -/
def SegT.line (s : SegT) : List Char :=
  s.wfn ++ ' ' :: (s.chan ++ ' ' :: (s.start.chars ++ ' ' :: (s.dur.chars ++ ' ' :: (s.tok ++ ['\n']))))

def SegT.toSeg (s : SegT) : Seg :=
  ⟨String.ofList s.wfn, String.ofList s.chan, s.start.val, s.dur.val, String.ofList s.tok⟩

/-- The record `write_ctm` prints, when both numbers have a finite decimal expansion. -/
def segToText (s : Seg) : Option SegT :=
  match decOfRat s.start, decOfRat s.dur with
  | some a, some b => some ⟨s.wfn.toList, s.chan.toList, a, b, s.tok.toList⟩
  | _, _ => none

def allSome {α} : List (Option α) → Option (List α)
  | [] => some []
  | none :: _ => none
  | some a :: rest => (allSome rest).map (a :: ·)

/-- The text `write_ctm` writes (`none`: some time is not a finite decimal — outside this model). -/
def writeCtmText (m : Utt2Wc) (ts : Transcripts) : Except CtmErr (Option (List Char)) :=
  match writeCtm m ts with
  | .error e => .error e
  | .ok segs => .ok ((allSome (segs.map segToText)).map (fun l => (l.map SegT.line).flatten))

/-- `line.split(";;")[0]`. -/
def cutComment : List Char → List Char
  | [] => []
  | [c] => [c]
  | c :: d :: rest => if c = ';' ∧ d = ';' then [] else c :: cutComment (d :: rest)

/-- `str.split()`: maximal runs of non-white characters. -/
def splitWsAux : List Char → List Char → List (List Char)
  | cur, [] => if cur.isEmpty then [] else [cur]
  | cur, c :: cs =>
    if isPyWhite c then (if cur.isEmpty then splitWsAux [] cs else cur :: splitWsAux [] cs)
    else splitWsAux (cur ++ [c]) cs

def splitWs (l : List Char) : List (List Char) := splitWsAux [] l

/-- The five columns of a line (a sixth, the confidence, is accepted and ignored). -/
structure CtmFields where
  wfn : List Char
  chan : List Char
  start : List Char
  dur : List Char
  tok : List Char
  deriving Repr, DecidableEq

/-- Comment cut off, stripped, split: `none` for a blank line, `ValueError` unless 5 or 6 columns. -/
def readCtmFields (line : List Char) : Except CtmErr (Option CtmFields) :=
  let l := strip (cutComment line)
  if l.isEmpty then .ok none else
  match splitWs l with
  | [w, c, s, d, t] => .ok (some ⟨w, c, s, d, t⟩)
  | [w, c, s, d, t, _] => .ok (some ⟨w, c, s, d, t⟩)
  | _ => .error .value

/-- The body of the loop of `read_ctm` after the split: look the utterance up (`KeyError`), then
`float(start)`, `float(dur)` (`ValueError`), then the range check — in that order. -/
def readSegText (wc2utt : Option (String × String → Option String)) (f : CtmFields) :
    Except CtmErr (String × Timed) :=
  let wfn := String.ofList f.wfn
  let chan := String.ofList f.chan
  match (match wc2utt with | none => some wfn | some g => g (wfn, chan)) with
  | none => .error .key
  | some _ =>
    match parseFloat f.start, parseFloat f.dur with
    | some s, some d => readSeg wc2utt ⟨wfn, chan, s, d, String.ofList f.tok⟩
    | _, _ => .error .value

def readCtmLineText (wc2utt : Option (String × String → Option String)) (line : List Char) :
    Except CtmErr (Option (String × Timed)) :=
  match readCtmFields line with
  | .error e => .error e
  | .ok none => .ok none
  | .ok (some f) => (readSegText wc2utt f).map some

/-- `read_ctm` on the characters of a file (after the file object's newline translation). -/
def readCtmText (wc2utt : Option (String × String → Option String)) (text : List Char) :
    Except CtmErr Transcripts :=
  match collect ((pyLines text).map (readCtmLineText wc2utt)) with
  | .error e => .error e
  | .ok kvs => .ok ((group (kvs.filterMap id)).map (fun (u, t) => (u, t.mergeSort startLe)))

/-! ## TextGrid text -/

def line (s : List Char) : List Char := s ++ ['\n']

def quoted (s : List Char) : List Char := '"' :: (s ++ ['"'])

/-- `File type = "ooTextFile"`, as characters (string literals do not reduce well in proofs). -/
def tgHeader0 : List Char :=
  ['F', 'i', 'l', 'e', ' ', 't', 'y', 'p', 'e', ' ', '=', ' ', '"', 'o', 'o', 'T', 'e', 'x', 't', 'F', 'i', 'l', 'e', '"']
/-- `Object class = "TextGrid"`. -/
def tgHeader1 : List Char :=
  ['O', 'b', 'j', 'e', 'c', 't', ' ', 'c', 'l', 'a', 's', 's', ' ', '=', ' ', '"', 'T', 'e', 'x', 't', 'G', 'r', 'i', 'd', '"']
/-- `<exists>`. -/
def tgExists : List Char := ['<', 'e', 'x', 'i', 's', 't', 's', '>']
/-- `TextTier` / `IntervalTier`. -/
def clsText : List Char := ['T', 'e', 'x', 't', 'T', 'i', 'e', 'r']
def clsInterval : List Char := ['I', 'n', 't', 'e', 'r', 'v', 'a', 'l', 'T', 'i', 'e', 'r']

def pointChars (e : Dec × String) : List Char :=
  line e.1.chars ++ line (quoted e.2.toList)

def intervalChars (e : Dec × Dec × String) : List Char :=
  line e.1.chars ++ (line e.2.1.chars ++ line (quoted e.2.2.toList))

def TgBody.chars : TgBody → List Char
  | .points l => (l.map pointChars).flatten
  | .intervals l => (l.map intervalChars).flatten

def TgBody.className : TgBody → List Char
  | .points _ => clsText
  | .intervals _ => clsInterval

/-- Everything of one tier: class, name, bounds, size, entries. -/
def tierChars (name : String) (tmin tmax : Dec) (body : TgBody) : List Char :=
  line (quoted body.className) ++ (line (quoted name.toList) ++ (line tmin.chars ++ (line tmax.chars ++
    (line (natDigits body.size) ++ body.chars))))

/-- The characters `write_textgrid` writes. -/
def TgFile.chars (f : TgFile) : List Char :=
  line tgHeader0 ++ (line tgHeader1 ++ (line f.xmin.chars ++ (line f.xmax.chars ++
    (line tgExists ++ (line ['1'] ++ tierChars f.name f.tmin f.tmax f.body)))))

/-- Up to the next `'\n'` (exclusive) and what follows it. -/
def takeLine (s : List Char) : List Char × List Char :=
  match s.span (fun c => c != '\n') with
  | (a, []) => (a, [])
  | (a, _ :: b) => (a, b)

/-- `"…"` ↦ `…` (first and last character must be quotes: the greedy `"(.*)"`). -/
def unquote (l : List Char) : Option (List Char) :=
  match l with
  | [] => none
  | c :: r =>
    if c = '"' then
      match r.reverse with
      | [] => none
      | d :: m => if d = '"' then some m.reverse else none
    else none

/-- A label: opening quote, everything up to the next quote (the lazy `"([\S\s]*?)"`, new lines
included), and the rest of the input after the closing quote. -/
def takeQuoted (s : List Char) : Option (List Char × List Char) :=
  match s with
  | [] => none
  | c :: r =>
    if c = '"' then
      match r.span (fun c => c != '"') with
      | (_, []) => none
      | (tok, _ :: rest) => some (tok, rest)
    else none

def parsePoints : Nat → List Char → Option (List (Dec × String))
  | 0, _ => none
  | fuel + 1, s =>
    if s.isEmpty then some [] else
    let l1 := takeLine s
    match parseDec l1.1, takeQuoted l1.2 with
    | some a, some (tok, s3) =>
      (parsePoints fuel (takeLine s3).2).map (fun rest => (a, String.ofList tok) :: rest)
    | _, _ => none

def parseIntervals : Nat → List Char → Option (List (Dec × Dec × String))
  | 0, _ => none
  | fuel + 1, s =>
    if s.isEmpty then some [] else
    let l1 := takeLine s
    let l2 := takeLine l1.2
    match parseDec l1.1, parseDec l2.1, takeQuoted l2.2 with
    | some a, some b, some (tok, s3) =>
      (parseIntervals fuel (takeLine s3).2).map (fun rest => (a, b, String.ofList tok) :: rest)
    | _, _, _ => none

/-- One tier from the class line on. -/
def parseTier (s : List Char) : Option (String × Dec × Dec × TgBody) :=
  let cls := takeLine s
  let name := takeLine cls.2
  let tmin := takeLine name.2
  let tmax := takeLine tmin.2
  let size := takeLine tmax.2
  match unquote cls.1, unquote name.1, parseDecNonneg tmin.1, parseDecNonneg tmax.1, parseNat size.1 with
  | some c, some n, some a, some b, some _ =>
    if c = clsText then
      (parsePoints (size.2.length + 1) size.2).map (fun l => (String.ofList n, a, b, .points l))
    else if c = clsInterval then
      (parseIntervals (size.2.length + 1) size.2).map (fun l => (String.ofList n, a, b, .intervals l))
    else none
  | _, _, _, _, _ => none

/-- The file `write_textgrid` writes, read back as the structure it was printed from. `none` on
any other layout (the real reader's regular expressions accept more; not modelled). -/
def parseTg (s : List Char) : Option TgFile :=
  let l0 := takeLine s
  let l1 := takeLine l0.2
  let xmin := takeLine l1.2
  let xmax := takeLine xmin.2
  let ex := takeLine xmax.2
  let n := takeLine ex.2
  if strip l0.1 = tgHeader0 then
    match parseDec xmin.1, parseDec xmax.1, parseTier n.2 with
    | some a, some b, some (name, tmin, tmax, body) => some ⟨a, b, name, tmin, tmax, body⟩
    | _, _, _ => none
  else none

/-- `read_textgrid` on the characters of a file opened in text mode. -/
def readTextGridText (srt : TgSort) (text : List Char) (tier : TierId) (fill : Option String) :
    Option (Except TgErr (List Timed × Rat × Rat)) :=
  (parseTg (universalNewlines text)).map (fun f => readTextGrid srt f tier fill)

/-! ## several tiers -/

/-- One tier of a TextGrid with several (any of the three file layouts; structure only). -/
structure TgTier where
  name : String
  tmin : Dec
  tmax : Dec
  body : TgBody
  deriving Repr, DecidableEq

/-- `tier_id`: the first tier with that name (`ValueError` if none), or `tiers[i]` with Python's
index rule (`IndexError` outside `-n ≤ i < n`). -/
def tierSelect (tiers : List TgTier) (tier : TierId) : Except TgErr TgTier :=
  match tier with
  | .name s => match tiers.find? (fun t => t.name == s) with
    | some t => .ok t
    | none => .error .value
  | .idx i =>
    let n : Int := tiers.length
    let j := if i < 0 then i + n else i
    if j < 0 || n ≤ j then .error .index
    else match tiers[j.toNat]? with
      | some t => .ok t
      | none => .error .index

def TgTier.asFile (t : TgTier) : TgFile := ⟨t.tmin, t.tmax, t.name, t.tmin, t.tmax, t.body⟩

/-- `read_textgrid` on a file with several tiers: select, sort, fill — bounds are the tier's own. -/
def readTextGridDoc (srt : TgSort) (tiers : List TgTier) (tier : TierId) (fill : Option String) :
    Except TgErr (List Timed × Rat × Rat) :=
  match tierSelect tiers tier with
  | .error e => .error e
  | .ok t => .ok (fillAll fill t.tmin.val t.tmax.val (sortedTimes srt t.asFile), t.tmin.val, t.tmax.val)

end PdtVerif.Transcripts
