import PdtVerif.Model.StringMatchBatch
/-!
# C01: the oracle for long pairs, and `_lens_from_eos` with the ties of `torch.max`

## `prefixDists`
For the pairs sampled from LARGE batches the driver cannot afford one `dpDist` per hypothesis prefix
(`|hyp|` may be in the thousands): `prefixDists` keeps every intermediate row of the one textbook DP
and reads the distance of every prefix off it. `Lemmas/StringMatchOracle.lean::prefixDists_eq` proves it
is `dpDist c ref (hyp.take k)` for `k = 0..|hyp|`, hence (`dpDist_isLevDist`) the weighted Levenshtein
distance of every prefix.

## `lensColAny`, `lensFromEosAny`
`_lens_from_eos` reads the first eos off `max_, argmax = (x.eq(1) & mask).max(dim)`. `torch.max` over
a dimension does not promise WHICH index it reports when the maximum is attained more than once (a
column without eos is all `False`: every index ties). `IsArgmax` is that contract — any index holding
the maximum — and `lensColAny` / `lensFromEosAny` are `_lens_from_eos` on one column / on the whole tensor
for an ARBITRARY such index (vector). The lemmas prove that the result does not depend on the choice: it
is the index of the first eos (the padded length when there is none), i.e. `lensFromEosB`, which reads
the maximum as "first hit".

Mathlib-free (the driver runs `prefixDists`).
-/
namespace PdtVerif.StringMatch
open PdtVerif.Lev

variable {α : Type} [DecidableEq α]

/-! ### All prefix distances from one DP -/

/-- The DP rows after `0, 1, …, |ys|` hypothesis tokens, starting from `row`. -/
def dpRows (c : Costs) (ref : List α) : List α → List Rat → List (List Rat)
  | [], row => [row]
  | y :: ys, row => row :: dpRows c ref ys (stepRow c ref y row)

/-- Entry `k` (`k = 0..|hyp|`): the last cell of the DP row after `k` hypothesis tokens. -/
def prefixDists (c : Costs) (ref hyp : List α) : List Rat :=
  (dpRows c ref hyp (row0 c ref)).map (fun row => row.getD ref.length 0)

/-! ### `_lens_from_eos`, `torch.max` with an unspecified tie-break -/

/-- `torch.cumsum(mask, dim)` on one column of 0/1 entries, started from `acc`. -/
def cumsumNat : Nat → List Nat → List Nat
  | _, [] => []
  | acc, m :: ms => (acc + m) :: cumsumNat (acc + m) ms

/-- `x.eq(1) & mask` on one column: `mask = tok.eq(eos)`, `x = cumsum(mask)`. -/
def hitCol (eos : α) (tok : List α) : List Bool :=
  let ms := tok.map (fun t => decide (t = eos))
  List.zipWith (fun (xi : Nat) (m : Bool) => decide (xi = 1) && m)
    (cumsumNat 0 (ms.map (fun b => if b then 1 else 0))) ms

/-- The contract of `values, indices = v.max(dim)` on a boolean column: `values` is the maximum
(`any`), `indices` is SOME position holding it — which one is not specified when several do
(a column without eos is `False` everywhere: every position ties). -/
def IsArgmax (v : List Bool) (i : Nat) : Prop := i < v.length ∧ v.getD i false = v.any id

/-- `_lens_from_eos` on one column, given the index `torch.max` happened to report:
`argmax.masked_fill(max_.eq(0), L)`; the zero-size branch is `mask.sum(dim)` = 0. -/
def lensColAny (eos : α) (tok : List α) (argmax : Nat) : Nat :=
  if tok.length = 0 then 0
  else if (hitCol eos tok).any id then argmax else tok.length

/-- The `(L, N)` boolean tensor `x.eq(1) & mask` of `_lens_from_eos(tok, eos, 0)` (the same expression as
inside `lensFromEosB`). -/
def hitB (eos : α) (N : Nat) (tok : List (List α)) : List (List Bool) :=
  let mask : List (List Bool) := tok.map (fun r => r.map (fun t => decide (t = eos)))
  let x := cumsumAux (List.replicate N 0) (mask.map (fun r => r.map (fun b => if b then 1 else 0)))
  List.zipWith (List.zipWith (fun xi m => decide (xi = 1) && m)) x mask

/-- `_lens_from_eos(tok, eos, 0)` on an `(L, N)` tensor where `argmax` is WHATEVER index vector
`(x.eq(1) & mask).max(0)` reported (`lensFromEosB` is the special case "first maximal position"). -/
def lensFromEosAny (eos : α) (N : Nat) (tok : List (List α)) (argmax : List Nat) : List Nat :=
  if tok.length = 0 then List.replicate N 0
  else (List.range N).map (fun n =>
    if (colOf (hitB eos N tok) n false).any id then argmax.getD n 0 else tok.length)

end PdtVerif.StringMatch
