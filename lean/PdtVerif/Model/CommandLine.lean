/-!
# Model of the command-level logic of `command_line.py` (property C17)

What is modelled (each section names the Python it follows):

1. **File names** — `prefix + utt + suffix`, the `startswith/endswith` selection and the
   slice `x[len(prefix) : len(x) - len(suffix)]` of `_DirectoryDataset`, the TextGrid
   variant that keeps the prefix, and the *pinned* selection of the ali<->token commands
   (`x.startswith(prefix) and x.endswith(prefix)`).
2. **The worker pattern** — `_multiprocessor_pattern_generator`: `do_work` applied to every
   item, results delivered in *some* order; output directories as key/value stores in which
   a later write replaces an earlier one.
3. **Run-length coding** — `_torch_ali_dir_to_torch_token_dir_do_work`
   (`unique_consecutive(return_counts=True)`, `cumsum`) and
   `_torch_token_data_dir_to_torch_ali_dir_do_work` (the four validity tests, then
   `repeat_interleave`).
4. **Error rates** — `compute_torch_token_data_dir_error_rates`: replace/ignore, the
   `defaultdict` interning of tokens, the merge that drops utterances missing on one side,
   batches of `--batch-size`, accumulation, and the printed figure — both as pinned (the
   per-utterance quotient is always evaluated) and as repaired.
5. **Subsetting** — `subset_torch_spect_data_dir`: the orderings and `all_utt_ids[:n]`, the
   per-subdirectory copy; §5b the whole command on a source tree (`subsetCmd`: any tree, consistent
   SpectDataSet directory or not) and the utterances a `SpectDataSet` over the tree lists
   (`dataSetIds`, what the chunk and info commands walk).
6. **Length moments / MVN statistics** — `(s, ss, c)` per file, summed, and
   `_do_mv_printing`; the grouped accumulation of `compute_mvn_stats_for_torch_feat_data_dir`.
7. **Transcript directories** — trn -> token dir -> trn at the level of the commands (file
   naming, `token2id` / `id2token` look-ups, sorted listing); the text formats themselves
   belong to C11.

External functions are parameters: the edit count `er` of C02 (`error_rate(norm=False)` on
one pair), `le` (Python's `<=` on `str`), the delivery order of the pool.

No Mathlib imports: the driver runs this file.
-/
namespace PdtVerif.CommandLine

/-! ## 1. File names -/
section Names
variable {α : Type} [DecidableEq α]

/-- `options.file_prefix + utt_id + options.file_suffix`. -/
def fileName (p s u : List α) : List α := p ++ u ++ s

/-- `x.startswith(file_prefix) and x.endswith(file_suffix)`. -/
def selects (p s f : List α) : Bool := p.isPrefixOf f && s.isSuffixOf f

/-- The filter of the two ali<->token commands on the pinned tree:
`x.startswith(options.file_prefix) and x.endswith(options.file_prefix)`; the suffix is
never consulted. -/
def selectsPinned (p _s f : List α) : Bool := p.isPrefixOf f && p.isSuffixOf f

/-- `x[len(prefix) : len(x) - len(suffix)]` (only evaluated on selected names, for which
`len(suffix) <= len(x)`, so the truncated subtraction is Python's). -/
def uttOf (p s f : List α) : List α := (f.take (f.length - s.length)).drop p.length

/-- `x[: len(x) - len(suffix)]` — the TextGrid commands keep the prefix in the id. -/
def stemOf (s f : List α) : List α := f.take (f.length - s.length)

/-- `_DirectoryDataset.__init__` before sorting: ids of the selected names. -/
def listedUtts (p s : List α) (files : List (List α)) : List (List α) :=
  (files.filter (selects p s)).map (uttOf p s)

end Names

/-! ## 2. Worker pattern and output directories -/
section Pool
variable {ι ρ κ ν : Type}

/-- `_multiprocessor_pattern_generator`: the results of `do_work` in the order in which the
items were *delivered*. Serial (`--num-workers 0`): `delivered = items`. With a pool
(`imap_unordered`): `delivered` is some rearrangement of `items` (trusted: each item exactly
once), whatever the chunk size. -/
def poolResults (doWork : ι → ρ) (delivered : List ι) : List ρ := delivered.map doWork

/-- A directory: newest binding first, one binding per name. -/
abbrev Dir (κ ν : Type) := List (κ × ν)

/-- `torch.save(x, path)` / `shutil.copy`: creates or replaces. -/
def Dir.write [DecidableEq κ] (d : Dir κ ν) (k : κ) (v : ν) : Dir κ ν :=
  (k, v) :: d.filter (fun e => !(e.1 == k))

def Dir.get [DecidableEq κ] (d : Dir κ ν) (k : κ) : Option ν := d.lookup k

/-- All writes of a run, in delivery order. -/
def Dir.writeAll [DecidableEq κ] (d : Dir κ ν) (kvs : List (κ × ν)) : Dir κ ν :=
  kvs.foldl (fun d kv => d.write kv.1 kv.2) d

end Pool

/-! ## 3. Run-length coding (alignment <-> segments) -/
section Rle
variable {τ : Type} [DecidableEq τ]

/-- `ali.unique_consecutive(return_counts=True)` as (value, count) pairs. -/
def runs : List τ → List (τ × Nat)
  | [] => []
  | x :: xs =>
    match runs xs with
    | [] => [(x, 1)]
    | (y, n) :: rest => if x = y then (y, n + 1) :: rest else (x, 1) :: (y, n) :: rest

/-- One row `(tok, start, end)` of a `(R, 3)` token tensor. -/
structure Seg (τ : Type) where
  tok : τ
  start : Int
  stop : Int
  deriving Repr, DecidableEq

/-- `c = cat([0], counts).cumsum(0); start, end = c[:-1], c[1:]; stack([tok, start, end])`
with the running offset made explicit. -/
def segsFrom (off : Int) : List (τ × Nat) → List (Seg τ)
  | [] => []
  | (t, n) :: rest => ⟨t, off, off + n⟩ :: segsFrom (off + n) rest

/-- `_torch_ali_dir_to_torch_token_dir_do_work`. -/
def encode (ali : List τ) : List (Seg τ) := segsFrom 0 (runs ali)

/-- `torch.repeat_interleave(tok, counts)`. -/
def expand : List (τ × Nat) → List τ
  | [] => []
  | (t, n) :: rest => List.replicate n t ++ expand rest

inductive DecErr where
  | invalidSize | missing | notZero | notContiguous | frames | negativeRepeat
  deriving Repr, DecidableEq

/-- `(ref[:-1, 2] != ref[1:, 1]).any()` negated. -/
def contiguous : List (Seg τ) → Bool
  | [] => true
  | [_] => true
  | a :: b :: rest => a.stop == b.start && contiguous (b :: rest)

/-- `ref[-1, 2] != T` when the feature file was consulted. -/
def framesMismatch (ref : List (Seg τ)) : Option Int → Bool
  | some t => (ref.getLast?.map (·.stop)) != some t
  | none => false

def lensOf (ref : List (Seg τ)) : List (τ × Nat) :=
  ref.map (fun s => (s.tok, (s.stop - s.start).toNat))

/-- `_torch_token_data_dir_to_torch_ali_dir_do_work` on a tensor of shape `(R, 3)`
(`shapeOk = false` stands for any other shape); `T` is the frame count of the feature file
when `--feat-dir` is given. The tests are in the order of the code; `repeat_interleave`
rejects negative counts (`RuntimeError`). -/
def decode (shapeOk : Bool) (ref : List (Seg τ)) (T : Option Int) : Except DecErr (List τ) :=
  if !shapeOk || ref.isEmpty then .error .invalidSize
  else if ref.any (fun s => s.start < 0 || s.stop < 0) then .error .missing
  else if (ref.head?.map (·.start)) != some 0 then .error .notZero
  else if !contiguous ref then .error .notContiguous
  else if framesMismatch ref T then .error .frames
  else if ref.any (fun s => s.stop - s.start < 0) then .error .negativeRepeat
  else .ok (expand (lensOf ref))

end Rle


/-! ## 3b. The two alignment commands on whole directories -/
section AliCommands
variable {α τ ν : Type} [DecidableEq α] [DecidableEq τ]

/-- The entries of a directory whose name passes the (repaired) filter. -/
def selectedEntries (p s : List α) (dir : Dir (List α) ν) : Dir (List α) ν :=
  dir.filter (fun e => selects p s e.1)

/-- All results, or the first error (an exception ends the command; files written before it
are not modelled). -/
def exceptAll {ε β : Type} : List (Except ε β) → Except ε (List β)
  | [] => .ok []
  | .error e :: _ => .error e
  | .ok b :: rest => (exceptAll rest).map (b :: ·)

/-- `torch_ali_data_dir_to_torch_token_data_dir`: `delivered` are the selected entries of
the ali directory in the order the pool handled them; the basename is kept. -/
def aliToTokCmd (delivered : List (List α × List τ)) : Dir (List α) (List (Seg τ)) :=
  Dir.writeAll [] (delivered.map (fun e => (e.1, encode e.2)))

/-- `torch_token_data_dir_to_torch_ali_data_dir` (without `--feat-dir`). -/
def tokToAliCmd (delivered : List (List α × List (Seg τ))) :
    Except DecErr (Dir (List α) (List τ)) :=
  (exceptAll (delivered.map (fun e => (decode true e.2 none).map (fun a => (e.1, a))))).map
    (Dir.writeAll [])

end AliCommands

/-! ## 4. Error rates -/
section ErrorRates
variable {τ υ : Type} [DecidableEq τ]

/-- The `replace` dict is filled line by line, so a later line for the same key wins;
`replace.get(t, t)`. -/
def replaceTok (rep : List (τ × τ)) (t : τ) : τ := (rep.reverse.lookup t).getD t

/-- `[... replace.get(t, t) ... for t in transcript if replace.get(t, t) not in ignore]`. -/
def prep (rep : List (τ × τ)) (ign : List τ) (tr : List τ) : List τ :=
  tr.filterMap (fun t => let t' := replaceTok rep t; if ign.contains t' then none else some t')

/-- `token2id = defaultdict(get_idee)`: the table is the list of tokens seen so far, the
id of a token is its position. -/
def internTok (st : List τ) (t : τ) : Nat × List τ :=
  if st.contains t then (st.idxOf t, st) else (st.length, st ++ [t])

def internSeq (st : List τ) : List τ → List Nat × List τ
  | [] => ([], st)
  | t :: ts =>
    let (i, st1) := internTok st t
    let (is, st2) := internSeq st1 ts
    (i :: is, st2)

/-- All references of a batch are interned first, then all hypotheses (the two list
comprehensions of the loop body). -/
def internMany (st : List τ) : List (List τ) → List (List Nat) × List τ
  | [] => ([], st)
  | l :: ls =>
    let (i, st1) := internSeq st l
    let (is, st2) := internMany st1 ls
    (i :: is, st2)

/-- The merge loop that removes utterances present on one side only. Both lists are sorted
by id (they come from `_DirectoryDataset`). `none` = `ValueError` (no `--warn-missing`).
`fuel` bounds the number of iterations (`refs.length + hyps.length` suffices). -/
def alignPairs {β : Type} (lt : υ → υ → Bool) (warn : Bool) :
    Nat → List (υ × β) → List (υ × β) → Option (List (υ × β × β))
  | 0, _, _ => some []
  | _ + 1, [], [] => some []
  | f + 1, [], _ :: hs => if warn then alignPairs lt warn f [] hs else none
  | f + 1, _ :: rs, [] => if warn then alignPairs lt warn f rs [] else none
  | f + 1, r :: rs, h :: hs =>
    if lt r.1 h.1 then (if warn then alignPairs lt warn f rs (h :: hs) else none)
    else if lt h.1 r.1 then (if warn then alignPairs lt warn f (r :: rs) hs else none)
    else (alignPairs lt warn f rs hs).map (fun t => (r.1, r.2, h.2) :: t)

/-- `l[:n]`, `l[n:]` until nothing is left (`n ≥ 1`: `argcheck.as_nat`). -/
def chunks {β : Type} (n : Nat) : Nat → List β → List (List β)
  | 0, _ => []
  | f + 1, l => if l.isEmpty then [] else l.take n :: chunks n f (l.drop n)

/-- One prepared pair: id, reference, hypothesis (after replace/ignore). -/
abbrev Pair (υ τ : Type) := υ × List τ × List τ

/-- The accumulators of the loop: `error_rates` (insertion order), `tot_errs`,
`total_ref_tokens`; `zdiv` records that a per-utterance quotient divided by zero. -/
structure Acc (υ : Type) where
  perUtt : List (υ × Rat)
  tot : Nat
  refTokens : Nat
  zdiv : Bool

/-- Loop body for one batch. `er` is `error_rate(..., norm=False)` for one pair, applied to
the *interned* sequences. `divide` says whether the per-utterance quotient
`er / len(transcript)` is evaluated for this run. -/
def accBatch (er : List Nat → List Nat → Nat) (divide : Bool)
    (st : Acc υ × List τ) (batch : List (Pair υ τ)) : Acc υ × List τ :=
  let (acc, table) := st
  let (refs, table1) := internMany table (batch.map (·.2.1))
  let (hyps, table2) := internMany table1 (batch.map (·.2.2))
  let rows := (batch.zip (refs.zip hyps)).map (fun (b, r, h) => (b.1, r.length, er r h))
  (rows.foldl (fun a (u, n, e) =>
      { perUtt := a.perUtt ++ [(u, if divide then (e : Rat) / (n : Rat) else (e : Rat))],
        tot := a.tot + e, refTokens := a.refTokens + n,
        zdiv := a.zdiv || (divide && n == 0) }) acc, table2)

def accAll (er : List Nat → List Nat → Nat) (divide : Bool) (batchSize : Nat)
    (pairs : List (Pair υ τ)) : Acc υ :=
  ((chunks batchSize pairs.length pairs).foldl (accBatch er divide) (⟨[], 0, 0, false⟩, [])).1

inductive ErOut (υ : Type) where
  | perUtt (l : List (υ × Rat))
  | total (q : Rat)
  | zeroDiv
  deriving Repr

/-- What is written to `out`. -/
def report (distances perUtt : Bool) (a : Acc υ) : ErOut υ :=
  if a.zdiv then .zeroDiv
  else if perUtt then .perUtt a.perUtt
  else
    let den : Nat := if distances then a.perUtt.length else a.refTokens
    if den == 0 then .zeroDiv else .total ((a.tot : Rat) / (den : Rat))

/-- Pinned tree: `error_rates[utt_id] = er / (1 if distances else len(transcript))` is
evaluated for every utterance in every mode. -/
def erCommandPinned (er : List Nat → List Nat → Nat) (distances perUtt : Bool)
    (batchSize : Nat) (pairs : List (Pair υ τ)) : ErOut υ :=
  report distances perUtt (accAll er (!distances) batchSize pairs)

/-- Repaired (`fixes/C17-error-rate-total-empty-ref.diff`): the quotient is evaluated only
with `--per-utt` (and without `--distances`). -/
def erCommand (er : List Nat → List Nat → Nat) (distances perUtt : Bool)
    (batchSize : Nat) (pairs : List (Pair υ τ)) : ErOut υ :=
  report distances perUtt (accAll er (perUtt && !distances) batchSize pairs)

/-- The whole command from the two loaded directories. -/
def erFromDirs (lt : υ → υ → Bool) (er : List Nat → List Nat → Nat)
    (rep : List (τ × τ)) (ign : List τ) (warn distances perUtt pinned : Bool) (batchSize : Nat)
    (refs hyps : List (υ × List τ)) : Option (ErOut υ) :=
  (alignPairs lt warn (refs.length + hyps.length + 1) refs hyps).map fun ps =>
    let pairs : List (Pair υ τ) := ps.map (fun (u, r, h) => (u, prep rep ign r, prep rep ign h))
    if pinned then erCommandPinned er distances perUtt batchSize pairs
    else erCommand er distances perUtt batchSize pairs

end ErrorRates

/-! ## 5. Subsetting -/
section Subset
variable {υ : Type}

inductive Crit (υ : Type) where
  | firstN (n : Nat) | lastN (n : Nat) | shortestN (n : Nat) | longestN (n : Nat)
  | firstR (q : Rat) | lastR (q : Rat) | shortestR (q : Rat) | longestR (q : Rat)
  | uttList (l : List υ)

/-- `int(len(all_utt_ids) * ratio)` in exact arithmetic (`0 ≤ ratio ≤ 1`). The float product
of the code is exact for the dyadic ratios the correspondence uses. -/
def ratioCount (N : Nat) (q : Rat) : Nat := ((N : Rat) * q).floor.toNat

/-- `pairs.sort()` on `(length, id)` tuples. -/
def leShort (le : υ → υ → Bool) (a b : Nat × υ) : Bool :=
  a.1 < b.1 || (a.1 == b.1 && le a.2 b.2)

/-- `pairs.sort(key=lambda x: (-x[0], x[1]))`. -/
def leLong (le : υ → υ → Bool) (a b : Nat × υ) : Bool :=
  b.1 < a.1 || (a.1 == b.1 && le a.2 b.2)

/-- The order in which utterances are considered. `avail` = (size(0), utt id) for every
selected file of the feat directory. -/
def subsetOrder (le : υ → υ → Bool) (avail : List (Nat × υ)) : Crit υ → List υ
  | .firstN _ | .firstR _ | .uttList _ => (avail.map (·.2)).mergeSort (fun a b => le a b)
  | .lastN _ | .lastR _ => (avail.map (·.2)).mergeSort (fun a b => le b a)
  | .shortestN _ | .shortestR _ => (avail.mergeSort (leShort le)).map (·.2)
  | .longestN _ | .longestR _ => (avail.mergeSort (leLong le)).map (·.2)

def subsetCount (N : Nat) : Crit υ → Nat
  | .firstN n | .lastN n | .shortestN n | .longestN n => n
  | .firstR q | .lastR q | .shortestR q | .longestR q => ratioCount N q
  | .uttList _ => 0

/-- `utt_ids`: either the listed ids that exist (in the order and multiplicity given), or
`all_utt_ids[:n]`. -/
def subsetSelect [DecidableEq υ] (le : υ → υ → Bool) (avail : List (Nat × υ)) (c : Crit υ) :
    List υ :=
  match c with
  | .uttList l => l.filter (fun u => (avail.map (·.2)).contains u)
  | c => (subsetOrder le avail c).take (subsetCount avail.length c)

/-- `_copy_spect_data_dir_do_work` over all selected names: for each existing
sub-directory, each source file of that name is copied. `src` lists (subdir, name, content);
`subdirs` are the sub-directories that exist in `src`. -/
def copySubset {σ κ ν : Type} [DecidableEq σ] [DecidableEq κ]
    (subdirs : List σ) (names : List κ) (src : List (σ × κ × ν)) : List (σ × κ × ν) :=
  src.filter (fun e => subdirs.contains e.1 && names.contains e.2.1)

/-- The copy loop as the code runs it (serial order): `for basename in basenames:
for x in (feat_subdir, ali_subdir, ref_subdir): if os.path.exists(src/x/basename): cp(...)` —
the `(subdir, name)` targets in the order they are written. `src` lists the `(subdir, name)`
files that exist; `subdirs` the existing sub-directories in the order of the code. A name
listed twice (`--utt-list a a`: `utt_ids` keeps the multiplicity) is visited twice. -/
def copyTargets {σ κ : Type} [DecidableEq σ] [DecidableEq κ]
    (subdirs : List σ) (src : List (σ × κ)) (names : List κ) : List (σ × κ) :=
  names.flatMap (fun n => (subdirs.filter (fun sub => src.contains (sub, n))).map (fun sub => (sub, n)))

/-- `cp(src, dst)` target after target into a directory that holds `d`: `os.link` / `os.symlink`
(`linkMode = true`, the default and `--symlink`) raise `FileExistsError` when the target is already
there; `shutil.copy` (`--copy`) replaces it by the same bytes. -/
def copyRun {κ : Type} [DecidableEq κ] (linkMode : Bool) : List κ → List κ → Except Unit (List κ)
  | d, [] => .ok d
  | d, k :: ks =>
    if d.contains k then (if linkMode then .error () else copyRun linkMode d ks)
    else copyRun linkMode (d ++ [k]) ks

/-- `subset_torch_spect_data_dir` after the selection: the files of `dest` (fresh directory), or
`FileExistsError`. -/
def copyCmd {σ κ : Type} [DecidableEq σ] [DecidableEq κ] (linkMode : Bool)
    (subdirs : List σ) (src : List (σ × κ)) (names : List κ) : Except Unit (List (σ × κ)) :=
  copyRun linkMode [] (copyTargets subdirs src names)

end Subset

/-! ## 5b. The subset command on a whole source tree (any tree, consistent or not) -/
section SubsetDir
variable {σ α : Type} [DecidableEq σ] [DecidableEq α]

/-- `os.listdir(src/sub)`: the names of the files `tree` has in the sub-directory `sub`. `tree`
lists every `(sub-directory, file name)` of `src` — ANY files: names that do not match the
prefix / suffix, utterances present in only some of the sub-directories, sub-directories the
command does not know. -/
def filesOf (sub : σ) (tree : List (σ × List α)) : List (List α) :=
  (tree.filter (fun e => e.1 == sub)).map (·.2)

/-- `_DirectoryDataset(feat_dir, file_prefix, file_suffix).utt_ids` (before sorting): the
utterances of the data set are those of `feat/` ("Available utterances to extract are
determined by the contents of the feat/ subdirectory"). -/
def featIds (p s : List α) (featSub : σ) (tree : List (σ × List α)) : List (List α) :=
  listedUtts p s (filesOf featSub tree)

/-- `(size(0), utt id)` of every utterance of `feat/`: the `DataLoader` loads
`prefix + utt + suffix` (a name that only matches because prefix and suffix overlap has no such
file: `FileNotFoundError`, known finding, not modelled — `len` is total). -/
def subsetAvail (p s : List α) (featSub : σ) (len : List α → Nat) (tree : List (σ × List α)) :
    List (Nat × List α) :=
  (featIds p s featSub tree).map (fun u => (len (fileName p s u), u))

/-- `utt_ids` of the command on the tree. -/
def subsetSel (le : List α → List α → Bool) (p s : List α) (featSub : σ) (len : List α → Nat)
    (tree : List (σ × List α)) (c : Crit (List α)) : List (List α) :=
  subsetSelect le (subsetAvail p s featSub len tree) c

/-- `subset_torch_spect_data_dir src dest` as a whole: list `feat/`, order / filter the ids,
`basenames = (prefix + x + suffix for x in utt_ids)`, then the copy loop over `feat_subdir` and
those of `ali_subdir`, `ref_subdir` that are directories of `src` (`otherSubs`; with `--only`
there are none and `featSub` is `src` itself). The files of `dest`, or `FileExistsError`. -/
def subsetCmd (le : List α → List α → Bool) (p s : List α) (featSub : σ) (otherSubs : List σ)
    (len : List α → Nat) (tree : List (σ × List α)) (c : Crit (List α)) (linkMode : Bool) :
    Except Unit (List (σ × List α)) :=
  copyCmd linkMode (featSub :: otherSubs) tree
    ((subsetSel le p s featSub len tree c).map (fileName p s))

/-- `SpectDataSet.has_ali` / `has_ref`: a sub-directory counts only if it holds at least one
selected name (`os.path.isdir(...)` and `any(x.startswith(prefix) and x.endswith(suffix) ...)`; an
`ali/` without a matching file is "no alignments", not "no utterance has an alignment").
`otherSubs` = those of `ali/`, `ref/` that are directories of `src`. -/
def dataSetSubs (p s : List α) (otherSubs : List σ) (tree : List (σ × List α)) : List σ :=
  otherSubs.filter (fun sub => (filesOf sub tree).any (selects p s))

/-- `SpectDataSet.find_utt_ids` (what `chunk-torch-spect-data-dir` and
`get-torch-spect-data-dir-info` walk): the utterances of `feat/` that every one of `ali/`, `ref/`
that counts (`dataSetSubs`) has as well — a set in the code (`utt_ids &= ali_utt_ids`, then
sorted), here the ids of `feat/` in listing order. -/
def dataSetIds (p s : List α) (featSub : σ) (otherSubs : List σ) (tree : List (σ × List α)) :
    List (List α) :=
  (featIds p s featSub tree).filter
    (fun u => (dataSetSubs p s otherSubs tree).all (fun sub => (featIds p s sub tree).contains u))

end SubsetDir

/-! ## 6. Moments -/
section Moments

/-- `(s, ss, c)` of one file. -/
structure Mom where
  s : Int
  ss : Int
  c : Nat
  deriving Repr, DecidableEq

def Mom.zero : Mom := ⟨0, 0, 0⟩
def Mom.add (a b : Mom) : Mom := ⟨a.s + b.s, a.ss + b.ss, a.c + b.c⟩

/-- `lens.sum(), lens.square().sum(), lens.numel()`. -/
def momOf (lens : List Int) : Mom := ⟨lens.sum, (lens.map (fun x => x * x)).sum, lens.length⟩

/-- `_print_torch_ali_data_dir_length_moments`: run lengths of runs whose label is not
excluded. -/
def aliLens (excl : List Int) (ali : List Int) : List Int :=
  ((runs ali).filter (fun r => !excl.contains r.1)).map (fun r => (r.2 : Int))

/-- `_print_torch_ref_data_dir_length_moments` on a `(R, 3)` tensor: `end - start` of rows
with `0 <= start <= end` whose token is not excluded; the flag says whether some row is
invalid and not excluded (warning / `--strict` error). -/
def refLens (excl : List Int) (ref : List (Seg Int)) : List Int × Bool :=
  let valid := fun (s : Seg Int) => decide (0 ≤ s.start) && decide (s.start ≤ s.stop)
  let keep := fun (s : Seg Int) => !excl.contains s.tok
  ((ref.filter (fun s => valid s && keep s)).map (fun s => s.stop - s.start),
   ref.any (fun s => !valid s && keep s))

/-- The `for s_, ss_, c_ in ...: s += s_ ...` loop over delivered results. -/
def sumMoms (rs : List Mom) : Mom := rs.foldl Mom.add Mom.zero

/-- `_do_mv_printing` before formatting: `none` = "n/a (n/a)"; variance `none` = "n/a"
(Bessel with one sample). `--std` takes the square root of the variance afterwards. -/
def mvPrint (bessel : Bool) (m : Mom) : Option (Rat × Option Rat) :=
  if m.c == 0 then none
  else
    let c : Rat := m.c
    let mean : Rat := (m.s : Rat) / c
    let var : Rat := (m.ss : Rat) / c - mean * mean
    if bessel && m.c == 1 then some (mean, none)
    else some (mean, some (if bessel then var * (c / (c - 1)) else var))

/-- `MeanVarianceNormalization.accumulate` on the vectors of one file (already laid out
with the feature dimension last): count, per-coordinate sum and sum of squares. -/
structure VMom where
  count : Nat
  sum : List Rat
  sumsq : List Rat
  deriving Repr

def vadd (a b : List Rat) : List Rat := List.zipWith (· + ·) a b

def VMom.accumulate (m : Option VMom) (vecs : List (List Rat)) (F : Nat) : VMom :=
  let m0 : VMom := m.getD ⟨0, List.replicate F 0, List.replicate F 0⟩
  vecs.foldl (fun a v => ⟨a.count + 1, vadd a.sum v, vadd a.sumsq (v.map (fun x => x * x))⟩) m0

/-- `MeanVarianceNormalization.store`: `none` = `RuntimeError` (fewer than two vectors
under Bessel's correction, fewer than one otherwise — the rule after the repair
`fix: MeanVarianceNormalization.store accepts a single frame when bessel is off`).
Returns mean and variance (the code stores `sqrt(var)`). -/
def VMom.store (bessel : Bool) (m : VMom) : Option (List Rat × List Rat) :=
  if m.count < (if bessel then 2 else 1) then none
  else
    let c : Rat := m.count
    let mean := m.sum.map (· / c)
    let var := List.zipWith (fun ss mu => ss / c - mu * mu) m.sumsq mean
    some (mean, if bessel then var.map (· * (c / (c - 1))) else var)

/-- `x.transpose(0, dim)` for a 2-D tensor followed by `flatten(1)`: the list of feature
vectors. `dimLast = true` is `--dim -1` (rows are the vectors), `false` is `--dim 0`. -/
def transpose (rows : List (List Rat)) : List (List Rat) :=
  match rows with
  | [] => []
  | r :: _ => (List.range r.length).map (fun j => rows.map (fun row => row.getD j 0))

def featVectors (dimLast : Bool) (rows : List (List Rat)) : List (List Rat) × Nat :=
  if dimLast then (rows, (rows.head?.map List.length).getD 0)
  else (transpose rows, rows.length)

/-- Grouped accumulation of `compute_mvn_stats_for_torch_feat_data_dir`: files in the order
of delivery, `gidOf` = `id2gid[...]`. Table of (gid, accumulator). -/
def mvnAccumulate {γ : Type} [DecidableEq γ] (dimLast : Bool)
    (files : List (γ × List (List Rat))) : List (γ × VMom) :=
  files.foldl (fun tbl (g, rows) =>
    let (vecs, F) := featVectors dimLast rows
    let cur := tbl.lookup g
    let m := VMom.accumulate cur vecs F
    if cur.isSome then tbl.map (fun e => if e.1 = g then (g, m) else e) else tbl ++ [(g, m)]) []

end Moments

/-! ## 7. Transcript directories at command level -/
section Transcripts
variable {α τ : Type} [DecidableEq α] [DecidableEq τ]

/-- `token2id.get(token, token if unk is None else unk)` followed by the store into a long
tensor: an unmapped token without `--unk-symbol` cannot be stored (`none` = the command
fails). `unkId` is `token2id[unk]`. -/
def tokenId (t2i : List (τ × Int)) (unkId : Option Int) (t : τ) : Option Int :=
  match t2i.reverse.lookup t with
  | some i => some i
  | none => unkId

/-- All results, or `none` as soon as one step failed (an exception ends the command). -/
def optAll {β : Type} : List (Option β) → Option (List β)
  | [] => some []
  | none :: _ => none
  | some b :: rest => (optAll rest).map (b :: ·)

/-- `trn_to_torch_token_data_dir` with `--skip-frame-times`: one file per utterance, in the
order delivered by the pool. `none` if some token has no id. -/
def trnToDir (p s : List α) (t2i : List (τ × Int)) (unkId : Option Int)
    (delivered : List (List α × List τ)) : Option (Dir (List α) (List Int)) :=
  (optAll (delivered.map (fun ut =>
    (optAll (ut.2.map (tokenId t2i unkId))).map (fun ids => (fileName p s ut.1, ids))))).map
    (Dir.writeAll [])

/-- `id2token.get(id_, id_)`, and the `ValueError` of `_TranscriptDataSet` when an id has no
token. -/
def idToken (i2t : List (Int × τ)) (i : Int) : Option τ := i2t.reverse.lookup i

/-- `torch_token_data_dir_to_trn`: select, slice, sort, load, map back. `none` = error. -/
def dirToTrn (le : List α → List α → Bool) (p s : List α) (i2t : List (Int × τ))
    (d : Dir (List α) (List Int)) : Option (List (List α × List τ)) :=
  let utts := (listedUtts p s (d.map (·.1))).mergeSort (fun a b => le a b)
  optAll (utts.map (fun u => (d.get (fileName p s u)).bind (fun ids =>
    (optAll (ids.map (idToken i2t))).map (fun tr => (u, tr)))))

end Transcripts

end PdtVerif.CommandLine
