import PdtVerif.Model.NgramTrie
import PdtVerif.Spec.Backoff
/-!
# A checker for the flat-buffer layer of C06 (translation validation)

`checkFlat b U nU items` decides, for concrete buffers `b`, whether the flat trie that
`flatNav b U` navigates *is* a reverse trie of the table `items`:

* it enumerates every node the lookup can reach – level by level, starting at the `nU`
  unigram nodes and following `flatNav.child` (the very scan over `offsets`/`ids` the lookup
  performs) for every token of the domain;
* every reachable node must carry the table's finite log-probability (or `-inf`) and – below
  the highest order – the table's back-off weight (`0` when the key is not listed: the
  implicit suffix nodes);
* every listed key over the domain must be among the reachable nodes of its level.

`Lemmas/NgramFlatCheck.lean` proves that a passing check implies `RepresentsN`, i.e. the
hypothesis of the lookup theorem. The driver evaluates the check on the buffers built for
every generated case.

No Mathlib imports: the driver runs this file.
-/
namespace PdtVerif.NgramTrie
open PdtVerif.Backoff

/-- The children of a frontier: every `(r ++ [t], d')` with `child d t = some d'`. -/
def expand {ν} (nav : Nav ν) (dom : List Int) (fr : List (List Int × ν)) : List (List Int × ν) :=
  fr.flatMap (fun p => dom.filterMap (fun t => (nav.child p.2 t).map (fun d' => (p.1 ++ [t], d'))))

/-- Level `n`: the reachable nodes whose reversed key has `n + 1` tokens of the domain. -/
def levelOf {ν} (nav : Nav ν) (dom : List Int) : Nat → List (List Int × ν)
  | 0 => dom.map (fun t => ([t], nav.root t))
  | n + 1 => expand nav dom (levelOf nav dom n)

def overDom (dom : List Int) (k : List Int) : Bool := k.all (fun t => dom.contains t)

/-- Level `n` of a model of order `N`: values of all reachable nodes, and presence of all
listed keys of length `n + 1`. -/
def checkLevel {ν} (nav : Nav ν) (items : List (List Int × Entry)) (dom : List Int) (N n : Nat) :
    Bool :=
  let tbl := ofList items
  let L := levelOf nav dom n
  L.all (fun p =>
    decide (nav.logp p.2 = LogP.ofOption (finiteP tbl p.1.reverse)) &&
    (n + 1 == N || decide (nav.logb p.2 = LogP.fin (beta tbl p.1.reverse)))) &&
  items.all (fun e =>
    e.1.length != n + 1 || !overDom dom e.1 || L.any (fun p => p.1 == e.1.reverse))

/-- The domain of token ids of a model with `nU` unigram nodes. -/
def domOf (nU : Nat) : List Int := (List.range nU).map Int.ofNat

/-- Do the flat buffers represent the table `items` (keys oldest token first, `sos` already
remapped) up to order `b.N`? -/
def checkFlat (b : Buffers) (U nU : Nat) (items : List (List Int × Entry)) : Bool :=
  (List.range b.N).all (checkLevel (flatNav b U) items (domOf nU) b.N)

end PdtVerif.NgramTrie

namespace PdtVerif.NgramTrie
open PdtVerif.Backoff

/-- One listed n-gram as an entry of the spec's table: `-inf` (and NaN) log-probabilities are
"not finite"; the highest order has no back-off weight. -/
def entryOf (top : Bool) (e : Item) : List Int × Entry :=
  let p : Option Rat := match e.logp with | .fin q => some q | _ => none
  let b : Rat := if top then 0 else match e.logb with | .fin q => q | _ => 0
  (e.key, (p, b))

/-- The raw table (`prob_dicts`, lowest order first) as the spec's association list. -/
def tableOf (dicts : List (List Item)) : List (List Int × Entry) :=
  dicts.zipIdx.flatMap (fun (d, n) => d.map (entryOf (n + 1 == dicts.length)))

/-- `sos → V` (when the start symbol is outside the vocabulary), as applied to every key of
the table by `_build_trie` and to the window by the lookup. -/
def remapTable (V : Nat) (sos : Int) (items : List (List Int × Entry)) : List (List Int × Entry) :=
  items.map (fun e => (e.1.map (remapTok V sos), e.2))

/-- The check the driver runs on the buffers built from `dicts`. -/
def checkBuilt (V : Nat) (sos : Int) (dicts : List (List Item)) (b : Buffers) : Bool :=
  checkFlat b (uOf V sos b.N) (V + shiftOf V sos) (remapTable V sos (tableOf dicts))

/-! ## the hypotheses of `C06_flat`, decidable -/

/-- Values a dictionary may hold: no NaN log-probability, and below the highest order a finite
back-off weight. -/
def valsOK (dicts : List (List Item)) : Bool :=
  dicts.zipIdx.all (fun p => p.1.all (fun e =>
    e.logp != LogP.nan && (p.2 + 1 == dicts.length || (match e.logb with | .fin _ => true | _ => false))))

/-- The keys of one order are pairwise distinct (they are the keys of a Python dict). -/
def keysOK (dicts : List (List Item)) : Bool :=
  dicts.all (fun d => decide ((d.map (·.key)).Nodup))

/-- What `C06_flat`, `C06_lookup`, `C06_model` assume about a table. -/
def tableOK (dicts : List (List Item)) : Bool := keysOK dicts && valsOK dicts

end PdtVerif.NgramTrie
