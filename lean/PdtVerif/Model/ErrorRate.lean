import PdtVerif.Spec.Levenshtein
/-!
# Model of `_string.py::_string_matching` in its `return_mistakes=True` use
(`error_rate`, `prefix_error_rates`) and of `minimum_error_rate_loss`

The model follows the control flow of the code, per batch column, with the *shared padded*
sizes `R = |ref column|`, `H = |hyp column|` (the DP always runs over the whole padded
reference and reads the cell at `refLen`):

* `seqLen` — `_lens_from_eos` + the `include_eos` adjustment (one more only if an eos exists);
* `useShortcut` — `ins == del == sub > 0`: unit costs, `return_mistakes` switched **off**,
  and `mult` stays `1.0` (it is only set when `return_mistakes` was *not* requested);
* mistakes branch: the paired table `(cost, mistakes)`:
  `phase1` is the vectorised insertion/substitution choice
  `pick_sub = row[1:] >= sub_row` (substitution wins ties), `delLoop` the sequential loop
  `for ref_idx: del_ = row[ref_idx-1] + del; keep = del_ >= row[ref_idx]` (the current cell
  wins ties); both update `mistakes` with the same choices;
* plain branch (after the shortcut): `min` and the `del_mat` form
  `new[i] = min_j (v[j] + (i·d − j·d))`, `j ≤ i` (entries above the diagonal are `+∞`);
* `not_done` freeze, `ins_mask`, `exclude_last`, read-out at `refLen`, `norm` with both
  empty-reference conventions, padding of the prefix variant;
* `merLoss` — `minimum_error_rate_loss`: 2-D / 3-D `ref`, `view` (row-major flattening of
  batch × samples), `error_rate`, `view(N, M)`, `sub_avg`, product with the softmax weights
  (an *input*: softmax is a trusted primitive), reduction.

Tensors are lists, floats are exact rationals. Mathlib-free (the driver runs this file).
-/
namespace PdtVerif.ErrorRate
open PdtVerif.Lev

variable {α : Type} [DecidableEq α]

/-! ## Lengths -/

/-- `_lens_from_eos`: index of the first `eos`, or the length when there is none. -/
def firstEos (eos : α) : List α → Nat
  | [] => 0
  | t :: ts => if t = eos then 0 else firstEos eos ts + 1

/-- `ref_lens` / `hyp_lens` of the code. -/
def seqLen (eos : Option α) (includeEos : Bool) (toks : List α) : Nat :=
  match eos with
  | none => toks.length
  | some e =>
    let l := firstEos e toks
    if includeEos then (if l = toks.length then l else l + 1) else l

/-! ## The paired table (mistakes branch) -/

/-- A cell of the paired table: `(row[j], mistakes[j])`. -/
abbrev Cell := Rat × Nat

/-- `x * mask` for a `{0.0, 1.0}` float mask. -/
def masked (b : Bool) (x : Rat) : Rat := if b then x else 0
def maskN (b : Bool) : Nat := if b then 1 else 0

/-- `row = last_row + ins_cost * ins_mask`, `mistakes = last_mistakes + ins_mask`. -/
def addIns (c : Costs) (insMask : Bool) (cell : Cell) : Cell :=
  (cell.1 + masked insMask c.ins, cell.2 + maskN insMask)

/-- `sub_row = last_row[:-1] + sub_cost * neq_mask`, `msub_row = last_mistakes[:-1] + neq_mask`. -/
def subCell (c : Costs) (y : α) (x : α) (cell : Cell) : Cell :=
  (cell.1 + masked (decide (x ≠ y)) c.sub, cell.2 + maskN (decide (x ≠ y)))

/-- `pick_sub = row[1:] >= sub_row; where(pick_sub, sub_row, row[1:])` — substitution on ties. -/
def pickSub (insC subC : Cell) : Cell := if subC.1 ≤ insC.1 then subC else insC

/-- The vectorised part of one step. `zipWith` stops after `|ref| = |last| - 1` entries, which is
the slice `last_row[:-1]`. -/
def phase1 (c : Costs) (ref : List α) (y : α) (insMask : Bool) (last : List Cell) : List Cell :=
  match last with
  | [] => []
  | d0 :: _ =>
    addIns c insMask d0 ::
      List.zipWith pickSub ((last.drop 1).map (addIns c insMask)) (List.zipWith (subCell c y) ref last)

/-- The sequential deletion loop, `prev` = the already final `row[ref_idx - 1]`:
`del_ = prev + del; keep = del_ >= row[ref_idx]` (current cell kept on ties). -/
def delLoop (c : Costs) : Cell → List Cell → List Cell
  | _, [] => []
  | prev, v :: vs =>
    let cell : Cell := if v.1 ≤ prev.1 + c.del then v else (prev.1 + c.del, prev.2 + 1)
    cell :: delLoop c cell vs

def delSweep (c : Costs) : List Cell → List Cell
  | [] => []
  | v0 :: vs => v0 :: delLoop c v0 vs

/-- One un-frozen step of the paired table. -/
def stepPair (c : Costs) (ref : List α) (y : α) (insMask : Bool) (last : List Cell) : List Cell :=
  delSweep c (phase1 c ref y insMask last)

/-- Row 0: `row = rrange * del_cost`, `mistakes = rrange`. -/
def row0P (c : Costs) (R : Nat) : List Cell :=
  (List.range (R + 1)).map (fun (j : Nat) => ((j : Rat) * c.del, j))

/-- `not_done = (hyp_idx - (0 if exclude_last else 1)) < hyp_lens` -/
def notDone (excl : Bool) (hypLen idx : Nat) : Bool :=
  decide ((idx : Int) - (if excl then 0 else 1) < (hypLen : Int))

/-- `ins_mask = hyp_lens >= hyp_idx` -/
def insMaskAt (hypLen idx : Nat) : Bool := decide (hypLen ≥ idx)

/-- The hypothesis tokens visited by `for hyp_idx in range(1, H + (0 if exclude_last else 1))`. -/
def stepTokens (hyp : List α) (excl : Bool) : List α :=
  hyp.take (hyp.length + (if excl then 0 else 1) - 1)

/-- The loop over `hyp_idx` (generic in the row type): returns the row after every step. -/
def loop {ρ : Type} (step : α → Bool → ρ → ρ) (excl : Bool) (hypLen : Nat) :
    Nat → List α → ρ → List ρ
  | _, [], _ => []
  | idx, y :: ys, row =>
    let new := step y (insMaskAt hypLen idx) row
    let row' := if notDone excl hypLen idx then new else row
    row' :: loop step excl hypLen (idx + 1) ys row'

/-- All rows of the paired table: `rows[k]` is the table row after `hyp_idx = k`. -/
def rowsP (c : Costs) (ref hyp : List α) (hypLen : Nat) (excl : Bool) : List (List Cell) :=
  row0P c ref.length ::
    loop (stepPair c ref) excl hypLen 1 (stepTokens hyp excl) (row0P c ref.length)

/-! ## The plain table (taken after the uniform-cost shortcut) -/

def phase1Plain (c : Costs) (ref : List α) (y : α) (insMask : Bool) (last : List Rat) : List Rat :=
  match last with
  | [] => []
  | d0 :: _ =>
    (d0 + masked insMask c.ins) ::
      List.zipWith min ((last.drop 1).map (· + masked insMask c.ins))
        (List.zipWith (fun x d => d + masked (decide (x ≠ y)) c.sub) ref last)

/-- `(del_mat + row).min(1)[i]` with `del_mat[i][j] = i·d − j·d` for `j ≤ i`, `+∞` above. -/
def delMatCell (d : Rat) (v : List Rat) (i : Nat) : Rat :=
  (List.range i).foldl (fun acc j => min acc (v.getD j 0 + ((i : Rat) * d - (j : Rat) * d)))
    (v.getD i 0)

def delMat (d : Rat) (v : List Rat) : List Rat := (List.range v.length).map (delMatCell d v)

def stepPlain (c : Costs) (ref : List α) (y : α) (insMask : Bool) (last : List Rat) : List Rat :=
  delMat c.del (phase1Plain c ref y insMask last)

def row0Plain (c : Costs) (R : Nat) : List Rat :=
  (List.range (R + 1)).map (fun (j : Nat) => (j : Rat) * c.del)

def rowsPlain (c : Costs) (ref hyp : List α) (hypLen : Nat) (excl : Bool) : List (List Rat) :=
  row0Plain c ref.length ::
    loop (stepPlain c ref) excl hypLen 1 (stepTokens hyp excl) (row0Plain c ref.length)

/-! ## Read-out, shortcut, normalisation -/

/-- `ins_cost == del_cost == sub_cost > 0.0` -/
def useShortcut (c : Costs) : Bool := c.ins == c.del && c.del == c.sub && decide (0 < c.sub)

/-- `vals[k]`: what `gather(0, ref_lens)` reads after step `k` — the mistakes count, or, after the
shortcut, the unit-cost distance (and `mult = 1`). -/
def vals (c : Costs) (ref hyp : List α) (refLen hypLen : Nat) (excl : Bool) : List Rat :=
  if useShortcut c then
    (rowsPlain unitCosts ref hyp hypLen excl).map (fun row => row.getD refLen 0)
  else
    (rowsP c ref hyp hypLen excl).map (fun row => (((row.getD refLen (0, 0)).2 : Nat) : Rat))

/-- scalar `norm`: `er / ref_lens`, and where `ref_lens == 0`: `hyp_lens > 0`. -/
def normScalar (norm : Bool) (refLen hypLen : Nat) (v : Rat) : Rat :=
  if norm then (if refLen = 0 then (if hypLen > 0 then 1 else 0) else v / (refLen : Rat)) else v

/-- prefix `norm`: `/ ref_lens`, and where `ref_lens == 0`: `arange > 0`. -/
def normPrefix (norm : Bool) (refLen k : Nat) (v : Rat) : Rat :=
  if norm then (if refLen = 0 then (if k > 0 then 1 else 0) else v / (refLen : Rat)) else v

structure Config (α : Type) where
  eos : Option α
  includeEos : Bool
  norm : Bool
  costs : Costs
  excludeLast : Bool := false
  padding : Int := -100

/-- `error_rate` for one column (padded `ref`, `hyp` columns of the batch). -/
def errorRateCol (cfg : Config α) (ref hyp : List α) : Rat :=
  let refLen := seqLen cfg.eos cfg.includeEos ref
  let hypLen := seqLen cfg.eos cfg.includeEos hyp
  let vs := vals cfg.costs ref hyp refLen hypLen false
  normScalar cfg.norm refLen hypLen (vs.getLastD 0)

/-- Number of rows of `prefix_ers`. -/
def prefixRows (H : Nat) (excl : Bool) : Nat := H + (if excl then 0 else 1)

/-- `prefix_error_rates` for one column: `prefixRows` entries (none at all when `H = 0` and
`exclude_last`: the code — with the `C01-prefix-exclude-last-empty-hyp` repair — then skips
`prefix_ers[0] = …` and returns an empty table). -/
def prefixErrorRatesCol (cfg : Config α) (ref hyp : List α) : List Rat :=
  let refLen := seqLen cfg.eos cfg.includeEos ref
  let hypLen := seqLen cfg.eos cfg.includeEos hyp
  let rows := prefixRows hyp.length cfg.excludeLast
  let c' := if useShortcut cfg.costs then unitCosts else cfg.costs
  let vs := vals cfg.costs ref hyp refLen hypLen cfg.excludeLast
  -- prefix_ers[0] = ref_lens * (1.0 if return_mistakes else del_cost)
  let first : Rat := (refLen : Rat) * (if useShortcut cfg.costs then c'.del else 1)
  let raw := first :: vs.drop 1
  (List.range rows).map (fun k =>
    if k ≥ hypLen + (if cfg.excludeLast then 0 else 1) then (cfg.padding : Rat)
    else normPrefix cfg.norm refLen k (raw.getD k 0))

/-! ## Batches -/

/-- Columns of a `(L, N)` tensor (or rows of an `(N, L)` one when `batch_first`). -/
def toColumns (batchFirst : Bool) (N : Nat) (t : List (List α)) (dflt : α) : List (List α) :=
  if batchFirst then t else (List.range N).map (fun n => t.map (fun row => row.getD n dflt))

/-- Rows of the `(K, N)` result from per-column lists (or the `(N, K)` one when `batch_first`). -/
def fromColumns (batchFirst : Bool) (K : Nat) (cols : List (List Rat)) : List (List Rat) :=
  if batchFirst then cols else (List.range K).map (fun k => cols.map (fun col => col.getD k 0))

/-- Size of the sequence dimension of a batch tensor: `t.size(1)` when `batch_first`, else
`t.size(0)`. -/
def seqDim (batchFirst : Bool) (t : List (List α)) : Nat :=
  if batchFirst then (t.headD []).length else t.length

/-- `error_rate` on a whole batch: `ref : (R, N)`, `hyp : (H, N)` (`(N, R)`, `(N, H)` when
`batch_first`); one value per batch element. -/
def errorRateBatch (cfg : Config α) (batchFirst : Bool) (N : Nat) (ref hyp : List (List α))
    (dflt : α) : List Rat :=
  List.zipWith (errorRateCol cfg) (toColumns batchFirst N ref dflt) (toColumns batchFirst N hyp dflt)

/-- `prefix_error_rates` on a whole batch: the `(H + 1, N)` (or `(H, N)` under `exclude_last`)
table, `(N, H + 1)` when `batch_first`. -/
def prefixErrorRatesBatch (cfg : Config α) (batchFirst : Bool) (N : Nat) (ref hyp : List (List α))
    (dflt : α) : List (List Rat) :=
  fromColumns batchFirst (prefixRows (seqDim batchFirst hyp) cfg.excludeLast)
    (List.zipWith (prefixErrorRatesCol cfg) (toColumns batchFirst N ref dflt)
      (toColumns batchFirst N hyp dflt))

/-! ## `minimum_error_rate_loss` -/

inductive Reduction where
  | mean | sum | none
  deriving DecidableEq, Repr

/-- `view(N, M)` of a flat list: entry `(n, m)` is `flat[n·M + m]`. -/
def view2 (N M : Nat) (flat : List Rat) : List (List Rat) :=
  (List.range N).map (fun n => (List.range M).map (fun m => flat.getD (n * M + m) 0))

def mean (l : List Rat) : Rat := l.sum / (l.length : Rat)

/-- The `(N·M)` batch of columns handed to `error_rate`, **not** `batch_first`:
`t : (L, N, M)`, `t.view(L, -1)` flattens each `t[l]` row-major; column `q` collects entry `q`. -/
def flatColumnsSeqFirst (N M : Nat) (t : List (List (List α))) (dflt : α) : List (List α) :=
  toColumns false (N * M) (t.map List.flatten) dflt

/-- `batch_first`: `t : (N, M, L)`, `t.view(-1, L)` is the list of all rows. -/
def flatColumnsBatchFirst (t : List (List (List α))) : List (List α) := t.flatten

/-- 2-D reference made 3-D: `ref.unsqueeze(-1).repeat(1, 1, M)` resp. `ref.unsqueeze(1).repeat(1, M, 1)`. -/
def repeatRef (batchFirst : Bool) (M : Nat) (ref2 : List (List α)) : List (List (List α)) :=
  if batchFirst then ref2.map (fun seq => List.replicate M seq)
  else ref2.map (fun row => row.map (fun tok => List.replicate M tok))

/-- The loss before reduction, shape `(N, M)`; `w` are the softmax weights (input). -/
def merElems (cfg : Config α) (subAvg batchFirst : Bool) (N M : Nat)
    (ref hyp : List (List (List α))) (w : List (List Rat)) (dflt : α) : List (List Rat) :=
  let refCols := if batchFirst then flatColumnsBatchFirst ref else flatColumnsSeqFirst N M ref dflt
  let hypCols := if batchFirst then flatColumnsBatchFirst hyp else flatColumnsSeqFirst N M hyp dflt
  let erFlat := List.zipWith (errorRateCol cfg) refCols hypCols
  let er := view2 N M erFlat
  let er := if subAvg then er.map (fun row => row.map (· - mean row)) else er
  List.zipWith (fun erRow wRow => List.zipWith (· * ·) erRow wRow) er w

def reduce (r : Reduction) (l : List (List Rat)) : List (List Rat) ⊕ Rat :=
  match r with
  | .none => .inl l
  | .sum => .inr l.flatten.sum
  | .mean => .inr (mean l.flatten)

/-! ## Argument validation (tensor shapes); `none` stands for the raised `RuntimeError` -/

/-- `_string_matching`: `ref` and `hyp` 2-D with the same batch size. Returns `(N, R, H)`. -/
def checkPairShapes (batchFirst : Bool) (ref hyp : List Nat) : Option (Nat × Nat × Nat) :=
  match ref, hyp with
  | [a, b], [c, d] =>
    if (if batchFirst then a else b) = (if batchFirst then c else d) then
      some (if batchFirst then a else b, if batchFirst then b else a, if batchFirst then d else c)
    else none
  | _, _ => none

/-- `minimum_error_rate_loss`: `log_probs` 2-D, `hyp` 3-D, `ref` 2-D (then repeated per sample)
or 3-D, batch and sample sizes of the three agree, at least two samples, a known reduction.
Returns `(N, M, R, H)`. -/
def checkMerShapes (batchFirst : Bool) (lp ref hyp : List Nat) (reduction : String) :
    Option (Nat × Nat × Nat × Nat) :=
  match lp, hyp with
  | [n, m], [a, b, c] =>
    let N := if batchFirst then a else b
    let M := if batchFirst then b else c
    let H := if batchFirst then c else a
    let refLen : Option Nat := match ref with
      | [p, q] => if (if batchFirst then p else q) = N then some (if batchFirst then q else p) else none
      | [p, q, r] =>
        if (if batchFirst then p else q) = N ∧ (if batchFirst then q else r) = M then
          some (if batchFirst then r else p)
        else none
      | _ => none
    match refLen with
    | some R =>
      if n = N ∧ m = M ∧ 2 ≤ M ∧ (reduction = "mean" ∨ reduction = "sum" ∨ reduction = "none") then
        some (N, M, R, H)
      else none
    | none => none
  | _, _ => none

end PdtVerif.ErrorRate
