import PdtVerif.Model.ErrorRate
import PdtVerif.Model.LevRow
/-!
# One-pass evaluation of the C02 model (for long sequences)

`Model/ErrorRate.lean` follows the code literally: after the uniform-cost shortcut every step
forms the `del_mat` minimum (`delMat`: quadratic per row, cubic per step when the row is a
list) and every row of the `hyp_idx` loop is kept. That is what the theorems are about, but it
cannot be *run* on reference dimensions of a few hundred positions.

This file evaluates the same functions in one left-to-right pass per hypothesis token:
the sequential sweep `Lev.stepRow` instead of `delMat` (equal by `C02_delmat_eq_sweep`), the
un-frozen fold over the valid hypothesis prefix instead of the frozen loop (equal by `rows_eq`),
one `scanRows` for all prefixes. `Lemmas/ErrorRateFast.lean` proves, for ALL inputs,

    errorRateColFast = errorRateCol,   prefixErrorRatesColFast = prefixErrorRatesCol,
    errorRateBatchFast = errorRateBatch, prefixErrorRatesBatchFast = prefixErrorRatesBatch,
    merElemsFast = merElems

(`C02_fast_*` in `Properties/C02.lean`), so the driver may answer with either; it evaluates both
and compares them whenever the literal form is affordable. Mathlib-free.
-/
namespace PdtVerif.ErrorRate
open PdtVerif.Lev

variable {α : Type} [DecidableEq α]

/-- The row after every prefix of `h`: `[row, step h₀ row, step h₁ (step h₀ row), …]`
(`|h| + 1` rows). -/
def scanRows {ρ : Type} (step : α → ρ → ρ) : ρ → List α → List ρ
  | row, [] => [row]
  | row, y :: ys => row :: scanRows step (step y row) ys

/-- What `gather(0, ref_lens)` reads after every prefix of the (valid part of the) hypothesis
`h`: entry `k` belongs to `h.take k`. Mistakes count, or the unit-cost distance after the
shortcut. -/
def valuesFast (c : Costs) (ref : List α) (refLen : Nat) (h : List α) : List Rat :=
  if useShortcut c then
    (scanRows (fun y row => stepRow unitCosts ref y row) (row0 unitCosts ref) h).map
      (fun row => row.getD refLen 0)
  else
    (scanRows (fun y row => stepPair c ref y true row) (row0P c ref.length) h).map
      (fun row => (((row.getD refLen (0, 0)).2 : Nat) : Rat))

/-- `error_rate` for one column, one pass. -/
def errorRateColFast (cfg : Config α) (ref hyp : List α) : Rat :=
  let refLen := seqLen cfg.eos cfg.includeEos ref
  let hypLen := seqLen cfg.eos cfg.includeEos hyp
  normScalar cfg.norm refLen hypLen ((valuesFast cfg.costs ref refLen (hyp.take hypLen)).getLastD 0)

/-- `prefix_error_rates` for one column, one pass. -/
def prefixErrorRatesColFast (cfg : Config α) (ref hyp : List α) : List Rat :=
  let refLen := seqLen cfg.eos cfg.includeEos ref
  let hypLen := seqLen cfg.eos cfg.includeEos hyp
  let vs := valuesFast cfg.costs ref refLen (hyp.take hypLen)
  (List.range (prefixRows hyp.length cfg.excludeLast)).map (fun k =>
    if k ≥ hypLen + (if cfg.excludeLast then 0 else 1) then (cfg.padding : Rat)
    else normPrefix cfg.norm refLen k (vs.getD k 0))

def errorRateBatchFast (cfg : Config α) (batchFirst : Bool) (N : Nat) (ref hyp : List (List α))
    (dflt : α) : List Rat :=
  List.zipWith (errorRateColFast cfg) (toColumns batchFirst N ref dflt)
    (toColumns batchFirst N hyp dflt)

def prefixErrorRatesBatchFast (cfg : Config α) (batchFirst : Bool) (N : Nat)
    (ref hyp : List (List α)) (dflt : α) : List (List Rat) :=
  fromColumns batchFirst (prefixRows (seqDim batchFirst hyp) cfg.excludeLast)
    (List.zipWith (prefixErrorRatesColFast cfg) (toColumns batchFirst N ref dflt)
      (toColumns batchFirst N hyp dflt))

def merElemsFast (cfg : Config α) (subAvg batchFirst : Bool) (N M : Nat)
    (ref hyp : List (List (List α))) (w : List (List Rat)) (dflt : α) : List (List Rat) :=
  let refCols := if batchFirst then flatColumnsBatchFirst ref else flatColumnsSeqFirst N M ref dflt
  let hypCols := if batchFirst then flatColumnsBatchFirst hyp else flatColumnsSeqFirst N M hyp dflt
  let erFlat := List.zipWith (errorRateColFast cfg) refCols hypCols
  let er := view2 N M erFlat
  let er := if subAvg then er.map (fun row => row.map (· - mean row)) else er
  List.zipWith (fun erRow wRow => List.zipWith (· * ·) erRow wRow) er w

end PdtVerif.ErrorRate
