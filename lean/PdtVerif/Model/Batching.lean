import PdtVerif.Model.EpochSampler
/-!
# Model of the batching layer of `_dataloaders.py` (+ `_datasets.py::extract_window`)

Follows the code:

* `BucketBatchSampler.__iter__` — a left-to-right pass over the sampler output with a
  dictionary `batches : bucket ↦ pending list`; a batch is yielded (and its entry deleted)
  as soon as its length equals the bucket's size; a longer-than-size batch raises
  `RuntimeError`; a missing key raises `KeyError`; after the pass the pending lists are
  yielded sorted by bucket id unless `drop_incomplete`.
* `_get_bucket_batch_sampler_params` — empty maps for an empty data set; quantile bounds of the sorted lengths (with Python's
  negative index when `len(dataset) // num_buckets == 0`), last bound := maximum,
  `sorted(set(..))`, `idx2bucket[i] = #{b | len_i > b}`, sizes `⌊Y·B / y_j⌋` or `B`.
* `_get_batch_sampler_len` — a `Counter` of bucket ids over the epoch's samples, then a sum
  of `count // size` or `(count + size - 1) // size`.
* `torch.utils.data.BatchSampler` (used when `num_length_buckets == 1`) — consecutive
  chunks.
* `lang_seq_to_batch`, `spect_seq_to_batch`, `context_window_seq_to_batch` — stable
  descending sort by length (Python's `sorted(.., reverse=True)` keeps the original order
  of ties), `pad_sequence`, sizes, ids zipped along.
* `extract_window` — slice + edge replication + optional flip.

Python dictionaries are association lists with `Nat` keys (`dget`/`dput`/`ddel`); the
insertion order of a dictionary is not observable in this code (the flush sorts by key,
the length is a sum). Tensors are lists; a 2-D tensor is a list of rows.

* the loader objects (`LangDataLoader`, `SpectDataLoader`, `ContextWindowDataLoader`) as far as
  batching goes: constructor arguments + the epoch sampler object (C13's model, imported
  read-only) whose `epoch` attribute is the only mutable state; `iter(loader)`, `len(loader)`,
  `loader.epoch = e`; several `iter(loader)` objects alive at once (`Session`): an iterator is the
  value its pass had when its first batch was requested + a cursor.

No Mathlib imports here: this file is also used by the driver.
-/
namespace PdtVerif.Batching

/-! ## Python dictionaries with integer keys -/

/-- `d.get(k)` (first match). -/
def dget {β} : List (Nat × β) → Nat → Option β
  | [], _ => none
  | (k', v) :: t, k => if k' = k then some v else dget t k

/-- `d[k] = v` (replace the entry if present, else append). -/
def dput {β} : List (Nat × β) → Nat → β → List (Nat × β)
  | [], k, v => [(k, v)]
  | (k', v') :: t, k, v => if k' = k then (k, v) :: t else (k', v') :: dput t k v

/-- `del d[k]` (no-op if absent, which the sampler never does). -/
def ddel {β} : List (Nat × β) → Nat → List (Nat × β)
  | [], _ => []
  | (k', v') :: t, k => if k' = k then t else (k', v') :: ddel t k

/-- Insert an entry into a list sorted by key (ascending). -/
def insertKey {β} (e : Nat × β) : List (Nat × β) → List (Nat × β)
  | [] => [e]
  | f :: t => if e.1 ≤ f.1 then e :: f :: t else f :: insertKey e t

/-- `sorted(d.items(), key=lambda x: x[0])`. -/
def sortKey {β} (d : List (Nat × β)) : List (Nat × β) := d.foldr insertKey []

/-! ## `BucketBatchSampler` -/

inductive Err where
  | key      -- KeyError
  | size     -- RuntimeError "batch has invalid size"
  | index    -- IndexError
  | zerodiv  -- ZeroDivisionError
  deriving Repr, DecidableEq

/-- State of the generator: batches yielded so far and the dictionary `batches`. -/
structure St where
  out : List (List Nat)
  pend : List (Nat × List Nat)
  deriving Repr

def St.init : St := ⟨[], []⟩

/-- The pending list of bucket `h` (`[]` when the dictionary has no entry). -/
def pendOf (pend : List (Nat × List Nat)) (h : Nat) : List Nat := (dget pend h).getD []

/-- One iteration of the `for idx in self.sampler` loop. -/
def step (i2b : Nat → Option Nat) (b2s : Nat → Option Nat) (s : St) (idx : Nat) : Except Err St :=
  match i2b idx with
  | none => .error .key
  | some h =>
    match b2s h with
    | none => .error .key
    | some n =>
      let batch := pendOf s.pend h ++ [idx]
      if n = batch.length then .ok ⟨s.out ++ [batch], ddel s.pend h⟩
      else if n < batch.length then .error .size
      else .ok ⟨s.out, dput s.pend h batch⟩

/-- The whole loop. On an exception the generator dies: the batches yielded before it stay
observed, the error is reported. -/
def run (i2b : Nat → Option Nat) (b2s : Nat → Option Nat) : St → List Nat → St × Option Err
  | s, [] => (s, none)
  | s, x :: xs =>
    match step i2b b2s s x with
    | .ok s' => run i2b b2s s' xs
    | .error e => (s, some e)

/-- The final `if not self.drop_incomplete: for _, batch in sorted(batches.items()): yield batch`. -/
def flush (pend : List (Nat × List Nat)) : List (List Nat) := (sortKey pend).map Prod.snd

/-- `list(iter(BucketBatchSampler(order, idx2bucket, bucket2size, drop)))`: the batches
yielded and the exception that ended the iteration, if any. -/
def iter (i2b : Nat → Option Nat) (b2s : Nat → Option Nat) (drop : Bool) (order : List Nat) :
    List (List Nat) × Option Err :=
  match run i2b b2s St.init order with
  | (s, some e) => (s.out, some e)
  | (s, none) => (if drop then s.out else s.out ++ flush s.pend, none)

/-! ## `_get_batch_sampler_len` -/

/-- `Counter` update. -/
def bump (c : List (Nat × Nat)) (h : Nat) : List (Nat × Nat) :=
  dput c h ((dget c h).getD 0 + 1)

/-- `Counter(idx2bucket[i] for i in samples)`. -/
def counter (i2b : Nat → Option Nat) : List (Nat × Nat) → List Nat → Except Err (List (Nat × Nat))
  | c, [] => .ok c
  | c, x :: xs =>
    match i2b x with
    | none => .error .key
    | some h => counter i2b (bump c h) xs

/-- The per-bucket summand. -/
def perBucket (drop : Bool) (count size : Nat) : Nat :=
  if drop then count / size else (count + size - 1) / size

/-- The `for bucket, count in bucket2count.items()` loop. -/
def sumCounts (b2s : Nat → Option Nat) (drop : Bool) : List (Nat × Nat) → Except Err Nat
  | [] => .ok 0
  | (h, c) :: t =>
    match b2s h with
    | none => .error .key
    | some n =>
      if n = 0 then .error .zerodiv
      else match sumCounts b2s drop t with
        | .ok r => .ok (perBucket drop c n + r)
        | .error e => .error e

/-- `_get_batch_sampler_len` for a `BucketBatchSampler` whose sampler yields `order` in
the current epoch. -/
def samplerLen (i2b : Nat → Option Nat) (b2s : Nat → Option Nat) (drop : Bool)
    (order : List Nat) : Except Err Nat :=
  match counter i2b [] order with
  | .error e => .error e
  | .ok c => sumCounts b2s drop c

/-! ## `torch.utils.data.BatchSampler` (the `num_length_buckets == 1` path) -/

/-- Consecutive chunks of `n` (the last one may be short). Fuel = length of the list. -/
def chunksAux {α} (n : Nat) : Nat → List α → List (List α)
  | 0, _ => []
  | fuel + 1, l => if l.isEmpty then [] else l.take n :: chunksAux n fuel (l.drop n)

def chunks {α} (n : Nat) (l : List α) : List (List α) := chunksAux n l.length l

/-- `list(BatchSampler(order, n, drop_last))`, `n ≥ 1`. -/
def plainIter (n : Nat) (drop : Bool) (order : List Nat) : List (List Nat) :=
  let c := chunks n order
  if drop then c.filter (fun b => b.length == n) else c

/-- `len(BatchSampler)` given `len(sampler)`. -/
def plainLen (n : Nat) (drop : Bool) (samplerLen : Nat) : Nat :=
  if drop then samplerLen / n else (samplerLen + n - 1) / n

/-! ## `_get_bucket_batch_sampler_params` -/

def insertNat (x : Nat) : List Nat → List Nat
  | [] => [x]
  | y :: t => if x ≤ y then x :: y :: t else y :: insertNat x t

/-- `sorted(..)` on integers. -/
def isort (l : List Nat) : List Nat := l.foldr insertNat []

/-- Remove adjacent duplicates (on a sorted list: `sorted(set(..))`). -/
def dedupAdj : List Nat → List Nat
  | [] => []
  | [x] => [x]
  | x :: y :: t => if x = y then dedupAdj (y :: t) else x :: dedupAdj (y :: t)

/-- Replace the last element (`l[-1] = v`); `[]` has no last element (IndexError upstream). -/
def setLast (l : List Nat) (v : Nat) : List Nat :=
  match l with
  | [] => []
  | _ :: _ => l.dropLast ++ [v]

/-- `idx2bucket` value for a length: the number of bounds strictly below it. -/
def bucketOfLen (bounds : List Nat) (l : Nat) : Nat := (bounds.filter (fun b => b < l)).length

structure BucketParams where
  bounds : List Nat        -- len_bounds after de-duplication
  idx2bucket : List Nat    -- by data-set index
  sizes : List Nat         -- bucket2size by bucket id
  deriving Repr, DecidableEq

/-- `lens[i]` = `dataset[i][0].size(0)`. `nb ≥ 1`, `B ≥ 1` are guaranteed by the parameter
bounds; called directly with `nb = 0` the code divides by zero in `len(dataset) // num_buckets` —
AFTER the empty-data-set return, so `([], 0)` gives two empty maps, not an error. -/
def bucketParams (lens : List Nat) (nb B : Nat) (dynamic : Bool) : Except Err BucketParams :=
  let N := lens.length
  if N = 0 then .ok ⟨[], [], []⟩   -- `if len(dataset) == 0: return dict(), dict()`
  else if nb = 0 then .error .zerodiv   -- `elem_per_bucket = len(dataset) // num_buckets`
  else
    let epb := N / nb
    let sorted := isort lens
    -- len_idx[(n + 1) * epb - 1]; the index is -1 (= last) when epb = 0
    let b0 := (List.range nb).map (fun n =>
      if epb = 0 then sorted.getD (N - 1) 0 else sorted.getD ((n + 1) * epb - 1) 0)
    let b1 := setLast b0 (sorted.getD (N - 1) 0)
    let bounds := dedupAdj (isort b1)
    let i2b := lens.map (bucketOfLen bounds)
    if dynamic then
      if bounds.any (fun b => b == 0) then .error .zerodiv
      else
        let m := bounds.getLastD 0 * B
        .ok ⟨bounds, i2b, bounds.map (fun b => m / b)⟩
    else .ok ⟨bounds, i2b, bounds.map (fun _ => B)⟩

/-! ## Loader level: one epoch of index batches and the reported length -/

/-- Batches of data-set indices of one epoch, given the per-rank sample order of that epoch
(the C13 model's `samples`), `nb = num_length_buckets`. -/
def loaderBatches (lens : List Nat) (nb B : Nat) (dynamic drop : Bool) (order : List Nat) :
    Except Err (List (List Nat) × Option Err) :=
  if nb > 1 then
    match bucketParams lens nb B dynamic with
    | .error e => .error e
    | .ok p => .ok (iter (fun i => p.idx2bucket[i]?) (fun h => p.sizes[h]?) drop order)
  else .ok (plainIter B drop order, none)

/-- `_get_batch_sampler_len(loader.batch_sampler)` evaluated when the sampler's current epoch
yields `order`. -/
def loaderLen (lens : List Nat) (nb B : Nat) (dynamic drop : Bool) (order : List Nat) :
    Except Err Nat :=
  if nb > 1 then
    match bucketParams lens nb B dynamic with
    | .error e => .error e
    | .ok p => samplerLen (fun i => p.idx2bucket[i]?) (fun h => p.sizes[h]?) drop order
  else .ok (plainLen B drop order.length)

/-! ## The loader object: epochs, `len()`, `loader.epoch = e` -/

/-- The constructor arguments that decide the batching (`lens[i]` = length of utterance `i` along
the bucketed axis, `nb = num_length_buckets`, `B = batch_size`). -/
structure LoaderCfg where
  lens : List Nat
  nb : Nat
  B : Nat
  dynamic : Bool
  drop : Bool
  deriving Repr

/-- A loader object. Everything is fixed at construction except the sampler's epoch counter
(`loader.epoch` is a property that reads / writes `batch_sampler.sampler.epoch`). -/
structure Loader where
  cfg : LoaderCfg
  sampler : EpochSampler.State
  deriving Repr

/-- The `on_uneven_distributed` value the constructors hand to the epoch sampler:
`ContextWindowDataLoader` always passes `'ignore'`; the other two pass `'drop'` when
`params.drop_last` is set and the caller's value otherwise. -/
def samplerMode (contextWindow drop : Bool) (onUneven : EpochSampler.Mode) : EpochSampler.Mode :=
  if contextWindow then .ignore else if drop then .drop else onUneven

/-- `Loader.__init__`: `none` = the sampler's `ValueError` (`on_uneven_distributed='raise'` and a
world size that does not divide the data set). -/
def Loader.new (cfg : LoaderCfg) (mode : EpochSampler.Mode) (dist : Option (Nat × Nat))
    (initEpoch : Nat) : Option Loader :=
  (EpochSampler.init cfg.lens.length mode dist).map (fun c => ⟨cfg, ⟨c, initEpoch⟩⟩)

/-- `loader.epoch`. -/
def Loader.epoch (l : Loader) : Nat := l.sampler.epoch

/-- `loader.epoch = e`. -/
def Loader.setEpoch (l : Loader) (e : Nat) : Loader := { l with sampler := { l.sampler with epoch := e } }

/-- One full `for batch in loader` pass: the batch sampler iterates the epoch sampler (which
yields the current epoch's share of `perm epoch` and bumps its counter) and groups the indices. -/
def Loader.serve (perm : Nat → List Nat) (l : Loader) :
    Except Err (List (List Nat) × Option Err) × Loader :=
  let r := EpochSampler.iter perm l.sampler
  (loaderBatches l.cfg.lens l.cfg.nb l.cfg.B l.cfg.dynamic l.cfg.drop r.1, { l with sampler := r.2 })

/-- `len(loader)` = `_get_batch_sampler_len(loader.batch_sampler)`: for a `BucketBatchSampler` a
`Counter` over `sampler.get_samples_for_epoch(sampler.epoch)`; otherwise `len(BatchSampler)`,
computed from `len(sampler)` (C13's closed formula). -/
def Loader.len (perm : Nat → List Nat) (l : Loader) : Except Err Nat :=
  if l.cfg.nb > 1 then
    match bucketParams l.cfg.lens l.cfg.nb l.cfg.B l.cfg.dynamic with
    | .error e => .error e
    | .ok p => samplerLen (fun i => p.idx2bucket[i]?) (fun h => p.sizes[h]?) l.cfg.drop
        (EpochSampler.samples l.sampler.cfg (perm l.sampler.epoch))
  else .ok (plainLen l.cfg.B l.cfg.drop (EpochSampler.len l.sampler.cfg).toNat)

/-- What a training script does with the object. -/
inductive Op where
  | serve            -- a full pass over the loader
  | setEpoch (e : Nat)   -- `loader.epoch = e`
  deriving Repr

/-- Run a sequence of operations; returns what every `serve` delivered and the final object. -/
def Loader.exec (perm : Nat → List Nat) :
    List Op → Loader → List (Except Err (List (List Nat) × Option Err)) × Loader
  | [], l => ([], l)
  | .serve :: ops, l =>
    let r := l.serve perm
    let rest := Loader.exec perm ops r.2
    (r.1 :: rest.1, rest.2)
  | .setEpoch e :: ops, l => Loader.exec perm ops (l.setEpoch e)

/-! ## Several loops over one loader at once, `len()` and look-ups in between

`it = iter(loader)` builds a `_SingleProcessDataLoaderIter` around the batch sampler's GENERATOR,
which has not run yet: the epoch sampler is asked for its samples (and bumps `sampler.epoch`) when
the FIRST batch is requested. From then on the iterator reads from its own `iter(permutation)`:
in the model it is a value - the batches the pass had when it started - and a cursor.
`len(loader)` and `sampler.get_samples_for_epoch(e)` build their own permutation and leave nothing
behind. (Worker processes pre-fetch at `iter(loader)`; this is the `num_workers = 0` behaviour.) -/

/-- What a started pass is: the result `Loader.serve` computed when it started. -/
abbrev PassVal := Except Err (List (List Nat) × Option Err)

/-- `next(it)` for a pass with value `v` of which `j` batches were handed out already: the next
batch, `none` = `StopIteration` (also on every later call: the generator is dead), an exception
where the batch sampler's generator raised it. -/
def nextOf (v : PassVal) (j : Nat) : Except Err (Option (List Nat)) :=
  match v with
  | .error e => .error e
  | .ok (bs, err) =>
    match bs[j]? with
    | some b => .ok (some b)
    | none =>
      match err with
      | some e => if j = bs.length then .error e else .ok none
      | none => .ok none

/-- An `iter(loader)` object: `value = none` until its first batch is requested. -/
structure LiveIter where
  value : Option PassVal
  pos : Nat

/-- A loader and the iterators created from it so far (`it_0, it_1, ..` in creation order). -/
structure Session where
  loader : Loader
  iters : List LiveIter

def Session.new (l : Loader) : Session := ⟨l, []⟩

/-- What a script does with the loader object. -/
inductive IOp where
  | serve                -- `for batch in loader: ..` with nothing in between
  | setEpoch (e : Nat)   -- `loader.epoch = e`
  | newIter              -- `it_k = iter(loader)`, `k` = number of iterators created before
  | next (k : Nat)       -- `next(it_k)`
  | len                  -- `len(loader)`
  | peek (e : Nat)       -- `list(loader.batch_sampler.sampler.get_samples_for_epoch(e))`
  deriving Repr, DecidableEq

/-- What the script sees. -/
inductive Out where
  | pass (r : PassVal)
  | unit
  | batch (b : Except Err (Option (List Nat)))
  | len (n : Except Err Nat)
  | samples (xs : List Nat)
  | noIter               -- `next` on an iterator the script never created

/-- One operation. Only `serve`, `setEpoch` and the FIRST `next` of an iterator touch the loader
(its sampler's epoch counter); a `next` only touches its own iterator. -/
def Session.step (perm : Nat → List Nat) (op : IOp) (s : Session) : Out × Session :=
  match op with
  | .serve =>
    let r := s.loader.serve perm
    (.pass r.1, { s with loader := r.2 })
  | .setEpoch e => (.unit, { s with loader := s.loader.setEpoch e })
  | .newIter => (.unit, { s with iters := s.iters ++ [⟨none, 0⟩] })
  | .len => (.len (s.loader.len perm), s)
  | .peek e => (.samples (EpochSampler.samples s.loader.sampler.cfg (perm e)), s)
  | .next k =>
    match s.iters[k]? with
    | none => (.noIter, s)
    | some ⟨none, _⟩ =>
      let r := s.loader.serve perm
      (.batch (nextOf r.1 0), ⟨r.2, s.iters.set k ⟨some r.1, 1⟩⟩)
    | some ⟨some v, j⟩ => (.batch (nextOf v j), { s with iters := s.iters.set k ⟨some v, j + 1⟩ })

/-- Run a script; returns every operation with what it showed, and the final state. -/
def Session.exec (perm : Nat → List Nat) : List IOp → Session → List (IOp × Out) × Session
  | [], s => ([], s)
  | op :: ops, s =>
    let r := Session.step perm op s
    let rest := Session.exec perm ops r.2
    ((op, r.1) :: rest.1, rest.2)

/-- What `next(it_k)` returned, call by call. -/
def deliveredBy (k : Nat) (tr : List (IOp × Out)) : List Out :=
  tr.filterMap (fun p => if p.1 = IOp.next k then some p.2 else none)

/-- A script of full passes and epoch assignments only (the `Op` language of `Loader.exec`). -/
def IOp.ofOp : Op → IOp
  | .serve => .serve
  | .setEpoch e => .setEpoch e

/-- What the full passes of a script delivered. -/
def passesOf (tr : List (IOp × Out)) : List PassVal :=
  tr.filterMap (fun p => match p.2 with | .pass r => some r | _ => none)

/-! ## Collation -/

/-- Insert before the first element whose key is not strictly larger: a stable descending
insertion (an element inserted later in `foldr`, i.e. earlier in the input, goes in front
of its ties). -/
def insertDesc {α} (key : α → Nat) (x : α) : List α → List α
  | [] => [x]
  | y :: ys => if key x < key y then y :: insertDesc key x ys else x :: y :: ys

/-- `sorted(seq, key=key, reverse=True)` (stable). -/
def sortDesc {α} (key : α → Nat) (l : List α) : List α := l.foldr (insertDesc key) []

def maxLen {β} (seqs : List (List β)) : Nat := seqs.foldr (fun s m => max s.length m) 0

/-- One row of `pad_sequence(.., batch_first=True)`. -/
def padTo {β} (pad : β) (T : Nat) (s : List β) : List β := s ++ List.replicate (T - s.length) pad

/-- `pad_sequence(seqs, batch_first=True, padding_value=pad)`: `[n][t]`. -/
def padSequence {β} (pad : β) (seqs : List (List β)) : List (List β) :=
  seqs.map (padTo pad (maxLen seqs))

/-- `pad_sequence(seqs, batch_first=False, padding_value=pad)`: `[t][n]`. -/
def padSequenceTF {β} (pad : β) (seqs : List (List β)) : List (List β) :=
  (List.range (maxLen seqs)).map (fun t => seqs.map (fun s => s.getD t pad))

/-- `lang_seq_to_batch`: items are `(ref, uttid)`; returns `(refs [n][t], ref_sizes, uttids)`
(the caller drops `uttids` when `has_uttids` is false). -/
def langCollate {β ι} (pad : β) (sort : Bool) (items : List (List β × ι)) :
    List (List β) × List Nat × List ι :=
  let s := if sort then sortDesc (fun it => it.1.length) items else items
  (padSequence pad (s.map (·.1)), s.map (·.1.length), s.map (·.2))

/-- `lang_seq_to_batch(.., batch_first=False)`: the same arrangement, `refs` laid out `[t][n]`. -/
def langCollateTF {β ι} (pad : β) (sort : Bool) (items : List (List β × ι)) :
    List (List β) × List Nat × List ι :=
  let s := if sort then sortDesc (fun it => it.1.length) items else items
  (padSequenceTF pad (s.map (·.1)), s.map (·.1.length), s.map (·.2))

/-- One element of a `SpectDataSet`. -/
structure SpectItem (φ α ρ ι : Type) where
  feat : List φ
  ali : Option (List α)
  ref : Option (List ρ)
  uttid : ι

/-- `all(x is not None for x in xs)` then the values. -/
def allSome {γ} : List (Option γ) → Option (List γ)
  | [] => some []
  | none :: _ => none
  | some x :: t => (allSome t).map (x :: ·)

structure SpectBatch (φ α ρ ι : Type) where
  feats : List (List φ)
  alis : Option (List (List α))
  refs : Option (List (List ρ))
  featSizes : List Nat
  refSizes : Option (List Nat)
  uttids : List ι

/-- `spect_seq_to_batch` in the batch-first layout (`has_alis = false` makes every `ali`
`none` upstream; the caller drops absent tuple members). -/
def spectCollate {φ α ρ ι} (padF : φ) (padA : α) (padR : ρ) (sort : Bool)
    (items : List (SpectItem φ α ρ ι)) : SpectBatch φ α ρ ι :=
  let s := if sort then sortDesc (fun it => it.feat.length) items else items
  let alis := allSome (s.map (·.ali))
  let refs := allSome (s.map (·.ref))
  { feats := padSequence padF (s.map (·.feat))
    alis := alis.map (padSequence padA)
    refs := refs.map (padSequence padR)
    featSizes := s.map (·.feat.length)
    refSizes := refs.map (fun r => r.map List.length)
    uttids := s.map (·.uttid) }

/-- `spect_seq_to_batch(.., batch_first=False)`: the same arrangement, every padded member laid
out `[t][n]`. -/
def spectCollateTF {φ α ρ ι} (padF : φ) (padA : α) (padR : ρ) (sort : Bool)
    (items : List (SpectItem φ α ρ ι)) : SpectBatch φ α ρ ι :=
  let s := if sort then sortDesc (fun it => it.feat.length) items else items
  let alis := allSome (s.map (·.ali))
  let refs := allSome (s.map (·.ref))
  { feats := padSequenceTF padF (s.map (·.feat))
    alis := alis.map (padSequenceTF padA)
    refs := refs.map (padSequenceTF padR)
    featSizes := s.map (·.feat.length)
    refSizes := refs.map (fun r => r.map List.length)
    uttids := s.map (·.uttid) }

/-- `context_window_seq_to_batch`: `(windows, alis, window_sizes, uttids)`. -/
def cwCollate {ω α ι} (items : List (List ω × Option (List α) × ι)) :
    List ω × Option (List α) × List Nat × List ι :=
  ((items.map (·.1)).flatten, (allSome (items.map (·.2.1))).map List.flatten,
   items.map (·.1.length), items.map (·.2.2))

/-! ## `extract_window` -/

/-- `l[a:b]` for non-negative `a`, `b`. -/
def pySlice {α} (l : List α) (a b : Nat) : List α := (l.take b).drop a

/-- `extract_window(feat, frame, left, right, reverse)`; `feat` is the list of its `T` rows.
`dflt` stands for the uninitialised memory of `feat.new(..)`; it is only read when `T = 0`,
outside the documented domain `0 ≤ frame < T`. -/
def extractWindow {α} (dflt : α) (feat : List α) (frame left right : Nat) (reverse : Bool) :
    List α :=
  let T := feat.length
  let w :=
    if frame < left ∨ frame + right + 1 > T then
      let leftPad := left - frame
      let rightPad := frame + right + 1 - T
      List.replicate leftPad (feat.getD 0 dflt)
        ++ pySlice feat (frame - left) (frame + right + 1)
        ++ List.replicate rightPad (feat.getD (T - 1) dflt)
    else pySlice feat (frame - left) (frame + right + 1)
  if reverse then w.reverse else w

/-! ## The loader's public attributes, assigned after construction

`loader.batch_first` and `loader.sort_batch` are plain attributes of the loader object,
`loader.dataset.suppress_alis`, `.suppress_uttids`, `.tokens_only` plain attributes of its data set.
`collate_fn` is a BOUND METHOD (`self.collate_fn`): every call reads `self.batch_first`,
`self.sort_batch`, `self.dataset.suppress_*` afresh; `dataset[i]` reads the data set's flags at every
call. So an assignment after construction - before a pass, between passes, between two `next` calls
of a live iterator (`num_workers = 0`) - takes effect at the next collate call and never touches the
samplers. `batch_sampler.drop_incomplete` (`drop_last` for torch's `BatchSampler`) is the batch
sampler's own public attribute. -/

/-- The presentation flags a collate call / `dataset[i]` reads. -/
structure Present where
  batchFirst : Bool       -- `loader.batch_first`
  sortBatch : Bool        -- `loader.sort_batch`
  suppressAlis : Bool     -- `loader.dataset.suppress_alis`
  suppressUttids : Bool   -- `loader.dataset.suppress_uttids`
  tokensOnly : Bool       -- `loader.dataset.tokens_only`
  deriving Repr, DecidableEq

inductive Attr where
  | batchFirst | sortBatch | suppressAlis | suppressUttids | tokensOnly
  deriving Repr, DecidableEq

/-- `obj.attr = v`. -/
def Present.set (p : Present) : Attr → Bool → Present
  | .batchFirst, v => { p with batchFirst := v }
  | .sortBatch, v => { p with sortBatch := v }
  | .suppressAlis, v => { p with suppressAlis := v }
  | .suppressUttids, v => { p with suppressUttids := v }
  | .tokensOnly, v => { p with tokensOnly := v }

def Present.get (p : Present) : Attr → Bool
  | .batchFirst => p.batchFirst
  | .sortBatch => p.sortBatch
  | .suppressAlis => p.suppressAlis
  | .suppressUttids => p.suppressUttids
  | .tokensOnly => p.tokensOnly

/-- `loader.batch_sampler.drop_incomplete = d` (`.drop_last = d` for torch's `BatchSampler`). The
epoch sampler - whose `on_uneven_distributed` mode the CONSTRUCTOR derived from `params.drop_last` -
is not touched. -/
def Loader.setDrop (l : Loader) (d : Bool) : Loader := { l with cfg := { l.cfg with drop := d } }

/-- A loader session together with the flags currently stored on the loader / its data set. -/
structure View where
  session : Session
  present : Present

/-- The constructor: `flags` are the values given in the call (or the class defaults). -/
def View.new (l : Loader) (flags : Present) : View := ⟨Session.new l, flags⟩

inductive VOp where
  | io (op : IOp)                   -- any operation of the `Session` language
  | assign (a : Attr) (v : Bool)    -- `loader.batch_first = v`, .., `loader.dataset.tokens_only = v`
  | setDrop (d : Bool)              -- `loader.batch_sampler.drop_incomplete = d`
  deriving Repr, DecidableEq

/-- What an operation does to the stored flags. -/
def VOp.apply : VOp → Present → Present
  | .assign a v, p => p.set a v
  | _, p => p

/-- One operation: what the session shows (index level: which utterances, which epoch, `len`) paired
with the flags a collate call made by this operation reads. An assignment only stores the value. -/
def View.step (perm : Nat → List Nat) (op : VOp) (v : View) : (Out × Present) × View :=
  match op with
  | .io o =>
    let r := Session.step perm o v.session
    ((r.1, v.present), ⟨r.2, v.present⟩)
  | .assign a b => ((.unit, v.present.set a b), ⟨v.session, v.present.set a b⟩)
  | .setDrop d => ((.unit, v.present), ⟨{ v.session with loader := v.session.loader.setDrop d }, v.present⟩)

def View.exec (perm : Nat → List Nat) : List VOp → View → List (VOp × Out × Present) × View
  | [], v => ([], v)
  | op :: ops, v =>
    let r := View.step perm op v
    let rest := View.exec perm ops r.2
    ((op, r.1) :: rest.1, rest.2)

/-- The `Session` operations of a script, the flags after a script. -/
def ioOps (script : List VOp) : List IOp :=
  script.filterMap (fun op => match op with | .io o => some o | _ => none)

def presentAfter (p : Present) (script : List VOp) : Present := script.foldl (fun p op => op.apply p) p

/-- What the caller gets to see when index batches are collated by `deliver flags batch`. -/
inductive Shown (β : Type) where
  | pass (r : Except Err (List β × Option Err))
  | batch (b : Except Err (Option β))
  | other

def shown {β : Type} (deliver : Present → List Nat → β) : Out × Present → Shown β
  | (.pass (.ok (bs, e)), p) => .pass (.ok (bs.map (deliver p), e))
  | (.pass (.error e), _) => .pass (.error e)
  | (.batch (.ok (some b)), p) => .batch (.ok (some (deliver p b)))
  | (.batch (.ok none), _) => .batch (.ok none)
  | (.batch (.error e), _) => .batch (.error e)
  | _ => .other

/-- `dataset[i]` of a `SpectDataSet` under the flags in force (`raw` = what is on disk; `tok` drops
the segment columns of a reference row). With `suppress_alis` the tuple has no `ali` member: `none`
here, the caller drops the member (as for `spectCollate`). -/
def spectItemUnder {φ α ρ ι} (tok : ρ → ρ) (p : Present) (raw : SpectItem φ α ρ ι) : SpectItem φ α ρ ι :=
  { raw with
    ali := if p.suppressAlis then none else raw.ali
    ref := if p.tokensOnly then raw.ref.map (fun r => r.map tok) else raw.ref }

/-- What `SpectDataLoader.collate_fn` hands back for the index batch `b`: the batch in the layout
`batch_first` asks for, and which optional tuple members exist. -/
structure SpectDelivered (φ α ρ ι : Type) where
  batch : SpectBatch φ α ρ ι
  batchFirst : Bool
  hasAlis : Bool
  hasUttids : Bool

def spectDeliver {φ α ρ ι} (padF : φ) (padA : α) (padR : ρ) (tok : ρ → ρ)
    (data : Nat → SpectItem φ α ρ ι) (p : Present) (b : List Nat) : SpectDelivered φ α ρ ι :=
  let items := b.map (fun i => spectItemUnder tok p (data i))
  { batch := if p.batchFirst then spectCollate padF padA padR p.sortBatch items
             else spectCollateTF padF padA padR p.sortBatch items
    batchFirst := p.batchFirst
    hasAlis := !p.suppressAlis
    hasUttids := !p.suppressUttids }

/-- `dataset[i]` of a `LangDataSet` under the flags in force. -/
def langItemUnder {β ι} (tok : β → β) (p : Present) (raw : List β × ι) : List β × ι :=
  (if p.tokensOnly then raw.1.map tok else raw.1, raw.2)

/-- What `LangDataLoader.collate_fn` hands back: `((refs, ref_sizes, uttids), batch_first,
has_uttids)`. -/
def langDeliver {β ι} (pad : β) (tok : β → β) (data : Nat → List β × ι) (p : Present) (b : List Nat) :
    (List (List β) × List Nat × List ι) × Bool × Bool :=
  let items := b.map (fun i => langItemUnder tok p (data i))
  (if p.batchFirst then langCollate pad p.sortBatch items else langCollateTF pad p.sortBatch items,
   p.batchFirst, !p.suppressUttids)

/-! ## The shuffling seed, reassigned after construction

`loader.batch_sampler.sampler.base_seed` is a public attribute of `EpochRandomSampler`: the ordering
of epoch `e` is `RandomState((self.base_seed, e)).permutation(total)`, drawn afresh WHENEVER it is
asked for (a pass, `len()` of a bucketed loader, `get_samples_for_epoch(e)`) - nothing derived from an
earlier value of the attribute is kept on the object. So the ordering source of a loader is a function
`src : seed → epoch → ordering`, and every operation reads it at the seed stored AT THAT MOMENT. A
layer above `View` (whose operations and lemmas are untouched). -/

/-- A loader view together with the `base_seed` currently stored on its epoch sampler. -/
structure Seeded where
  view : View
  seed : Nat

inductive SOp where
  | v (op : VOp)          -- any operation of the `View` language
  | setSeed (s : Nat)     -- `loader.batch_sampler.sampler.base_seed = s`
  deriving Repr, DecidableEq

/-- One operation: a `View` operation runs on the orderings of the seed stored NOW; an assignment of
the seed only stores the value (it shows nothing: `none`). -/
def Seeded.step (src : Nat → Nat → List Nat) (op : SOp) (z : Seeded) : Option (Out × Present) × Seeded :=
  match op with
  | .v o =>
    let r := View.step (src z.seed) o z.view
    (some r.1, ⟨r.2, z.seed⟩)
  | .setSeed s => (none, ⟨z.view, s⟩)

def Seeded.exec (src : Nat → Nat → List Nat) :
    List SOp → Seeded → List (SOp × Option (Out × Present)) × Seeded
  | [], z => ([], z)
  | op :: ops, z =>
    let r := Seeded.step src op z
    let rest := Seeded.exec src ops r.2
    ((op, r.1) :: rest.1, rest.2)

/-- The seed stored after a script (the last value assigned, the initial one where none was). -/
def seedAfter (s : Nat) (script : List SOp) : Nat :=
  script.foldl (fun s op => match op with | .setSeed t => t | .v _ => s) s

end PdtVerif.Batching
