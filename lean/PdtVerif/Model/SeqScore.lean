/-!
# Model of `_decoding.py::sequence_log_probs` (padded tensor and `PackedSequence` input)

Follows the code:

* `_string.py::_lens_from_eos` — `mask = tok.eq(eos)`, `x = cumsum(mask)`,
  `(x.eq(1) & mask).max(dim)`, `argmax.masked_fill(max_.eq(0), T)`.
* `_sequence_log_probs_tensor` — dimension normalisation with the range error, vocabulary mask
  `hyp.lt(0) | hyp.ge(num_classes)`, the length mask `arange(steps) >= lens_from_eos + 1`,
  `hyp.masked_fill(mask, 0)`, `gather`, `masked_fill(mask, 0.0)`, `sum(dim)`.
* `_sequence_log_probs_ps` — `index_select` by the sorted indices, `lens` recomputed from
  `batch_sizes`, `pack_padded_sequence(hyp, lens)` (which derives its own batch sizes from
  `lens`), row-wise mask/gather/fill on the packed rows, `pad_packed_sequence(...).sum(1)`,
  `logits[unsorted_indices]`.

Tensors are flat row-major buffers given as index functions (`Nat → _`) plus their sizes; the
sequence dimension is reached through the index map `(a, t, b) ↦ (a * T + t) * B + b`, where
`A`/`B` are the products of the sizes before/after `dim`.

`log_softmax` is **not** modelled: the log-softmax values are the input `lsm` (exact
rationals).  No Mathlib imports here: this file is also used by the driver.
-/
namespace PdtVerif.SeqScore

/-! ## `_lens_from_eos` -/

/-- `torch.cumsum` of a natural-number row, started from `acc`. -/
def cumsumFrom (acc : Nat) : List Nat → List Nat
  | [] => []
  | b :: bs => (acc + b) :: cumsumFrom (acc + b) bs

/-- `(values, indices) = flags.max(dim)` on a boolean row that holds at most one `true`:
`some i` = (max is `True`, attained at `i`), `none` = (max is `False`). -/
def firstTrue : List Bool → Option Nat
  | [] => none
  | true :: _ => some 0
  | false :: bs => (firstTrue bs).map (· + 1)

/-- `_lens_from_eos(tok, eos, dim)` on one sequence: length up to the first `eos`, exclusive. -/
def lensFromEos (tok : List Int) (eos : Int) : Nat :=
  let mask := tok.map (fun h => h == eos)
  let x := cumsumFrom 0 (mask.map Bool.toNat)
  let flag := List.zipWith (fun c m => c == 1 && m) x mask
  match firstTrue flag with
  | some i => i
  | none => tok.length

/-! ## one sequence of `_sequence_log_probs_tensor` -/

/-- Out-of-vocabulary test `hyp.lt(0) | hyp.ge(num_classes)`. -/
def oov (V : Nat) (h : Int) : Bool := decide (h < 0) || decide ((V : Int) ≤ h)

/-- The mask of one sequence: out of vocabulary, or (with `eos`) at or beyond
`_lens_from_eos + 1`. -/
def seqMask (V : Nat) (eos : Option Int) (col : List Int) : List Bool :=
  let mask0 := col.map (oov V)
  match eos with
  | none => mask0
  | some e =>
    let lens := lensFromEos col e + 1
    let lenMask := (List.range col.length).map (fun t => decide (lens ≤ t))
    List.zipWith (fun a b => a || b) mask0 lenMask

/-- The score of the sequence `col` (tokens along `dim`) where `f t v` is the log-softmax value
of class `v` at step `t`: the mask, fill, gather, fill, sum pipeline of the code. -/
def colScore (V : Nat) (eos : Option Int) (f : Nat → Nat → Rat) (col : List Int) : Rat :=
  let mask := seqMask V eos col
  let hyp0 := List.zipWith (fun (m : Bool) (h : Int) => if m then 0 else h) mask col
  let gathered := hyp0.zipIdx.map (fun ht => f ht.2 ht.1.toNat)
  let filled := List.zipWith (fun (m : Bool) (x : Rat) => if m then 0 else x) mask gathered
  filled.sum

/-! ## the tensor function -/

/-- `dim` range check and normalisation `(hyp_dim + dim) % hyp_dim`; `none` = `RuntimeError`. -/
def normDim (nd : Nat) (dim : Int) : Option Nat :=
  if dim < -(nd : Int) || dim > (nd : Int) - 1 then none
  else some (((nd : Int) + dim) % (nd : Int)).toNat

def prod (l : List Nat) : Nat := l.foldr (· * ·) 1

/-- Flat index of `hyp[a, t, b]` for sizes `(A, T, B)`. -/
def hypIdx (T B a t b : Nat) : Nat := (a * T + t) * B + b

/-- The sequence of `hyp` that feeds output cell `o = a * B + b`. -/
def hypCol (T B : Nat) (hyp : Nat → Int) (o : Nat) : List Int :=
  (List.range T).map (fun t => hyp (hypIdx T B (o / B) t (o % B)))

/-- The log-softmax rows that feed output cell `o`. -/
def lsmCol (T B V : Nat) (lsm : Nat → Rat) (o : Nat) : Nat → Nat → Rat :=
  fun t v => lsm (hypIdx T B (o / B) t (o % B) * V + v)

/-- `_sequence_log_probs_tensor` on flat buffers with sizes `(A, T, B)` and `V` classes: the
result has `A * B` cells. -/
def seqLogProbsFlat (A T B V : Nat) (eos : Option Int) (lsm : Nat → Rat) (hyp : Nat → Int) :
    List Rat :=
  (List.range (A * B)).map (fun o => colScore V eos (lsmCol T B V lsm o) (hypCol T B hyp o))

/-- `sequence_log_probs(logits, hyp, dim, eos)` for a tensor `hyp` of shape `shape`;
`none` = `RuntimeError`: dimension out of range, or no class at all (`V = 0`) while `hyp` has
cells — `hyp.masked_fill(mask, 0)` then asks `gather` for class `0` of an empty class dimension
("index 0 is out of bounds for dimension … with size 0"; with an empty `hyp` nothing is
gathered and the result is the empty sum). -/
def seqLogProbs (shape : List Nat) (V : Nat) (dim : Int) (eos : Option Int) (lsm : Nat → Rat)
    (hyp : Nat → Int) : Option (List Rat) :=
  match normDim shape.length dim with
  | none => none
  | some d =>
    if V = 0 ∧ prod shape ≠ 0 then none
    else some (seqLogProbsFlat (prod (shape.take d)) (shape.getD d 1) (prod (shape.drop (d + 1))) V
      eos lsm hyp)

/-! ## `PackedSequence` input -/

/-- `pack_padded_sequence` layout: for step `t = t0, t0+1, …` the first `bs[t]` (sorted)
sequences, i.e. `data[off(t) + i] = X i t`. -/
def packFn {α} (X : Nat → Nat → α) : Nat → List Nat → List α
  | _, [] => []
  | t, b :: bs => (List.range b).map (fun i => X i t) ++ packFn X (t + 1) bs

/-- Row `i` of `pad_packed_sequence(data, batch_sizes, batch_first=True)`: one cell per step,
padding where `i ≥ batch_sizes[t]`. -/
def unpackRow {α} (pad : α) (i : Nat) : List Nat → List α → List α
  | [], _ => []
  | b :: bs, data => (if i < b then data.getD i pad else pad) :: unpackRow pad i bs (data.drop b)

/-- `lens = (arange(N).unsqueeze(1) < batch_sizes).sum(1)`. -/
def lensOfBatchSizes (N : Nat) (bs : List Nat) : List Nat :=
  (List.range N).map (fun n => (bs.filter (fun b => decide (n < b))).length)

/-- The batch sizes `pack_padded_sequence` derives from (sorted, positive) lengths:
`bs'[t] = #{n | lens[n] > t}` for `t < lens[0]`. -/
def batchSizesOfLens (lens : List Nat) : List Nat :=
  (List.range (lens.headD 0)).map (fun t => (lens.filter (fun l => decide (t < l))).length)

/-- `torch.index_select(hyp, batch_dim, sorted_indices)`: index (in the caller's order) of the
`i`-th sequence of the packed batch; the identity when `sorted_indices` is `None`. -/
def sortIdx (sidx : Option (List Nat)) (i : Nat) : Nat :=
  match sidx with
  | none => i
  | some s => s.getD i 0

/-- `_sequence_log_probs_ps` after `index_select`: `N` is the number of sequences `hyp` has
**after** the selection by `sorted_indices`. `lsm r v` is the log-softmax value of class `v` in
packed row `r`; `hyp n t` is the token of sequence `n` (in the caller's order) at step `t`; `T`
the number of steps of `hyp`. `none` = the `RuntimeError` of `pack_padded_sequence` (a length of
zero, i.e. `hyp` has more sequences than the packed batch, no sequence at all, or steps missing
in `hyp`). The gather `logits[unsorted_indices]` is totalised here (`getD`); the entry point
`seqLogProbsPacked` rejects indices outside the batch first. -/
def seqLogProbsPackedCore (V N T : Nat) (lsm : Nat → Nat → Rat) (bs : List Nat)
    (sidx uidx : Option (List Nat)) (hyp : Nat → Nat → Int) : Option (List Rat) :=
  let hypS : Nat → Nat → Int := fun i t => hyp (sortIdx sidx i) t
  let lens := lensOfBatchSizes N bs
  if N = 0 || lens.any (· == 0) || decide (T < lens.headD 0) then none else
  let bs' := batchSizesOfLens lens
  let hypP : List Int := packFn hypS 0 bs'
  let mask := hypP.map (oov V)
  let hyp0 := List.zipWith (fun (m : Bool) (h : Int) => if m then 0 else h) mask hypP
  let gathered := hyp0.zipIdx.map (fun hr => lsm hr.2 hr.1.toNat)
  let filled := List.zipWith (fun (m : Bool) (x : Rat) => if m then 0 else x) mask gathered
  let sums := (List.range (bs.headD 0)).map (fun i => (unpackRow (0 : Rat) i bs filled).sum)
  match uidx with
  | none => some sums
  | some u => some (u.map (fun j => sums.getD j 0))

/-- An index tensor holds an entry outside `[0, n)`: `index_select` and `logits[idx]` raise
`IndexError` (negative indices are not modelled). -/
def idxOob (n : Nat) (idx : Option (List Nat)) : Bool :=
  match idx with
  | none => false
  | some l => l.any (fun i => decide (n ≤ i))

/-- Number of sequences of `hyp` after `torch.index_select(hyp, batch_dim, sorted_indices)`: one
per index (whatever the size of `hyp` was). -/
def selectedCount (N : Nat) (sidx : Option (List Nat)) : Nat :=
  match sidx with
  | none => N
  | some s => s.length

/-- `_sequence_log_probs_ps((data, batch_sizes, sorted_indices, unsorted_indices), hyp, dim)`;
`N`, `T` are the sizes of the caller's `hyp`. `none` = the call raises:
* `IndexError` of `index_select` (a sorted index `≥ N`),
* `RuntimeError` of `pack_padded_sequence` (see `seqLogProbsPackedCore`),
* `RuntimeError` of `pad_packed_sequence` when the selected `hyp` has fewer sequences than the
  packed batch (the gathered rows are then fewer than `batch_sizes` asks for),
* `IndexError` of `logits[unsorted_indices]` (an index `≥ batch_sizes[0]`). -/
def seqLogProbsPacked (V N T : Nat) (lsm : Nat → Nat → Rat) (bs : List Nat)
    (sidx uidx : Option (List Nat)) (hyp : Nat → Nat → Int) : Option (List Rat) :=
  if idxOob N sidx then none
  else if selectedCount N sidx < bs.headD 0 then none
  else if idxOob (bs.headD 0) uidx then none
  else seqLogProbsPackedCore V (selectedCount N sidx) T lsm bs sidx uidx hyp

end PdtVerif.SeqScore
