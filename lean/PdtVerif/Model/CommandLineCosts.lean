import PdtVerif.Model.CommandLine
import PdtVerif.Model.ErrorRate
/-!
# The edit count of the error-rate command with `--costs` / `--nist-costs` (property C17)

`compute_torch_token_data_dir_error_rates` calls `error_rate(ref, hyp, eos=eos,
include_eos=False, ins_cost=costs[0], del_cost=costs[1], sub_cost=costs[2], norm=False)` on
the interned sequences. `erC02` is C02's model of that function (`Model/ErrorRate.lean`,
used unchanged: the paired cost/mistakes table with the code's tie-breaking, or the
uniform-cost shortcut) for one un-padded pair, as the natural number the command adds up.

No Mathlib imports: the driver evaluates this.
-/
namespace PdtVerif.CommandLine
open PdtVerif.Lev PdtVerif.ErrorRate

/-- `error_rate(ref, hyp, norm=False, ins_cost, del_cost, sub_cost)` on one un-padded pair. -/
def erC02 {α : Type} [DecidableEq α] (c : Costs) (r h : List α) : Nat :=
  (errorRateCol { eos := none, includeEos := false, norm := false, costs := c } r h).floor.toNat

end PdtVerif.CommandLine
