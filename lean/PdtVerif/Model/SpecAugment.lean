/-!
# Model of SpecAugment (`_img.py`)

`spec_augment_draw_parameters`, `spec_augment_apply_parameters`, `spec_augment`,
`warp_1d_grid` (three knots, interpolation order 1) and the bilinear, border-clamped
`grid_sample` the time/frequency warp uses.

Everything is over `Rat` (exact).  The uniform draws `torch.rand(...)` are **inputs**
`u ∈ [0,1)`; the model is per batch element (the code is element-wise over the batch).
The float machine epsilon is a parameter `eps` (`_get_tensor_eps`), `omeps = 1 - eps`.

What follows the code literally:
* `W = (lengths / 2 - eps).clamp(0, max_time_warp)`, `w_0 = u * (lengths - 2 W) + W`,
  `w = u' * (2 W) - W`; the frequency version with `F` in place of the length;
* `max_ = clamp(len * prop, max=max_time_mask).floor()`, the count `nums_` likewise,
  `t = (u * (max_ + omeps)).long()` zeroed where `nums_ <= j`,
  `t_0 = (u' * (len - t + omeps)).long()`; `.long()` is truncation toward zero (`truncI`);
* the frequency masks with `max_ = min(max_freq_mask, F)`;
* the enabling conditions (`if max_time_warp:`; all four time-mask settings non-zero; ...);
* `warp_1d_grid`: both clamps (`dst` is computed from the *clamped* `src`), the
  normalisation `(2 x + 1) / T - 1`, the pinned ends `1/T - 1 - eps`, `(2 len - 1)/T - 1 + eps`;
* `grid_sample(mode=bilinear, padding_mode=border, align_corners=False)`: un-normalise,
  clip to `[0, size-1]`, floor, four corners, out-of-bounds corners read as `0`;
* interval masks `arange >= t_0 & arange < t_0 + t`, `any` over the masks, `masked_fill(…, 0)`.

The order-1 grid follows the *repaired* `warp_1d_grid` (fixes/C08-warp-linear-closed-form.diff):
the closed-form piecewise-linear map `pwl` through the pinned ends and the moved knot, the
knot kept `knotMargin`-far from the ends.  The pinned commit handed the same knots (margin
0) to `polyharmonic_spline`; `Properties/C08.lean` proves that **every** solution of that
linear system (interpolation rows + the two orthogonality rows) is `pwl`, so both compute
the same function in exact arithmetic.  Order 3 (`r³`, rational): the exact solution of the
system in closed form (`cubicCoeffs`, `warpGrid3`); order 2 (`r² log r`) is not rational and is
not modelled (existence/uniqueness over `ℝ` is proved, the values are oracle-only).

No Mathlib imports here: this file is also used by the driver.
-/
namespace PdtVerif.SpecAugment

/-! ## scalar helpers -/

/-- `torch.min(a, b)` / python `min`. -/
def rmin (a b : Rat) : Rat := if a ≤ b then a else b
/-- `torch.max` / `clamp_min` / python `max`. -/
def rmax (a b : Rat) : Rat := if a ≤ b then b else a
/-- `x.clamp(lo, hi)` = `min(max(x, lo), hi)`. -/
def clamp (lo hi x : Rat) : Rat := rmin (rmax x lo) hi

/-- `.long()` on a float tensor: truncation toward zero. -/
def truncI (q : Rat) : Int := if 0 ≤ q then q.floor else -((-q).floor)

/-! ## configuration, draws, parameters -/

structure Cfg where
  maxTimeWarp : Rat
  maxFreqWarp : Rat
  maxTimeMask : Nat
  maxFreqMask : Nat
  maxTimeMaskProp : Rat
  numTimeMask : Nat
  numTimeMaskProp : Rat
  numFreqMask : Nat
  /-- `_get_tensor_eps(feats)` -/
  eps : Rat
  deriving Repr

/-- The uniform draws consumed for one batch element, in the order of the code. -/
structure Draws where
  uw0 : Rat
  uw : Rat
  uv0 : Rat
  uv : Rat
  ut : List Rat
  ut0 : List Rat
  uf : List Rat
  uf0 : List Rat
  deriving Repr

/-- Parameters of one batch element. A mask is `(start, width)`. `none` = the code's
empty tensor (step disabled). -/
structure Params where
  warpT : Option (Rat × Rat)
  warpF : Option (Rat × Rat)
  tmasks : List (Int × Int)
  fmasks : List (Int × Int)
  deriving Repr

/-! ## `spec_augment_draw_parameters` -/

/-- `W = (len / 2 - eps).clamp(0, max_warp)` (also `V = min(max(F/2 - eps, 0), max_freq_warp)`). -/
def warpW (eps maxWarp : Rat) (len : Nat) : Rat := clamp 0 maxWarp ((len : Rat) / 2 - eps)

/-- `w_0 = u * (len - 2 W) + W`. -/
def warpCentre (eps maxWarp : Rat) (len : Nat) (u : Rat) : Rat :=
  let W := warpW eps maxWarp len
  u * ((len : Rat) - 2 * W) + W

/-- `w = u * (2 W) - W`. -/
def warpShift (eps maxWarp : Rat) (len : Nat) (u : Rat) : Rat :=
  let W := warpW eps maxWarp len
  u * (2 * W) - W

/-- `clamp(len * prop, max=cap).floor()` as an integer. -/
def propCap (len : Nat) (prop : Rat) (cap : Nat) : Int := (rmin ((len : Rat) * prop) (cap : Rat)).floor

/-- Width of the `j`-th time mask: `(u * (max_ + omeps)).long()`, zeroed when `nums_ <= j`. -/
def timeMaskWidth (c : Cfg) (len j : Nat) (u : Rat) : Int :=
  let max_ := propCap len c.maxTimeMaskProp c.maxTimeMask
  let nums := propCap len c.numTimeMaskProp c.numTimeMask
  if nums ≤ (j : Int) then 0 else truncI (u * ((max_ : Rat) + (1 - c.eps)))

/-- Start of a mask of width `t`: `(u * (size - t + omeps)).long()`. -/
def maskStart (eps : Rat) (size : Nat) (t : Int) (u : Rat) : Int :=
  truncI (u * ((size : Rat) - (t : Rat) + (1 - eps)))

/-- `(t_0[j], t[j])`. -/
def timeMask (c : Cfg) (len j : Nat) (u u0 : Rat) : Int × Int :=
  let t := timeMaskWidth c len j u
  (maskStart c.eps len t u0, t)

/-- Width of a frequency mask: `(u * (min(max_freq_mask, F) + omeps)).long()`. -/
def freqMaskWidth (c : Cfg) (F : Nat) (u : Rat) : Int :=
  truncI (u * (((Nat.min c.maxFreqMask F : Nat) : Rat) + (1 - c.eps)))

/-- `(f_0[j], f[j])`. -/
def freqMask (c : Cfg) (F : Nat) (u u0 : Rat) : Int × Int :=
  let f := freqMaskWidth c F u
  (maskStart c.eps F f u0, f)

def timeMaskEnabled (c : Cfg) : Bool :=
  c.maxTimeMask != 0 && c.maxTimeMaskProp != 0 && c.numTimeMask != 0 && c.numTimeMaskProp != 0

def freqMaskEnabled (c : Cfg) : Bool := c.maxFreqMask != 0 && c.numFreqMask != 0

/-- `spec_augment_draw_parameters` for one batch element of length `len` in a `(T, F)` batch. -/
def drawParams (c : Cfg) (F len : Nat) (d : Draws) : Params :=
  { warpT := if c.maxTimeWarp != 0 then
        some (warpCentre c.eps c.maxTimeWarp len d.uw0, warpShift c.eps c.maxTimeWarp len d.uw)
      else none
    warpF := if c.maxFreqWarp != 0 then
        some (warpCentre c.eps c.maxFreqWarp F d.uv0, warpShift c.eps c.maxFreqWarp F d.uv)
      else none
    tmasks := if timeMaskEnabled c then
        (List.range c.numTimeMask).map (fun j => timeMask c len j (d.ut.getD j 0) (d.ut0.getD j 0))
      else []
    fmasks := if freqMaskEnabled c then
        (List.range c.numFreqMask).map (fun j => freqMask c F (d.uf.getD j 0) (d.uf0.getD j 0))
      else [] }

/-! ## `warp_1d_grid` (order 1) -/

/-- The three training points of the 1-D spline: destinations `c1 < c2 < c3` (the two pinned
ends and the moved knot) with values `c1`, `y2`, `c3` (the ends are mapped to themselves). -/
structure Knots where
  c1 : Rat
  c2 : Rat
  c3 : Rat
  y2 : Rat
  deriving Repr

/-- `(2 x + 1) / T - 1`: centre of frame `x` in `grid_sample` coordinates. -/
def norm (T : Nat) (x : Rat) : Rat := (2 * x + 1) / (T : Rat) - 1

/-- `src = min(src, len-1).clamp_min(0)`. -/
def clampSrc (len : Nat) (src : Rat) : Rat := rmax (rmin src ((len : Rat) - 1)) 0

/-- `dst = min(src + flow, len-1).clamp_min(0)` with the already clamped `src`. -/
def clampDst (len : Nat) (src flow : Rat) : Rat :=
  rmax (rmin (clampSrc len src + flow) ((len : Rat) - 1)) 0

/-- `lowers = 1/T - 1 - eps`: `eps` below the centre of frame 0. -/
def lowerPin (eps : Rat) (T : Nat) : Rat := 1 / (T : Rat) - 1 - eps
/-- `uppers = (2 len - 1)/T - 1 + eps`: `eps` above the centre of frame `len - 1`. -/
def upperPin (eps : Rat) (T len : Nat) : Rat := (2 * (len : Rat) - 1) / (T : Rat) - 1 + eps

/-- The knots. `mu` is the relative margin by which the moved knot is kept away from the
pinned ends: `dst = max(dst, lowers + mu (src - lowers))`, `dst = min(dst, uppers - mu (uppers - src))`.
The repaired code uses `mu = 2 eps T` (`knotMargin`); `mu = 0` gives the knots of the pinned
commit `ca0aabc`, which handed them to the spline solver unchanged. -/
def warpKnots (eps mu : Rat) (T len : Nat) (src flow : Rat) : Knots :=
  let lo := lowerPin eps T
  let up := upperPin eps T len
  let sn := norm T (clampSrc len src)
  let dn := norm T (clampDst len src flow)
  let d1 := rmax dn (lo + mu * (sn - lo))
  let d2 := rmin d1 (up - mu * (up - sn))
  { c1 := lo, c2 := d2, c3 := up, y2 := sn }

/-- `margin = 2.0 * eps * T`. -/
def knotMargin (eps : Rat) (T : Nat) : Rat := 2 * eps * (T : Rat)

/-- The closed form the order-1 branch evaluates: identity outside the pinned ends,
`left`/`right` segments inside (`torch.where(t <= dst, left, right)`). -/
def pwl (k : Knots) (x : Rat) : Rat :=
  if x ≤ k.c1 ∨ k.c3 ≤ x then x
  else if x ≤ k.c2 then k.c1 + (k.y2 - k.c1) * ((x - k.c1) / (k.c2 - k.c1))
  else k.y2 + (k.c3 - k.y2) * ((x - k.c2) / (k.c3 - k.c2))

/-- Grid value for every frame `0..T-1`, for a given knot margin. -/
def warpGridWith (eps mu : Rat) (T len : Nat) (src flow : Rat) : List Rat :=
  (List.range T).map (fun (j : Nat) => pwl (warpKnots eps mu T len src flow) (norm T (j : Rat)))

/-- `warp_1d_grid(src, flow, len, T, 1)`. -/
def warpGrid (eps : Rat) (T len : Nat) (src flow : Rat) : List Rat :=
  warpGridWith eps (knotMargin eps T) T len src flow

/-- One value of the order-1 grid *as the repaired `warp_1d_grid` evaluates it* (the literal
arithmetic of the code, every quantity an offset from the nearer pinned end so that offsets
as small as `eps` survive float32):

```
scale = 2 / T;  last = len - 1;  span = scale * last + 2 eps
src_lo = scale * src + eps;            src_up = scale * (last - src) + eps
dst_lo = scale * dst + eps;            dst_up = scale * (last - dst) + eps
margin = 2 eps T
dst_lo = min(max(dst_lo, margin * src_lo), span - margin * src_up)
dst_up = min(max(dst_up, margin * src_up), span - margin * src_lo)
t_lo = scale * j + eps;                t_up = scale * (last - j) + eps
left = src_lo * (t_lo / dst_lo);       right = span - src_up * (t_up / dst_up)
grid = where((t_lo <= dst_lo) & (t_up >= dst_up), left, right)
grid = where(t_up <= 0, t_lo, grid)
return grid + (1 / T - 1 - eps)
```

`Properties/C08.lean` (`C08_linear_warp_stable_eq`) proves that this is `pwl` through
`warpKnots eps (2 eps T)` at the centre of frame `j`, i.e. `warpGridStable = warpGrid`. -/
def stableAt (eps : Rat) (T len : Nat) (src flow : Rat) (j : Nat) : Rat :=
  let scale : Rat := 2 / (T : Rat)
  let last : Rat := (len : Rat) - 1
  let s := clampSrc len src
  let d := clampDst len src flow
  let span := scale * last + 2 * eps
  let srcLo := scale * s + eps
  let srcUp := scale * (last - s) + eps
  let margin := 2 * eps * (T : Rat)
  let dstLo := rmin (rmax (scale * d + eps) (margin * srcLo)) (span - margin * srcUp)
  let dstUp := rmin (rmax (scale * (last - d) + eps) (margin * srcUp)) (span - margin * srcLo)
  let tLo := scale * (j : Rat) + eps
  let tUp := scale * (last - (j : Rat)) + eps
  let left := srcLo * (tLo / dstLo)
  let right := span - srcUp * (tUp / dstUp)
  let g := if tLo ≤ dstLo ∧ dstUp ≤ tUp then left else right
  let g := if tUp ≤ 0 then tLo else g
  g + (1 / (T : Rat) - 1 - eps)

/-- `warp_1d_grid(src, flow, len, T, 1)` computed the way the code does (see `stableAt`). -/
def warpGridStable (eps : Rat) (T len : Nat) (src flow : Rat) : List Rat :=
  (List.range T).map (fun (j : Nat) => stableAt eps T len src flow j)

/-! ## `warp_1d_grid` (order 3): the exact solution of the polyharmonic system -/

/-- `|x|` (the 1-D `cdist`). -/
def rabs (x : Rat) : Rat := if 0 ≤ x then x else -x

/-- Coefficients of a 1-D polyharmonic spline through three knots: `w` (radial part), `v1 x + v0`. -/
structure Coeffs where
  w1 : Rat
  w2 : Rat
  w3 : Rat
  v1 : Rat
  v0 : Rat
  deriving Repr

/-- The solution of the system `_solve_interpolation(order = 3)` sets up for three knots
(`φ(r) = r³`), in closed form: the radial weights are `s · (b, −(a+b), a)` for the gaps
`a = c2 − c1`, `b = c3 − c2`, with `s` fixed by the second divided difference of the data over
that of the kernel (`2 D`, `D = 2 a² b² (a+b)`), the affine part by the first and last row.
`Properties/C08.lean` proves that these coefficients solve the system (`C08_cubic_warp_model`)
and that the solution is unique (`C08_cubic_warp_exists_unique`). -/
def cubicCoeffs (k : Knots) : Coeffs :=
  let a := k.c2 - k.c1
  let b := k.c3 - k.c2
  let pa := a * a * a
  let pb := b * b * b
  let pab := (a + b) * (a + b) * (a + b)
  let D := a * b * pab - b * (a + b) * pa - a * (a + b) * pb
  let s := (b * k.c1 - (a + b) * k.y2 + a * k.c3) / (2 * D)
  let w1 := s * b
  let w2 := -(s * (a + b))
  let w3 := s * a
  let v1 := ((k.c3 - k.c1) - (w1 * pab + w2 * pb - w2 * pa - w3 * pab)) / (a + b)
  { w1 := w1, w2 := w2, w3 := w3, v1 := v1, v0 := k.c1 - w2 * pa - w3 * pab - v1 * k.c1 }

/-- `_apply_interpolation` with `φ(r) = r³`. -/
def cubicEval (k : Knots) (c : Coeffs) (x : Rat) : Rat :=
  let r1 := rabs (x - k.c1)
  let r2 := rabs (x - k.c2)
  let r3 := rabs (x - k.c3)
  c.w1 * (r1 * r1 * r1) + c.w2 * (r2 * r2 * r2) + c.w3 * (r3 * r3 * r3) + c.v1 * x + c.v0

/-- `warp_1d_grid(src, flow, len, T, 3)` in exact arithmetic (the knots go to the solver
unchanged: margin 0). -/
def warpGrid3 (eps : Rat) (T len : Nat) (src flow : Rat) : List Rat :=
  let k := warpKnots eps 0 T len src flow
  let c := cubicCoeffs k
  (List.range T).map (fun (j : Nat) => cubicEval k c (norm T (j : Rat)))

/-- The identity grid used for the dimension that is not warped. -/
def idGrid (T : Nat) : List Rat := (List.range T).map (fun (j : Nat) => norm T (j : Rat))

/-! ## `grid_sample(bilinear, border, align_corners=False)` -/

/-- `grid_sampler_unnormalize`: `((g + 1) * size - 1) / 2`. -/
def unnorm (n : Nat) (g : Rat) : Rat := ((g + 1) * (n : Rat) - 1) / 2

/-- `clip_coordinates`: `min(size - 1, max(x, 0))`. -/
def clip (n : Nat) (x : Rat) : Rat := rmin ((n : Rat) - 1) (rmax x 0)

/-- Entry `(y, x)` of a `T × F` image, `0` outside (the kernel's `within_bounds_2d`). -/
def getPix (img : List (List Rat)) (T F : Nat) (y x : Int) : Rat :=
  if 0 ≤ y ∧ y < (T : Int) ∧ 0 ≤ x ∧ x < (F : Int) then (img.getD y.toNat []).getD x.toNat 0 else 0

/-- One output cell: `gy` is the time coordinate, `gx` the frequency coordinate. -/
def bilinear (img : List (List Rat)) (T F : Nat) (gy gx : Rat) : Rat :=
  let x := clip F (unnorm F gx)
  let y := clip T (unnorm T gy)
  let x0 := x.floor
  let y0 := y.floor
  let x1 := x0 + 1
  let y1 := y0 + 1
  let nw := ((x1 : Rat) - x) * ((y1 : Rat) - y)
  let ne := (x - (x0 : Rat)) * ((y1 : Rat) - y)
  let sw := ((x1 : Rat) - x) * (y - (y0 : Rat))
  let se := (x - (x0 : Rat)) * (y - (y0 : Rat))
  getPix img T F y0 x0 * nw + getPix img T F y0 x1 * ne
    + getPix img T F y1 x0 * sw + getPix img T F y1 x1 * se

def gridSample (img : List (List Rat)) (T F : Nat) (tg fg : List Rat) : List (List Rat) :=
  tg.map (fun gy => fg.map (fun gx => bilinear img T F gy gx))

/-! ## masks and `spec_augment_apply_parameters` -/

/-- `((arange >= t_0) & (arange < t_0 + t)).any(masks)` at index `j`. -/
def inMask (ms : List (Int × Int)) (j : Nat) : Bool :=
  ms.any (fun m => decide (m.1 ≤ (j : Int)) && decide ((j : Int) < m.1 + m.2))

/-- `masked_fill(tmask | fmask, 0.0)`. -/
def applyMasks (x : List (List Rat)) (tm fm : List (Int × Int)) : List (List Rat) :=
  x.mapIdx (fun j row => row.mapIdx (fun k v => if inMask tm j || inMask fm k then 0 else v))

/-- `spec_augment_apply_parameters(feats, params, 1, len)` for one batch element
(`feats` is `T × F`; `epsG` is the float32 epsilon `warp_1d_grid` uses). -/
def applyParams (epsG : Rat) (x : List (List Rat)) (T F len : Nat) (p : Params) : List (List Rat) :=
  let y :=
    if p.warpT.isSome || p.warpF.isSome then
      let tg := match p.warpT with
        | some (w0, w) => warpGrid epsG T len w0 w
        | none => idGrid T
      let fg := match p.warpF with
        | some (v0, v) => warpGrid epsG F F v0 v
        | none => idGrid F
      gridSample x T F tg fg
    else x
  applyMasks y p.tmasks p.fmasks

/-- `spec_augment(feats, …, training)`. -/
def specAugment (training : Bool) (c : Cfg) (epsG : Rat) (x : List (List Rat)) (T F len : Nat)
    (d : Draws) : List (List Rat) :=
  if !training then x else applyParams epsG x T F len (drawParams c F len d)

end PdtVerif.SpecAugment
