/-!
# Model of `_datasets.py::_info_and_validate`, `validate_spect_data_set`, `_load_ref`, `_write_hyp`

A data directory, as `SpectDataSet` sees it, is the sorted list of utterances that have a
file in every sub-directory in use; each utterance is a record of what `torch.load` returns
for its feature / alignment / reference file (only what the validation looks at is kept:
dtype tag, device tag, shape, and the integer content of 1-D alignments and 1-D/2-D
references).

`run fix st d` follows `_info_and_validate(data_set, info=False, validate=True, fix)` utterance
by utterance, file by file, in the order of the code, and returns the directory **as it is
on disk afterwards** together with the error, if one was raised: a file is re-written
(`torch.save`) only at the code's `if write_back:` points, so

* files of earlier utterances stay repaired when a later utterance raises;
* inside one utterance `feat/` is saved before `ali/` is looked at, `ali/` before `ref/`;
* a repair made in memory is lost when the same file raises before its `torch.save`;
* the negative-token check comes *after* the reference was saved.

(Writing back a tensor that was not changed is a no-op, so the model "saves" at every
`write_back` point without tracking the flag.)

No GPU exists in the sandbox: `Device` is a tag of the model only.

No Mathlib imports here: this file is also used by the driver.
-/
namespace PdtVerif.DataDir

/-- dtype tags (everything the validation can tell apart). -/
inductive DType where
  | u8 | i8 | i16 | i32 | i64 | f16 | f32 | f64 | bool
  deriving DecidableEq, Repr

/-- `isinstance(x, (ByteTensor, CharTensor, ShortTensor, IntTensor))`. -/
def DType.narrowInt : DType → Bool
  | .u8 | .i8 | .i16 | .i32 => true
  | _ => false

inductive Device where
  | cpu | cuda
  deriving DecidableEq, Repr

/-- A file of `feat/`. `isTensor = false`: the pickled object is not a tensor. -/
structure Feat where
  isTensor : Bool
  dtype : DType
  dev : Device
  dims : List Nat
  deriving DecidableEq, Repr

/-- Number of frames `T` (`feat.shape[0]`; only used when `dims = [T, F]`). -/
def Feat.T (f : Feat) : Nat := f.dims.headD 0

/-- Content of a file of `ali/`: a 1-D tensor with its values, or a tensor that is **not**
1-D (its shape and its entries in storage order, `ali.flatten()`). -/
inductive AliData where
  | vec (vals : List Int)
  | nd (shape : List Nat) (flat : List Int)
  deriving DecidableEq, Repr

/-- The entries in storage order: what `ali.unique_consecutive(return_counts=True)` runs over
(without `dim` it works on the flattened tensor, whatever the number of dimensions). -/
def AliData.flat : AliData → List Int
  | .vec v => v
  | .nd _ fl => fl

structure Ali where
  dtype : DType
  dev : Device
  data : AliData
  deriving DecidableEq, Repr

/-- One row `(token, start, end)` of a 2-D reference. -/
structure Row where
  tok : Int
  s : Int
  e : Int
  deriving DecidableEq, Repr

/-- Content of a file of `ref/`: 1-D token list; 2-D of shape `(R, 3)`; 2-D of shape `(r, w)`
with `w ≠ 3` (shape only); a tensor that is neither 1-D nor 2-D (shape only). -/
inductive RefData where
  | d1 (toks : List Int)
  | d2 (rows : List Row)
  | d2w (r w : Nat)
  | nd (shape : List Nat)
  deriving DecidableEq, Repr

structure Ref where
  dtype : DType
  dev : Device
  data : RefData
  deriving DecidableEq, Repr

structure Utt where
  feat : Feat
  ali : Option Ali
  ref : Option Ref
  deriving DecidableEq, Repr

abbrev Dir := List Utt

/-- Every error is a `ValueError` in the code; the tag says which `raise` it was. -/
inductive Err where
  | featType | cuda | featDims | featWidth | notLong | aliDims | aliLen
  | refMixed | refWidth | refBounds | refDims | negToken
  deriving DecidableEq, Repr

/-- The three variables `_info_and_validate` carries across utterances. -/
structure St where
  numFilts : Option Nat
  refIs2d : Option Bool
  featDtype : Option DType
  deriving DecidableEq, Repr

def St.init : St := ⟨none, none, none⟩

/-- `if x.device.type == "cuda": (fix is not None → x = x.cpu()) else raise`. -/
def fixDev (fix : Option Nat) : Device → Except Err Device
  | .cpu => .ok .cpu
  | .cuda => if fix.isSome then .ok .cpu else .error .cuda

/-- `if not isinstance(x, LongTensor): (fix is not None and narrow int → x.long()) else raise`. -/
def fixLong (fix : Option Nat) (dt : DType) : Except Err DType :=
  if dt = .i64 then .ok .i64
  else if fix.isSome ∧ dt.narrowInt = true then .ok .i64
  else .error .notLong

/-- Feature block: what is saved to `feat/` (only on success) and the new loop state. -/
def checkFeat (fix : Option Nat) (st : St) (f : Feat) : Except Err (Feat × St) :=
  if f.isTensor = false ∨ (st.featDtype ≠ none ∧ st.featDtype ≠ some f.dtype) then .error .featType
  else
    match fixDev fix f.dev with
    | .error e => .error e
    | .ok dev =>
      match f.dims with
      | [_, F] =>
        match st.numFilts with
        | none => .ok ({ f with dev := dev }, { st with featDtype := some f.dtype, numFilts := some F })
        | some nf =>
          if F ≠ nf then .error .featWidth
          else .ok ({ f with dev := dev }, { st with featDtype := some f.dtype })
      | _ => .error .featDims

/-- Length check and cropping: `T + fix >= Tp > T → ali[:T]`. -/
def checkAliData (fix : Option Nat) (T : Nat) : AliData → Except Err AliData
  | .nd _ _ => .error .aliDims
  | .vec v =>
    if v.length = T then .ok (.vec v)
    else
      match fix with
      | some k => if T < v.length ∧ v.length ≤ T + k then .ok (.vec (v.take T)) else .error .aliLen
      | none => .error .aliLen

/-- Alignment block: the tensor saved to `ali/`. -/
def checkAli (fix : Option Nat) (T : Nat) (a : Ali) : Except Err Ali :=
  match fixDev fix a.dev with
  | .error e => .error e
  | .ok dev =>
    match fixLong fix a.dtype with
    | .error e => .error e
    | .ok dt =>
      match checkAliData fix T a.data with
      | .error e => .error e
      | .ok data => .ok ⟨dt, dev, data⟩

/-- Body of `for idx2, r in enumerate(ref)`. -/
def fixRow (fix : Option Nat) (T : Nat) (r : Row) : Except Err Row :=
  if r.s < 0 ∧ r.e < 0 then .ok r
  else if r.s < 0 ∨ r.e < 0 then
    (if fix.isSome then .ok { r with s := -1, e := -1 } else .error .refBounds)
  else if r.e < r.s then .error .refBounds
  else if (T : Int) < r.e then
    match fix with
    | some k => if r.s ≤ T ∧ r.e - k ≤ T then .ok { r with e := T } else .error .refBounds
    | none => .error .refBounds
  else .ok r

/-- The row loop: stops at the first row that raises. -/
def fixRows (fix : Option Nat) (T : Nat) : List Row → Except Err (List Row)
  | [] => .ok []
  | r :: rs =>
    match fixRow fix T r with
    | .error e => .error e
    | .ok r' =>
      match fixRows fix T rs with
      | .error e => .error e
      | .ok rs' => .ok (r' :: rs')

/-- Dimensionality bookkeeping and boundary repairs. -/
def checkRefData (fix : Option Nat) (T : Nat) (is2d : Option Bool) :
    RefData → Except Err (RefData × Option Bool)
  | .d2 rows =>
    if is2d = some false then .error .refMixed
    else
      match fixRows fix T rows with
      | .error e => .error e
      | .ok rows' => .ok (.d2 rows', some true)
  | .d2w _ _ => if is2d = some false then .error .refMixed else .error .refWidth
  | .d1 toks => if is2d = some true then .error .refMixed else .ok (.d1 toks, some false)
  | .nd _ => .error .refDims

/-- Reference block up to its `torch.save`. -/
def checkRef (fix : Option Nat) (T : Nat) (is2d : Option Bool) (r : Ref) :
    Except Err (Ref × Option Bool) :=
  match fixDev fix r.dev with
  | .error e => .error e
  | .ok dev =>
    match fixLong fix r.dtype with
    | .error e => .error e
    | .ok dt =>
      match checkRefData fix T is2d r.data with
      | .error e => .error e
      | .ok (data, is2d') => .ok (⟨dt, dev, data⟩, is2d')

/-- Token ids of a reference (`ref[..., 0]` / `ref`). -/
def RefData.toks : RefData → List Int
  | .d1 t => t
  | .d2 rows => rows.map (·.tok)
  | .d2w _ _ => []
  | .nd _ => []

/-- `for tok, start, end in ref.tolist(): if tok < 0: raise` — runs after the save. -/
def tokCheck (r : Ref) : Except Err Unit :=
  if r.data.toks.all (fun t => decide (0 ≤ t)) then .ok () else .error .negToken

/-- One iteration of the utterance loop: the utterance's three files as they are on disk
afterwards, and the new loop state or the error raised. -/
def stepUtt (fix : Option Nat) (st : St) (u : Utt) : Utt × Except Err St :=
  match checkFeat fix st u.feat with
  | .error e => (u, .error e)
  | .ok (f', st1) =>
    let T := f'.T
    let u1 : Utt := { u with feat := f' }
    let aliRes : Except Err (Option Ali) :=
      match u.ali with
      | none => .ok none
      | some a => (checkAli fix T a).map some
    match aliRes with
    | .error e => (u1, .error e)
    | .ok ali' =>
      let u2 : Utt := { u1 with ali := ali' }
      match u.ref with
      | none => (u2, .ok st1)
      | some r =>
        match checkRef fix T st1.refIs2d r with
        | .error e => (u2, .error e)
        | .ok (r', is2d') =>
          let u3 : Utt := { u2 with ref := some r' }
          match tokCheck r' with
          | .error e => (u3, .error e)
          | .ok () => (u3, .ok { st1 with refIs2d := is2d' })

/-- The loop over the data set: directory on disk afterwards + the error raised (if any). -/
def run (fix : Option Nat) : St → Dir → Dir × Option Err
  | _, [] => ([], none)
  | st, u :: us =>
    match stepUtt fix st u with
    | (u', .error e) => (u' :: us, some e)
    | (u', .ok st') =>
      let res := run fix st' us
      (u' :: res.1, res.2)

/-- `validate_spect_data_set(data_set, fix)` (`fix=True` is `some 1`, `fix=False` is `none`):
`ok d'` = returned normally and the directory now holds `d'`. -/
def validate (fix : Option Nat) (d : Dir) : Except Err Dir :=
  match run fix St.init d with
  | (d', none) => .ok d'
  | (_, some e) => .error e

/-- What is on disk after the call, raised or not. -/
def diskAfter (fix : Option Nat) (d : Dir) : Dir := (run fix St.init d).1

/-! ## The one-pass report of `get-torch-spect-data-dir-info` (`info=True`) -/

/-- The accumulators of `_info_and_validate` (`info_dict` entries and the four dictionaries;
a dictionary is modelled as the function `key ↦ dict.get(key, default)`). -/
structure Acc where
  totalFrames : Nat := 0
  numFilts : Option Nat := none
  maxAli : Int := -1
  maxRef : Int := -1
  /-- `info_dict.get("total_tokens")`: `none` = key absent (no reference seen yet). -/
  totalTokens : Option Nat := none
  counts : Int → Nat := fun _ => 0
  segs : Int → Nat := fun _ => 0
  /-- `rcounts.get(tok)`: `none` = key absent. -/
  rcounts : Int → Option Int := fun _ => none
  rsegs : Int → Nat := fun _ => 0

inductive InfoErr where
  | val (e : Err)
  /-- "Got a negative ali class idx" -/
  | negAli
  /-- `for tok, start, end in ref.tolist()` on rows that are not triples -/
  | unpack
  deriving DecidableEq, Repr

/-- `unique_consecutive(return_counts=True)`: maximal runs as (value, length). -/
def runsOf : List Int → List (Int × Nat)
  | [] => []
  | x :: xs =>
    match runsOf xs with
    | (y, n) :: rest => if x = y then (y, n + 1) :: rest else (x, 1) :: (y, n) :: rest
    | [] => [(x, 1)]

/-- The loop over `zip(class_idxs, counts_)`. -/
def aliInfo : Acc → List (Int × Nat) → Except InfoErr Acc
  | acc, [] => .ok acc
  | acc, (c, n) :: rest =>
    if c < 0 then .error .negAli
    else
      aliInfo { acc with
        maxAli := max c acc.maxAli
        counts := fun i => if i = c then acc.counts c + n else acc.counts i
        segs := fun i => if i = c then acc.segs c + 1 else acc.segs i } rest

/-- The loop `for tok, start, end in ref.tolist()` (with `info`); without `info` only the
negative-token check remains. **As repaired by `fixes/C12-info-recount.diff`**: a token with an
empty segment (`start = end`) counts 0 frames (pinned: `end > start`, which turned the class's
count into -1), and `total_tokens` exists as soon as a reference was seen (pinned: only once a
token was seen, so a directory of empty transcripts reported -1). -/
def refInfo (info : Bool) : Acc → List Row → Except InfoErr Acc
  | acc, [] => .ok acc
  | acc, r :: rest =>
    if r.tok < 0 then .error (.val .negToken)
    else if info then
      let rc := (acc.rcounts r.tok).getD 0
      let new : Int := if 0 ≤ rc ∧ r.s ≤ r.e ∧ 0 ≤ r.s then rc + r.e - r.s else -1
      refInfo info { acc with
        totalTokens := some (acc.totalTokens.getD 0 + 1)
        maxRef := max acc.maxRef r.tok
        rcounts := fun i => if i = r.tok then some new else acc.rcounts i
        rsegs := fun i => if i = r.tok then acc.rsegs r.tok + 1 else acc.rsegs i } rest
    else refInfo info acc rest

/-- Rows the token loop iterates over (`none`: rows that do not unpack into three values;
0-D / ≥3-D references are outside the model and reported the same way). -/
def RefData.infoRows : RefData → Option (List Row)
  | .d1 t => some (t.map fun x => ⟨x, -1, -1⟩)
  | .d2 rows => some rows
  | .d2w r _ => if r = 0 then some [] else none
  | .nd _ => none

/-- One utterance of `_info_and_validate(data_set, info=True, validate, fix)`. -/
def infoStep (validate : Bool) (fix : Option Nat) (st : St) (acc : Acc) (u : Utt) :
    Utt × Except InfoErr (St × Acc) :=
  -- feature block
  let featRes : Except Err (Feat × St) :=
    if validate then checkFeat fix st u.feat
    else
      match u.feat.dims with
      | [_, F] => .ok (u.feat, { st with numFilts := some (st.numFilts.getD F) })
      | _ => .error .featDims
  match featRes with
  | .error e => (u, .error (.val e))
  | .ok (f', st1) =>
    let T := f'.T
    let acc1 : Acc := { acc with numFilts := f'.dims[1]?, totalFrames := acc.totalFrames + T }
    let u1 : Utt := { u with feat := f' }
    -- alignment block
    let aliRes : Except InfoErr (Option Ali × Acc) :=
      match u.ali with
      | none => .ok (none, acc1)
      | some a =>
        match (if validate then checkAli fix T a else .ok a) with
        | .error e => .error (.val e)
        | .ok a' => .ok (some a', acc1)
    match aliRes with
    | .error e => (u1, .error e)
    | .ok (ali', acc1) =>
      let u2 : Utt := { u1 with ali := ali' }
      let aliAcc : Except InfoErr Acc :=
        match ali' with
        | none => .ok acc1
        | some a' =>
          -- `unique_consecutive` flattens: without validation an alignment that is not 1-D is
          -- counted entry by entry in storage order (with validation it was rejected above)
          aliInfo acc1 (runsOf a'.data.flat)
      match aliAcc with
      | .error e => (u2, .error e)
      | .ok acc2 =>
        match u.ref with
        | none => (u2, .ok (st1, acc2))
        | some r =>
          match (if validate then checkRef fix T st1.refIs2d r else .ok (r, st1.refIs2d)) with
          | .error e => (u2, .error (.val e))
          | .ok (r', is2d') =>
            let u3 : Utt := { u2 with ref := some r' }
            match r'.data.infoRows with
            | none => (u3, .error .unpack)
            | some rows =>
              -- `info_dict.setdefault("total_tokens", 0)` (part of fixes/C12-info-recount.diff)
              match refInfo true { acc2 with totalTokens := some (acc2.totalTokens.getD 0) } rows with
              | .error e => (u3, .error e)
              | .ok acc3 => (u3, .ok ({ st1 with refIs2d := is2d' }, acc3))

def infoLoop (validate : Bool) (fix : Option Nat) : St → Acc → Dir → Dir × Except InfoErr Acc
  | _, acc, [] => ([], .ok acc)
  | st, acc, u :: us =>
    match infoStep validate fix st acc u with
    | (u', .error e) => (u' :: us, .error e)
    | (u', .ok (st', acc')) =>
      let res := infoLoop validate fix st' acc' us
      (u' :: res.1, res.2)

/-- The command's pass: directory on disk afterwards, accumulators or the error. -/
def infoRun (validate : Bool) (fix : Option Nat) (d : Dir) : Dir × Except InfoErr Acc :=
  infoLoop validate fix St.init {} d

/-- Does `get-torch-spect-data-dir-info` validate? **As repaired by
`fixes/C12-info-fix-zero.diff`**: `options.strict or options.fix is not None`. -/
def cliValidates (strict : Bool) (fix : Option Nat) : Bool := strict || fix.isSome

/-- **As pinned**: `options.strict or options.fix` — `--fix 0` is falsy, nothing is validated. -/
def cliValidatesPinned (strict : Bool) (fix : Option Nat) : Bool :=
  strict || (match fix with
    | some k => k != 0
    | none => false)

/-- The command with `--strict` (`strict`), `--fix k` (`some k`) or neither. -/
def infoCmd (strict : Bool) (fix : Option Nat) (d : Dir) : Dir × Except InfoErr Acc :=
  infoRun (cliValidates strict fix) fix d

/-- `int(math.log10(max(m, 1))) + 1`: the number of decimal digits of the largest class index. -/
def digits (m : Int) : Nat := (toString (max m 1).toNat).length

/-- `f"{pre}{i:0{w}d}"`: the class index left-padded with zeros to width `w`. -/
def padKey (pre : String) (w i : Nat) : String :=
  pre ++ String.ofList (List.replicate (w - (toString i).length) '0') ++ toString i

def classKeys (pre1 pre2 : String) (m : Int) (f g : Int → Int) : List (String × Int) :=
  (List.range (m + 1).toNat).flatMap fun (i : Nat) =>
    [(padKey pre1 (digits m) i, f (i : Int)), (padKey pre2 (digits m) i, g (i : Int))]

/-- `sorted(info_dict.items())`: insertion sort of the lines by key (code-point order). -/
def insertLine (x : String × Int) : List (String × Int) → List (String × Int)
  | [] => [x]
  | y :: ys => if x.1 < y.1 then x :: y :: ys else y :: insertLine x ys

def sortLines (l : List (String × Int)) : List (String × Int) := l.foldr insertLine []

/-- The key/value pairs written out (class indices zero-padded), in `info_dict` order; the file
holds `sortLines` of them. -/
def report (numUtts : Nat) (a : Acc) : List (String × Int) :=
  [("num_utterances", (numUtts : Int)), ("total_frames", (a.totalFrames : Int)),
   ("max_ali_class", a.maxAli), ("max_ref_class", a.maxRef),
   ("total_tokens", match a.totalTokens with
      | some n => (n : Int)
      | none => -1)]
  ++ (a.numFilts.toList.map fun (F : Nat) => ("num_filts", (F : Int)))
  ++ classKeys "count_" "segs_" a.maxAli (fun i => a.counts i) (fun i => a.segs i)
  ++ classKeys "rcount_" "rsegs_" a.maxRef (fun i => (a.rcounts i).getD (-1)) (fun i => a.rsegs i)

/-! ## `_load_ref` / `_write_hyp` -/

/-- A reference or hypothesis as the data set hands it out. -/
inductive Seq where
  | s1 (toks : List Int)
  | s2 (rows : List Row)
  deriving DecidableEq, Repr

/-- `_load_ref` **with the repair `fixes/C12-load-ref-empty.diff`**: the symbols are built from the
shape of the tensor, not from its first row. `tokensOnly` drops the boundaries of a 2-D file. -/
def loadRef (tokensOnly : Bool) (sos eos : Option Int) (r : Seq) : Seq :=
  match r with
  | .s1 t => .s1 ((sos.toList ++ t) ++ eos.toList)
  | .s2 rows =>
    if tokensOnly then .s1 ((sos.toList ++ rows.map (·.tok)) ++ eos.toList)
    else .s2 (((sos.toList.map fun x => ⟨x, -1, -1⟩) ++ rows) ++ (eos.toList.map fun x => ⟨x, -1, -1⟩))

/-- `_load_ref` **as pinned**: `torch.full_like(ref[:1], sos)` is empty for an empty transcript and
`ref[0]` raises `IndexError` on an empty `(0, 3)` tensor (`none`). -/
def loadRefPinned (tokensOnly : Bool) (sos eos : Option Int) (r : Seq) : Option Seq :=
  let one (t : List Int) : Seq :=
    let t1 := match sos with
      | some x => (t.take 1).map (fun _ => x) ++ t
      | none => t
    let t2 := match eos with
      | some x => t1 ++ (t1.take 1).map (fun _ => x)
      | none => t1
    .s1 t2
  match r with
  | .s1 t => some (one t)
  | .s2 rows =>
    if tokensOnly then some (one (rows.map (·.tok)))
    else
      match sos, eos, rows with
      | none, none, _ => some (.s2 rows)
      | _, _, [] => none
      | _, _, _ => some (.s2 (((sos.toList.map fun x => ⟨x, -1, -1⟩) ++ rows)
                          ++ (eos.toList.map fun x => ⟨x, -1, -1⟩)))

/-- `hyp[last index of sos + 1 :]` (unchanged when `sos` does not occur). -/
def afterLast {α} (p : α → Bool) : List α → List α
  | [] => []
  | x :: xs =>
    if xs.any p then afterLast p xs
    else if p x then xs
    else x :: xs

/-- `hyp[: first index of eos]` (unchanged when `eos` does not occur). -/
def beforeFirst {α} (p : α → Bool) : List α → List α
  | [] => []
  | x :: xs => if p x then [] else x :: beforeFirst p xs

def stripOpt {α} (key : α → Int) (sos eos : Option Int) (l : List α) : List α :=
  let l1 := match sos with
    | some x => afterLast (fun a => key a == x) l
    | none => l
  match eos with
  | some x => beforeFirst (fun a => key a == x) l1
  | none => l1

/-- `_write_hyp`: the tensor that ends up in the hypothesis file. -/
def writeHyp (sos eos : Option Int) : Seq → Seq
  | .s1 t => .s1 (stripOpt id sos eos t)
  | .s2 rows => .s2 (stripOpt (·.tok) sos eos rows)

/-! ## Utterance discovery: `_utts_in_dir`, `SpectDataSet.__init__` (`has_ali`, `has_ref`),
`SpectDataSet.find_utt_ids`, `utt_ids = tuple(sorted(...))`

A file name is the list of its code points (python compares `str` by code point). A python `set`
is a list here; the final `sorted` also removes the duplicates a list may hold. -/

abbrev FName := List Nat

/-- `x.startswith(file_prefix) and x.endswith(file_suffix)`. -/
def nameMatches (pre suf x : FName) : Bool := pre.isPrefixOf x && suf.isSuffixOf x

/-- `x[fpl:neg_fsl]` (`neg_fsl = None` for an empty suffix): the slice from `len(prefix)` to
`len(x) - len(suffix)`, empty when the two overlap. -/
def stripName (pre suf x : FName) : FName :=
  (x.drop pre.length).take (x.length - suf.length - pre.length)

/-- `_utts_in_dir(dir_, file_prefix, file_suffix)` on the listing of the directory. -/
def uttsInDir (pre suf : FName) (files : List FName) : List FName :=
  (files.filter (nameMatches pre suf)).map (stripName pre suf)

/-- What `os.listdir` returns for the three sub-directories; `none` = the sub-directory is not
looked at (it does not exist, its name was given as `None`, or — `ali/` only — `suppress_alis`). -/
structure Listing where
  feat : List FName
  ali : Option (List FName)
  ref : Option (List FName)

/-- `has_ali` / `has_ref`: the directory exists and holds at least one matching file
(independently of `subset_ids`). -/
def dirInUse (pre suf : FName) : Option (List FName) → Bool
  | none => false
  | some files => files.any (nameMatches pre suf)

/-- `if subset_ids: utt_ids &= subset_ids` — an empty subset restricts nothing. -/
def restrict (subset ids : List FName) : List FName :=
  if subset.isEmpty then ids else ids.filter (subset.contains ·)

/-- `SpectDataSet.find_utt_ids` (the warnings aside). -/
def findUttIds (pre suf : FName) (subset : List FName) (l : Listing) : List FName :=
  let ids := restrict subset (uttsInDir pre suf l.feat)
  let ids :=
    if dirInUse pre suf l.ali then
      ids.filter ((restrict subset (uttsInDir pre suf (l.ali.getD []))).contains ·)
    else ids
  if dirInUse pre suf l.ref then
    ids.filter ((restrict subset (uttsInDir pre suf (l.ref.getD []))).contains ·)
  else ids

/-- Insertion into a strictly increasing list (a value already there is not inserted again). -/
def insertName (x : FName) : List FName → List FName
  | [] => [x]
  | y :: ys => if x < y then x :: y :: ys else if x = y then y :: ys else y :: insertName x ys

/-- `sorted(set(...))`. -/
def sortNames (l : List FName) : List FName := l.foldr insertName []

/-- `data_set.utt_ids`. -/
def discover (pre suf : FName) (subset : List FName) (l : Listing) : List FName :=
  sortNames (findUttIds pre suf subset l)

/-- `LangDataSet.utt_ids`: one directory, no companions. -/
def discoverLang (pre suf : FName) (subset : List FName) (files : List FName) : List FName :=
  sortNames (restrict subset (uttsInDir pre suf files))

/-- `file_prefix + utt_id + file_suffix`: the file every reader and writer of the data set uses. -/
def fileOf (pre suf id : FName) : FName := pre ++ id ++ suf

end PdtVerif.DataDir
