import PdtVerif.Model.NgramTrie
/-!
# `_build_trie` as a procedure on the caller's objects

`LookupLanguageModel(V, sos, prob_dicts, destructive)` receives a *reference*: a list object
whose elements are references to dict objects. The code

```
if not len(prob_dicts): raise ValueError
if not destructive:
    prob_dicts = [prob_dict.copy() for prob_dict in prob_dicts]
… checking loop: inserts (-inf, 0) for missing suffixes / unigrams INTO prob_dicts[n-1] / prob_dicts[0]
… if shift: re-keys every entry that mentions sos (pop + insert)
… prob_dict = prob_dicts.pop(0) … while prob_dicts: prob_dict = prob_dicts.pop(0); … prob_dict.popitem() …
```

edits whatever `prob_dicts` refers to at that moment: fresh copies when `destructive` is false,
the caller's own list and dicts when it is true. `Mem` is the heap of list and dict objects,
`buildTrieMem` the procedure: it returns the buffers (or `none` = `ValueError`) **and the heap
after the call**. The stages write whole dict objects back (`Mem.store`) where the code edits
them entry by entry; what a caller can observe after the call has returned – or raised – is
the same: the checking loop stops at the first bad key and keeps what it had inserted
(`closeDownS` returns the partial result together with the flag).

Restriction: with `destructive = true` the dict objects of the table are assumed pairwise
distinct (no `[d, d]`); with `destructive = false` the copies always are.

No Mathlib imports: the driver runs this file.
-/
namespace PdtVerif.NgramTrie

/-! ## the checking loop, keeping its partial result -/

/-- `addSuffixes` with the state it leaves behind: `(false, low)` = a `ValueError` was raised after
`low` had been reached. -/
def addSuffixesS (V : Nat) (sos : Int) (len : Nat) (d : List Item) (lower : List Item) :
    Bool × List Item :=
  d.foldl (fun (acc : Bool × List Item) e =>
    if !acc.1 then acc
    else if e.key.length ≠ len then (false, acc.2)
    else if e.key.any (fun t => !(decide (0 ≤ t ∧ t < V) || (shiftOf V sos == 1 && t == sos))) then
      (false, acc.2)
    else
      let suffix := e.key.tail
      if hasKey acc.2 suffix then acc
      else (true, acc.2 ++ [⟨suffix, LogP.negInf, LogP.fin 0⟩])) (true, lower)

/-- `closeDown` with the state it leaves behind: all orders, highest first – completed as far as
the loop got. -/
def closeDownS (V : Nat) (sos : Int) (cur : List Item) : List (List Item) → Bool × List (List Item)
  | [] =>
    match addUnigrams V sos cur with
    | none => (false, [cur])
    | some u => (true, [u])
  | lower :: rest =>
    let r := addSuffixesS V sos (rest.length + 2) cur lower
    if r.1 then
      let r2 := closeDownS V sos r.2 rest
      (r2.1, cur :: r2.2)
    else (false, cur :: r.2 :: rest)

/-! ## the allocation (the text of `buildTrie` behind the closure) -/

/-- The four buffers from the completed orders (highest first, not yet renamed). -/
def assembleBufs (V : Nat) (sos : Int) (N : Nat) (closedRev : List (List Item)) : Buffers :=
  let levels := closedRev.reverse.map (fun d => d.map (remapItem V sos))
  let total := (levels.map List.length).sum
  let G := (levels.getLastD []).length
  let shift := shiftOf V sos
  let U := V + shift + 1 % N
  let O := total - G + (N - 1)
  let I := O + G - U
  let P := O + G
  let uni := levels.headD []
  let nU := V + shift
  let uvals := (List.range nU).map (fun x =>
    (uni.find? (fun e => e.key == [Int.ofNat x])).getD default)
  let logps0 : Array LogP := Array.replicate P (LogP.fin 0)
  let logbs0 : Array LogP := Array.replicate O (LogP.fin 0)
  let put (a : Array LogP) (vals : List LogP) : Array LogP :=
    (List.range vals.length).foldl (fun acc i => acc.setIfInBounds i (vals.getD i LogP.nan)) a
  let logps1 := put logps0 (uvals.map (·.logp))
  let logbs1 := if N = 1 then logbs0 else put logbs0 (uvals.map (·.logb))
  let f0 : Fill := {
    offsets := Array.replicate O 0, ids := Array.replicate I 0,
    logps := logps1, logbs := logbs1, allocated := nU, lastStart := 0,
    parents := (List.range (U - 1)).map (fun x => ([Int.ofNat x], x)) }
  let f := fillLevels U levels.tail f0
  let maxOff := f.offsets.foldl max 0
  { N := N, G := G, S := maxDirect f.offsets (V + shift + 1),
    offsets := f.offsets, ids := f.ids, logps := f.logps, logbs := f.logbs,
    offBits := if f.offsets.size = 0 then 8 else bitsFor maxOff,
    idBits := bitsFor U }

/-! ## the heap -/

/-- Dict objects and list objects, by address. -/
structure Mem where
  dicts : List (List Item)
  lists : List (List Nat)
  deriving Repr, DecidableEq

namespace Mem

def dict (m : Mem) (a : Nat) : List Item := m.dicts.getD a []

def list (m : Mem) (l : Nat) : List Nat := m.lists.getD l []

/-- What a table reference shows: the contents of its dict objects, lowest order first. -/
def table (m : Mem) (l : Nat) : List (List Item) := (m.list l).map m.dict

def setDict (m : Mem) (a : Nat) (d : List Item) : Mem := { m with dicts := m.dicts.set a d }

def setList (m : Mem) (l : Nat) (x : List Nat) : Mem := { m with lists := m.lists.set l x }

/-- Write the contents back to the dict objects `addrs` (one after the other). -/
def store (m : Mem) : List Nat → List (List Item) → Mem
  | a :: as, d :: ds => (m.setDict a d).store as ds
  | _, _ => m

/-- `[prob_dict.copy() for prob_dict in prob_dicts]`: fresh dict objects with the same contents and a
fresh list object referring to them; returns the address of the new list. -/
def copyTable (m : Mem) (l : Nat) : Mem × Nat :=
  let src := m.list l
  ({ dicts := m.dicts ++ src.map m.dict,
     lists := m.lists ++ [(List.range src.length).map (m.dicts.length + ·)] }, m.lists.length)

/-- A caller who holds one table (list object 0, dict objects 0 … N-1). -/
def ofTable (dicts : List (List Item)) : Mem := ⟨dicts, [List.range dicts.length]⟩

end Mem

/-- `_build_trie` behind the copy: everything it does to the table it WORKS on (list object `w`). -/
def buildWork (V : Nat) (sos : Int) (m1 : Mem) (w : Nat) : Option Buffers × Mem :=
  let addrs := m1.list w
  let dicts := m1.table w
  if (dicts.getLastD []).isEmpty then (none, m1)     -- first iteration of the checking loop
  else
    -- the checking loop: the implicit entries go INTO the working dict objects
    let r := closeDownS V sos (dicts.getLastD []) dicts.reverse.tail
    let m2 := m1.store addrs r.2.reverse
    if r.1 then
      -- `sos → V` in every key of the working dict objects
      let m3 := m2.store addrs (r.2.reverse.map (fun d => d.map (remapItem V sos)))
      -- allocation: `prob_dicts.pop(0)` until the working list is empty, `popitem()` until every
      -- dict above the unigrams is empty
      let m4 := (m3.store addrs.tail (addrs.tail.map (fun _ => []))).setList w []
      (some (assembleBufs V sos dicts.length r.2), m4)
    else (none, m2)

/-- `_build_trie(prob_dicts, destructive, …)`, `prob_dicts` = list object `l`. -/
def buildTrieMem (destructive : Bool) (V : Nat) (sos : Int) (m : Mem) (l : Nat) :
    Option Buffers × Mem :=
  if (m.list l).length = 0 then (none, m)          -- `if not len(prob_dicts): raise ValueError`
  else if destructive then buildWork V sos m l     -- works on the caller's own objects
  else
    -- `prob_dicts = [prob_dict.copy() for prob_dict in prob_dicts]`
    let c := m.copyTable l
    buildWork V sos c.1 c.2

/-- Several constructions, one after the other, from the SAME table reference `l`
(`(destructive, V, sos)` each): the results and the heap at the end. -/
def buildSession (m : Mem) (l : Nat) : List (Bool × Nat × Int) → List (Option Buffers) × Mem
  | [] => ([], m)
  | (d, V, sos) :: rest =>
    let r := buildTrieMem d V sos m l
    let rs := buildSession r.2 l rest
    (r.1 :: rs.1, rs.2)

end PdtVerif.NgramTrie
