import PdtVerif.Model.SeqScore
/-!
# Model of the random walk and of `SequentialLanguageModelDistribution`

* `_string.py::fill_after_eos` — `(tokens == eos).cumsum.clamp_max(1).cumsum > 1`.
* `_decoding.py::random_walk_advance` — the drawn tokens `y_t` are an **input** (the harness
  replays them through a patched `torch.multinomial`); score update by `gather`; growth of `y`
  (`cat` when `max(lens) >= S`, otherwise keep) and `scatter` of the draw at `lens[n]`.
* `RandomWalk.forward` — loop with the `eos_mask.all()` break, the `-inf` / `0.0` fill that
  forces finished paths onto `eos`, `y_lens += ~eos_mask`, `eos_mask` re-read from `y`.
* `SequentialLanguageModelDistribution` — `sample` (transposition / `pad_sequence` with `eos`),
  `log_prob` (`lm(hist[:-1])` then `SequenceLogProbabilities(1, eos)`), `enumerate_support`
  (`enumerate_vocab_sequences` → `fill_after_eos` → `unique`), `_validate_sample` with
  `TokenSequenceConstraint.check`.

The language model is a parameter `lm n hist v`: the **log-softmax** value of class `v` for
batch element `n` after the history `hist` (what `calc_idx_log_probs(...).log_softmax(-1)`
returns; `log_softmax` itself is not modelled). `-inf` is `none` in `Option Rat`.
-/
namespace PdtVerif.SeqScore

/-! ## `fill_after_eos` -/

/-- `fill_after_eos(tokens, eos, fill=fill)` along one sequence. -/
def fillAfterEos {α} [BEq α] (tok : List α) (eos : α) (fill : α) : List α :=
  let c1 := cumsumFrom 0 (tok.map (fun h => (h == eos).toNat))
  let c2 := cumsumFrom 0 (c1.map (fun c => min c 1))
  List.zipWith (fun c t => if c > 1 then fill else t) c2 tok

/-! ## `random_walk_advance` -/

/-- Language model: batch element, history, class ↦ log-softmax value. -/
abbrev LM := Nat → List Nat → Nat → Rat

/-- `a + b` in log space with `-inf = none`. -/
def addLP : Option Rat → Option Rat → Option Rat
  | some a, some b => some (a + b)
  | _, _ => none

/-- Column `n` of the path matrix `y` (rows = steps). -/
def column (y : List (List Nat)) (n : Nat) : List Nat := y.map (fun row => row.getD n 0)

/-- `y[r][n] = v` (a write outside the matrix is ignored here; torch raises, but the walk never
does that: `walk_rows`). -/
def setCell (y : List (List Nat)) (r n v : Nat) : List (List Nat) :=
  y.modify r (fun row => row.set n v)

/-- `y.scatter(0, lens.unsqueeze(0), y_t)`: for every `n`, `y[lens[n]][n] = y_t[n]`. -/
def scatterDraw (y : List (List Nat)) (lens draw : List Nat) : List (List Nat) :=
  (List.range draw.length).foldl (fun y n => setCell y (lens.getD n 0) n (draw.getD n 0)) y

/-- `log_probs_prev + log_probs_t.gather(1, y_t).squeeze(1)`. -/
def pickScores (lpT : List (List (Option Rat))) (lpPrev : List (Option Rat)) (draw : List Nat) :
    List (Option Rat) :=
  let picked := List.zipWith (fun (row : List (Option Rat)) d => row.getD d none) lpT draw
  List.zipWith addLP lpPrev picked

/-- The growth of `y`: `cat` when `max(lens) >= S` ("don't make y bigger unless we have to"),
then `scatter` of the draw at `lens[n]`; a fresh `y` is just the draw. -/
def growY (yPrev : List (List Nat)) (lens : Option (List Nat)) (draw : List Nat) :
    List (List Nat) :=
  if yPrev.length ≠ 0 then
    match lens with
    | none => yPrev ++ [draw]
    | some ls =>
      let grown := if yPrev.length ≤ ls.foldl max 0 then yPrev ++ [draw] else yPrev
      scatterDraw grown ls draw
  else [draw]

/-- `random_walk_advance(log_probs_t, log_probs_prev, y_prev, y_prev_lens)` with the drawn
tokens `draw` (the result of `torch.multinomial`) given. Returns `(y_next, log_probs_next)`. -/
def advance (lpT : List (List (Option Rat))) (lpPrev : List (Option Rat))
    (yPrev : List (List Nat)) (lens : Option (List Nat)) (draw : List Nat) :
    List (List Nat) × List (Option Rat) :=
  (growY yPrev lens draw, pickScores lpT lpPrev draw)

/-! ## `RandomWalk.forward` -/

structure WState where
  y : List (List Nat)
  lens : List Nat
  done : List Bool          -- eos_mask
  lp : List (Option Rat)    -- log_probs
  deriving Repr

def initState (N : Nat) : WState :=
  ⟨[], List.replicate N 0, List.replicate N false, List.replicate N (some 0)⟩

/-- `lm.calc_idx_log_probs(y[:t], prev, t)[0].log_softmax(-1)` for the `N` paths. -/
def lmRows (lm : LM) (V N : Nat) (hist : List (List Nat)) : List (List (Option Rat)) :=
  (List.range N).map (fun n => (List.range V).map (fun v => some (lm n (column hist n) v)))

/-- Finished paths get all mass on `eos`: `masked_fill(eos_mask, -inf)` then
`masked_fill(eos_mask & one_hot(eos), 0.0)`. -/
def forceEos (V : Nat) (eos : Option Nat) (done : List Bool) (rows : List (List (Option Rat))) :
    List (List (Option Rat)) :=
  match eos with
  | none => rows
  | some e =>
    List.zipWith (fun (d : Bool) (row : List (Option Rat)) =>
      if d then (List.range V).map (fun v => if v = e then some (0 : Rat) else none) else row)
      done rows

/-- `y_lens += ~eos_mask` (or `+= 1` without `eos`). -/
def nextLens (eos : Option Nat) (lens : List Nat) (done : List Bool) : List Nat :=
  match eos with
  | none => lens.map (· + 1)
  | some _ => List.zipWith (fun l (d : Bool) => if d then l else l + 1) lens done

/-- `eos_mask = y.gather(0, y_lens.unsqueeze(0) - 1).squeeze(0) == eos`. -/
def nextDone (eos : Option Nat) (y' : List (List Nat)) (lens' : List Nat) (done : List Bool) :
    List Bool :=
  match eos with
  | none => done
  | some e => lens'.zipIdx.map (fun ln => ((y'.getD (ln.1 - 1) []).getD ln.2 0) == e)

/-- One iteration of the loop body at loop counter `t` with the draw `draw`. -/
def step (lm : LM) (V : Nat) (eos : Option Nat) (t : Nat) (s : WState) (draw : List Nat) :
    WState :=
  let lpT := forceEos V eos s.done (lmRows lm V s.lens.length (s.y.take t))
  let r := advance lpT s.lp s.y (some s.lens) draw
  let lens' := nextLens eos s.lens s.done
  ⟨r.1, lens', nextDone eos r.1 lens' s.done, r.2⟩

/-- The loop: `for t in range(max_iters): if eos_mask.all(): break; …`, one draw row per
iteration. -/
def walkLoop (lm : LM) (V : Nat) (eos : Option Nat) : Nat → List (List Nat) → WState → WState
  | _, [], s => s
  | t, d :: ds, s => if s.done.all id then s else walkLoop lm V eos (t + 1) ds (step lm V eos t s d)

/-- `RandomWalk.forward(batch_size=N, max_iters=maxIters)` replaying `draws`. -/
def walk (lm : LM) (V : Nat) (eos : Option Nat) (N maxIters : Nat) (draws : List (List Nat)) :
    WState :=
  walkLoop lm V eos 0 (draws.take maxIters) (initState N)

/-! ## `SequentialLanguageModelDistribution` -/

/-- `log_prob` of one sequence `value` for batch element `n`:
`lm(hist[:-1])` gives the distribution after every proper prefix of `value`;
`SequenceLogProbabilities(1, eos)` scores `value` against them. -/
def distLogProb (lm : LM) (V : Nat) (eos : Option Nat) (n : Nat) (value : List Int) : Rat :=
  let hist : List Nat := (value.dropLast).map Int.toNat
  colScore V (eos.map Int.ofNat) (fun t v => lm n (hist.take t) v) value

/-- `enumerate_vocab_sequences(T, V)` in the library's order (position 0 varies fastest). -/
def allSeqs (V : Nat) : Nat → List (List Nat)
  | 0 => [[]]
  | T + 1 => (List.range V).flatMap (fun v => (allSeqs V T).map (fun s => s ++ [v]))

/-- Lexicographic `<` on token rows (the order `torch.unique(dim=0)` sorts by). -/
def lexLt : List Nat → List Nat → Bool
  | [], [] => false
  | [], _ :: _ => true
  | _ :: _, [] => false
  | a :: as, b :: bs => a < b || (a == b && lexLt as bs)

def insertSorted (x : List Nat) : List (List Nat) → List (List Nat)
  | [] => [x]
  | y :: ys => if x == y then y :: ys else if lexLt x y then x :: y :: ys else y :: insertSorted x ys

/-- `torch.unique(rows, dim=0)`: sorted, duplicates removed. -/
def uniqueRows (rows : List (List Nat)) : List (List Nat) := rows.foldr insertSorted []

/-- `enumerate_support()` (before the batch `view`/`expand`). -/
def enumerateSupport (V T : Nat) (eos : Option Nat) : List (List Nat) :=
  match eos with
  | none => allSeqs V T
  | some e => uniqueRows ((allSeqs V T).map (fun s => fillAfterEos s e e))

/-- `TokenSequenceConstraint.check` on one sequence (`maxIters = none` is `inf`). -/
def supportCheck (V : Nat) (eos : Option Int) (maxIters : Option Nat) (value : List Int) : Bool :=
  let completed0 := decide (some value.length = maxIters)
  let (value', completed) := match eos with
    | none => (value, completed0)
    | some e =>
      let v' := fillAfterEos value e e
      (v', (v'.any (· == e) && (match maxIters with | none => true | some m => decide (value.length ≤ m)))
            || completed0)
  let inVocab := value'.all (fun h => decide (0 ≤ h) && decide (h < (V : Int)))
  inVocab && completed

/-- `_validate_sample`'s shape test on the event dimension. `pinned = true` is the tree as
pinned (`broadcast_shapes(batch_shape + event_shape, value.shape)` with
`event_shape = (max_iters,)`, or `(1,)` when `max_iters` is unset): the sequence length must
be `1` or equal `max_iters`. `pinned = false` is the repaired code: the event dimension is left
to the support check. -/
def eventDimOk (pinned : Bool) (maxIters : Option Nat) (len : Nat) : Bool :=
  if pinned then
    match maxIters with
    | none => true
    | some m => len == m || len == 1 || m == 1
  else true

/-- `_validate_sample` on one sequence: `true` = accepted, `false` = `ValueError`. -/
def validateSample (pinned : Bool) (V : Nat) (eos : Option Int) (maxIters : Option Nat)
    (value : List Int) : Bool :=
  eventDimOk pinned maxIters value.length && supportCheck V eos maxIters value

/-- Pad a path with `eos` to `S` tokens (`pad_sequence(..., padding_value=eos)` in `sample`). -/
def padTo (S : Nat) (e : Nat) (p : List Nat) : List Nat := p ++ List.replicate (S - p.length) e

/-- `sample()` for `batch_size = N` walks repeated `draws.length` times (one draw matrix per
walk): the `(M, N, S)` tensor as rows `m * N + n`, each padded with `eos` to the longest walk.
With `eos` unset every walk has `maxIters` steps. -/
def sampleBatched (lm : LM) (V : Nat) (eos : Option Nat) (N maxIters : Nat)
    (draws : List (List (List Nat))) : List (List Nat) :=
  let ws := draws.map (fun d => (walk lm V eos N maxIters d).y)
  let S := (ws.map List.length).foldl max 0
  ws.flatMap (fun y => (List.range N).map (fun n => padTo S (eos.getD 0) (column y n)))

/-- `sample()` without a batch shape: one walk with `batch_size = num_samples`, transposed. -/
def sampleFlat (lm : LM) (V : Nat) (eos : Option Nat) (M maxIters : Nat)
    (draws : List (List Nat)) : List (List Nat) :=
  let y := (walk lm V eos M maxIters draws).y
  (List.range M).map (fun n => column y n)

end PdtVerif.SeqScore
