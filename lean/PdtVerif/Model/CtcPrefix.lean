/-!
# Model of `_decoding.py::ctc_prefix_search_advance` and `CTCPrefixSearch.forward`

One batch element at a time (the code never mixes batch elements: every `gather`,
`scatter`, `topk`, `sum` runs along the slot / vocabulary / time dimensions only; the
only batch-wide quantities are `len_min`/`len_max`, which decide how many frames are
iterated and whether `valid_mask` is `None`).

The code keeps *probabilities* (not logs) in floating point and marks slots that hold no
real prefix with a mass of `-inf`.  IEEE arithmetic then matters: `-inf * 0 = NaN`,
`-inf + x = -inf`.  The carrier `XR` below is exact rationals plus `-inf`, `+inf`, `NaN`
with exactly these rules, so the failures of the pinned code are exhibitable.

`advance` takes a flag `fix`:

* `fix = false` — the function exactly as it stands at the pinned commit;
* `fix = true`  — with the proposed repair `fixes/C05-inert-invalid-slots.diff`: slots
  whose total mass is `-inf` are treated as inert (zero mass in the candidate
  arithmetic, removed from the prefix matrix, their candidates masked to `-inf`).

`topk` is an external primitive whose tie order is unspecified.  `advance` therefore
takes the selection (`next_ind`) as an optional argument; `isTopK` says whether a given
selection is a legitimate answer of `topk` on the candidate totals.  With `none` a
deterministic stable selection (largest first, lowest index first among equals) is used.

Cells that the code leaves uninitialised (`torch.empty`, `new_empty`) are `0` here; they
sit beyond the valid length of their slot.

No Mathlib imports: this file is used by the driver.
-/
namespace PdtVerif.CtcPrefix

/-- Exact rationals extended by the IEEE specials the code can produce. -/
inductive XR where
  | fin (q : Rat)
  | negInf
  | posInf
  | nan
  deriving DecidableEq, Repr, Inhabited

namespace XR

def zero : XR := fin 0
def one : XR := fin 1

/-- IEEE addition. -/
def add : XR → XR → XR
  | nan, _ => nan
  | _, nan => nan
  | fin a, fin b => fin (a + b)
  | posInf, negInf => nan
  | negInf, posInf => nan
  | posInf, _ => posInf
  | _, posInf => posInf
  | negInf, _ => negInf
  | _, negInf => negInf

/-- `±inf * q` for a finite `q`: sign rule, and `inf * 0 = NaN`. -/
def infTimes (pos : Bool) (q : Rat) : XR :=
  if q = 0 then nan
  else if (0 < q) = pos then posInf else negInf

/-- IEEE multiplication. -/
def mul : XR → XR → XR
  | nan, _ => nan
  | _, nan => nan
  | fin a, fin b => fin (a * b)
  | fin a, posInf => infTimes true a
  | posInf, fin a => infTimes true a
  | fin a, negInf => infTimes false a
  | negInf, fin a => infTimes false a
  | posInf, posInf => posInf
  | negInf, negInf => posInf
  | posInf, negInf => negInf
  | negInf, posInf => negInf

instance : Add XR := ⟨add⟩
instance : Mul XR := ⟨mul⟩

/-- Multiplication of a float tensor by a boolean tensor (`x * next_is_nonext`):
the boolean is promoted to `1.0` / `0.0`. -/
def mulBool (x : XR) (b : Bool) : XR := x * (if b then one else zero)

/-- The order `topk` uses: `-inf < finite < +inf < NaN` (torch sorts NaN as largest). -/
def le : XR → XR → Bool
  | _, nan => true
  | nan, _ => false
  | _, posInf => true
  | posInf, _ => false
  | negInf, _ => true
  | _, negInf => false
  | fin a, fin b => decide (a ≤ b)

def isNan : XR → Bool
  | nan => true
  | _ => false

def isNegInf : XR → Bool
  | negInf => true
  | _ => false

def isFin : XR → Bool
  | fin _ => true
  | _ => false

def sum (l : List XR) : XR := l.foldl add zero

end XR

/-- The per-element search state between frames (the `*_prev` tensors of the code, one
batch element).  Slot `k` holds the token buffer `y[k]` (only the first `lens[k]` cells
are meaningful), its last token, length, non-blank / blank mass, and row `k` of the
prefix matrix (`isPrefix[k][k']` is meant to say: slot `k` is a prefix of slot `k'`). -/
structure State where
  tm1 : Nat
  y : List (List Nat)
  last : List Nat
  lens : List Nat
  nb : List XR
  b : List XR
  isPrefix : List (List Bool)
  deriving Repr, DecidableEq

/-- Result of one call of `ctc_prefix_search_advance` plus the candidate totals that were
handed to `topk` and the selection used. -/
structure StepOut where
  st : State
  src : List Nat
  isNon : List Bool
  cand : List XR
  sel : List Nat
  deriving Repr, DecidableEq

def getX (l : List XR) (i : Nat) : XR := l.getD i XR.zero
def getN (l : List Nat) (i : Nat) : Nat := l.getD i 0
def getB (l : List Bool) (i : Nat) : Bool := l.getD i false
def get2X (m : List (List XR)) (i j : Nat) : XR := getX (m.getD i []) j
def get2B (m : List (List Bool)) (i j : Nat) : Bool := getB (m.getD i []) j
def get2N (m : List (List Nat)) (i j : Nat) : Nat := getN (m.getD i []) j

/-- Stable insertion into a list sorted by non-increasing value: the new element goes in
front of the first element that is not larger than it. -/
def insertDesc (x : Nat × XR) : List (Nat × XR) → List (Nat × XR)
  | [] => [x]
  | y :: r => if XR.le y.2 x.2 then x :: y :: r else y :: insertDesc x r

/-- Deterministic `topk`: indices of the `K` largest values, largest first, lowest index
first among equal values. -/
def topk (cand : List XR) (K : Nat) : List Nat :=
  let idx := (List.range cand.length).zip cand
  ((idx.foldr insertDesc []).take K).map (·.1)

/-- Values along a list are non-increasing. -/
def nonIncr : List XR → Bool
  | [] => true
  | [_] => true
  | a :: b :: r => XR.le b a && nonIncr (b :: r)

/-- No index occurs twice. -/
def nodupB : List Nat → Bool
  | [] => true
  | a :: r => !(r.contains a) && nodupB r

/-- `sel` is a possible answer of `cand.topk(K)[1]`: `K` distinct valid indices, values
non-increasing along `sel`, and no unselected value exceeds a selected one. -/
def isTopK (cand : List XR) (K : Nat) (sel : List Nat) : Bool :=
  sel.length == K
  && sel.all (· < cand.length)
  && nodupB sel
  && nonIncr (sel.map (getX cand))
  && (List.range cand.length).all (fun i =>
        sel.contains i || sel.all (fun j => XR.le (getX cand i) (getX cand j)))

/-- `ctc_prefix_search_advance` for one batch element.

`ext` is `ext_probs_t[n]` (`Kp × V`), `nonext` is `nonext_probs_t[n]` (`V`), `blank` is
`blank_probs_t[n]`.  The body follows the statements of the Python function in order. -/
def advance (fix : Bool) (V width : Nat) (ext : List (List XR)) (nonext : List XR)
    (blank : XR) (st : State) (selIn : Option (List Nat)) : StepOut :=
  let Kp := st.nb.length
  let ks := List.range Kp
  let vs := List.range V
  let K := min width (Kp * (V + 1))
  let tm1 := st.tm1
  -- tot_probs_prev = nb_probs_prev + b_probs_prev
  let tot0 : List XR := ks.map (fun k => getX st.nb k + getX st.b k)
  -- [repair] slots with total mass -inf hold no prefix: zero mass, not a prefix of / to anything
  let invalid : List Bool := ks.map (fun k => fix && (getX tot0 k).isNegInf)
  let inv := fun k => getB invalid k
  let nbP : List XR := ks.map (fun k => if inv k then XR.zero else getX st.nb k)
  let bP : List XR := ks.map (fun k => if inv k then XR.zero else getX st.b k)
  let tot : List XR := ks.map (fun k => if inv k then XR.zero else getX tot0 k)
  let isP : List (List Bool) :=
    ks.map (fun k => ks.map (fun k' => get2B st.isPrefix k k' && !inv k && !inv k'))
  -- y_prev_last = y_prev_last.clamp(0, V - 1)
  let last : List Nat := ks.map (fun k => min (getN st.last k) (V - 1))
  -- nb_ext_probs_cand = (nb.expand.scatter(last, 0.0) + b) * ext_probs_t
  let nbExt0 : List (List XR) := ks.map (fun k => vs.map (fun v =>
      ((if v = getN last k then XR.zero else getX nbP k) + getX bP k) * get2X ext k v))
  -- b_nonext_probs_cand = tot_probs_prev * blank_probs_t
  let bNon : List XR := ks.map (fun k => getX tot k * blank)
  -- nb_nonext_probs_cand = nb_probs_prev * nonext_probs_t.gather(1, y_prev_last)
  let nbNon0 : List XR := ks.map (fun k => getX nbP k * getX nonext (getN last k))
  -- to_match[k][k'] = y_prev[y_prev_lens[k].clamp(max=tm1-1)][k'].clamp(0, V-1)  (zeros if tm1 = 0)
  let toMatch : List (List Nat) := ks.map (fun k => ks.map (fun k' =>
      if tm1 = 0 then 0 else min (get2N st.y k' (min (getN st.lens k) (tm1 - 1))) (V - 1)))
  -- ext_is_exact = (lens[k] + 1 == lens[k']) & prev_is_prefix[k][k']
  let exact : List (List Bool) := ks.map (fun k => ks.map (fun k' =>
      (getN st.lens k + 1 == getN st.lens k') && get2B isP k k'))
  -- nb_nonext += (nb_ext.gather(2, to_match).masked_fill(~ext_is_exact, 0)).sum(1)
  let nbNon1 : List XR := ks.map (fun k' =>
      getX nbNon0 k' + XR.sum (ks.map (fun k =>
        if get2B exact k k' then get2X nbExt0 k (get2N toMatch k k') else XR.zero)))
  -- has_match = (one_hot(to_match, V) & ext_is_exact.unsqueeze(3)).any(2)
  let hasMatch : List (List Bool) := ks.map (fun k => vs.map (fun v =>
      ks.any (fun k' => get2N toMatch k k' == v && get2B exact k k')))
  -- nb_ext_probs_cand.masked_fill(has_match, -inf)   [repair: also candidates of invalid slots]
  let nbExt : List (List XR) := ks.map (fun k => vs.map (fun v =>
      if get2B hasMatch k v || inv k then XR.negInf else get2X nbExt0 k v))
  -- [repair] the non-extending candidate of an invalid slot stays invalid
  let nbNon : List XR := ks.map (fun k => if inv k then XR.negInf else getX nbNon1 k)
  -- tot_probs_cand = cat([nb_ext.view(Kp * V), nb_nonext + b_nonext])
  let flatExt : List XR := nbExt.flatten
  let cand : List XR := flatExt ++ ks.map (fun k => getX nbNon k + getX bNon k)
  -- next_ind = tot_probs_cand.topk(K)[1]
  let sel : List Nat := match selIn with
    | some s => s
    | none => topk cand K
  let js := List.range K
  let ind := fun j => getN sel j
  let isNon : List Bool := js.map (fun j => decide (Kp * V ≤ ind j))
  let src : List Nat := js.map (fun j => if Kp * V ≤ ind j then ind j - Kp * V else ind j / V)
  let extTok : List Nat := js.map (fun j => ind j % V)
  let prefLens : List Nat := js.map (fun j => getN st.lens (getN src j))
  -- y_next = cat([y_prev.gather(src), empty]).scatter(0, prefix_lens, next_ext)
  let yNext : List (List Nat) := js.map (fun j =>
      (((st.y.getD (getN src j) []).take tm1 ++ List.replicate (tm1 - (st.y.getD (getN src j) []).length) 0)
        ++ [0]).set (getN prefLens j) (getN extTok j))
  let lensNext : List Nat := js.map (fun j => getN prefLens j + (if getB isNon j then 0 else 1))
  -- nb_probs_next = where(is_nonext, nb_nonext.gather(src), nb_ext.view.gather(ind.clamp(max=Kp*V-1)))
  let nbNext : List XR := js.map (fun j =>
      if getB isNon j then getX nbNon (getN src j) else getX flatExt (min (ind j) (Kp * V - 1)))
  -- b_probs_next = b_nonext.gather(src) * next_is_nonext
  let bNext : List XR := js.map (fun j => XR.mulBool (getX bNon (getN src j)) (getB isNon j))
  -- y_next_last = last.gather(src) * is_nonext + next_ext * ~is_nonext
  let lastNext : List Nat := js.map (fun j =>
      if getB isNon j then getN last (getN src j) else getN extTok j)
  -- next_is_prefix
  let isPNext : List (List Bool) := js.map (fun j => js.map (fun j' =>
      get2B isP (getN src j) (getN src j')
      && decide (getN lensNext j ≤ getN lensNext j')
      && (getB isNon j
          || (!getB isNon j && (get2N yNext j' (getN lensNext j - 1) == getN extTok j)))))
  -- if K < width: fill up
  let rem := width - K
  let padRow := List.replicate (tm1 + 1) 0
  { st := {
      tm1 := tm1 + 1
      y := yNext ++ List.replicate rem padRow
      last := lastNext ++ List.replicate rem 0
      lens := lensNext ++ List.replicate rem 0
      nb := nbNext ++ List.replicate rem XR.negInf
      b := bNext ++ List.replicate rem XR.negInf
      isPrefix := isPNext.map (· ++ List.replicate rem false)
                    ++ List.replicate rem (List.replicate (K + rem) false) }
    src := src ++ List.replicate rem 0
    isNon := isNon ++ List.replicate rem false
    cand := cand
    sel := sel }

/-- State before the first frame (`CTCPrefixSearch.forward`): one slot, the empty prefix,
all mass on "ends in blank". -/
def initState : State :=
  { tm1 := 0, y := [[]], last := [0], lens := [0], nb := [XR.zero], b := [XR.one],
    isPrefix := [[true]] }

/-- What `CTCPrefixSearch.forward` hands to one call of the step function for this batch
element: the (possibly LM-fused) extension probabilities per slot, the token and blank
probabilities of the frame, and (optionally) the answer `topk` gave. -/
structure FrameIn where
  ext : List (List XR)
  nonext : List XR
  blank : XR
  sel : Option (List Nat)
  deriving Repr

/-- `x.expand(width)` of a size-1 slot dimension. -/
def expandTo {α} (width : Nat) (l : List α) : List α :=
  match l with
  | [a] => List.replicate width a
  | _ => l

/-- One iteration of the `for t in range(len_max)` loop for a batch element whose length
is `len`.  `valid = (t < len)`; when it is false the code keeps (`torch.where`) the old
tokens, lengths and masses but lets `y_prev_last` and `prev_is_prefix` "keep spinning". -/
def loopStep (fix : Bool) (V width : Nat) (valid : Bool) (st : State) (f : FrameIn) :
    State × StepOut :=
  let out := advance fix V width f.ext f.nonext f.blank st f.sel
  let nx := out.st
  if valid then (nx, out)
  else
    let Kp := st.nb.length
    let padInf := List.replicate (width - Kp) XR.negInf
    ({ tm1 := st.tm1 + 1
       y := (expandTo width st.y).map (· ++ [0])
       lens := expandTo width st.lens
       nb := st.nb ++ padInf
       b := st.b ++ padInf
       last := nx.last
       isPrefix := nx.isPrefix }, out)

/-- The loop: frames `0 .. frames.length - 1` (`frames.length = len_max`), element length `len`. -/
def loop (fix : Bool) (V width : Nat) (len : Nat) :
    Nat → State → List FrameIn → State × List StepOut
  | _, st, [] => (st, [])
  | t, st, f :: fs =>
    let (st', o) := loopStep fix V width (decide (t < len)) st f
    let (stf, os) := loop fix V width len (t + 1) st' fs
    (stf, o :: os)

/-- What the module returns for the element: per slot the valid tokens, the length and the
total probability `nb + b`; padded to `width` slots when no frame was processed at all. -/
structure Result where
  prefixes : List (List Nat)
  lens : List Nat
  probs : List XR
  deriving Repr, DecidableEq

def finish (width : Nat) (st : State) : Result :=
  let Kp := st.nb.length
  let probs := (List.range Kp).map (fun k => getX st.nb k + getX st.b k)
  let y := if Kp == 1 && width != 1 then expandTo width st.y else st.y
  let lens := if Kp == 1 && width != 1 then expandTo width st.lens else st.lens
  let probs := if Kp == 1 && width != 1 then probs ++ List.replicate (width - 1) XR.negInf else probs
  { prefixes := (List.range lens.length).map (fun k => (y.getD k []).take (getN lens k))
    lens := lens
    probs := probs }

/-- `CTCPrefixSearch.forward` for one batch element. -/
def search (fix : Bool) (V width len : Nat) (frames : List FrameIn) : Result × List StepOut :=
  let (st, outs) := loop fix V width len 0 initState frames
  (finish width st, outs)

end PdtVerif.CtcPrefix
