import PdtVerif.Model.OptCompletion
import PdtVerif.Spec.OptCompletionBatch
/-!
# Batch-level model of `optimal_completion` and `hard_optimal_completion_distillation_loss`

Tensors are a shape plus row-major data (`Tens2`, `Tens3`), so that `batch_first`, `.t()`,
`.transpose(0, 1)` and the `(H', N, C)` layout of the result are part of the model instead of being
undone by the harness:

* `optimalCompletionT` — `_string_matching`'s `if batch_first: ref = ref.t(); hyp = hyp.t()`, the
  batch-size check, the per-column pipeline of `Model/OptCompletion.lean` on the columns of the
  `(R, N)` / `(H, N)` tensors, `C = counts.max()` (a `RuntimeError` on an empty batch),
  `masked_scatter_` into the `(H', N, C)` buffer and the final `if batch_first:
  targets.transpose(0, 1)`;
* `hardOCDLossT` — the argument checks, `optimal_completion(padding=ignore_index,
  exclude_last=True)`, cross entropy on the flattened `(A, B, C)` cells (layout-agnostic; its
  `IndexError` for a listed target outside the class range: `badTarget`),
  `masked_fill`, division by the clamped count, and the three reductions with
  `seq_dim = 1 if batch_first else 0`.

Mathlib-free; the driver runs it.
-/
namespace PdtVerif.OptCompletion
open PdtVerif.Lev

structure Tens2 (α : Type) where
  d0 : Nat
  d1 : Nat
  data : List α

structure Tens3 (α : Type) where
  d0 : Nat
  d1 : Nat
  d2 : Nat
  data : List α

def Tens2.get {α : Type} (t : Tens2 α) (dflt : α) (i j : Nat) : α :=
  t.data.getD (i * t.d1 + j) dflt

def Tens3.get {α : Type} (t : Tens3 α) (dflt : α) (i j c : Nat) : α :=
  t.data.getD ((i * t.d1 + j) * t.d2 + c) dflt

/-- `t[i, j, :]`. -/
def Tens3.vec {α : Type} (t : Tens3 α) (dflt : α) (i j : Nat) : List α :=
  (List.range t.d2).map (fun c => t.get dflt i j c)

/-- `.t()` (materialised). -/
def Tens2.t {α : Type} (t : Tens2 α) (dflt : α) : Tens2 α :=
  ⟨t.d1, t.d0,
    ((List.range t.d1).map (fun j => (List.range t.d0).map (fun i => t.get dflt i j))).flatten⟩

/-- `.transpose(0, 1)` (materialised). -/
def Tens3.transpose01 {α : Type} (t : Tens3 α) (dflt : α) : Tens3 α :=
  ⟨t.d1, t.d0, t.d2,
    ((List.range t.d1).map (fun j =>
      ((List.range t.d0).map (fun i => (List.range t.d2).map (fun c => t.get dflt i j c))).flatten)).flatten⟩

/-- The `N` columns of an `(L, N)` tensor. -/
def colsOf (t : Tens2 Int) : List (List Int) :=
  (List.range t.d1).map (fun n => (List.range t.d0).map (fun i => t.get 0 i n))

/-! ### reading a token tensor in the layout of the call (used by the statements and the oracle) -/

/-- Batch size / sequence length of a token tensor under `batch_first`. -/
def batchOf {α : Type} (bf : Bool) (t : Tens2 α) : Nat := if bf then t.d0 else t.d1
def seqLen {α : Type} (bf : Bool) (t : Tens2 α) : Nat := if bf then t.d1 else t.d0

/-- The `n`-th sequence of the batch, read directly off the tensor: `t[n, :]` under
`batch_first`, `t[:, n]` otherwise. -/
def seqOf (bf : Bool) (t : Tens2 Int) (n : Nat) : List Int :=
  if bf then (List.range t.d1).map (fun i => t.get 0 n i)
  else (List.range t.d0).map (fun i => t.get 0 i n)

/-- The unpadded target list of sequence `n` at prefix length `k` (per-column model of
`Model/OptCompletion.lean` on the `n`-th reference and hypothesis). -/
def targetList (cfg : Cfg) (bf : Bool) (ref hyp : Tens2 Int) (n k : Nat) : List Int :=
  (colSelected cfg (seqOf bf ref n) (seqOf bf hyp n)).getD k []

/-- **What the property asks of (sequence `n`, prefix length `k`)**: `t` is to be listed iff `k` is
the length of a prefix of the cut hypothesis and appending `t` to that prefix does not raise the
smallest edit distance (true costs, cut reference) a completion can still reach. -/
def TargetAt (cfg : Cfg) (bf : Bool) (ref hyp : Tens2 Int) (n k : Nat) (t : Int) : Prop :=
  ValidPrefix cfg.excludeLast (cutLen cfg.eos cfg.includeEos (seqOf bf hyp n)) k ∧
  IsTarget cfg.costs ((seqOf bf ref n).take (cutLen cfg.eos cfg.includeEos (seqOf bf ref n)))
    (((seqOf bf hyp n).take (cutLen cfg.eos cfg.includeEos (seqOf bf hyp n))).take k) t

/-- The executable oracle for (sequence `n`, prefix length `k`): candidates are every token of the
two padded sequences plus one fresh token; no mask, sort or scatter is involved. -/
def oracleAt (cfg : Cfg) (bf : Bool) (ref hyp : Tens2 Int) (n k : Nat) : List Int :=
  let r := seqOf bf ref n
  let h := seqOf bf hyp n
  let fresh : Int := (r ++ h).foldl (fun m x => max m (x + 1)) 0
  if ValidPrefix cfg.excludeLast (cutLen cfg.eos cfg.includeEos h) k then
    oracleTargets cfg.costs (r ++ h ++ [fresh]) (r.take (cutLen cfg.eos cfg.includeEos r))
      ((h.take (cutLen cfg.eos cfg.includeEos h)).take k)
  else []

/-- The declarative loss cell of (prefix `k`, sequence `n`): `lossSpec` of the log-softmax vector
the call's layout puts at that place, over the target list of that place. -/
def specCell (cfg : Cfg) (bf : Bool) (w : Int → Rat) (lsm : Tens3 Rat) (ref hyp : Tens2 Int)
    (k n : Nat) : Rat :=
  lossSpec w (lookup (lsm.vec 0 (if bf then n else k) (if bf then k else n)))
    (targetList cfg bf ref hyp n k)

/-- Does (prefix `k`, sequence `n`) have a target at all? -/
def specHas (cfg : Cfg) (bf : Bool) (ref hyp : Tens2 Int) (k n : Nat) : Bool :=
  !(targetList cfg bf ref hyp n k).isEmpty

/-- `optimal_completion(ref, hyp, …, batch_first)` on whole tensors. -/
def optimalCompletionT (cfg : Cfg) (bf : Bool) (ref hyp : Tens2 Int) : Except String (Tens3 Int) :=
  -- _string_matching: if batch_first: ref = ref.t(); hyp = hyp.t()
  let ref' := if bf then ref.t 0 else ref
  let hyp' := if bf then hyp.t 0 else hyp
  if ref'.d1 ≠ hyp'.d1 then .error "RuntimeError"      -- ref has batch size …, but hyp has …
  else if ref'.d1 = 0 then .error "RuntimeError"         -- counts.max() of an empty tensor
  else
    let tb := targetsBatch cfg (colsOf ref') (colsOf hyp')
    let out : Tens3 Int := ⟨1 + nIter cfg.excludeLast hyp'.d0, ref'.d1, tb.1, tb.2.flatten⟩
    -- if batch_first: targets = targets.transpose(0, 1)
    .ok (if bf then out.transpose01 cfg.padding else out)

/-! ### the loss on whole tensors -/

/-- The unreduced loss: one cell per `(a, b)` of the first two dimensions of `optimals`, whatever
they mean (`cross_entropy` runs on the flattened cells). -/
def lossNoneT (ignore : Int) (w : Int → Rat) (lsm : Tens3 Rat) (opt : Tens3 Int) : Tens2 Rat :=
  ⟨opt.d0, opt.d1,
    ((List.range opt.d0).map (fun a => (List.range opt.d1).map (fun b =>
      lossCell ignore w (lookup (lsm.vec 0 a b)) (opt.vec ignore a b)))).flatten⟩

/-- `(~padding_mask).any(2)`. -/
def hasT (ignore : Int) (opt : Tens3 Int) (a b : Nat) : Bool := hasTarget ignore (opt.vec ignore a b)

/-- `loss.sum()`. -/
def lossSumT (L : Tens2 Rat) : Rat := L.data.sum

/-- `(loss.sum(seq_dim) / (~padding_mask).any(2).sum(seq_dim).clamp_min(1)).mean()` with
`seq_dim = 1 if batch_first else 0`. -/
def lossMeanT (bf : Bool) (ignore : Int) (L : Tens2 Rat) (opt : Tens3 Int) : Rat :=
  if bf then
    ((List.range L.d0).map (fun a =>
      ((List.range L.d1).map (fun b => L.get 0 a b)).sum
        / ((max ((List.range L.d1).filter (fun b => hasT ignore opt a b)).length 1 : Nat) : Rat))).sum
      / (L.d0 : Rat)
  else
    ((List.range L.d1).map (fun b =>
      ((List.range L.d0).map (fun a => L.get 0 a b)).sum
        / ((max ((List.range L.d0).filter (fun a => hasT ignore opt a b)).length 1 : Nat) : Rat))).sum
      / (L.d1 : Rat)

/-- `eos` is set and is no class index, or equals `ignore_index`. -/
def badEos (eos : Option Int) (ignore : Int) (V : Nat) : Bool :=
  match eos with
  | some e => decide (e < 0) || decide ((V : Int) ≤ e) || decide (e = ignore)
  | none => false

/-- `cross_entropy` on a target that is neither `ignore_index` nor a class index raises
`IndexError: Target … is out of bounds.`: some listed (non-padding) entry of `optimals` lies outside
`[0, V)`. (Without this check the model would read `lsm` / `weight` at a clamped position — class 0 for a
negative token, the default for a token `≥ V` — and return a number where the code raises.) -/
def badTarget (ignore : Int) (V : Nat) (opt : Tens3 Int) : Bool :=
  (List.range opt.d0).any (fun a => (List.range opt.d1).any (fun b =>
    (opt.vec ignore a b).any (fun s => s != ignore && (decide (s < 0) || decide ((V : Int) ≤ s)))))

inductive LossOut where
  | scalar (q : Rat)
  | matrix (t : Tens2 Rat)

/-- `hard_optimal_completion_distillation_loss` on whole tensors. `cfg.padding` is `ignore_index`;
`lsm` holds the log-softmax of the logits (shape of `hyp` plus the class dimension). -/
def hardOCDLossT (cfg : Cfg) (bf : Bool) (red : Reduction) (w : Int → Rat)
    (lsm : Tens3 Rat) (ref hyp : Tens2 Int) : Except String LossOut :=
  -- if logits.shape[:-1] != hyp.shape: raise
  if lsm.d0 ≠ hyp.d0 ∨ lsm.d1 ≠ hyp.d1 then .error "RuntimeError"
  -- if include_eos: eos must be a class index and differ from ignore_index
  else if cfg.includeEos && badEos cfg.eos cfg.padding lsm.d2 then .error "RuntimeError"
  else
    match optimalCompletionT { cfg with excludeLast := true } bf ref hyp with
    | .error e => .error e
    | .ok opt =>
      -- cross_entropy on logits.flatten(0, -2) [(H·N·C, V)] and optimals.flatten() [H'·N·C]:
      -- Expected input batch_size to match target batch_size
      if opt.d0 * opt.d1 * opt.d2 ≠ lsm.d0 * lsm.d1 * opt.d2 then .error "ValueError"
      -- Target … is out of bounds (a listed target that is no class index)
      else if badTarget cfg.padding lsm.d2 opt then .error "IndexError"
      else
        let L := lossNoneT cfg.padding w lsm opt
        .ok (match red with
          | .none => .matrix L
          | .sum => .scalar (lossSumT L)
          | .mean => .scalar (lossMeanT bf cfg.padding L opt))

end PdtVerif.OptCompletion
