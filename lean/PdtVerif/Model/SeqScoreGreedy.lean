/-!
# Model of `_decoding.py::ctc_greedy_search`

Input after the code's own normalisation (`log_softmax` unless `is_probs`, transposition to
batch-first): `frames[n][t][v]`, exact rationals. The model follows the code on the whole
batch: `max(2)`, the keep mask (`argmax != blank`, shifted comparison, `cat`), the length mask,
`masked_fill` of the frame maxima beyond the length with the neutral element,
`out_lens = keep.sum(1)`, **batch-flattened** `masked_select` and `masked_scatter_` through
`out_len_mask`, `sum`/`prod`.

`max(2)` on a frame with several maximal entries: torch leaves the index unspecified; the
model takes the first one and the driver flags the tie. No Mathlib imports.
-/
namespace PdtVerif.SeqScore

/-- `(max, argmax)` of a frame scanning left to right, first maximum wins. `go` carries the best
value/index so far and the current index. -/
def maxGo : Rat → Nat → Nat → List Rat → Rat × Nat
  | best, bi, _, [] => (best, bi)
  | best, bi, i, x :: xs => if best < x then maxGo x i (i + 1) xs else maxGo best bi (i + 1) xs

def frameMax (row : List Rat) : Rat × Nat :=
  match row with
  | [] => (0, 0)
  | x :: xs => maxGo x 0 1 xs

/-- Blank index check and normalisation `(blank_idx + V) % V`; `none` = `RuntimeError`. -/
def normBlank (V : Nat) (blank : Int) : Option Nat :=
  if blank < -(V : Int) || blank > (V : Int) - 1 then none
  else some ((blank + (V : Int)) % (V : Int)).toNat

/-- `keep_mask` of one row before the length mask. -/
def keepRow (blank : Nat) (am : List Nat) : List Bool :=
  let k := am.map (fun a => a != blank)
  k.take 1 ++ List.zipWith (fun a b => a && b) (k.drop 1)
    (List.zipWith (fun a b => a != b) (am.drop 1) am)

/-- `arange(T) < len` for one row. -/
def lenMask (T len : Nat) : List Bool := (List.range T).map (fun t => decide (t < len))

/-- `x.masked_select(mask)` over the whole (row-major) batch. -/
def maskedSelect {α} (rows : List (List α)) (masks : List (List Bool)) : List α :=
  (List.zip rows masks).flatMap (fun rm =>
    (List.zip rm.1 rm.2).filterMap (fun xb => if xb.2 then some xb.1 else none))

/-- One row of `masked_scatter_`: consume `src` front to back on the true cells. Returns the
new row and the unconsumed rest of `src` (a short `src` leaves cells unchanged; torch raises,
which cannot happen here: `select_length`). -/
def scatterRow {α} : List α → List Bool → List α → List α × List α
  | [], _, src => ([], src)
  | d :: ds, [], src => (d :: ds, src)
  | d :: ds, false :: ms, src => let r := scatterRow ds ms src; (d :: r.1, r.2)
  | d :: ds, true :: ms, [] => let r := scatterRow ds ms []; (d :: r.1, r.2)
  | _ :: ds, true :: ms, s :: src => let r := scatterRow ds ms src; (s :: r.1, r.2)

/-- `dst.masked_scatter_(masks, src)` over the whole batch. -/
def maskedScatter {α} : List (List α) → List (List Bool) → List α → List (List α)
  | [], _, _ => []
  | d :: ds, [], _ => d :: ds
  | d :: ds, m :: ms, src => let r := scatterRow d m src; r.1 :: maskedScatter ds ms r.2

structure GreedyOut where
  score : List Rat
  paths : List (List Nat)
  outLens : List Nat
  deriving Repr

/-- `ctc_greedy_search` on batch-first frames (`blank` already normalised, `lens = none` when
`in_lens` is not given). -/
def ctcGreedy (frames : List (List (List Rat))) (lens : Option (List Nat)) (blank : Nat)
    (isProbs : Bool) : GreedyOut :=
  let mx : List (List Rat) := frames.map (fun fr => fr.map (fun row => (frameMax row).1))
  let am : List (List Nat) := frames.map (fun fr => fr.map (fun row => (frameMax row).2))
  let keep0 := am.map (keepRow blank)
  let neutral : Rat := if isProbs then 1 else 0
  let (keep, mx') := match lens with
    | none => (keep0, mx)
    | some ls =>
      let inLen := List.zipWith (fun (row : List Nat) l => lenMask row.length l) am ls
      (List.zipWith (fun k m => List.zipWith (fun a b => a && b) k m) keep0 inLen,
       List.zipWith (fun (r : List Rat) m =>
          List.zipWith (fun (x : Rat) (b : Bool) => if b then x else neutral) r m) mx inLen)
  let outLens := keep.map (fun k => (k.filter id).length)
  let data := maskedSelect am keep
  let outLenMask := List.zipWith (fun (row : List Nat) l => lenMask row.length l) am outLens
  let score := mx'.map (fun r => if isProbs then r.foldl (· * ·) 1 else r.foldl (· + ·) 0)
  ⟨score, maskedScatter am outLenMask data, outLens⟩

/-- Is some frame maximum attained twice (so that `argmax` is unspecified)? -/
def frameTie (row : List Rat) : Bool :=
  decide (1 < (row.filter (fun x => x == (frameMax row).1)).length)

end PdtVerif.SeqScore
