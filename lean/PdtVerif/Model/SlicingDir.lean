import PdtVerif.Model.Slicing
import PdtVerif.Model.PadChunk
/-!
# Model of `command_line._chunk_torch_spect_data_dir_do_work`: everything it writes for one utterance

`Model/Slicing.lean` already holds the windows (`dirSlices`) and the token chunks (`dirChunks`) of one
utterance. This file adds the rest of the worker:

* the features and the per-frame alignment go through `ChunkBySlices` — `chunker(x.expand(M, ...),
  slices)` with `lens = None`, then row `n` is cut at `lens[n]` — modelled by C09's
  `PadChunk.chunkBySlicesT` (read-only import of `Model/PadChunk.lean`) on the utterance replicated `M`
  times (`expandChunk`, `cutRows`);
* the new utterance ids `format_utt.format(utt_id=…, idx=n, start=x[0], end=x[1])` and the file base
  name `file_prefix + new_utt_id + file_suffix`: a format string is a list of pieces (literal text,
  `{utt_id}`, `{idx…}`, `{start…}`, `{end…}` with an optional zero-padded width `0wd`), integers are
  rendered the way Python's `format(n, "0wd")` / `str(n)` does (`fmtInt`: sign first, then zeros up to
  the total width, never truncated); `defaultFmt` is the command's default
  `{utt_id}.{start:05d}.{end:05d}`;
* the worker itself (`dirWorker`): slicer, names, the three chunkers, the `assert (lens == lens_)`,
  and one `Written` record per slice, in slice order (= the order of the `torch.save` calls);
* `lookupFile`: what a sub-directory holds under a name after the writes (a later write to the same
  name replaces the earlier one);
* `parseName`: reading a default-format name back from the right.

Names are `List Char` (the driver converts). No Mathlib imports: the driver runs this file.
-/
namespace PdtVerif.Slicing
open PdtVerif.PadSlice

/-! ## integers in names -/

/-- Decimal digits of a natural number, most significant first (`0 ↦ [0]`). -/
def natDigits (n : Nat) : List Nat :=
  if _h : n < 10 then [n] else natDigits (n / 10) ++ [n % 10]
decreasing_by omega

def digitChar : Nat → Char
  | 0 => '0' | 1 => '1' | 2 => '2' | 3 => '3' | 4 => '4'
  | 5 => '5' | 6 => '6' | 7 => '7' | 8 => '8' | _ => '9'

/-- `str(n)` for `n ≥ 0`. -/
def natStr (n : Nat) : List Char := (natDigits n).map digitChar

/-- Zeros in front up to width `w`; a longer text is left alone. -/
def zeroPad (w : Nat) (ds : List Char) : List Char := List.replicate (w - ds.length) '0' ++ ds

/-- Python's `format(n, "0wd")` (and `str(n)` for `w = 0`): the sign comes first and counts towards
the width: `format(-5, "05d") = "-0005"`, `format(123456, "05d") = "123456"`. -/
def fmtInt (w : Nat) (n : Int) : List Char :=
  if n < 0 then '-' :: zeroPad (w - 1) (natStr (-n).toNat) else zeroPad w (natStr n.toNat)

/-! ## `--format-utt` -/

inductive Piece where
  | lit (s : List Char)
  | uttId
  | idx (w : Nat)
  | start (w : Nat)
  | stop (w : Nat)
  deriving Repr, DecidableEq

abbrev Fmt := List Piece

def Piece.render (utt : List Char) (idx : Nat) (w : Win) : Piece → List Char
  | .lit s => s
  | .uttId => utt
  | .idx k => fmtInt k idx
  | .start k => fmtInt k w.start
  | .stop k => fmtInt k w.stop

/-- `format_utt.format(utt_id=utt, idx=idx, start=w.start, end=w.stop)` -/
def render (fmt : Fmt) (utt : List Char) (idx : Nat) (w : Win) : List Char :=
  fmt.flatMap (Piece.render utt idx w)

/-- The command's default: `{utt_id}.{start:05d}.{end:05d}`. -/
def defaultFmt : Fmt := [.uttId, .lit ['.'], .start 5, .lit ['.'], .stop 5]

/-- `{utt_id}.{idx}.{start}.{end}` (the other format the correspondence runs use). -/
def idxFmt : Fmt := [.uttId, .lit ['.'], .idx 0, .lit ['.'], .start 0, .lit ['.'], .stop 0]

/-- `file_prefix + new_utt_id + file_suffix` -/
def baseName (fmt : Fmt) (pre suf utt : List Char) (idx : Nat) (w : Win) : List Char :=
  pre ++ render fmt utt idx w ++ suf

/-! ## reading a default-format name back -/

def charDigit (c : Char) : Option Nat :=
  if c = '0' then some 0 else if c = '1' then some 1 else if c = '2' then some 2
  else if c = '3' then some 3 else if c = '4' then some 4 else if c = '5' then some 5
  else if c = '6' then some 6 else if c = '7' then some 7 else if c = '8' then some 8
  else if c = '9' then some 9 else none

/-- Value of a digit string read left to right on top of `acc`; `none` on a non-digit. -/
def readNat (acc : Nat) : List Char → Option Nat
  | [] => some acc
  | c :: cs => match charDigit c with
    | some d => readNat (acc * 10 + d) cs
    | none => none

/-- An optional minus sign, then at least one digit. -/
def readInt : List Char → Option Int
  | [] => none
  | c :: cs =>
    if c = '-' then (if cs.isEmpty then none else (readNat 0 cs).map fun v => -(v : Int))
    else (readNat 0 (c :: cs)).map fun v => (v : Int)

/-- Split at the LAST occurrence of `c`. -/
def splitLast (c : Char) : List Char → Option (List Char × List Char)
  | [] => none
  | x :: xs => match splitLast c xs with
    | some (a, b) => some (x :: a, b)
    | none => if x = c then some ([], xs) else none

/-- `utt.start.end` read from the right: the utterance id may itself contain dots. -/
def parseName (name : List Char) : Option (List Char × Int × Int) :=
  match splitLast '.' name with
  | none => none
  | some (r, e) =>
    match splitLast '.' r with
    | none => none
    | some (utt, s) =>
      match readInt s, readInt e with
      | some s', some e' => some (utt, s', e')
      | _, _ => none

/-! ## the worker -/

/-- What the worker loads for one utterance: `feat/`, and `ali/`, `ref/` when the directory has them. -/
structure Source (α : Type) where
  frames : List α
  ali : Option (List Int)
  ref : Option (List Tok)

/-- The utterance as the slicer and the token chunker see it. -/
def Source.utt {α} (s : Source α) : Utt := ⟨s.frames.length, s.ali.getD [], s.ref.getD []⟩

inductive WErr where
  | missing                      -- the policy's input is not in the directory (`slicer(None)`)
  | slicer (e : Err)
  | chunker (e : PadChunk.Err)
  | lens                         -- `assert (lens == lens_).all()`
  deriving Repr, DecidableEq

/-- One `torch.save` triple: the same base name in `feat/`, `ali/`, `ref/`. -/
structure Written (α : Type) where
  base : List Char
  feat : List α
  ali : Option (List Int)
  ref : Option (List Tok)
  deriving Repr, DecidableEq

/-- `chunker(x.expand(M, ...), slices)`: the utterance against each of its `M` slices, no lengths. -/
def expandChunk {β} (mode : Mode) (value : β) (xs : List β) (ws : List Win) :
    Except PadChunk.Err (List (List β) × List Nat) :=
  PadChunk.chunkBySlicesT false mode value xs.length (List.replicate ws.length xs)
    (ws.map fun w => (w.start, w.stop)) none

/-- `x[n, : lens[n]]` for every row. -/
def cutRows {β} (out : List (List β)) (lens : List Nat) : List (List β) :=
  List.zipWith (fun row l => row.take l) out lens

/-- `_chunk_torch_spect_data_dir_do_work` for one utterance. `padMode = none` is "no `--pad-mode`":
the slicer is valid-only and the chunker is built with `"constant"`. `padConstAli` is
`--pad-constant` in the alignment's integer type. The result lists the writes in order. -/
def dirWorker {α} (fmt : Fmt) (pre suf utt : List Char) (policy : Policy) (wt : WinType) (lobe : Nat)
    (padMode : Option Mode) (padConst : α) (padConstAli : Int) (partialOk retain : Bool) (s : Source α) :
    Except WErr (List (Written α)) :=
  let mode := padMode.getD .constant
  if (policy = .ali ∧ s.ali.isNone) ∨ (policy = .ref ∧ s.ref.isNone) then .error .missing else
  match dirSlices policy wt padMode.isNone lobe s.utt with
  | .error e => .error (.slicer e)
  | .ok ws =>
    match expandChunk mode padConst s.frames ws with
    | .error e => .error (.chunker e)
    | .ok (feats, lens) =>
      let alis : Except WErr (Option (List (List Int))) :=
        match s.ali with
        | none => .ok none
        | some a =>
          match expandChunk mode padConstAli a ws with
          | .error e => .error (.chunker e)
          | .ok (out, lens') => if lens' = lens then .ok (some (cutRows out lens)) else .error .lens
      match alis with
      | .error e => .error e
      | .ok alis =>
        let refs := s.ref.map fun r =>
          (chunkTokens partialOk retain (List.replicate ws.length r) (ws.map fun w => (w.start, w.stop)) none).1
        let fs := cutRows feats lens
        .ok ((List.range ws.length).map fun n =>
          ⟨baseName fmt pre suf utt n (ws.getD n ⟨0, 0, 0⟩), fs.getD n [],
            alis.map (·.getD n []), refs.map (·.getD n [])⟩)

/-- What a sub-directory holds under `name` after the writes `(name, content)` were made in order. -/
def lookupFile {β} (writes : List (List Char × β)) (name : List Char) : Option β :=
  (writes.reverse.find? fun p => p.1 == name).map (·.2)

end PdtVerif.Slicing
