/-!
# Model of `training.py::TrainingStateController` — decision logic (C15)

Follows the control flow of `update_for_epoch`, `continue_training`, `update_cache`,
`save_info_to_hist` and `load_model_and_optimizer_for_epoch` of the pinned tree:

* the history `cache_hist` is a list of rows, index = epoch, row 0 = the dummy entry that
  `update_cache` builds from the parameters (metrics `+∞`, encoded `none`);
* the early-stopping / learning-rate reference row is recovered by the index arithmetic
  `epoch - patience + countdown - 1` and looked up in the history (`KeyError` = `Err.key`);
* countdowns are Python ints (`Int`), decremented, clamped at 0 (early stopping) or reset;
* float arithmetic is `rnd (exact result)` for a rounding function `rnd` carried in the
  parameters (the driver instantiates it with round-to-nearest-even binary64, `roundF64`;
  theorems hold for every `rnd`);
* a history row is written with `"{:.4e}"` (five significant digits, correctly rounded,
  ties to even) and read back with `float(...)`: `rt = parseSci ∘ fmtSci`.

Core Lean only (the driver runs this file).
-/
namespace PdtVerif.Controller

/-! ## Parameters (`TrainingStateParams`) and rows of the history -/

structure Params where
  /-- `num_epochs` (`None` = unbounded) -/
  numEpochs : Option Nat
  esThr : Rat
  esPat : Nat
  esBurn : Nat
  rlrThr : Rat
  rlrFactor : Rat
  rlrPat : Nat
  rlrCool : Nat
  rlrBurn : Nat
  /-- `10 ** reduce_lr_log10_epsilon` as computed by Python -/
  rlrEps : Rat
  /-- `10 ** log10_learning_rate` as computed by Python, `none` when the parameter is unset -/
  initLr : Option Rat
  /-- `optimizer.defaults["lr"]` -/
  optDefault : Rat
  /-- rounding applied to the exact result of every float operation -/
  rnd : Rat → Rat
  /-- `SCIENTIFIC_PRECISION` -/
  sig : Nat := 5

/-- Bounds enforced by `param` on `TrainingStateParams`. -/
structure Params.WF (P : Params) : Prop where
  esPat : 1 ≤ P.esPat
  rlrPat : 1 ≤ P.rlrPat
  esThr : 0 ≤ P.esThr
  rlrThr : 0 ≤ P.rlrThr

/-- One entry of `cache_hist`. `none` in a metric = `float("inf")` (row 0 only); `none` in
`lr` = Python `None` (row 0 when `log10_learning_rate` is unset). -/
structure Row where
  epoch : Nat
  esResume : Int
  esCd : Int
  rlrResume : Int
  rlrCd : Int
  lr : Option Rat
  train : Option Rat
  val : Option Rat
deriving DecidableEq

/-- Controller + optimizer state that the decisions depend on. -/
structure State where
  /-- `cache_hist`, index = epoch -/
  hist : List Row
  /-- `optimizer.param_groups[*]["lr"]` -/
  groups : List Rat

inductive Err | key
deriving DecidableEq, Repr

/-- The dummy entry for epoch 0 built by `update_cache`. -/
def row0 (P : Params) : Row :=
  { epoch := 0, esResume := P.esBurn, esCd := P.esPat, rlrResume := P.rlrBurn, rlrCd := P.rlrPat,
    lr := P.initLr, train := none, val := none }

/-- New controller without history, followed by `load_model_and_optimizer_for_epoch` (epoch 0):
the groups take `10 ** log10_learning_rate` when that parameter is set. -/
def init (P : Params) (groups : List Rat) : State :=
  { hist := [row0 P],
    groups := match P.initLr with
      | some l => groups.map (fun _ => l)
      | none => groups }

/-- New controller without history, **without** the call of `load_model_and_optimizer_for_epoch`:
the optimizer keeps whatever rates it was built with, also when `log10_learning_rate` is set (the
recorded rate and the optimizer's rates are then "not in sync" until the first reduction). -/
def initRaw (P : Params) (groups : List Rat) : State :=
  { hist := [row0 P], groups := groups }

/-- what `load_model_and_optimizer_for_epoch` (epoch 0) does to the optimizer's rates -/
def syncGroups (P : Params) (groups : List Rat) : List Rat :=
  match P.initLr with
  | some l => groups.map (fun _ => l)
  | none => groups

/-- `self.get_info(e)` for a Python int `e` (a dict lookup: negative keys are missing). -/
def getInfo (h : List Row) (e : Int) : Except Err Row :=
  if e < 0 then .error .key
  else match h[e.toNat]? with
    | some r => .ok r
    | none => .error .key

/-! ## `update_for_epoch` -/

/-- `max(ref["val_met"] - val_met, 0) < threshold` -/
def failing (P : Params) (thr : Rat) (ref : Option Rat) (v : Rat) : Bool :=
  match ref with
  | none => false
  | some r => decide (max (P.rnd (r - v)) 0 < thr)

/-- `cont = True if not num_epochs else epoch < num_epochs` -/
def budgetCont (P : Params) (epoch : Nat) : Bool :=
  match P.numEpochs with
  | none => true
  | some n => if n = 0 then true else decide (epoch < n)

/-- The early-stopping branch: new `(es_resume_cd, es_patience_cd)`. -/
def esUpdate (P : Params) (resume cd : Int) (fail : Bool) : Int × Int :=
  if resume ≠ 0 then (resume - 1, cd)
  else if fail then (resume, if cd - 1 < 0 then 0 else cd - 1)
  else (resume, (P.esPat : Int))

structure RlrRes where
  resume : Int
  cd : Int
  lr : Rat
  /-- `some x`: every `param_group["lr"]` is set to `x` -/
  setLr : Option Rat

/-- The learning-rate branch. -/
def rlrUpdate (P : Params) (resume cd : Int) (fail : Bool) (lr : Rat) : RlrRes :=
  if resume ≠ 0 then ⟨resume - 1, cd, lr, none⟩
  else if fail then
    if cd - 1 = 0 then
      let newLr := P.rnd (lr * P.rlrFactor)
      if P.rlrEps < P.rnd (lr - newLr) then ⟨P.rlrCool, P.rlrPat, newLr, some newLr⟩
      else ⟨P.rlrCool, P.rlrPat, lr, none⟩
    else ⟨resume, cd - 1, lr, none⟩
  else ⟨resume, P.rlrPat, lr, none⟩

/-- What one call returns / does to the optimizer. -/
structure Out where
  /-- return value of `update_for_epoch` -/
  cont : Bool
  /-- `some x` iff the rate was multiplied and `x` written into every param group -/
  setLr : Option Rat
  /-- the row appended to the history -/
  row : Row

def esEpochOf (P : Params) (epoch : Nat) (info : Row) : Int :=
  (epoch : Int) - P.esPat + info.esCd - 1

def rlrEpochOf (P : Params) (epoch : Nat) (info : Row) : Int :=
  (epoch : Int) - P.rlrPat + info.rlrCd - 1

/-- The body of `update_for_epoch` once the three history rows (previous epoch, early-stopping
reference, learning-rate reference) have been looked up. -/
def stepCore (P : Params) (S : State) (epoch : Nat) (info esInfo rlrInfo : Row) (train val : Rat) :
    State × Out :=
  let lr := info.lr.getD P.optDefault             -- `if info["lr"] is None`
  let es := esUpdate P info.esResume info.esCd (failing P P.esThr esInfo.val val)
  let cont := if P.esThr ≠ 0 ∧ es.2 = 0 then false else budgetCont P epoch
  let r := rlrUpdate P info.rlrResume info.rlrCd (failing P P.rlrThr rlrInfo.val val) lr
  let row : Row :=
    { epoch := epoch, esResume := es.1, esCd := es.2, rlrResume := r.resume, rlrCd := r.cd,
      lr := some r.lr, train := some train, val := some val }
  let groups := match r.setLr with
    | some x => S.groups.map (fun _ => x)
    | none => S.groups
  ({ hist := S.hist ++ [row], groups := groups }, { cont := cont, setLr := r.setLr, row := row })

/-- `update_for_epoch(model, optimizer, train_met, val_met)` with `epoch=None`:
`epoch = get_last_epoch() + 1`; `info = get_info(epoch - 1)`;
`es_info = get_info(epoch - es_patience + info.es_patience_cd - 1)`; likewise `rlr_info`. -/
def step (P : Params) (S : State) (train val : Rat) : Except Err (State × Out) :=
  let epoch := S.hist.length
  match getInfo S.hist ((epoch : Int) - 1) with
  | .error e => .error e
  | .ok info =>
    match getInfo S.hist (esEpochOf P epoch info) with
    | .error e => .error e
    | .ok esInfo =>
      match getInfo S.hist (rlrEpochOf P epoch info) with
      | .error e => .error e
      | .ok rlrInfo => .ok (stepCore P S epoch info esInfo rlrInfo train val)

/-- `continue_training()` (epoch inferred). -/
def continueTraining (P : Params) (S : State) : Except Err Bool :=
  let epoch := S.hist.length - 1
  match getInfo S.hist epoch with
  | .error e => .error e
  | .ok info =>
    .ok (if P.esThr ≠ 0 ∧ info.esCd = 0 then false else budgetCont P epoch)

/-- `continue_training(epoch)` with an explicit epoch: looks at the recorded row of that epoch. -/
def continueTrainingAt (P : Params) (S : State) (epoch : Nat) : Except Err Bool :=
  match getInfo S.hist epoch with
  | .error e => .error e
  | .ok info =>
    .ok (if P.esThr ≠ 0 ∧ info.esCd = 0 then false else budgetCont P epoch)

/-- Uninterrupted run over a list of `(train_met, val_met)`. -/
def run (P : Params) : State → List (Rat × Rat) → Except Err (State × List Out)
  | S, [] => .ok (S, [])
  | S, m :: ms =>
    match step P S m.1 m.2 with
    | .error e => .error e
    | .ok (S', o) =>
      match run P S' ms with
      | .error e => .error e
      | .ok (S'', os) => .ok (S'', o :: os)

/-! ## The documented training loops

`ms` is the stream of metrics the epochs would produce; the loop consumes as many as it runs. -/

/-- the loop of the class docstring:
`for epoch in ...: if not controller.update_for_epoch(model, optimizer, train, val): break` -/
def breakLoop (P : Params) : State → List (Rat × Rat) → Except Err (State × List Out)
  | S, [] => .ok (S, [])
  | S, m :: ms =>
    match step P S m.1 m.2 with
    | .error e => .error e
    | .ok (S', o) =>
      if o.cont then
        match breakLoop P S' ms with
        | .error e => .error e
        | .ok (S'', os) => .ok (S'', o :: os)
      else .ok (S', [o])

/-- the resumable form: `while controller.continue_training(): ...; controller.update_for_epoch(...)` -/
def whileLoop (P : Params) : State → List (Rat × Rat) → Except Err (State × List Out)
  | S, [] => .ok (S, [])
  | S, m :: ms =>
    match continueTraining P S with
    | .error e => .error e
    | .ok false => .ok (S, [])
    | .ok true =>
      match step P S m.1 m.2 with
      | .error e => .error e
      | .ok (S', o) =>
        match whileLoop P S' ms with
        | .error e => .error e
        | .ok (S'', os) => .ok (S'', o :: os)

/-! ## The history file: `"{:.4e}"` and `float(...)` -/

def pow10 (k : Int) : Rat :=
  if 0 ≤ k then ((10 ^ k.toNat : Nat) : Rat) else 1 / ((10 ^ (-k).toNat : Nat) : Rat)

def pow2 (k : Int) : Rat :=
  if 0 ≤ k then ((2 ^ k.toNat : Nat) : Rat) else 1 / ((2 ^ (-k).toNat : Nat) : Rat)

def ratAbs (q : Rat) : Rat := if q < 0 then -q else q

/-- Round a non-negative rational to the nearest natural, ties to even. -/
def roundHalfEven (q : Rat) : Nat :=
  let f := q.floor.toNat
  let r := q - (f : Rat)
  if r < 1 / 2 then f
  else if 1 / 2 < r then f + 1
  else if f % 2 = 0 then f else f + 1

def numDigitsAux : Nat → Nat → Nat
  | 0, _ => 1
  | f + 1, n => if n < 10 then 1 else 1 + numDigitsAux f (n / 10)

/-- Number of decimal digits of `n` (1 for 0). -/
def numDigits (n : Nat) : Nat := numDigitsAux (Nat.log2 n + 1) n

/-- Decimal exponent `e` with `10^e ≤ a < 10^(e+1)` for `a > 0`. -/
def exp10 (a : Rat) : Int :=
  let e0 : Int := (numDigits a.num.natAbs : Int) - (numDigits a.den : Int)
  if pow10 e0 ≤ a then e0 else e0 - 1

/-- Binary exponent `e` with `2^e ≤ a < 2^(e+1)` for `a > 0`. -/
def exp2 (a : Rat) : Int :=
  let e0 : Int := (Nat.log2 a.num.natAbs : Int) - (Nat.log2 a.den : Int)
  if pow2 e0 ≤ a then e0 else e0 - 1

/-- Scientific notation with `sig` significant digits: `±mant·10^(exp-(sig-1))`. -/
structure Sci where
  neg : Bool
  mant : Nat
  exp : Int
deriving DecidableEq, Repr

/-- `"{:.{sig-1}e}".format(x)` as a record (correct rounding, ties to even; Python formats the
exact binary value). -/
def fmtSci (sig : Nat) (x : Rat) : Sci :=
  if x = 0 then ⟨false, 0, 0⟩
  else
    let a := ratAbs x
    let e := exp10 a
    let m := roundHalfEven (a / pow10 (e - ((sig : Int) - 1)))
    if m = 10 ^ sig then ⟨decide (x < 0), 10 ^ (sig - 1), e + 1⟩
    else ⟨decide (x < 0), m, e⟩

/-- Exact value of the printed decimal. -/
def sciValue (sig : Nat) (s : Sci) : Rat :=
  let v := (s.mant : Rat) * pow10 (s.exp - ((sig : Int) - 1))
  if s.neg then -v else v

/-- `float(text)`: the printed decimal, rounded to a float. -/
def parseSci (P : Params) (s : Sci) : Rat := P.rnd (sciValue P.sig s)

/-- write then read one float column -/
def rt (P : Params) (x : Rat) : Rat := parseSci P (fmtSci P.sig x)

/-- write then read one row (`save_info_to_hist` then `update_cache`); the integer columns
are printed zero-padded in decimal and read back with `int(...)` (text level: `fmtNat`,
`parseNat` below). -/
def rtRow (P : Params) (r : Row) : Row :=
  { r with lr := r.lr.map (rt P), train := r.train.map (rt P), val := r.val.map (rt P) }

/-- Discard the controller, build a new one from the same CSV and state directory and call
`load_model_and_optimizer_for_epoch` (last epoch ≥ 1): row 0 is rebuilt from the parameters,
all other rows are re-read from the file, the optimizer groups come back from the saved
optimizer state (exactly). -/
def restart (P : Params) (S : State) : State :=
  { S with hist := row0 P :: (S.hist.drop 1).map (rtRow P) }

/-- Run with a restart after every epoch whose flag is `true`. -/
def runR (P : Params) : State → List (Rat × Rat) → List Bool → Except Err (State × List Out)
  | S, [], _ => .ok (S, [])
  | S, m :: ms, fl =>
    match step P S m.1 m.2 with
    | .error e => .error e
    | .ok (S', o) =>
      let S1 := if fl.headD false then restart P S' else S'
      match runR P S1 ms fl.tail with
      | .error e => .error e
      | .ok (S'', os) => .ok (S'', o :: os)

/-! ## binary64 rounding (driver instance of `rnd`; normal range only) -/

def roundBits (bits : Nat) (q : Rat) : Rat :=
  if q = 0 then 0
  else
    let a := ratAbs q
    let e := exp2 a
    let ulp := pow2 (e - ((bits : Int) - 1))
    let m := roundHalfEven (a / ulp)
    let v := (m : Rat) * ulp
    if q < 0 then -v else v

def roundF64 (q : Rat) : Rat := roundBits 53 q

/-! ## Text of the CSV (driver output; compared byte for byte with the real file) -/

def digitChar (d : Nat) : Char := Char.ofNat (48 + d % 10)

def digitsAux : Nat → Nat → List Char → List Char
  | 0, _, acc => acc
  | f + 1, n, acc =>
    if n < 10 then digitChar n :: acc else digitsAux f (n / 10) (digitChar (n % 10) :: acc)

/-- decimal digits of `n`, most significant first -/
def natDigits (n : Nat) : List Char := digitsAux (n + 1) n []

/-- `"{:0{w}d}".format(n)` for `n ≥ 0` -/
def fmtNat (w : Nat) (n : Nat) : List Char :=
  let d := natDigits n
  List.replicate (w - d.length) '0' ++ d

/-- `int(text)` on a string of decimal digits -/
def parseNat (cs : List Char) : Option Nat :=
  cs.foldl (fun acc c =>
    match acc with
    | none => none
    | some a => if '0' ≤ c ∧ c ≤ '9' then some (10 * a + (c.toNat - 48)) else none) (some 0)

def fmtInt (w : Nat) (n : Int) : List Char :=
  if n < 0 then '-' :: fmtNat (w - 1) n.natAbs else fmtNat w n.toNat

/-- width `int(math.log10(max(x, 1))) + 1` -/
def widthOf (x : Nat) : Nat := numDigits (max x 1)

structure Widths where
  epoch : Nat
  esResume : Nat
  esCd : Nat
  rlrResume : Nat
  rlrCd : Nat

def widths (P : Params) : Widths :=
  { epoch := match P.numEpochs with | none => 10 | some n => widthOf n,
    esResume := widthOf P.esBurn, esCd := widthOf P.esPat,
    rlrResume := widthOf (max P.rlrCool P.rlrBurn), rlrCd := widthOf P.rlrPat }

/-- `d.dddde±XX` -/
def sciText (sig : Nat) (s : Sci) : List Char :=
  let ds := fmtNat sig s.mant
  let head := ds.take 1
  let tail := ds.drop 1
  let e := s.exp
  (if s.neg then ['-'] else []) ++ head ++ (if tail.isEmpty then [] else '.' :: tail) ++ ['e']
    ++ [if e < 0 then '-' else '+'] ++ fmtNat 2 e.natAbs

def fmtOptRat (sig : Nat) (x : Option Rat) : List Char :=
  match x with
  | none => "inf".toList
  | some q => sciText sig (fmtSci sig q)

/-- the fields of one CSV row, in column order (characters) -/
def rowFieldsC (P : Params) (r : Row) : List (List Char) :=
  let w := widths P
  [ fmtNat w.epoch r.epoch, fmtInt w.esResume r.esResume, fmtInt w.esCd r.esCd,
    fmtInt w.rlrResume r.rlrResume, fmtInt w.rlrCd r.rlrCd, fmtOptRat P.sig r.lr,
    fmtOptRat P.sig r.train, fmtOptRat P.sig r.val ]

/-- the fields of one CSV row, in column order -/
def rowFields (P : Params) (r : Row) : List String := (rowFieldsC P r).map String.ofList

def nEpoch : List Char := ['e', 'p', 'o', 'c', 'h']
def nEsResume : List Char := ['e', 's', '_', 'r', 'e', 's', 'u', 'm', 'e', '_', 'c', 'd']
def nEsCd : List Char := ['e', 's', '_', 'p', 'a', 't', 'i', 'e', 'n', 'c', 'e', '_', 'c', 'd']
def nRlrResume : List Char := ['r', 'l', 'r', '_', 'r', 'e', 's', 'u', 'm', 'e', '_', 'c', 'd']
def nRlrCd : List Char := ['r', 'l', 'r', '_', 'p', 'a', 't', 'i', 'e', 'n', 'c', 'e', '_', 'c', 'd']
def nLr : List Char := ['l', 'r']
def nTrain : List Char := ['t', 'r', 'a', 'i', 'n', '_', 'm', 'e', 't']
def nVal : List Char := ['v', 'a', 'l', '_', 'm', 'e', 't']

/-- the reserved column names, in column order -/
def headerC : List (List Char) := [nEpoch, nEsResume, nEsCd, nRlrResume, nRlrCd, nLr, nTrain, nVal]

def csvHeader : List String := headerC.map String.ofList

end PdtVerif.Controller
