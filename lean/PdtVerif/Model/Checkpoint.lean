/-!
# Model of the file operations of `training.py::TrainingStateController`

Follows `update_for_epoch` → `save_model_and_optimizer_with_info` / `save_info_to_hist` /
`_clean_up_files`, `update_cache` (parsing the history csv) and
`load_model_and_optimizer_for_epoch`, as the code makes its *mutating* calls:

```
save   : makedirs, NamedTemporaryFile, torch.save, makedirs, NamedTemporaryFile, torch.save,
         os.replace(tmp1 → model path), os.replace(tmp2 → optimizer path)
hist   : open(csv, "a")   -- creates the file when absent
         [csv.writer.writerow(names)]   -- one `f.write(line)`, iff `write_header`
         csv.writer.writerow(row)       -- one `f.write(line)`
clean  : os.remove(p) for every p of the clean-up set that exists (set order = unspecified)
```

Every `f.write(line)` of the history file is a mutating call of its own (`FsOp.hwrite`): an
interrupt (`KeyboardInterrupt`, `SystemExit`) between the two `writerow` calls unwinds through the
`with` block, which flushes the header line and nothing else. A line reaches the file whole
(`hwrite l`) — that is an ASSUMPTION (see `tear`): a data row torn in the middle is representable
(`Line.torn`) and makes every later controller raise.

The calls come in the order of each branch of `update_for_epoch`:

* `keep_last_and_best_only`, new epoch is not best and its path equals the best epoch's path:
  `ValueError` (nothing is written);
* `keep_last_and_best_only`, `cur_best == epoch - 1`: save, hist, no clean-up;
* `keep_last_and_best_only`, otherwise: `save_info_first` iff a new path equals a path of the last
  / last-best epoch; (hist, save) or (save, hist); then clean-up of the last epoch's files and,
  when the best changed, the previous best's files, minus the new paths;
* keep everything: `save_info_first` iff … (see `Quirks.infoFirstByExists`), no clean-up.

What is abstracted:
* a file name is `Path.model key | Path.optim key | Path.tmp id`; the two format strings are
  functions `km ko : epoch → key` (identity for `…{epoch}…`, constant for a format without the
  field). Model and optimizer names never coincide, temp names never coincide with either.
* a checkpoint's content is the number that identifies the state (`Content.model w`); an optimizer
  state dict is `Content.optim ⟨t, lr⟩`: `t` identifies its per-parameter state (momentum buffers,
  step counts), `lr` the learning rate of its parameter groups — a hyper-parameter that
  `update_for_epoch` itself REWRITES (reduce-on-plateau) before it saves anything. One epoch is
  `Train.step`: the user's deterministic training `fit e (w, o)`, then the controller's write of the
  reduced learning rate (`red e = some l`; `none`: the optimizer is left alone), then the save. So
  "the parameters saved for epoch e" are `U e` with `U 0 = St.init`, `U (e+1) = step (e+1) (U e)`,
  and the learning rate written at epoch `e` is part of `U e`.
* which updates reduce the learning rate, and to what (`Train.red`), is a function of the metric
  history and the `reduce_lr_*` parameters (C15's subject); here it is arbitrary.
* a history row is identified by its epoch: its other columns are functions of the metric
  history (that is C15's subject); the validation metric that decides "best" is `vals[e-1]`
  (`none` = `inf`/`nan`, never best). `vals` is the list of values `get_best_epoch` COMPARES:
  metrics are integers (any order-preserving image of the floats), and which integers a given
  controller compares — the raw metric or what the history file recorded of it — is the last
  section (`Rounding`, `memVals`, `fileVals`).
* the metric that decides "best" is the validation metric, or the training metric when
  `update_for_epoch(..., best_is_train=True)`: `deciding` picks the column, everything else is
  parametric in the chosen column `vals`.
* `Quirks` selects between the pinned behaviour and the repaired one at the two places where
  the pinned tree breaks crash safety (see `fixes/C16-*.md`).

Core Lean only: this file is run by the driver.
-/
namespace PdtVerif.Checkpoint

inductive Path where
  | model (key : Nat)
  | optim (key : Nat)
  | tmp (id : Nat)
  deriving DecidableEq, Repr

/-- What an optimizer state dict holds, as far as the model tells states apart: `t` identifies the
per-parameter state (`state`: momentum buffers, step counts, …), `lr` the learning rate in
`param_groups` (the hyper-parameter the controller itself rewrites). -/
structure Opt where
  t : Nat
  lr : Nat
  deriving DecidableEq, Repr

/-- What a process holds in memory: the model's state and the optimizer's. -/
abbrev St := Nat × Opt

/-- What `load_model_and_optimizer_for_epoch(model, optimizer, 0)` initialises. -/
def St.init : St := (0, ⟨0, 0⟩)

inductive Content where
  | empty                -- a file that was created and never written
  | torn                 -- a partially written file
  | model (w : Nat)      -- a complete model state dict identifying state `w`
  | optim (o : Opt)      -- a complete optimizer state dict: per-parameter state `o.t`, learning rate `o.lr`
  deriving DecidableEq, Repr

inductive Line where
  | header
  | row (epoch : Nat)
  | torn                 -- a data row cut in the middle (no line end, fields missing)
  deriving DecidableEq, Repr

/-- Directory contents as an association list. Only `get` is ever used to observe it. -/
abbrev Files := List (Path × Content)

def Files.get : Files → Path → Option Content
  | [], _ => none
  | (q, c) :: fs, p => if q = p then some c else Files.get fs p

def Files.del (fs : Files) (p : Path) : Files := fs.filter (fun x => decide (x.1 ≠ p))

def Files.set (fs : Files) (p : Path) (c : Content) : Files := (p, c) :: Files.del fs p

/-- `csv = none`: the history file does not exist. -/
structure Disk where
  files : Files
  csv : Option (List Line)
  deriving Repr

def Disk.blank : Disk := ⟨[], none⟩

inductive FsOp where
  | mkdirs
  | mktemp (t : Nat)
  | write (t : Nat) (c : Content)
  | replace (t : Nat) (dst : Path)
  | openAppend
  | hwrite (l : Line)
  | remove (p : Path)
  deriving DecidableEq, Repr

def exec1 (d : Disk) : FsOp → Disk
  | .mkdirs => d
  | .mktemp t => { d with files := d.files.set (.tmp t) .empty }
  | .write t c => { d with files := d.files.set (.tmp t) c }
  | .replace t dst =>
      match d.files.get (.tmp t) with
      | some c => { d with files := (d.files.del (.tmp t)).set dst c }
      | none => d
  | .openAppend => { d with csv := some (d.csv.getD []) }
  | .hwrite l => { d with csv := some (d.csv.getD [] ++ [l]) }
  | .remove p => { d with files := d.files.del p }

def exec (d : Disk) (ops : List FsOp) : Disk := ops.foldl exec1 d

/-! ## `get_best_epoch`: first strict minimum of the recorded metric, 0 when there is none -/

structure BestSt where
  n : Nat
  minE : Nat
  minV : Option Int
  deriving Repr, DecidableEq

def bestStep (s : BestSt) (v : Option Int) : BestSt :=
  match v, s.minV with
  | some x, none => ⟨s.n + 1, s.n + 1, some x⟩
  | some x, some m => if x < m then ⟨s.n + 1, s.n + 1, some x⟩ else ⟨s.n + 1, s.minE, s.minV⟩
  | none, _ => ⟨s.n + 1, s.minE, s.minV⟩

def bestSt (vals : List (Option Int)) : BestSt := vals.foldl bestStep ⟨0, 0, none⟩

/-- best epoch among epochs `1..vals.length` (`vals[e-1]` is the metric of epoch `e`). -/
def bestOf (vals : List (Option Int)) : Nat := (bestSt vals).minE

/-! ## parameters -/

structure Params where
  keepLB : Bool
  km : Nat → Nat
  ko : Nat → Nat

def Params.mpath (P : Params) (e : Nat) : Path := .model (P.km e)
def Params.opath (P : Params) (e : Nat) : Path := .optim (P.ko e)

/-- A format pair without the epoch field: every epoch has the same two paths. -/
def constP (keep : Bool) : Params := ⟨keep, fun _ => 0, fun _ => 0⟩

/-- The metric an epoch's file name is formatted from when the format names a metric instead of
the epoch (`"model_{val_met:.3f}.pt"`): epoch 0 is the dummy entry (`inf`), epoch `e ≥ 1` has
`vals[e-1]`. -/
def metricAt (vals : List (Option Int)) (e : Nat) : Option Int :=
  if e = 0 then none else (vals[e - 1]?).getD none

/-- A format pair that depends on the metric only; `g` = the formatted metric as a file key. -/
def metricP (keep : Bool) (g : Option Int → Nat) (vals : List (Option Int)) : Params :=
  ⟨keep, fun e => g (metricAt vals e), fun e => g (metricAt vals e)⟩

/-- `update_for_epoch(..., best_is_train)`: which column of a history of (train, val) metric pairs
decides "best". -/
def deciding (bestIsTrain : Bool) (ms : List (Option Int × Option Int)) : List (Option Int) :=
  ms.map (fun p => if bestIsTrain then p.1 else p.2)

/-- The two places where the pinned tree and the repaired tree differ. `true` = pinned. -/
structure Quirks where
  /-- `write_header = not os.path.exists(csv)` (pinned) vs. `… or the file is empty`. -/
  headerOnlyIfAbsent : Bool
  /-- keep-everything branch: `save_info_first = exists(model_pth) or exists(optim_pth)`
  (pinned) vs. "a new path equals the path of a recorded epoch". -/
  infoFirstByExists : Bool
  deriving Repr, DecidableEq

def Quirks.pinned : Quirks := ⟨true, true⟩
def Quirks.fixed : Quirks := ⟨false, false⟩

inductive Err where
  | wouldOverwriteBest
  deriving Repr, DecidableEq

/-! ## the history file -/

/-- Epochs of a list of data lines; a line that is not a data row makes `int(row["epoch"])` (or the
conversion of a later field of a torn row) raise. -/
def rowsOf : List Line → Option (List Nat)
  | [] => some []
  | .row e :: rest => (rowsOf rest).map (e :: ·)
  | .header :: _ => none
  | .torn :: _ => none

/-- `update_cache`: `csv.DictReader` takes the first line as field names whatever it is; every
further line must have an `epoch` field holding an integer. `none` = the constructor raises. -/
def parseCsv : Option (List Line) → Option (List Nat)
  | none => some []
  | some [] => some []
  | some (.header :: rest) => rowsOf rest
  | some (.row _ :: []) => some []          -- the only row is taken for the header
  | some (.row _ :: _ :: _) => none          -- KeyError: no column called "epoch"
  | some (.torn :: []) => some []
  | some (.torn :: _ :: _) => none

/-- Number of recorded epochs when the controller sees exactly epochs `1..k`; `none` when the
constructor raises or the rows are not `1..k` (states the model does not follow further). -/
def recorded (d : Disk) : Option Nat :=
  match parseCsv d.csv with
  | some es => if es = List.range' 1 es.length then some es.length else none
  | none => none

/-- `load_model_and_optimizer_for_epoch(model, optimizer, e)`: epoch 0 initialises. -/
def loadState (P : Params) (d : Disk) (e : Nat) : Option St :=
  if e = 0 then some St.init else
  match d.files.get (P.mpath e), d.files.get (P.opath e) with
  | some (.model w), some (.optim o) => some (w, o)
  | _, _ => none

/-! ## one update -/

def freshTmp (fs : Files) : Nat :=
  fs.foldl (fun m x => match x.1 with | .tmp i => max m (i + 1) | _ => m) 0

/-- `save_model_and_optimizer_with_info`. -/
def saveOps (P : Params) (d : Disk) (e : Nat) (s : St) : List FsOp :=
  let t1 := freshTmp d.files
  let t2 := t1 + 1
  [.mkdirs, .mktemp t1, .write t1 (.model s.1), .mkdirs, .mktemp t2, .write t2 (.optim s.2),
   .replace t1 (P.mpath e), .replace t2 (P.opath e)]

def writeHeader (Q : Quirks) (d : Disk) : Bool :=
  match d.csv with
  | none => true
  | some [] => !Q.headerOnlyIfAbsent
  | some (_ :: _) => false

/-- The lines `save_info_to_hist` writes, one `f.write` each. -/
def histLines (Q : Quirks) (d : Disk) (e : Nat) : List Line :=
  if writeHeader Q d then [.header, .row e] else [.row e]

/-- `save_info_to_hist`: the `open`, then one write per line. -/
def histOps (Q : Quirks) (d : Disk) (e : Nat) : List FsOp :=
  .openAppend :: (histLines Q d e).map .hwrite

def present (d : Disk) (p : Path) : Bool := (d.files.get p).isSome

/-- `raise ValueError("… would overwrite best … checkpoint …")`: keep-last-and-best, the new epoch
`k+1` is not the best and one of its paths is a path of the best epoch. -/
def refuses (P : Params) (vals : List (Option Int)) (k : Nat) : Bool :=
  let e := k + 1
  let curBest := bestOf (vals.take e)
  P.keepLB && decide (curBest ≠ e ∧ (P.km e = P.km curBest ∨ P.ko e = P.ko curBest))

/-- `save_info_first`: the history row is appended BEFORE the checkpoint is written. -/
def infoFirst (Q : Quirks) (P : Params) (vals : List (Option Int)) (k : Nat) (d : Disk) : Bool :=
  let e := k + 1
  let lastBest := bestOf (vals.take k)
  let curBest := bestOf (vals.take e)
  if P.keepLB then
    if curBest = k then false
    else decide (P.km e = P.km k ∨ P.km e = P.km lastBest ∨ P.ko e = P.ko k ∨ P.ko e = P.ko lastBest)
  else if Q.infoFirstByExists then present d (P.mpath e) || present d (P.opath e)
  else (List.range' 1 k).any (fun j => P.km j = P.km e || P.ko j = P.ko e)

/-- The clean-up set (only paths that exist: `_clean_up_files` skips the others). -/
def cleanSet (P : Params) (vals : List (Option Int)) (k : Nat) (d : Disk) : List Path :=
  let e := k + 1
  let lastBest := bestOf (vals.take k)
  let curBest := bestOf (vals.take e)
  if P.keepLB = true ∧ curBest ≠ k then
    let cl := [P.mpath k, P.opath k] ++
      (if lastBest ≠ curBest then [P.mpath lastBest, P.opath lastBest] else [])
    ((cl.filter (fun p => decide (p ≠ P.mpath e ∧ p ≠ P.opath e))).eraseDups).filter (present d)
  else []

/-- The main sequence of calls: history row first or checkpoint first. -/
def mainOps (Q : Quirks) (P : Params) (vals : List (Option Int)) (k : Nat) (d : Disk)
    (s : St) : List FsOp :=
  if infoFirst Q P vals k d then histOps Q d (k + 1) ++ saveOps P d (k + 1) s
  else saveOps P d (k + 1) s ++ histOps Q d (k + 1)

/-- What one call of `update_for_epoch` for epoch `k+1` does to the disk, `k` epochs being
recorded in the controller's cache and `s` being the state to save: the main sequence and the
clean-up set. -/
def planUpdate (Q : Quirks) (P : Params) (vals : List (Option Int)) (k : Nat) (d : Disk)
    (s : St) : Except Err (List FsOp × List Path) :=
  if refuses P vals k then .error .wouldOverwriteBest
  else .ok (mainOps Q P vals k d s, cleanSet P vals k d)

/-- All mutating calls of the update, clean-up in the order `cl`. -/
def opsOf (main : List FsOp) (cl : List Path) : List FsOp := main ++ cl.map .remove

/-! ## a call that is interrupted half-way

`os.makedirs`, `NamedTemporaryFile`, `os.replace`, `open`, `os.remove` are single system calls:
done or not done. `torch.save` into the temp file can stop anywhere (`tearW`). A history line is
ASSUMED to reach the file whole; `tear` drops that assumption for data rows (the header line is
not tearable in the model). -/

def tearW : FsOp → Option FsOp
  | .write t _ => some (.write t .torn)
  | _ => none

def tear : FsOp → Option FsOp
  | .hwrite (.row _) => some (.hwrite .torn)
  | op => tearW op

/-- The disk after the first `i` calls of `ops` and a torn execution of call `i` (when `tr` says
it can be torn; otherwise call `i` is not executed at all). -/
def tornDisk (tr : FsOp → Option FsOp) (d : Disk) (ops : List FsOp) (i : Nat) : Disk :=
  match (ops[i]?).bind tr with
  | some op' => exec1 (exec d (ops.take i)) op'
  | none => exec d (ops.take i)

/-! ## sessions: a new controller on the files, load the last epoch, train on -/

/-- The deterministic part of a run. `fit e s`: the user's training of epoch `e` from the state `s`
after epoch `e - 1` (any function: it may or may not touch the optimizer's learning rate).
`red e = some l`: the plateau rule fires in `update_for_epoch(e)` and the controller writes the
learning rate `l` into every parameter group of the optimizer; `none`: it leaves the optimizer alone. -/
structure Train where
  fit : Nat → St → St
  red : Nat → Option Nat

/-- `for param_group in optimizer.param_groups: param_group["lr"] = new_lr`. -/
def Opt.withLr (o : Opt) : Option Nat → Opt
  | none => o
  | some l => { o with lr := l }

/-- The first thing `update_for_epoch(e)` does to what it was handed: the learning rate is written
into the optimizer BEFORE anything is saved, so it is part of the checkpoint of epoch `e`. -/
def applyLr (tr : Train) (e : Nat) (s : St) : St := (s.1, s.2.withLr (tr.red e))

/-- One epoch: train, then the controller's write of the learning rate. The result is what
`update_for_epoch(e)` saves AND what the process holds in memory afterwards. -/
def Train.step (tr : Train) (e : Nat) (s : St) : St := applyLr tr e (tr.fit e s)

/-- The state an uninterrupted run has after epoch `e` (after `update_for_epoch(e)` returned). -/
def U (tr : Train) : Nat → St
  | 0 => St.init
  | e + 1 => tr.step (e + 1) (U tr e)

/-- The learning rate the optimizer of an uninterrupted run has after epoch `e`. -/
def lrAt (tr : Train) (e : Nat) : Nat := (U tr e).2.lr

/-- New controller + `load_model_and_optimizer_for_epoch(model, optimizer)`. -/
def startSession (P : Params) (d : Disk) : Option (Nat × St) :=
  match recorded d with
  | none => none
  | some k => match loadState P d k with
    | none => none
    | some s => some (k, s)

/-- A complete (crash-free) epoch `k+1` of a process whose controller has `k` epochs cached and which
holds state `s` of epoch `k`: training, the controller's write of the learning rate (`Train.step`),
then the file operations of `update_for_epoch`, which save the state `s'` AFTER that write;
clean-up in the planned order. -/
def updateFull (Q : Quirks) (P : Params) (vals : List (Option Int)) (tr : Train) (k : Nat)
    (s : St) (d : Disk) : Except Err (Disk × St) :=
  let s' := tr.step (k + 1) s
  match planUpdate Q P vals k d s' with
  | .error e => .error e
  | .ok (main, cl) => .ok (exec d (opsOf main cl), s')

/-- NOT the code — the variant the property excludes: the learning rate is written into the optimizer
only AFTER the checkpoint and the history row. It saves `tr.fit (k+1) s` (the optimizer as the
training left it) and leaves `tr.step (k+1) s` in memory, so nothing is observable inside the
process; `C16_lr_order_necessary` shows what a restart from that epoch finds. -/
def updateLrLate (Q : Quirks) (P : Params) (vals : List (Option Int)) (tr : Train) (k : Nat)
    (s : St) (d : Disk) : Except Err (Disk × St) :=
  match planUpdate Q P vals k d (tr.fit (k + 1) s) with
  | .error e => .error e
  | .ok (main, cl) => .ok (exec d (opsOf main cl), tr.step (k + 1) s)

/-- The same update killed after its first `i` mutating calls; `torn`: call `i` is a `torch.save`
that got half-way. -/
def updateCrashed (Q : Quirks) (P : Params) (vals : List (Option Int)) (tr : Train) (k : Nat)
    (s : St) (d : Disk) (i : Nat) (torn : Bool) : Disk :=
  match planUpdate Q P vals k d (tr.step (k + 1) s) with
  | .error _ => d
  | .ok (main, cl) =>
      if torn then tornDisk tearW d (opsOf main cl) i else exec d ((opsOf main cl).take i)

/-- `fuel` further complete updates in the same process (stops at a refusal). Returns the
number of epochs the controller has cached, the state it holds in memory, and the disk. -/
def runLoop (Q : Quirks) (P : Params) (vals : List (Option Int)) (tr : Train) :
    Nat → Nat → St → Disk → Nat × St × Disk
  | 0, k, s, d => (k, s, d)
  | fuel + 1, k, s, d =>
      match updateFull Q P vals tr k s d with
      | .error _ => (k, s, d)
      | .ok (d', s') => runLoop Q P vals tr fuel (k + 1) s' d'

/-- A session that runs to the end of the metric history (`vals.length` epochs). -/
def runToEnd (Q : Quirks) (P : Params) (vals : List (Option Int)) (tr : Train) (d : Disk) : Disk :=
  match startSession P d with
  | none => d
  | some (k, s) => (runLoop Q P vals tr (vals.length - k) k s d).2.2

/-- A session that completes `j` updates (fewer when the history ends) and is killed after `i`
mutating calls of the next one (`torn`: in the middle of call `i`, a `torch.save`). -/
def crashSession (Q : Quirks) (P : Params) (vals : List (Option Int)) (tr : Train) (d : Disk)
    (j i : Nat) (torn : Bool := false) : Disk :=
  match startSession P d with
  | none => d
  | some (k, s) =>
      match runLoop Q P vals tr (min j (vals.length - k)) k s d with
      | (k', s', d') =>
        if k' < vals.length then updateCrashed Q P vals tr k' s' d' i torn else d'

/-- Any number of killed sessions `(j, i, torn)`, then one that runs to the end. -/
def faulty (Q : Quirks) (P : Params) (vals : List (Option Int)) (tr : Train) (d : Disk) :
    List (Nat × Nat × Bool) → Disk
  | [] => runToEnd Q P vals tr d
  | (j, i, torn) :: rest => faulty Q P vals tr (crashSession Q P vals tr d j i torn) rest

/-! ## the orders in which the calls of one update may come

`save_model_and_optimizer_with_info` is two pipelines — `makedirs, create a temp file, write the state
dict into it, os.replace it onto the checkpoint path` — one for the model, one for the optimizer. The
pinned code runs them as `saveOps` (both temp files complete, then the two renames); a rewrite may
finish the first pipeline before it starts the second, create both temp files first, write the
optimizer first, … Every *interleaving* of the two pipelines (each keeping its own order) is an order
the model admits: `saveOrders`. Crash safety does not depend on which one is used
(`Lemmas/CheckpointOrder.lean`: `c16_rec_step_any_order` quantifies over all of them).

Calls that change nothing are not observable in the files a killed process leaves behind, so an
observed sequence of file-system mutations is matched against the model's orders *modulo* them:
`makedirs` (directories are not modelled) and `open(csv, "a")` of a history file that exists
(`FsOp.noop`, `effective`). The matching (`crashMatch`, `fullMatch`) lives here, not in the driver,
and `c16_crashMatch_rec` proves that every sequence it accepts leaves a recoverable disk. -/

/-- All interleavings of two lists (each keeps its own order). -/
def shuffles {α : Type} : List α → List α → List (List α)
  | [], bs => [bs]
  | a :: as, [] => [a :: as]
  | a :: as, b :: bs =>
      (shuffles as (b :: bs)).map (a :: ·) ++ (shuffles (a :: as) bs).map (b :: ·)
termination_by as bs => as.length + bs.length

/-- The model's pipeline: temp file `freshTmp`, content = the model's state dict. -/
def pipeM (P : Params) (d : Disk) (e : Nat) (s : St) : List FsOp :=
  let t1 := freshTmp d.files
  [.mkdirs, .mktemp t1, .write t1 (.model s.1), .replace t1 (P.mpath e)]

/-- The optimizer's pipeline: temp file `freshTmp + 1`. -/
def pipeO (P : Params) (d : Disk) (e : Nat) (s : St) : List FsOp :=
  let t2 := freshTmp d.files + 1
  [.mkdirs, .mktemp t2, .write t2 (.optim s.2), .replace t2 (P.opath e)]

/-- Every order of the eight calls of a save in which each pipeline keeps its own order. `saveOps`
(the pinned code's order) is one of them. -/
def saveOrders (P : Params) (d : Disk) (e : Nat) (s : St) : List (List FsOp) :=
  shuffles (pipeM P d e s) (pipeO P d e s)

/-- `mainOps` for every save order: history row first or checkpoint first as the code decides. -/
def mainOrders (Q : Quirks) (P : Params) (vals : List (Option Int)) (k : Nat) (d : Disk)
    (s : St) : List (List FsOp) :=
  if infoFirst Q P vals k d then (saveOrders P d (k + 1) s).map (histOps Q d (k + 1) ++ ·)
  else (saveOrders P d (k + 1) s).map (· ++ histOps Q d (k + 1))

/-- The clean-up list `cl` with the paths of `hint` (removals that were observed, in the observed
order) first; the clean-up order is a Python set order. Only members of `cl` are ever taken. -/
def reorder (cl hint : List Path) : List Path :=
  hint.filter (fun p => cl.contains p) ++ cl.filter (fun p => !hint.contains p)

/-- Every sequence of mutating calls the model admits for the update of epoch `k+1`, the clean-up
in the order suggested by `rm`. Empty when the update refuses. -/
def updateOrders (Q : Quirks) (P : Params) (vals : List (Option Int)) (k : Nat) (d : Disk)
    (s : St) (rm : List Path) : List (List FsOp) :=
  match planUpdate Q P vals k d s with
  | .error _ => []
  | .ok (_, cl) => (mainOrders Q P vals k d s).map (fun m => opsOf m (reorder cl rm))

/-- Calls that leave every disk descended from one with `csvExists` as it is. -/
def FsOp.noop (csvExists : Bool) : FsOp → Bool
  | .mkdirs => true
  | .openAppend => csvExists
  | _ => false

/-- The calls of `ops` that can change the disk `d` (or a disk reached from it). -/
def effective (d : Disk) (ops : List FsOp) : List FsOp :=
  ops.filter (fun op => !(op.noop d.csv.isSome))

def removalsOf (ops : List FsOp) : List Path :=
  ops.filterMap (fun op => match op with | .remove p => some p | _ => none)

/-- `obs` = the effective calls a process was seen to complete in the update it was killed in;
`tornOp = some op'`: it was killed inside the next call, which left `op'` (a half-written temp file,
a half-written history row). Returns the admitted order (effective calls only) that begins this way. -/
def crashMatch (orders : List (List FsOp)) (d : Disk) (obs : List FsOp) (tornOp : Option FsOp) :
    Option (List FsOp) :=
  (orders.map (effective d)).find? (fun L =>
    obs.isPrefixOf L &&
      match tornOp with
      | none => true
      | some op' => ((L[obs.length]?).bind tear) == some op')

/-- The disk a matched crash leaves. -/
def crashDisk (d : Disk) (L obs : List FsOp) (tornOp : Option FsOp) : Disk :=
  match tornOp with
  | none => exec d obs
  | some _ => tornDisk tear d L obs.length

/-- What a process may still do to the disk while the interrupt that kills it unwinds
(`except BaseException: os.unlink(tmp); raise`): remove temp files, nothing else. -/
def unwindOk (ops : List FsOp) : Bool :=
  ops.all (fun op => match op with | .remove (.tmp _) => true | _ => false)

/-- `obs` = the effective calls of a completed update: is it one of the admitted orders? -/
def fullMatch (orders : List (List FsOp)) (d : Disk) (obs : List FsOp) : Bool :=
  (orders.map (effective d)).any (fun L => L == obs)

/-! ## metrics in memory and as recorded in the history file

`update_for_epoch` is handed a metric `x` (a float); `save_info_to_hist` writes `"{:.4e}".format(x)`; a
controller started later caches `float(text)` = `R.file x`. A running controller caches the RAW `x` of
the epochs it added itself. `get_best_epoch` compares `float(fmt.format(v))` = `R.mem v` of every cached
value `v` (in the code `mem` and `file` are the same function, 5 significant digits). So which epoch a
controller calls "best" depends on WHEN it was started — unless the two roundings are consistent. All
functions above take the list `vals` of the values that are compared; for a controller started when `k0`
epochs were recorded that list is `memVals R raw k0`, for one started on the complete history it is
`recVals R raw`. The "best" of the spec (`Rec`, `ExactLB`) is the best of the history AS RECORDED:
the first minimum of `fileVals R raw`. -/

structure Rounding where
  /-- what `update_cache` reads back for a metric that was written as `x` -/
  file : Int → Int
  /-- what `get_best_epoch` turns a cached value into before it compares -/
  mem : Int → Int

def rmap (r : Int → Int) (vals : List (Option Int)) : List (Option Int) := vals.map (Option.map r)

/-- The metric column of the history file: the history AS RECORDED. -/
def fileVals (R : Rounding) (raw : List (Option Int)) : List (Option Int) := rmap R.file raw

/-- The cache of a controller that was started when `k0` epochs were recorded and added the later
ones itself (`none` = `inf`, written as `inf`, read back as `inf`). -/
def cacheVals (R : Rounding) (raw : List (Option Int)) (k0 : Nat) : List (Option Int) :=
  rmap R.file (raw.take k0) ++ raw.drop k0

/-- What that controller's `get_best_epoch` compares. -/
def memVals (R : Rounding) (raw : List (Option Int)) (k0 : Nat) : List (Option Int) :=
  rmap R.mem (cacheVals R raw k0)

/-- What the `get_best_epoch` of a controller started on the recorded history compares. -/
def recVals (R : Rounding) (raw : List (Option Int)) : List (Option Int) :=
  rmap R.mem (rmap R.file raw)

/-- Sessions of the real controller: the list of compared values is fixed when the controller is
constructed (`k0` = the number of epochs it read from the file). -/
def crashSessionR (Q : Quirks) (P : Params) (R : Rounding) (raw : List (Option Int)) (tr : Train)
    (d : Disk) (j i : Nat) (torn : Bool := false) : Disk :=
  match recorded d with
  | none => d
  | some k0 => crashSession Q P (memVals R raw k0) tr d j i torn

def runToEndR (Q : Quirks) (P : Params) (R : Rounding) (raw : List (Option Int)) (tr : Train)
    (d : Disk) : Disk :=
  match recorded d with
  | none => d
  | some k0 => runToEnd Q P (memVals R raw k0) tr d

def faultyR (Q : Quirks) (P : Params) (R : Rounding) (raw : List (Option Int)) (tr : Train) (d : Disk) :
    List (Nat × Nat × Bool) → Disk
  | [] => runToEndR Q P R raw tr d
  | (j, i, torn) :: rest => faultyR Q P R raw tr (crashSessionR Q P R raw tr d j i torn) rest

end PdtVerif.Checkpoint
