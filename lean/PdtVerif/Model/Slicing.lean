/-!
# Model of `_feats.py::slice_spect_data` and `_feats.py::chunk_token_sequences_by_slices`

The model follows the tensor code branch by branch:

* `'fixed'`: `torch.arange` windows (five sub-branches), expanded over the batch, then the
  mid-point mask `in_lens > mids` when `in_lens` is given;
* `'ali'`: neighbour-comparison mask, `nonzero` on `cat([nonempty, mask])` (starts) and on
  `cat([0, mask, 0]) | (nonempty & in_lens == arange)` (ends), on the whole batch at once;
  lobes by *index arithmetic on the batch-flattened run list*: for `valid_only` the two
  shifted views `[: NN - offs]` / `[offs :]` with the `is_same` source mask, otherwise the
  `start_idx` / `end_idx` vectors updated `lobe_size` times and a final gather;
* `'ref'`: masks over the `(N, T)` grid of token segments, flattened and selected;
* token chunking: the keep mask, the batch-flattened `refs[mask]` followed by
  `masked_scatter_` (rows get back as many triples as their mask has true cells), and the
  boundary shift `chunked[..., 1:] += slices[..., 0]` — **plus**, as in the code.

* the per-utterance worker of `chunk-torch-spect-data-dir` (`dirSlices`, `dirChunks`): the slicer on
  the unsqueezed utterance (`N = 1`, no lengths) and the token chunker on the utterance's tokens
  expanded against its slices.

Tensors are lists, boolean-mask indexing is `select`, `nonzero` lists indices in row-major
order. Integer positions are `Int` (windows may start before 0), indices are `Nat`.

The model is the model of the *repaired* tree (fixes/C10-*.diff): the `ends` mask has
`T + 1` columns, the shifted views are cut at `max(NN - offs, 0)`, the symmetric non-valid
window count is `(T - half_shift + shift - 1) // shift`, and the default `other_lens`
gathers from `ends`. On the pinned tree those four places raise / return a window whose
mid-point is outside the sequence; see design_notes/C10.md.

No Mathlib imports: the driver runs this file.
-/
namespace PdtVerif.Slicing

inductive WinType where
  | symmetric | causal | future
  deriving Repr, DecidableEq

/-- `window_type in ("symmetric", "causal")` -/
def WinType.doLeft : WinType → Bool
  | .symmetric => true
  | .causal => true
  | .future => false

/-- `window_type in ("symmetric", "future")` -/
def WinType.doRight : WinType → Bool
  | .symmetric => true
  | .causal => false
  | .future => true

/-- One returned slice: `slices[m] = [start, stop)`, `sources[m] = src`. -/
structure Win where
  start : Int
  stop : Int
  src : Nat
  deriving Repr, DecidableEq

/-- A token with its segment: `(tok, start, end)`. -/
abbrev Tok := Int × Int × Int

inductive Err where
  | shape
  deriving Repr, DecidableEq

/-! ## tensor primitives -/

/-- Boolean-mask indexing `x[mask]` (1-D). -/
def select {α} : List α → List Bool → List α
  | x :: xs, b :: bs => if b then x :: select xs bs else select xs bs
  | _, _ => []

/-- `mask.nonzero()` of a 1-D mask. -/
def nonzero (mask : List Bool) : List Nat := select (List.range mask.length) mask

/-- `mask.nonzero()` of a 2-D mask: `(row, column)` pairs in row-major order; `n` is the index
of the first row. -/
def nonzero2From : Nat → List (List Bool) → List (Nat × Nat)
  | _, [] => []
  | n, row :: rest => (nonzero row).map (fun t => (n, t)) ++ nonzero2From (n + 1) rest

/-- `torch.arange(start, stop, step)` for a positive `step`. -/
def arange (start stop : Int) (step : Nat) : List Int :=
  (List.range (((stop - start).toNat + step - 1) / step)).map fun (k : Nat) => start + (k : Int) * step

/-- `torch.stack([starts, ends], 1)` together with `sources`. -/
def mkWins : List Int → List Int → List Nat → List Win
  | s :: ss, e :: es, n :: ns => ⟨s, e, n⟩ :: mkWins ss es ns
  | _, _, _ => []

/-! ## policy 'fixed' -/

/-- A candidate window with the mid-point the validity mask looks at. -/
structure Cand where
  start : Int
  stop : Int
  mid : Int
  deriving Repr, DecidableEq

/-- The five `arange` branches (`starts`, `ends`, `mids`) for a padded length `T ≥ 1`. -/
def fixedCands (T lobe : Nat) (wt : WinType) (validOnly : Bool) : List Cand :=
  let shift := lobe + 1
  if validOnly && wt == .symmetric then
    let ws : Nat := 2 * lobe + 1
    (arange 0 (max ((T : Int) - ws + 1) 0) shift).map fun s => ⟨s, s + ws, s + ws - 1⟩
  else if wt == .symmetric then
    let ws : Nat := 2 * lobe + 1
    let halfShift := shift / 2
    let TT := (T + shift - 1 - halfShift) / shift
    (List.range TT).map fun (k : Nat) =>
      let mid : Int := (k : Int) * shift + halfShift
      ⟨mid - (ws / 2 : Nat), mid - (ws / 2 : Nat) + ws, mid⟩
  else if validOnly then
    (arange 0 (max ((T : Int) - lobe) 0) shift).map fun s => ⟨s, s + shift, s + shift - 1⟩
  else if wt == .causal then
    (arange (-(lobe : Int)) ((T : Int) - lobe) shift).map fun s => ⟨s, s + shift, s + shift - 1⟩
  else
    (arange 0 T shift).map fun s => ⟨s, s + shift, s⟩

/-- `expand(N, -1)`, `flatten`, then `slices[mask]` with `mask = in_lens.unsqueeze(1) > mids`. -/
def fixedBatch (N T lobe : Nat) (wt : WinType) (validOnly : Bool) (inLens : Option (List Int)) :
    List Win :=
  let cands := fixedCands T lobe wt validOnly
  let all := (List.range N).flatMap fun n => cands.map fun c => (c, n)
  let kept := match inLens with
    | none => all
    | some ls => all.filter fun cn => decide (ls.getD cn.2 0 > cn.1.mid)
  kept.map fun cn => ⟨cn.1.start, cn.1.stop, cn.2⟩

/-! ## policy 'ali' -/

/-- `input[:, :-1] != input[:, 1:]` for one row. -/
def neqMask (row : List Int) : List Bool := List.zipWith (fun a b => a != b) row row.tail

/-- The two masks whose `nonzero` gives the run starts (width `T`) and run ends (width `T + 1`)
of one row. `len = none` is `in_lens is None` (then `in_lens = T` and the neighbour mask is not
cut). -/
def aliMasks (T : Nat) (row : List Int) (len : Option Int) : List Bool × List Bool :=
  let m0 := neqMask row
  let m := match len with
    | none => m0
    | some l => List.zipWith (fun (b : Bool) (i : Nat) => b && decide (l > ((i + 1 : Nat) : Int))) m0 (List.range m0.length)
  let l : Int := len.getD T
  let nonempty := decide (l > 0)
  let startsMask := nonempty :: m
  let endsMask := List.zipWith (fun (b : Bool) (t : Nat) => b || (nonempty && decide (l = (t : Int))))
    (false :: m ++ [false]) (List.range (T + 1))
  (startsMask, endsMask)

/-- Python list indexing with an integer that may be negative (`x[i]`, `i < 0` counts from the
end). Only used by the final gather `starts[start_idx]`. -/
def pyGet (l : List Nat) (i : Int) : Nat :=
  if i < 0 then l.getD (i + l.length).toNat 0 else l.getD i.toNat 0

/-- One pass `n` of the non-valid lobe loop over `(start_idx, end_idx)`. -/
def lobeStep (wt : WinType) (sources : List Nat) (NN : Nat) (st : List Int × List Int) (n : Nat) :
    List Int × List Int :=
  let offs : List Int := List.zipWith (fun a b => if a == b then 1 else 0)
    (sources.drop n) (sources.take (NN - n))
  let sIdx := if wt.doLeft then st.1.take n ++ List.zipWith (· - ·) (st.1.drop n) offs else st.1
  let eIdx := if wt.doRight then
      List.zipWith (· + ·) (st.2.take (NN - n)) offs ++ st.2.drop (NN - n) else st.2
  (sIdx, eIdx)

/-- The `if lobe_size:` block acting on the batch-flattened `sources`, `starts`, `ends`. -/
def aliLobe (lobe : Nat) (wt : WinType) (validOnly : Bool) (sources starts ends : List Nat) :
    List Win :=
  if lobe = 0 then
    mkWins (starts.map Int.ofNat) (ends.map Int.ofNat) sources
  else
    let NN := starts.length
    if validOnly then
      let offs := (wt.doLeft.toNat + wt.doRight.toNat) * lobe
      let isSame := List.zipWith (fun a b => a == b) (sources.take (NN - offs)) (sources.drop offs)
      mkWins ((select (starts.take (NN - offs)) isSame).map Int.ofNat)
        ((select (ends.drop offs) isSame).map Int.ofNat)
        (select (sources.take (NN - offs)) isSame)
    else
      let idx0 : List Int := (List.range NN).map Int.ofNat
      let fin := (List.range lobe).foldl (fun st k => lobeStep wt sources NN st (k + 1)) (idx0, idx0)
      mkWins (fin.1.map fun i => Int.ofNat (pyGet starts i)) (fin.2.map fun i => Int.ofNat (pyGet ends i))
        sources

/-- The whole `'ali'` branch. `rows` are the `N` rows of width `T`. -/
def aliBatch (T lobe : Nat) (wt : WinType) (validOnly : Bool) (rows : List (List Int))
    (inLens : Option (List Int)) : List Win :=
  let lens : List (Option Int) := match inLens with
    | some l => l.map some
    | none => List.replicate rows.length none
  let masks := List.zipWith (fun row len => aliMasks T row len) rows lens
  let startsNZ := nonzero2From 0 (masks.map (·.1))
  let endsNZ := nonzero2From 0 (masks.map (·.2))
  aliLobe lobe wt validOnly (startsNZ.map (·.1)) (startsNZ.map (·.2)) (endsNZ.map (·.2))

/-! ## policy 'ref' -/

/-- The default `other_lens`: `ends.gather(1, (in_lens - 1).clamp_min(0)).masked_fill(in_lens == 0, 0)`. -/
def refDefaultOther (row : List Tok) (inLen : Int) : Int :=
  if inLen == 0 then 0 else (row.map (·.2.2)).getD (max (inLen - 1) 0).toNat 0

/-- Mask and padded boundaries of one row of the `(N, T)` grid. -/
def refRowMask (lobe : Nat) (wt : WinType) (validOnly : Bool) (row : List Tok) (inLen other : Int) :
    List (Bool × Int × Int) :=
  List.zipWith (fun (tk : Tok) (t : Nat) =>
    let s := tk.2.1
    let e := tk.2.2
    let m := decide (inLen > (t : Int)) && (decide (s ≥ 0) && decide (e ≥ 0))
    let s' := if wt.doLeft then s - lobe else s
    let e' := if wt.doRight then e + lobe else e
    let m := if validOnly then m && decide (s' ≥ 0) && decide (e' ≤ other)
             else m && decide (e' > 0) && decide (s' < other)
    (m && decide (s' < e'), s', e')) row (List.range row.length)

/-- The whole `'ref'` branch: masks on the grid, flatten, select. -/
def refBatch (T lobe : Nat) (wt : WinType) (validOnly : Bool) (rows : List (List Tok))
    (inLens otherLens : Option (List Int)) : List Win :=
  let N := rows.length
  let inL : List Int := inLens.getD (List.replicate N (T : Int))
  let other : List Int := match otherLens with
    | some o => o
    | none => List.zipWith refDefaultOther rows inL
  let grid := (List.range N).map fun n =>
    refRowMask lobe wt validOnly (rows.getD n []) (inL.getD n 0) (other.getD n 0)
  let mask := (grid.map (·.map (·.1))).flatten
  let starts := (grid.map (·.map (·.2.1))).flatten
  let ends := (grid.map (·.map (·.2.2))).flatten
  let sources := ((List.range N).map fun n => List.replicate T n).flatten
  mkWins (select starts mask) (select ends mask) (select sources mask)

/-! ## entry point: early return and shape checks -/

inductive Input where
  | feats (N T : Nat)
  | ali (N T : Nat) (rows : List (List Int))
  | ref (N T : Nat) (rows : List (List Tok))

def lensOk (N : Nat) (l : Option (List Int)) : Bool :=
  match l with
  | none => true
  | some l => l.length == N

/-- `slice_spect_data` for well-typed arguments (`lobe_size ≥ 0`, legal policy and window
type). `T = 0` returns the empty result before anything is checked. Wrong-sized length vectors
are `Err.shape` (the code raises `RuntimeError`); the policy branches below are only reached
with vectors of `N` entries, so their `getD` defaults are never read. -/
def sliceSpectData (inp : Input) (inLens otherLens : Option (List Int)) (wt : WinType)
    (validOnly : Bool) (lobe : Nat) : Except Err (List Win) :=
  match inp with
  | .feats N T =>
    if T = 0 then .ok [] else
    if !lensOk N inLens then .error .shape else
    .ok (fixedBatch N T lobe wt validOnly inLens)
  | .ali N T rows =>
    if T = 0 then .ok [] else
    if !lensOk N inLens then .error .shape else
    .ok (aliBatch T lobe wt validOnly rows inLens)
  | .ref N T rows =>
    if T = 0 then .ok [] else
    -- `other_lens.shape != (N,)` is tested explicitly; a wrong-sized `in_lens` fails in `in_lens.view(N, 1)`
    -- (or, with `other_lens` omitted, in the `gather`): a `RuntimeError` either way
    if !lensOk N inLens || !lensOk N otherLens then .error .shape else
    .ok (refBatch T lobe wt validOnly rows inLens otherLens)

/-! ## `chunk_token_sequences_by_slices` -/

/-- The keep mask of one row. `refLen = none` is `ref_lens is None`. -/
def tokenMask (partialOk : Bool) (toks : List Tok) (sl : Int × Int) (refLen : Option Int) :
    List Bool :=
  List.zipWith (fun (tk : Tok) (r : Nat) =>
    let s := tk.2.1
    let e := tk.2.2
    let m := (match refLen with
      | none => true
      | some l => decide (l > (r : Int)))
    let m := m && (decide (s ≥ 0) && decide (e ≥ 0)) && decide (e ≥ s)
    if partialOk then m && decide (sl.1 < e) && decide (sl.2 > s)
    else m && decide (sl.1 ≤ s) && decide (sl.2 ≥ e)) toks (List.range toks.length)

/-- `masked_scatter_` back into an `(N, R, 3)` tensor whose row `n` has `lens[n]` true cells:
the rows consume the flat buffer front to back. -/
def splitLens {α} : List Nat → List α → List (List α)
  | [], _ => []
  | k :: ks, flat => flat.take k :: splitLens ks (flat.drop k)

/-- `chunked[..., 1:] += slices[..., 0]` (unless `retain`). -/
def shiftTok (retain : Bool) (start : Int) (tk : Tok) : Tok :=
  if retain then tk else (tk.1, tk.2.1 + start, tk.2.2 + start)

/-- The 3-D case of `chunk_token_sequences_by_slices`. Returns the valid region of `chunked`
(row `n` up to `chunked_lens[n]`) and `chunked_lens`. -/
def chunkTokens (partialOk retain : Bool) (refs : List (List Tok)) (slices : List (Int × Int))
    (refLens : Option (List Int)) : List (List Tok) × List Nat :=
  let N := refs.length
  let masks := (List.range N).map fun n =>
    tokenMask partialOk (refs.getD n []) (slices.getD n (0, 0)) (refLens.map fun l => l.getD n 0)
  let chunkedLens := masks.map fun m => (m.filter id).length
  let flat := select refs.flatten masks.flatten
  let rows := splitLens chunkedLens flat
  let shifted := List.zipWith (fun row (sl : Int × Int) => row.map (shiftTok retain sl.1)) rows slices
  (shifted, chunkedLens)

/-- `chunk_token_sequences_by_slices` with its shape checks (3-D `refs`): `slices.shape != (N, 2)` and
`ref_lens.shape != (N,)` raise `RuntimeError` before anything is computed. -/
def chunkTokensEntry (partialOk retain : Bool) (refs : List (List Tok)) (slices : List (Int × Int))
    (refLens : Option (List Int)) : Except Err (List (List Tok) × List Nat) :=
  if slices.length != refs.length then .error .shape else
  if !lensOk refs.length refLens then .error .shape else
  .ok (chunkTokens partialOk retain refs slices refLens)

/-! ## `command_line._chunk_torch_spect_data_dir_do_work`: what is written for one utterance -/

inductive Policy where
  | fixed | ali | ref
  deriving Repr, DecidableEq

/-- One utterance of a data directory: `T` frames of features, the per-frame alignment, the token
segments. -/
structure Utt where
  T : Nat
  ali : List Int
  ref : List Tok

/-- `slicer(feats)` / `slicer(alis)` / `slicer(refs)` on the unsqueezed utterance (`N = 1`, no
lengths), `valid_only = (pad_mode is None)`. -/
def dirSlices (policy : Policy) (wt : WinType) (validOnly : Bool) (lobe : Nat) (u : Utt) :
    Except Err (List Win) :=
  match policy with
  | .fixed => sliceSpectData (.feats 1 u.T) none none wt validOnly lobe
  | .ali => sliceSpectData (.ali 1 u.T [u.ali]) none none wt validOnly lobe
  | .ref => sliceSpectData (.ref 1 u.ref.length [u.ref]) none none wt validOnly lobe

/-- The chunks of one utterance: `ref_chunker(refs.expand(M, ...), slices)` — the utterance's tokens
against each of its `M` slices — and chunk `n` is written under slice `n`'s name. (Features and
alignments go through `ChunkBySlices`, property C09.) -/
def dirChunks (policy : Policy) (wt : WinType) (validOnly : Bool) (lobe : Nat) (partialOk retain : Bool)
    (u : Utt) : Except Err (List (Win × List Tok)) :=
  match dirSlices policy wt validOnly lobe u with
  | .error e => .error e
  | .ok ws =>
    .ok (List.zip ws
      (chunkTokens partialOk retain (List.replicate ws.length u.ref) (ws.map fun w => (w.start, w.stop)) none).1)

end PdtVerif.Slicing
