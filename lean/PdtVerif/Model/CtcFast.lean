import PdtVerif.Model.CtcPrefix
/-!
# C05: the model's `topk` legitimacy test, evaluated in one pass

`CtcPrefix.isTopK cand K sel` reads `cand[i]` through `List.getD` inside a loop over
`List.range cand.length`: quadratic in the number of candidates (`K' · (V + 1)`), times `K`.
For the wide beams / large vocabularies of the size classes of the harness (`K' · (V + 1)` in the
thousands) the driver evaluates `isTopKFast`, which walks the candidate list once
(`List.zipIdx`) and reads the selected values once.  `Properties/C05.lean` proves
`isTopKFast = isTopK` (`C05_topk_fast`), so the driver's verdict is the model's.

Mathlib-free (the driver runs it).
-/
namespace PdtVerif.CtcPrefix

/-- `isTopK` with every candidate value read once: the selected values `vals` are looked up once,
the last clause walks `cand` together with its indices. -/
def isTopKFast (cand : List XR) (K : Nat) (sel : List Nat) : Bool :=
  let vals := sel.map (getX cand)
  sel.length == K
  && sel.all (· < cand.length)
  && nodupB sel
  && nonIncr vals
  && cand.zipIdx.all (fun xi => sel.contains xi.2 || vals.all (fun y => XR.le xi.1 y))

end PdtVerif.CtcPrefix
