import PdtVerif.Model.StringMatchBatch
/-!
# The module layer of C01: `EditDistance` / `PrefixEditDistances` as objects with a life

`_string.py::_StringMatching.__init__` stores every (validated) constructor argument in a public attribute
of the same name; `EditDistance.forward` / `PrefixEditDistances.forward` read those attributes AT CALL TIME
and hand them to `edit_distance` / `prefix_edit_distances`:

```
def forward(self, ref, hyp):
    return edit_distance(ref, hyp, self.eos, self.include_eos, self.norm, self.batch_first,
                         self.ins_cost, self.del_cost, self.sub_cost, self.warn)
```

The model: the object is the record of its public attributes (`SMModule`), an assignment
`module.attr = value` replaces one field (`SMModule.assign`), a call evaluates the tensor-level model of the
functional (`Model/StringMatchBatch.lean`) on the record's CURRENT fields and leaves the record unchanged
(`SMModule.forwardED`, `SMModule.forwardPED`, `runSession`). Nothing is cached between construction and the
call, nothing between two calls.

`warn` is carried (it is a public attribute and is shown by `extra_repr`) but no number depends on it.

Mathlib-free (the driver runs this file).
-/
namespace PdtVerif.StringMatch
open PdtVerif.Lev

variable {α : Type} [DecidableEq α]

/-- The public attributes of an `EditDistance` / `PrefixEditDistances` object (`padding` and `excludeLast`
are only read by `PrefixEditDistances.forward`). -/
structure SMModule (α : Type) where
  eos : Option α
  includeEos : Bool
  norm : Bool
  batchFirst : Bool
  insCost : Rat
  delCost : Rat
  subCost : Rat
  padding : Int
  excludeLast : Bool
  warn : Bool
deriving DecidableEq

/-- `EditDistance(eos=None, include_eos=False, norm=False, batch_first=False, ins_cost=1.0, del_cost=1.0,
sub_cost=1.0, warn=True)` — the documented defaults. (`padding` / `excludeLast` are not attributes of this
class; the record carries inert values.) -/
def SMModule.newED (eos : Option α := none) (includeEos : Bool := false) (norm : Bool := false)
    (batchFirst : Bool := false) (insCost : Rat := 1) (delCost : Rat := 1) (subCost : Rat := 1)
    (warn : Bool := true) : SMModule α :=
  ⟨eos, includeEos, norm, batchFirst, insCost, delCost, subCost, -100, false, warn⟩

/-- `PrefixEditDistances(eos=None, include_eos=True, norm=False, batch_first=False, ins_cost=1.0,
del_cost=1.0, sub_cost=1.0, padding=-100, exclude_last=False, warn=True)`. -/
def SMModule.newPED (eos : Option α := none) (includeEos : Bool := true) (norm : Bool := false)
    (batchFirst : Bool := false) (insCost : Rat := 1) (delCost : Rat := 1) (subCost : Rat := 1)
    (padding : Int := -100) (excludeLast : Bool := false) (warn : Bool := true) : SMModule α :=
  ⟨eos, includeEos, norm, batchFirst, insCost, delCost, subCost, padding, excludeLast, warn⟩

/-- `module.<attribute> = value`. -/
inductive Assign (α : Type) where
  | eos (v : Option α)
  | includeEos (v : Bool)
  | norm (v : Bool)
  | batchFirst (v : Bool)
  | insCost (v : Rat)
  | delCost (v : Rat)
  | subCost (v : Rat)
  | padding (v : Int)
  | excludeLast (v : Bool)
  | warn (v : Bool)

/-- The object after one assignment: that attribute holds the new value, the others are untouched. -/
def SMModule.assign (m : SMModule α) : Assign α → SMModule α
  | .eos v => { m with eos := v }
  | .includeEos v => { m with includeEos := v }
  | .norm v => { m with norm := v }
  | .batchFirst v => { m with batchFirst := v }
  | .insCost v => { m with insCost := v }
  | .delCost v => { m with delCost := v }
  | .subCost v => { m with subCost := v }
  | .padding v => { m with padding := v }
  | .excludeLast v => { m with excludeLast := v }
  | .warn v => { m with warn := v }

/-- The object after a sequence of assignments (in program order). -/
def SMModule.assignAll (m : SMModule α) (as : List (Assign α)) : SMModule α := as.foldl SMModule.assign m

/-- The cost triple the object carries NOW. -/
def SMModule.costs (m : SMModule α) : Costs := ⟨m.insCost, m.delCost, m.subCost⟩

/-- `EditDistance.forward`: the functional on the attributes as they are at the time of the call. -/
def SMModule.forwardED (m : SMModule α) (ref hyp : Tensor2 α) (dflt : α) : Except String (List Rat) :=
  editDistanceT m.costs m.eos m.includeEos m.norm m.batchFirst ref hyp dflt

/-- `PrefixEditDistances.forward`. -/
def SMModule.forwardPED (m : SMModule α) (ref hyp : Tensor2 α) (dflt : α) : Except String (Tensor2 Rat) :=
  prefixEditDistancesT m.costs m.eos m.includeEos m.norm m.batchFirst m.excludeLast m.padding ref hyp dflt

/-! ### A program that uses one module object: assignments and calls interleaved -/

/-- One statement of such a program. -/
inductive Event (α : Type) where
  | assign (a : Assign α)
  | call (ref hyp : Tensor2 α)

/-- Run the program against the object `m` with `fwd` as the module's `forward`; returns the object at the
end and the results of the calls in program order. A call does not change the object. -/
def runSession {β : Type} (fwd : SMModule α → Tensor2 α → Tensor2 α → β) :
    SMModule α → List (Event α) → SMModule α × List β
  | m, [] => (m, [])
  | m, .assign a :: es => runSession fwd (m.assign a) es
  | m, .call r h :: es => ((runSession fwd m es).1, fwd m r h :: (runSession fwd m es).2)

/-- The assignments of a program, in order (the calls dropped). -/
def assignsOf : List (Event α) → List (Assign α)
  | [] => []
  | .assign a :: es => a :: assignsOf es
  | .call _ _ :: es => assignsOf es

/-- How many calls a program makes. -/
def callCount : List (Event α) → Nat
  | [] => 0
  | .assign _ :: es => callCount es
  | .call _ _ :: es => callCount es + 1

/-! ### "The value an attribute holds is the one written last" -/

/-- The value a location holds after the writes in `as` (program order), `sel a = some v` meaning that
statement `a` writes `v` into it; `d` is what it held before. -/
def lastWrite {β γ : Type} (sel : γ → Option β) (as : List γ) (d : β) : β :=
  as.foldl (fun cur a => (sel a).getD cur) d

def Assign.eos? : Assign α → Option (Option α) | .eos v => some v | _ => none
def Assign.includeEos? : Assign α → Option Bool | .includeEos v => some v | _ => none
def Assign.norm? : Assign α → Option Bool | .norm v => some v | _ => none
def Assign.batchFirst? : Assign α → Option Bool | .batchFirst v => some v | _ => none
def Assign.insCost? : Assign α → Option Rat | .insCost v => some v | _ => none
def Assign.delCost? : Assign α → Option Rat | .delCost v => some v | _ => none
def Assign.subCost? : Assign α → Option Rat | .subCost v => some v | _ => none
def Assign.padding? : Assign α → Option Int | .padding v => some v | _ => none
def Assign.excludeLast? : Assign α → Option Bool | .excludeLast v => some v | _ => none
def Assign.warn? : Assign α → Option Bool | .warn v => some v | _ => none

/-- The object a fresh construction with the last-written values would give: every attribute holds the
value written last, or the one `m` was constructed with when it was never reassigned. -/
def SMModule.current (m : SMModule α) (as : List (Assign α)) : SMModule α :=
  ⟨lastWrite Assign.eos? as m.eos, lastWrite Assign.includeEos? as m.includeEos,
   lastWrite Assign.norm? as m.norm, lastWrite Assign.batchFirst? as m.batchFirst,
   lastWrite Assign.insCost? as m.insCost, lastWrite Assign.delCost? as m.delCost,
   lastWrite Assign.subCost? as m.subCost, lastWrite Assign.padding? as m.padding,
   lastWrite Assign.excludeLast? as m.excludeLast, lastWrite Assign.warn? as m.warn⟩

end PdtVerif.StringMatch
