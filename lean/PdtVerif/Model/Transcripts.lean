/-!
# Model of `_parsing.py` (trn / ctm / TextGrid / token conversion / path-or-file dispatch)

Follows the code of the anchored functions:

* `_trn_line_to_transcript` — strip, `rindex("(")`/`rindex(")")`, then the character loop
  with the `_AltTree` stack.  The mutable parent/child aliasing of `_AltTree` becomes a
  stack of frames (`done` branches + current branch); an alternate is attached to its
  parent when it is closed (in the code it is attached when opened, through an alias that
  is filled in place — the position in the parent is the same because only the innermost
  tree receives tokens while it is open).  Unclosed alternates are simply never attached.
* `write_trn` (`_handle_x`, recursive, `"{ " + "/ ".join(...) + "} "`).
* `read_trn_iter` — `processes == 0`: loop over lines; `processes > 0`: ordered
  `Pool.imap` over chunks of lines.
* `write_ctm` / `read_ctm` at record level (a line is `wfn chan start dur token`): tuple
  sort of the segments, `OrderedDict.setdefault(...).append`, per-utterance stable sort by
  start.  Python's `sorted` is modelled by core `List.mergeSort` (a stable sort).
* `write_textgrid` / `read_textgrid` — the writer produces a structured file whose numeric
  fields are decimals `mant / 10^prec` (`f"{x:0.{p}f}"`, round-half-even); `render` turns
  it into the exact text lines.  The reader is modelled on the writer's output only.
* `transcript_to_token` / `token_to_transcript` frame arithmetic over `Rat`.
* the `isinstance(x, str)` dispatch as a table of which options each path branch forwards.

No Mathlib imports here: this file is also used by the driver.
-/
namespace PdtVerif.Transcripts

/-! ## trn: transcript trees -/

/-- An element of a transcript: a token, or a list of alternates (branches), each a list of
elements.  At top level Python wraps the alternates as `(alts, -1, -1)`; nested ones are
bare lists. -/
inductive Item where
  | tok (s : List Char)
  | alt (branches : List (List Item))

/-- Top-level elements handed to `write_trn`: an item, or `(token, start, end)` whose times
are ignored ("first get rid of starts and ends"). -/
inductive Top where
  | plain (x : Item)
  | timed (tok : List Char) (s e : Rat)

def Top.item : Top → Item
  | .plain x => x
  | .timed t _ _ => .tok t

/-! ### writer -/

mutual
/-- `_handle_x`. -/
def handle : Item → List Char
  | .tok s => s ++ [' ']
  | .alt bs => ['{', ' '] ++ handleBranches bs ++ ['}', ' ']
/-- `elem = ""; for xx in alts: elem += _handle_x(xx)`. -/
def handleSeq : List Item → List Char
  | [] => []
  | x :: xs => handle x ++ handleSeq xs
/-- `"/ ".join(ret)` with `ret = [elem of each branch]`. -/
def handleBranches : List (List Item) → List Char
  | [] => []
  | [b] => handleSeq b
  | b :: b' :: bs => handleSeq b ++ ['/', ' '] ++ handleBranches (b' :: bs)
end

/-- One line of `write_trn`: `line`, `"("`, `utt_id`, `")\n"`. -/
def writeTrnLine (utt : List Char) (t : List Top) : List Char :=
  handleSeq (t.map Top.item) ++ ['('] ++ utt ++ [')', '\n']

/-! ### reader -/

inductive TrnErr where
  | noUttId    -- IOError("Line does not end in utterance id")
  | emptyAlt   -- IOError('Empty alternate found ("{ }")')
  | badChunk   -- ValueError("Chunksize must be 1+, not 0"): `Pool.imap(f, it, chunksize)` with `chunksize < 1`
  deriving Repr, DecidableEq

/-- What `str.strip()` / `str.split()` treat as white space: exactly the code points with
`str.isspace()` (U+0009–000D, U+001C–001F, U+0020, U+0085, U+00A0, U+1680, U+2000–200A, U+2028,
U+2029, U+202F, U+205F, U+3000). -/
def isPyWhite (c : Char) : Bool :=
  c == ' ' || c == '\t' || c == '\n' || c == '\r' || c == '\x0b' || c == '\x0c' ||
  c == '\x1c' || c == '\x1d' || c == '\x1e' || c == '\x1f' || c == '\u0085' || c == '\u00a0' ||
  c == '\u1680' || c == '\u2000' || c == '\u2001' || c == '\u2002' || c == '\u2003' || c == '\u2004' ||
  c == '\u2005' || c == '\u2006' || c == '\u2007' || c == '\u2008' || c == '\u2009' || c == '\u200a' ||
  c == '\u2028' || c == '\u2029' || c == '\u202f' || c == '\u205f' || c == '\u3000'

def strip (l : List Char) : List Char :=
  ((l.dropWhile isPyWhite).reverse.dropWhile isPyWhite).reverse

/-- `(l[:i], l[i+1:])` for `i = l.rindex(c)`; `none` if `c` does not occur. -/
def splitLast (c : Char) (l : List Char) : Option (List Char × List Char) :=
  match l.reverse.span (· != c) with
  | (_, []) => none
  | (ra, _ :: rb) => some (rb.reverse, ra.reverse)

/-- A non-root `_AltTree`: the branches already finished and the current branch. -/
structure Frame where
  done : List (List Item)
  cur : List Item

/-- State of the character loop. `stack = []` ⇔ `alt_tree.parent is None`. -/
structure St where
  out : List Item
  token : List Char
  stack : List Frame
  foundAlt : Bool

def St.init : St := ⟨[], [], [], false⟩

/-- `transcript.append(x)` at the root, `alt_tree.tokens.append(x)` inside an alternate. -/
def pushItem (st : St) (x : Item) : St :=
  match st.stack with
  | [] => { st with out := st.out ++ [x] }
  | f :: fs => { st with stack := { f with cur := f.cur ++ [x] } :: fs }

/-- `if token: <append it>; token = ""`. -/
def flush (st : St) : St :=
  if st.token.isEmpty then st else { pushItem st (.tok st.token) with token := [] }

/-- One iteration of `while len(line)`. -/
def step (st : St) (c : Char) : Except TrnErr St :=
  if c == '{' then
    let st := flush st
    .ok { st with stack := ⟨[], []⟩ :: st.stack, foundAlt := true }
  else if c == '/' && !st.stack.isEmpty then
    let st := flush st
    match st.stack with
    | f :: fs => .ok { st with stack := ⟨f.done ++ [f.cur], []⟩ :: fs }
    | [] => .ok st
  else if c == '}' && !st.stack.isEmpty then
    let st := flush st
    match st.stack with
    | f :: fs =>
      if f.cur.isEmpty then .error .emptyAlt
      else .ok (pushItem { st with stack := fs } (.alt (f.done ++ [f.cur])))
    | [] => .ok st
  else if c == ' ' then .ok (flush st)
  else .ok { st with token := st.token ++ [c] }

def run : St → List Char → Except TrnErr St
  | st, [] => .ok st
  | st, c :: cs => match step st c with
    | .ok st' => run st' cs
    | .error e => .error e

/-- `if token and alt_tree.parent is None: transcript.append(token)`; open alternates are dropped. -/
def finish (st : St) : List Item :=
  if !st.token.isEmpty && st.stack.isEmpty then st.out ++ [.tok st.token] else st.out

/-- `_trn_line_to_transcript`: `none` for a blank line, else `(utt_id, transcript, found_alt)`. -/
def readTrnLine (line : List Char) : Except TrnErr (Option (List Char × List Item × Bool)) :=
  let line := strip line
  if line.isEmpty then .ok none else
  match splitLast '(' line with
  | none => .error .noUttId
  | some (pre, post) =>
    match splitLast ')' post with
    | none => .error .noUttId          -- no ")" at all, or last_open > last_close
    | some (utt, _) =>
      match run St.init (strip pre) with
      | .error e => .error e
      | .ok st => .ok (some (utt, finish st, st.foundAlt))

/-- The first exception met while consuming a sequence of per-line results, else all of them. -/
def collect {α ε} : List (Except ε α) → Except ε (List α)
  | [] => .ok []
  | .error e :: _ => .error e
  | .ok a :: rest => match collect rest with
    | .ok as => .ok (a :: as)
    | .error e => .error e

/-- `read_trn` with `processes == 0`. -/
def readTrnSeq (lines : List (List Char)) : Except TrnErr (List (List Char × List Item × Bool)) :=
  match collect (lines.map readTrnLine) with
  | .ok rs => .ok (rs.filterMap id)
  | .error e => .error e

/-- Split into consecutive chunks of `n`. (Total: `n = 0` behaves as 1 — `readTrnPool` never gets there,
it refuses a chunk size of 0 as `Pool.imap` does.) -/
def chunks {α} (n : Nat) : List α → List (List α)
  | [] => []
  | x :: xs => (x :: xs).take (max n 1) :: chunks n ((x :: xs).drop (max n 1))
termination_by l => l.length
decreasing_by simp; omega

/-- `read_trn` with `processes > 0`: `Pool.imap(f, lines, chunk_size)` hands consecutive chunks
to workers and yields the results in submission order, whatever the completion order.
`Pool.imap` refuses `chunksize < 1` with a `ValueError` before any line is looked at (also for an empty
file); with `processes == 0` the chunk size is never used. -/
def readTrnPool (chunkSize : Nat) (lines : List (List Char)) :
    Except TrnErr (List (List Char × List Item × Bool)) :=
  if chunkSize = 0 then .error .badChunk else
  match collect ((chunks chunkSize lines).map (fun ch => ch.map readTrnLine)).flatten with
  | .ok rs => .ok (rs.filterMap id)
  | .error e => .error e

/-! ## ctm (record level) -/

/-- One ctm line `wfn chan start dur token`. -/
structure Seg where
  wfn : String
  chan : String
  start : Rat
  dur : Rat
  tok : String
  deriving Repr, DecidableEq

/-- `(token, start, end)`. -/
abbrev Timed := String × Rat × Rat
abbrev Transcripts := List (String × List Timed)

inductive CtmErr where
  | key     -- KeyError: utterance / (wfn, chan) not in the mapping
  | value   -- ValueError: negative time, negative duration, start > end
  deriving Repr, DecidableEq

/-- `utt2wc`: a channel string (`wfn = utt_id`) or a dict. -/
inductive Utt2Wc where
  | chan (c : String)
  | dict (m : List (String × (String × String)))

def Utt2Wc.get (m : Utt2Wc) (u : String) : Option (String × String) :=
  match m with
  | .chan c => some (u, c)
  | .dict d => d.lookup u

/-- Python tuple comparison `a <= b` on `(wfn, chan, start, duration, token)`. -/
def Seg.le (a b : Seg) : Bool :=
  decide (a.wfn < b.wfn) || (a.wfn == b.wfn &&
  (decide (a.chan < b.chan) || (a.chan == b.chan &&
  (decide (a.start < b.start) || (a.start == b.start &&
  (decide (a.dur < b.dur) || (a.dur == b.dur &&
  (decide (a.tok < b.tok) || a.tok == b.tok))))))))

def segsOfUtt (m : Utt2Wc) (u : String) (t : List Timed) : Except CtmErr (List Seg) :=
  match m.get u with
  | none => .error .key
  | some (wfn, chan) =>
    t.mapM (fun (tok, s, e) =>
      if s < 0 || e < 0 then .error .value
      else if e - s < 0 then .error .value
      else .ok ⟨wfn, chan, s, e - s, tok⟩)

/-- `write_ctm`: the sorted list of lines. -/
def writeCtm (m : Utt2Wc) (ts : Transcripts) : Except CtmErr (List Seg) :=
  match ts.mapM (fun (u, t) => segsOfUtt m u t) with
  | .error e => .error e
  | .ok segss => .ok (segss.flatten.mergeSort Seg.le)

/-- `transcripts.setdefault(utt_id, []).append(v)` on an `OrderedDict`. -/
def groupAdd {V} (k : String) (v : V) : List (String × List V) → List (String × List V)
  | [] => [(k, [v])]
  | (k', vs) :: rest => if k' == k then (k', vs ++ [v]) :: rest else (k', vs) :: groupAdd k v rest

def group {V} (l : List (String × V)) : List (String × List V) :=
  l.foldl (fun acc kv => groupAdd kv.1 kv.2 acc) []

/-- `key=lambda x: x[1]`. -/
def startLe (a b : Timed) : Bool := decide (a.2.1 ≤ b.2.1)

/-- One line of `read_ctm` after splitting: `(utt_id, (token, start, start + dur))`. -/
def readSeg (wc2utt : Option (String × String → Option String)) (s : Seg) :
    Except CtmErr (String × Timed) :=
  match (match wc2utt with | none => some s.wfn | some f => f (s.wfn, s.chan)) with
  | none => .error .key
  | some u =>
    let e := s.start + s.dur
    if s.start < 0 || s.start > e then .error .value else .ok (u, (s.tok, s.start, e))

/-- `read_ctm`. -/
def readCtm (wc2utt : Option (String × String → Option String)) (lines : List Seg) :
    Except CtmErr Transcripts :=
  match lines.mapM (readSeg wc2utt) with
  | .error e => .error e
  | .ok kvs => .ok ((group kvs).map (fun (u, t) => (u, t.mergeSort startLe)))

/-! ## TextGrid -/

/-- A number printed by `f"{x:0.{p}f}"`: `mant / 10^prec` (non-negative in the domain). -/
structure Dec where
  mant : Int
  prec : Nat
  deriving Repr, DecidableEq

def Dec.val (d : Dec) : Rat := (d.mant : Rat) / ((10 ^ d.prec : Nat) : Rat)

/-- Round to the nearest integer, ties to even (what correctly rounded `%f` does with an
exactly representable tie). -/
def roundHalfEven (y : Rat) : Int :=
  let fl := y.floor
  let r := y - (fl : Rat)
  if r < 1/2 then fl
  else if 1/2 < r then fl + 1
  else if fl % 2 == 0 then fl else fl + 1

/-- `f"{x:0.{p}f}"` as a decimal. -/
def fmt (p : Nat) (x : Rat) : Dec := ⟨roundHalfEven (x * ((10 ^ p : Nat) : Rat)), p⟩

def padLeft (n : Nat) (s : String) : String := String.ofList (List.replicate (n - s.length) '0') ++ s

/-- The text of a `Dec` (`"-"` only for a negative mantissa; Python would print `-0.00` for a
negative number that rounds to zero — outside the property's domain). -/
def Dec.render (d : Dec) : String :=
  let a := d.mant.natAbs
  let q := 10 ^ d.prec
  let sign := if d.mant < 0 then "-" else ""
  if d.prec == 0 then sign ++ toString a
  else sign ++ toString (a / q) ++ "." ++ padLeft d.prec (toString (a % q))

inductive TgBody where
  | points (l : List (Dec × String))
  | intervals (l : List (Dec × Dec × String))
  deriving Repr, DecidableEq

/-- The single-tier "OldooTextFile" that `write_textgrid` emits. -/
structure TgFile where
  xmin : Dec
  xmax : Dec
  name : String
  tmin : Dec
  tmax : Dec
  body : TgBody
  deriving Repr, DecidableEq

inductive TgErr where
  | value | index
  deriving Repr, DecidableEq

structure TgWriteOpts where
  startTime : Option Rat := none
  endTime : Option Rat := none
  tierName : String := "transcript"
  pointTier : Option Bool := none
  precision : Nat := 3

def minList : List Rat → Rat
  | [] => 0
  | x :: xs => xs.foldl min x

def maxList : List Rat → Rat
  | [] => 0
  | x :: xs => xs.foldl max x

/-- `start_time`: default = the tier's own start; a later one is a `ValueError`. -/
def checkStart (given : Option Rat) (tierStart : Rat) : Except TgErr Rat :=
  match given with
  | none => .ok tierStart
  | some s => if s > tierStart then .error .value else .ok s

/-- `end_time`: default = the tier's own end; an earlier one is a `ValueError`. -/
def checkEnd (given : Option Rat) (tierEnd : Rat) : Except TgErr Rat :=
  match given with
  | none => .ok tierEnd
  | some e => if e < tierEnd then .error .value else .ok e

/-- `point_tier`: given, or inferred: all segments have equal printed start and end. -/
def isPointTier (t : List Timed) (o : TgWriteOpts) : Bool :=
  match o.pointTier with
  | some b => b
  | none => t.all (fun x => fmt o.precision x.2.1 == fmt o.precision x.2.2)

def tgBody (t : List Timed) (o : TgWriteOpts) : TgBody :=
  if isPointTier t o then TgBody.points (t.map (fun x => (fmt o.precision x.2.1, x.1)))
  else TgBody.intervals (t.map (fun x => (fmt o.precision x.2.1, fmt o.precision x.2.2, x.1)))

/-- `write_textgrid` on an open file. -/
def writeTextGrid (t : List Timed) (o : TgWriteOpts) : Except TgErr TgFile :=
  if t.isEmpty then .error .value else
  let tierStart := minList (t.map (·.2.1))
  let tierEnd := maxList (t.map (·.2.2))
  match checkStart o.startTime tierStart with
  | .error e => .error e
  | .ok startTime =>
  match checkEnd o.endTime tierEnd with
  | .error e => .error e
  | .ok endTime =>
  let p := o.precision
  .ok ⟨fmt p startTime, fmt p endTime, o.tierName, fmt p tierStart, fmt p tierEnd, tgBody t o⟩

/-- The zero-length test of the `point_tier` inference made at precision `q`: every segment's start and end
print identically with `q` digits. The code tests at the print precision (`q = precision`), see
`isPointTier`. -/
def inferPointAt (q : Nat) (t : List Timed) : Bool :=
  t.all (fun x => fmt q x.2.1 == fmt q x.2.2)

/-- `write_textgrid` with the inference judged at precision `q` instead of the print precision (what a
writer that ignores the caller's `precision` in the inference does with `q = 3`). Equal to `writeTextGrid`
for `q = o.precision`. -/
def writeTextGridInferAt (q : Nat) (t : List Timed) (o : TgWriteOpts) : Except TgErr TgFile :=
  writeTextGrid t { o with pointTier := some (o.pointTier.getD (inferPointAt q t)) }

def TgBody.size : TgBody → Nat
  | .points l => l.length
  | .intervals l => l.length

/-- The exact lines written (each is followed by `"\n"`). -/
def TgFile.render (f : TgFile) : List String :=
  [ "File type = \"ooTextFile\"", "Object class = \"TextGrid\"",
    f.xmin.render, f.xmax.render, "<exists>", "1",
    (match f.body with | .points _ => "\"TextTier\"" | .intervals _ => "\"IntervalTier\""),
    "\"" ++ f.name ++ "\"", f.tmin.render, f.tmax.render, toString f.body.size ] ++
  (match f.body with
   | .points l => l.flatMap (fun (t, tok) => [t.render, "\"" ++ tok ++ "\""])
   | .intervals l => l.flatMap (fun (s, e, tok) => [s.render, e.render, "\"" ++ tok ++ "\""]))

/-- `tier_id`: a name or a (Python, possibly negative) index. -/
inductive TierId where
  | name (s : String)
  | idx (i : Int)

/-- How `read_textgrid` orders the entries. -/
inductive TgSort where
  | pinned   -- `sorted(tier.simple_transcript)`: tuples of *strings*
  | byStart  -- repaired: stable sort on `float(start)`

/-- `simple_transcript` entries as the regex reader yields them on writer output: strings. -/
def strTupleLe (a b : List String) : Bool := decide (a < b) || a == b

/-- The while-loop that inserts the fill intervals, as coded (`transcript.insert(i, …)`). -/
def fillLoop (fill : Option String) : Nat → Nat → Rat → List Timed → List Timed × Rat
  | 0, _, st, tr => (tr, st)
  | fuel + 1, i, st, tr =>
    match tr[i]? with
    | none => (tr, st)
    | some (_, nextStart, endTime) =>
      match fill with
      | some ft =>
        if st < nextStart then fillLoop fill fuel (i + 2) endTime (tr.insertIdx i (ft, st, nextStart))
        else fillLoop fill fuel (i + 1) endTime tr
      | none => fillLoop fill fuel (i + 1) endTime tr

/-- Entries of the tier as `(token, start, end)` in file order, with the strings they came from. -/
def TgBody.entries : TgBody → List (List String × Timed)
  | .points l => l.map (fun (t, tok) => ([t.render, tok], (tok, t.val, t.val)))
  | .intervals l => l.map (fun (s, e, tok) => ([s.render, e.render, tok], (tok, s.val, e.val)))

/-- Tier selection: `tier_id` is the (first) tier with that name, or an index into the list of
tiers — there is exactly one tier in a file written by `write_textgrid`. -/
def tierFound (f : TgFile) (tier : TierId) : Except TgErr Unit :=
  match tier with
  | .name s => if f.name == s then .ok () else .error .value
  | .idx i => if i == 0 || i == -1 then .ok () else .error .index

/-- The entries as `(token, start, end)` after the `sorted(...)` of `read_textgrid`. -/
def sortedTimes (srt : TgSort) (f : TgFile) : List Timed :=
  (match srt with
    | .pinned => f.body.entries.mergeSort (fun a b => strTupleLe a.1 b.1)
    | .byStart => f.body.entries.mergeSort (fun a b => startLe a.2 b.2)).map
    (fun (x : List String × Timed) => x.2)

/-- The fill loop plus the closing interval up to `tier.xmax`. -/
def fillAll (fill : Option String) (tmin tmax : Rat) (tr : List Timed) : List Timed :=
  let r := fillLoop fill (tr.length + 1) 0 tmin tr
  match fill with
  | some ft => if r.2 < tmax then r.1 ++ [(ft, r.2, tmax)] else r.1
  | none => r.1

/-- `read_textgrid` on the writer's output. -/
def readTextGrid (srt : TgSort) (f : TgFile) (tier : TierId) (fill : Option String) :
    Except TgErr (List Timed × Rat × Rat) :=
  match tierFound f tier with
  | .error e => .error e
  | .ok () => .ok (fillAll fill f.tmin.val f.tmax.val (sortedTimes srt f), f.tmin.val, f.tmax.val)

/-! ## transcript ↔ token tensor -/

/-- A token as it appears in a transcript or as an id: a string or an integer. -/
inductive Tok where
  | s (v : String)
  | i (v : Int)
  deriving Repr, DecidableEq

inductive TElem where
  | plain (t : Tok)
  | timed (t : Tok) (s e : Rat)
  deriving Repr, DecidableEq

inductive FrErr where
  | badId   -- a non-integer ends up as the id (torch refuses the assignment)
  deriving Repr, DecidableEq

/-- `int(x)`: truncation toward zero. -/
def truncInt (x : Rat) : Int := if 0 ≤ x then x.floor else -((-x).floor)

/-- The start/end arithmetic of `transcript_to_token`. `f = none` ⇔ `frame_shift_ms` falsy: the callers
(`transcriptToTokenPy`, `tokenToTranscriptPy`) pass `truthy frame_shift_ms`, so `some 0` does not get here. -/
def toFrames (f : Option Rat) (s e : Rat) : Int × Int :=
  match f with
  | some f =>
    if s == e then
      let k := ((1000 * s) / f).floor
      (k, k)
    else
      let a := ((1000 * s) / f).floor
      let b := ((1000 * e + (1/2 : Rat) * f) / f).floor
      (a, max b (a + 1))
  | none => (truncInt s, truncInt e)

/-- `if token2id is not None and unk in token2id: unk = token2id[unk]`. -/
def resolveUnk (token2id : Option (List (Tok × Int))) (unk : Option Tok) : Option Tok :=
  match token2id, unk with
  | some m, some u => match m.lookup u with
    | some v => some (.i v)
    | none => some u
  | _, u => u

def lookupId (token2id : Option (List (Tok × Int))) (unk : Option Tok) (t : Tok) : Except FrErr Int :=
  let id_ : Tok := match token2id with
    | none => t
    | some m => match m.lookup t with
      | some v => .i v
      | none => match unk with
        | none => t
        | some u => u
  match id_ with
  | .i v => .ok v
  | .s _ => .error .badId

/-- One iteration of the loop of `transcript_to_token`: the row `(id, start, end)`
(`-1, -1` when the element carries no times). `unk` is already resolved. -/
def rowOf (token2id : Option (List (Tok × Int))) (f : Option Rat) (unk : Option Tok) (x : TElem) :
    Except FrErr (Int × Int × Int) :=
  match x with
  | .plain tk => (lookupId token2id unk tk).map (fun id => (id, -1, -1))
  | .timed tk s e => (lookupId token2id unk tk).map (fun id => (id, (toFrames f s e).1, (toFrames f s e).2))

/-- `if frame_shift_ms:` — `None` and `0` both mean "no frame shift" (the times are frame indices already). -/
def truthy (f : Option Rat) : Option Rat :=
  match f with
  | some q => if q == 0 then none else some q
  | none => none

/-- `transcript_to_token` after the `if frame_shift_ms:` test: `f = none` is "falsy". -/
def transcriptToToken (token2id : Option (List (Tok × Int))) (f : Option Rat) (unk : Option Tok)
    (t : List TElem) : Except FrErr (List (Int × Int × Int)) :=
  t.mapM (rowOf token2id f (resolveUnk token2id unk))

/-- `transcript_to_token(transcript, token2id, frame_shift_ms, unk)` as called: the entry point the driver
evaluates; a frame shift of `0` never reaches the division in `toFrames`. -/
def transcriptToTokenPy (token2id : Option (List (Tok × Int))) (frameShiftMs : Option Rat) (unk : Option Tok)
    (t : List TElem) : Except FrErr (List (Int × Int × Int)) :=
  transcriptToToken token2id (truthy frameShiftMs) unk t

/-- One iteration of the loop of `token_to_transcript`. -/
def backOf (id2token : Option (List (Int × Tok))) (f : Option Rat) (row : Int × Int × Int) : TElem :=
  let token : Tok := match id2token with
    | none => .i row.1
    | some m => (m.lookup row.1).getD (.i row.1)
  if row.2.1 == -1 || row.2.2 == -1 then .plain token
  else match f with
    | some f => .timed token ((row.2.1 : Rat) * f / 1000) ((row.2.2 : Rat) * f / 1000)
    | none => .timed token row.2.1 row.2.2

/-- `token_to_transcript` on rows `(id, start, end)`. -/
def tokenToTranscript (id2token : Option (List (Int × Tok))) (f : Option Rat)
    (rows : List (Int × Int × Int)) : List TElem :=
  rows.map (backOf id2token f)

/-- `token_to_transcript(ref, id2token, frame_shift_ms)` as called. -/
def tokenToTranscriptPy (id2token : Option (List (Int × Tok))) (frameShiftMs : Option Rat)
    (rows : List (Int × Int × Int)) : List TElem :=
  tokenToTranscript id2token (truthy frameShiftMs) rows

/-! ## path-or-file dispatch -/

/-- One `if isinstance(x, str): with open(x) as f: return fn(f, …)` branch: the function's
options (everything except the file argument and the payload) and those the branch passes on. -/
structure Dispatch where
  fn : String
  options : List String
  forwarded : List String
  deriving Repr, DecidableEq

/-- The branches as they are after the repairs `fixes/C11-textgrid-dispatch.diff` (forwards
`precision`) and `fixes/C11-trn-dispatch.diff` (forwards `chunk_size`).  `write_textgrid`'s path
branch still drops `point_tier`: forwarding it flips an expectation of the pinned test
`tests/test_command_line.py::test_torch_token_data_dir_to_textgrids`, so it stays a known finding. -/
def dispatchTable : List Dispatch := [
  ⟨"parse_arpa_lm", ["token2id", "to_base_e", "ftype", "logger"], ["token2id", "to_base_e", "ftype", "logger"]⟩,
  ⟨"read_trn_iter", ["warn", "processes", "chunk_size"], ["warn", "processes", "chunk_size"]⟩,
  ⟨"write_trn", [], []⟩,
  ⟨"read_ctm", ["wc2utt"], ["wc2utt"]⟩,
  ⟨"write_ctm", ["utt2wc"], ["utt2wc"]⟩,
  ⟨"read_textgrid", ["tier_id", "fill_token"], ["tier_id", "fill_token"]⟩,
  ⟨"write_textgrid", ["start_time", "end_time", "tier_name", "point_tier", "precision"],
    ["start_time", "end_time", "tier_name", "precision"]⟩ ]

/-- The two rows that differ on the pinned tree (`ca0aabc`). -/
def pinnedDefects : List Dispatch := [
  ⟨"read_trn_iter", ["warn", "processes", "chunk_size"], ["warn", "processes"]⟩,
  ⟨"write_textgrid", ["start_time", "end_time", "tier_name", "point_tier", "precision"],
    ["start_time", "end_time", "tier_name"]⟩ ]

/-- What the file branch receives for option `o` when the caller went through the path branch:
the caller's value if the branch forwards `o`, the default otherwise. -/
def viaPath {V} (d : Dispatch) (defaults given : String → V) : String → V :=
  fun o => if d.forwarded.contains o then given o else defaults o

/-- `write_textgrid(path, …)` with a branch that forwards exactly `fwd`. -/
def writeTextGridVia (fwd : List String) (t : List Timed) (o : TgWriteOpts) : Except TgErr TgFile :=
  let dflt : TgWriteOpts := {}
  writeTextGrid t {
    startTime := if fwd.contains "start_time" then o.startTime else dflt.startTime
    endTime := if fwd.contains "end_time" then o.endTime else dflt.endTime
    tierName := if fwd.contains "tier_name" then o.tierName else dflt.tierName
    pointTier := if fwd.contains "point_tier" then o.pointTier else dflt.pointTier
    precision := if fwd.contains "precision" then o.precision else dflt.precision }

end PdtVerif.Transcripts
