/-!
# Model of `_lm.py::LookupLanguageModel`

Follows the code:

* `buildTrie`  – `_build_trie`: the top-down pass that adds the implicit `(-inf, 0)` entries
  for missing suffixes and unigrams, the `sos → V` remapping when the start symbol is outside
  the vocabulary, the per-level sort by *reversed* key, the allocation of the four flat
  buffers with one dummy node after every non-final level, the walk-back that fills the
  offsets of childless parents, the trailing fill, and the choice of integer widths
  (as a function of the sizes; the arithmetic itself is over unbounded `Nat` – a
  wrap-around in the implementation shows up as a buffer mismatch in the correspondence).
* `descend`    – the loop of `_lookup_calc_idx_log_probs` for one batch element and one
  candidate token: the *n-path* (the full n-gram) and the *b-path* (its context) descend
  the reverse trie side by side, `found` is sticky, a finite log-probability on the n-path
  "clobbers" the running value, otherwise the back-off weights are accumulated.
  It is written once, over an abstract navigation structure `Nav`; the flat buffers
  (`flatNav`: `offsets`/`ids` scan over `max_direct_descendants` slots, matches summed as
  the code does) are one instance, the abstract reverse trie of the theorems another.
* `calcIdx`    – window selection of `_lookup_calc_idx_log_probs`: left-padding with `sos`
  up to `N-1` rows, the slice for a scalar index, the `masked_select`/`view` for
  per-element indices, the `sos → V` replacement, then `descend` for every `(b, w)`.
* `fullChunked` – `calc_full_log_probs_chunked`: the first `min(T, N-1)` positions one by
  one on truncated histories, then strided windows (`as_strided` on the contiguous
  buffer, modelled as index arithmetic on the flattened list) in chunks.
* `inferShape` – what `load_state_dict` recovers from `offsets`; `maxDirect` –
  `_infer_max_direct_descendants`.

Values: `LogP` = finite rational | -∞ | NaN (the dummy nodes hold NaN).
The `(hidx >= n)` guard of the code is always true after the padding step and is omitted.
The cast `hist.to(ids.dtype)` is not modelled (it only matters for out-of-vocabulary ids
≥ 256 or negative ones other than `sos`; the harness stays below).

No Mathlib imports: the driver runs this file.
-/
namespace PdtVerif.NgramTrie

/-! ## values -/

inductive LogP where
  | fin (q : Rat)
  | negInf
  | nan
  deriving DecidableEq, Repr, Inhabited

namespace LogP

/-- IEEE addition restricted to {finite, -∞, NaN}. -/
def add : LogP → LogP → LogP
  | nan, _ => nan
  | _, nan => nan
  | negInf, _ => negInf
  | _, negInf => negInf
  | fin a, fin b => fin (a + b)

instance : Add LogP := ⟨add⟩

/-- `torch.isfinite`. -/
def isFinite : LogP → Bool
  | fin _ => true
  | _ => false

/-- Embedding of the spec's values (`none` = -∞). -/
def ofOption : Option Rat → LogP
  | some q => fin q
  | none => negInf

end LogP

/-! ## the two-path descent, over an abstract navigation structure -/

/-- How `_lookup_calc_idx_log_probs` moves through a reverse trie. -/
structure Nav (ν : Type) where
  /-- the unigram node of a token (`desc = token`: direct index, no check) -/
  root : Int → ν
  /-- the direct descendant labelled with the token, if any -/
  child : ν → Int → Option ν
  logp : ν → LogP
  logb : ν → LogP

/-- `found = extend_mask.any(1) & found; desc = where(found, child, desc)`. -/
def stepChild {ν} (nav : Nav ν) (d : ν) (f : Bool) (t : Int) : ν × Bool :=
  if f then
    match nav.child d t with
    | some d' => (d', true)
    | none => (d, false)
  else (d, false)

structure PathState (ν : Type) where
  dN : ν
  fN : Bool
  dB : ν
  fB : Bool
  last : LogP      -- last_logps
  back : LogP      -- last_backoffs

/-- The `for n in range(1, N)` loop. The argument list is the window, most recent token
first, from iteration `n` on: its head is `hist[-n]` (n-path), the next element is
`hist[-(n+1)]` (b-path). A one-element list is the last iteration (`n == N-1`,
`cur_backoffs = 0`). -/
def descendLoop {ν} (nav : Nav ν) : List Int → PathState ν → LogP
  | [], st => st.last
  | [t], st =>
    let (dN, fN) := stepChild nav st.dN st.fN t
    let lp := nav.logp dN
    if lp.isFinite && fN then lp else st.last + LogP.fin 0 + st.back
  | t :: t' :: rest, st =>
    let (dN, fN) := stepChild nav st.dN st.fN t
    let (dB, fB) := stepChild nav st.dB st.fB t'
    let lp := nav.logp dN
    let cur := if fB then nav.logb dB else LogP.fin 0
    let clobber := lp.isFinite && fN
    let last := if clobber then lp else st.last + cur + st.back
    let back := if clobber then cur else LogP.fin 0
    descendLoop nav (t' :: rest) ⟨dN, fN, dB, fB, last, back⟩

/-- One `(b, w)` cell. `rwin` is the window of `N-1` tokens, most recent first. -/
def descend {ν} (nav : Nav ν) (rwin : List Int) (w : Int) : LogP :=
  match rwin with
  | [] => nav.logp (nav.root w)
  | t0 :: _ =>
    descendLoop nav rwin
      ⟨nav.root w, true, nav.root t0, true, nav.logp (nav.root w), nav.logb (nav.root t0)⟩

/-! ## flat buffers -/

structure Buffers where
  N : Nat                 -- max_ngram
  G : Nat                 -- max_ngram_nodes
  S : Nat                 -- max_direct_descendants
  offsets : Array Nat
  ids : Array Int
  logps : Array LogP
  logbs : Array LogP
  offBits : Nat           -- 8 / 16 / 32 / 64 (uint8, int16, int32, int64)
  idBits : Nat
  deriving Repr

def shiftOf (V : Nat) (sos : Int) : Nat := if 0 ≤ sos ∧ sos < V then 0 else 1

/-- `U = V + shift + (1 % N)`. -/
def uOf (V : Nat) (sos : Int) (N : Nat) : Nat := V + shiftOf V sos + 1 % N

/-- Navigation in the flat buffers. -/
def flatNav (b : Buffers) (U : Nat) : Nav Nat where
  root t := t.toNat
  child d t :=
    let P := b.logps.size
    let s := b.offsets.getD d 0 + d
    let e := b.offsets.getD (d + 1) 0 + d + 1
    let hits := (List.range b.S).filter
      (fun j => decide (e > s + j) && b.ids.getD (min (s + j) (P - 1) - U) 0 == t)
    if hits.isEmpty then none else some ((hits.map (s + ·)).sum)
  logp d := b.logps.getD d LogP.nan
  logb d := b.logbs.getD d LogP.nan

/-- `hist.masked_fill(hist.eq(sos), V)` when `shift`. -/
def remapTok (V : Nat) (sos : Int) (t : Int) : Int :=
  if shiftOf V sos = 1 ∧ t = sos then (V : Int) else t

/-- One row of the result: the window (oldest first, as selected from `hist`) → `V` values. -/
def rowOf (b : Buffers) (V : Nat) (sos : Int) (win : List Int) : List LogP :=
  if b.N = 1 then (List.range V).map (fun w => b.logps.getD w LogP.nan)
  else
    let rwin := (win.map (remapTok V sos)).reverse
    (List.range V).map (fun w => descend (flatNav b (uOf V sos b.N)) rwin (Int.ofNat w))

/-! ## window selection (`_lookup_calc_idx_log_probs` before the loop) -/

/-- Column `j` of a row-major matrix. -/
def col (hist : List (List Int)) (j : Nat) : List Int := hist.map (fun r => r.getD j 0)

/-- The padding step: `rem = (N-1) - hidx_min`; returns the padded history and `rem`. -/
def padHist (N : Nat) (sos : Int) (B : Nat) (hist : List (List Int)) (hmin : Nat) :
    List (List Int) × Nat :=
  let rem := (N - 1) - hmin
  (List.replicate rem (List.replicate B sos) ++ hist, rem)

/-- Scalar `hidx`: `hist = hist[-rem:hidx_min]` after padding, one window per column. -/
def windowsScalar (N : Nat) (sos : Int) (B : Nat) (hist : List (List Int)) (i : Nat) :
    List (List Int) :=
  let (h, rem) := padHist N sos B hist i
  let i' := i + rem
  -- `rem` was reset to 0 when positive; otherwise `-rem = hidx_min - (N-1)`
  let rows := (h.take i').drop (i' - (N - 1))
  (List.range B).map (col rows)

/-- Per-element `hidx`: `hist.T.masked_select(mask).view(B, N-1)`. -/
def windowsVec (N : Nat) (sos : Int) (B : Nat) (hist : List (List Int)) (hidx : List Nat) :
    List (List Int) :=
  let hmin := hidx.foldl min (hidx.headD 0)
  let (h, rem) := padHist N sos B hist hmin
  let Tp := h.length
  let sel := (List.range B).flatMap (fun b =>
    let ib : Nat := hidx.getD b 0 + rem
    ((List.range Tp).filter (fun t => decide (ib < t + N) && decide (t < ib))).map
      (fun t => (h.getD t []).getD b 0))
  (List.range B).map (fun b => (sel.drop (b * (N - 1))).take (N - 1))

/-- `calc_idx_log_probs` with a scalar index. -/
def calcIdxScalar (b : Buffers) (V : Nat) (sos : Int) (B : Nat) (hist : List (List Int))
    (i : Nat) : List (List LogP) :=
  (windowsScalar b.N sos B hist i).map (rowOf b V sos)

/-- `calc_idx_log_probs` with one index per batch element. -/
def calcIdxVec (b : Buffers) (V : Nat) (sos : Int) (B : Nat) (hist : List (List Int))
    (hidx : List Nat) : List (List LogP) :=
  (windowsVec b.N sos B hist hidx).map (rowOf b V sos)

/-- `calc_idx_log_probs`: `if hidx.numel() == 1` selects the scalar branch. -/
def calcIdx (b : Buffers) (V : Nat) (sos : Int) (B : Nat) (hist : List (List Int))
    (hidx : List Nat) : List (List LogP) :=
  match hidx with
  | [i] => calcIdxScalar b V sos B hist i
  | _ => calcIdxVec b V sos B hist hidx

/-! ## `calc_full_log_probs_chunked` -/

/-- `hist.as_strided((Nm1, Trest*B), (B, 1), B*(t-Nm1))` on the contiguous `(T, B)` buffer. -/
def strided (flat : List Int) (B Nm1 Trest t : Nat) : List (List Int) :=
  (List.range Nm1).map (fun i =>
    (List.range (Trest * B)).map (fun j => flat.getD (B * (t - Nm1) + i * B + j) 0))

/-- `.view(Trest, B, V)` of a `(Trest*B, V)` result. -/
def viewRows {α} (B Trest : Nat) (rows : List α) : List (List α) :=
  (List.range Trest).map (fun c => (rows.drop (c * B)).take B)

/-- The `for t in range(Nm1, T + 1, chunk_size)` loop (`fuel` bounds the iterations). -/
def chunkLoop (b : Buffers) (V : Nat) (sos : Int) (B T Nm1 chunk : Nat) (flat : List Int) :
    Nat → Nat → List (List (List LogP))
  | 0, _ => []
  | fuel + 1, t =>
    if t < T + 1 then
      let Trest := min chunk (T + 1 - t)
      let h := strided flat B Nm1 Trest t
      let lp := calcIdxScalar b V sos (Trest * B) h Nm1
      viewRows B Trest lp ++ chunkLoop b V sos B T Nm1 chunk flat fuel (t + chunk)
    else []

/-- `calc_full_log_probs_chunked(hist, prev, chunk)`; `chunk ≥ 1` (the code raises otherwise).
Result indexed `[t][b][w]`, `t = 0 … T`. -/
def fullChunked (b : Buffers) (V : Nat) (sos : Int) (B : Nat) (hist : List (List Int))
    (chunk : Nat) : List (List (List LogP)) :=
  let T := hist.length
  let Nm1 := min T (b.N - 1)
  let first := (List.range Nm1).map (fun i => calcIdxScalar b V sos B (hist.take i) i)
  first ++ chunkLoop b V sos B T Nm1 chunk hist.flatten (T + 1) Nm1

/-! ### memory layout of the history tensor

`hist` is a `(T, B)` *view*: a storage, a storage offset and two strides (a transposed
batch-first tensor, a slice of a longer tensor, every second row, a column block of a wider
tensor, an expanded column …). Everything except `calc_full_log_probs_chunked` indexes the
view logically (`View.rows`). The chunked evaluation calls `hist.contiguous()` – which
returns the *same* tensor (same storage, same storage offset) when torch considers the view
contiguous and a fresh row-major copy otherwise – and then `as_strided` with an **absolute**
storage offset: `hist.storage_offset() + B*(t - Nm1)` (the repaired code; the pinned code
forgot `storage_offset()`, fixes/C06-chunked-storage-offset.diff). -/

structure View where
  storage : List Int
  off : Nat               -- storage_offset()
  sT : Nat                -- stride(0)
  sB : Nat                -- stride(1)
  T : Nat
  B : Nat
  deriving Repr

/-- Element `[t, b]` of the view. -/
def View.get (v : View) (t b : Nat) : Int := v.storage.getD (v.off + t * v.sT + b * v.sB) 0

/-- The logical content, row-major. -/
def View.rows (v : View) : List (List Int) :=
  (List.range v.T).map (fun t => (List.range v.B).map (fun b => v.get t b))

/-- `Tensor.is_contiguous()` for two dimensions: no elements, or every dimension of size
`≠ 1` has the row-major stride. -/
def View.isContig (v : View) : Bool :=
  if v.T * v.B = 0 then true
  else (v.B == 1 || v.sB == 1) && (v.T == 1 || v.sT == v.B)

/-- `hist.contiguous()`: `self` when contiguous, else a fresh row-major copy (offset 0). -/
def View.contiguous (v : View) : View :=
  if v.isContig then v else ⟨v.rows.flatten, 0, v.B, 1, v.T, v.B⟩

/-- `calc_full_log_probs_chunked` on a view. `hist[:idx_]` is logical slicing; the strided
windows are read from the storage of `hist.contiguous()`, starting at its storage offset. -/
def fullChunkedView (b : Buffers) (V : Nat) (sos : Int) (v : View) (chunk : Nat) :
    List (List (List LogP)) :=
  let c := v.contiguous
  let hist := c.rows
  let T := c.T
  let Nm1 := min T (b.N - 1)
  let first := (List.range Nm1).map (fun i => calcIdxScalar b V sos c.B (hist.take i) i)
  first ++ chunkLoop b V sos c.B T Nm1 chunk (c.storage.drop c.off) (T + 1) Nm1

/-- `calc_full_log_probs` of the base class: one index at a time on the whole history. -/
def fullByIdx (b : Buffers) (V : Nat) (sos : Int) (B : Nat) (hist : List (List Int)) :
    List (List (List LogP)) :=
  (List.range (hist.length + 1)).map (fun i => calcIdxScalar b V sos B hist i)

/-! ## `_build_trie` -/

/-- One listed n-gram: key (oldest token first), log-probability, back-off weight
(ignored for the highest order). -/
structure Item where
  key : List Int
  logp : LogP
  logb : LogP
  deriving Repr, DecidableEq, Inhabited

def hasKey (d : List Item) (k : List Int) : Bool := d.any (fun e => e.key == k)

/-- The suffix pass for one order `n+1 ≥ 2`: check keys, add `(-inf, 0)` for every missing
suffix to the next lower order. `none` = `ValueError`. -/
def addSuffixes (V : Nat) (sos : Int) (len : Nat) (d : List Item) (lower : List Item) :
    Option (List Item) :=
  d.foldl (fun acc e =>
    match acc with
    | none => none
    | some low =>
      if e.key.length ≠ len then none
      else if e.key.any (fun t => !(decide (0 ≤ t ∧ t < V) || (shiftOf V sos == 1 && t == sos))) then none
      else
        let suffix := e.key.tail
        if hasKey low suffix then some low
        else some (low ++ [⟨suffix, LogP.negInf, LogP.fin 0⟩])) (some lower)

/-- The unigram pass: unexpected keys are a `ValueError`; missing ones get `(-inf, 0)`. -/
def addUnigrams (V : Nat) (sos : Int) (d : List Item) : Option (List Item) :=
  let uni : List Int := (List.range V).map (fun x => Int.ofNat x) ++
    (if shiftOf V sos = 1 then [sos] else [])
  if d.any (fun e => match e.key with | [t] => !(uni.contains t) | _ => true) then none
  else some (d ++ (uni.filter (fun t => !(hasKey d [t]))).map
    (fun t => ⟨[t], LogP.negInf, LogP.fin 0⟩))

/-- Top-down closure: `cur` is the order being scanned (already completed by the order
above it), the list holds the lower orders, next lower first. Returns the completed orders,
highest first. -/
def closeDown (V : Nat) (sos : Int) (cur : List Item) : List (List Item) → Option (List (List Item))
  | [] => (addUnigrams V sos cur).map (fun u => [u])
  | lower :: rest =>
    match addSuffixes V sos (rest.length + 2) cur lower with
    | none => none
    | some low' => (closeDown V sos low' rest).map (fun r => cur :: r)

/-- Lexicographic `≤` on token lists (Python tuple comparison). -/
def lexLe : List Int → List Int → Bool
  | [], _ => true
  | _ :: _, [] => false
  | a :: as, b :: bs => if a < b then true else if b < a then false else lexLe as bs

/-- `insort_left(prob_list, x)`: insert in front of the first element that is `≥ x`. -/
def insortLeft (x : Item) : List Item → List Item
  | [] => [x]
  | y :: ys => if lexLe x.key y.key then x :: y :: ys else y :: insortLeft x ys

/-- `SortedList` of `(key[::-1], value)`, filled by `insort_left` one `popitem()` at a time
(the keys of a dict are distinct, so the order of insertion does not matter). -/
def sortLevel (d : List Item) : List Item :=
  (d.map (fun e => ({ e with key := e.key.reverse } : Item))).foldl (fun acc e => insortLeft e acc) []

/-- `while parent >= 0 and not offsets[parent]: offsets[parent] = allocated - parent; parent -= 1`
(first argument: `parent + 1`). -/
def walkBack (allocated : Nat) : Nat → Array Nat → Array Nat
  | 0, offs => offs
  | p + 1, offs =>
    if offs.getD p 0 = 0 then walkBack allocated p (offs.setIfInBounds p (allocated - p))
    else offs

/-- `for i in range(start, -1, -1): if offsets[i-1]: break; offsets[i-1] = offsets[i] + 1`
(first argument: `i + 1`; `offsets[-1]` is the last element, as in Python). -/
def trailFill : Nat → Array Nat → Array Nat
  | 0, offs => offs
  | i + 1, offs =>
    let j := if i = 0 then offs.size - 1 else i - 1
    if offs.getD j 0 ≠ 0 then offs
    else trailFill i (offs.setIfInBounds j (offs.getD i 0 + 1))

structure Fill where
  offsets : Array Nat
  ids : Array Int
  logps : Array LogP
  logbs : Array LogP
  allocated : Nat
  lastStart : Nat
  parents : List (List Int × Nat)

/-- Allocation of one sorted level (`isTop`: the highest order, no back-offs stored). -/
def fillNodes (U start : Nat) (isTop : Bool) (lastStart : Nat) (parents : List (List Int × Nat)) :
    List Item → Fill → Fill
  | [], f => f
  | e :: rest, f =>
    let a := f.allocated
    let children := f.parents ++ [(e.key, a - start)]
    let ids := f.ids.setIfInBounds (a - U) (e.key.getLastD 0)
    let logps := f.logps.setIfInBounds a e.logp
    let logbs := if isTop then f.logbs else f.logbs.setIfInBounds a e.logb
    let parent := (parents.lookup e.key.dropLast).getD 0 + lastStart
    let offsets := walkBack a (parent + 1) f.offsets
    fillNodes U start isTop lastStart parents rest
      { f with offsets := offsets, ids := ids, logps := logps, logbs := logbs,
               allocated := a + 1, parents := children }

/-- One iteration of `while prob_dicts:`. `f.parents`/`f.lastStart` describe the previous level. -/
def fillLevel (U : Nat) (isTop : Bool) (d : List Item) (f : Fill) : Fill :=
  let start := f.allocated
  let offsets := f.offsets.setIfInBounds start (d.length + 1)
  let logps := f.logps.setIfInBounds start LogP.nan
  let logbs := f.logbs.setIfInBounds start LogP.nan
  let f1 : Fill := { f with offsets := offsets, logps := logps, logbs := logbs,
                            allocated := start + 1, parents := [] }
  let f2 := fillNodes U start isTop f.lastStart f.parents (sortLevel d) f1
  { f2 with offsets := trailFill (start + 1) f2.offsets, lastStart := start }

def fillLevels (U : Nat) : List (List Item) → Fill → Fill
  | [], f => f
  | [d], f => fillLevel U true d f
  | d :: d' :: rest, f => fillLevels U (d' :: rest) (fillLevel U false d f)

/-- Smallest of uint8 / int16 / int32 / int64 whose maximum is `≥ m`. -/
def bitsFor (m : Nat) : Nat :=
  if m ≤ 255 then 8 else if m ≤ 32767 then 16 else if m ≤ 2147483647 then 32 else 64

/-- `_infer_max_direct_descendants`. `U = V + shift + 1`. -/
def maxDirectLoop (offs : Array Nat) : Nat → Nat → Nat → Nat
  | 0, _, s => s
  | fuel + 1, i, s =>
    if i < offs.size then
      let j := i + offs.getD i 0
      let s' := ((List.range (j - 1 - i)).map
        (fun k => offs.getD (i + k + 1) 0 + 1 - offs.getD (i + k) 0)).foldl max s
      maxDirectLoop offs fuel j s'
    else s

def maxDirect (offs : Array Nat) (U : Nat) : Nat :=
  if offs.size = 0 then 0
  else
    let s0 := ((List.range (U - 1)).map
      (fun k => offs.getD (k + 1) 0 + 1 - offs.getD k 0)).foldl max 0
    maxDirectLoop offs offs.size U s0

/-- `sos → V` in every key (the unigram key included). -/
def remapItem (V : Nat) (sos : Int) (e : Item) : Item :=
  { e with key := e.key.map (remapTok V sos) }

/-- `_build_trie`. `dicts`: orders lowest first, as `prob_dicts`. `none` = `ValueError`. -/
def buildTrie (V : Nat) (sos : Int) (dicts : List (List Item)) : Option Buffers :=
  let N := dicts.length
  if N = 0 then none
  else if (dicts.getLastD []).isEmpty then none
  else
    match closeDown V sos (dicts.getLastD []) dicts.reverse.tail with
    | none => none
    | some closedRev =>
      let levels := closedRev.reverse.map (fun d => d.map (remapItem V sos))
      let total := (levels.map List.length).sum
      let G := (levels.getLastD []).length
      let shift := shiftOf V sos
      let U := V + shift + 1 % N
      let O := total - G + (N - 1)
      let I := O + G - U
      let P := O + G
      let uni := levels.headD []
      let nU := V + shift
      let uvals := (List.range nU).map (fun x =>
        (uni.find? (fun e => e.key == [Int.ofNat x])).getD default)
      let logps0 : Array LogP := Array.replicate P (LogP.fin 0)
      let logbs0 : Array LogP := Array.replicate O (LogP.fin 0)
      let put (a : Array LogP) (vals : List LogP) : Array LogP :=
        (List.range vals.length).foldl (fun acc i => acc.setIfInBounds i (vals.getD i LogP.nan)) a
      let logps1 := put logps0 (uvals.map (·.logp))
      let logbs1 := if N = 1 then logbs0 else put logbs0 (uvals.map (·.logb))
      let f0 : Fill := {
        offsets := Array.replicate O 0, ids := Array.replicate I 0,
        logps := logps1, logbs := logbs1, allocated := nU, lastStart := 0,
        parents := (List.range (U - 1)).map (fun x => ([Int.ofNat x], x)) }
      let f := fillLevels U levels.tail f0
      let maxOff := f.offsets.foldl max 0
      some {
        N := N, G := G, S := maxDirect f.offsets (V + shift + 1),
        offsets := f.offsets, ids := f.ids, logps := f.logps, logbs := f.logbs,
        offBits := if f.offsets.size = 0 then 8 else bitsFor maxOff,
        idBits := bitsFor U }

/-! ## `load_state_dict`: shape inference -/

/-- The `while last_ptr < len(offsets)` loop: `(last_ptr, max_ngram, max_ngram_nodes)`;
`none` = `RuntimeError` (non-positive offset). -/
def inferLoop (offs : Array Nat) : Nat → Nat → Nat → Nat → Option (Nat × Nat × Nat)
  | 0, p, n, g => some (p, n, g)
  | fuel + 1, p, n, g =>
    if p < offs.size then
      let o := offs.getD p 0
      if o = 0 then none else inferLoop offs fuel (p + o) (n + 1) (o - 1)
    else some (p, n, g)

/-- What `load_state_dict` of a fresh `LookupLanguageModel(V, sos)` sets:
`(max_ngram, max_ngram_nodes, max_direct_descendants)`; `none` = `RuntimeError`. -/
def inferShape (V : Nat) (sos : Int) (offs : Array Nat) (nIds nLogps : Nat) :
    Option (Nat × Nat × Nat) :=
  let shift := shiftOf V sos
  let U := V + shift + 1
  if nIds ≠ 0 ∧ offs.size ≠ 0 then
    if offs.size < U then none
    else
      match inferLoop offs offs.size (U - 1) 1 (U - 1) with
      | none => none
      | some (p, n, g) => if p ≠ offs.size + g then none else some (n, g, maxDirect offs U)
  else
    if offs.size ≠ nIds then none
    else if nLogps ≠ V + shift then none
    else some (1, V + shift, maxDirect offs U)

end PdtVerif.NgramTrie
