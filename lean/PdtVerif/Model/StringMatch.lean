import PdtVerif.Model.LevRow
/-!
# Model of `_string.py::_lens_from_eos` and `_string_matching`
(the branches without `return_mistakes` and without `return_mask`: the scalar edit
distance and `return_prf_dsts`, i.e. `edit_distance` / `prefix_edit_distances`)

The model is *per batch column*: it receives the padded reference column (`R` entries) and
the padded hypothesis column (`H` entries) exactly as they sit in the tensors, garbage
after the end-of-sequence token included; `R = ref.length`, `H = hyp.length` are the
shared padded sizes. It follows the code:

* `seqLen` — `_lens_from_eos` (first eos) plus the `include_eos` adjustment
  (`+ 1`, taken back when the column holds no eos);
* `shortcut` — `ins == del == sub > 0` ⇒ unit costs and `mult = ins`;
* `row0` (shared, `Model/LevRow.lean`) — `rrange * del_cost`, `R + 1` entries;
* `candRow` — `row = last_row + ins·ins_mask`, `sub_row = last_row[:-1] + sub·neq_mask`,
  `row[1:] = min(row[1:], sub_row)` over the FULL padded reference column;
* `delMatStep` — `(del_mat + row).min(1)` with `del_mat[i][j] = i·d − j·d` for `j ≤ i`
  and `+∞` above the diagonal (the `+∞` entries never win the minimum: the model takes
  the minimum over `j ≤ i`);
* `stepCol` — one loop iteration including `not_done` / `torch.where(not_done, row, last_row)`;
* `scanRows` — the loop `for hyp_idx in range(1, H + (0 if exclude_last else 1))`;
* `editDistance` — `row.gather(ref_lens) * mult`, `norm` (with the `0/1` substitute for
  an empty reference);
* `prefixEditDistances` — the `prefix_ers` table, `* mult`, `norm`, `masked_fill(padding)`.

Mathlib-free (the driver runs this file).
-/
namespace PdtVerif.StringMatch
open PdtVerif.Lev

variable {α : Type} [DecidableEq α]

/-! ### Lengths -/

/-- `_lens_from_eos`: index of the first `eos`, or the padded length when there is none. -/
def firstEos (eos : α) : List α → Nat
  | [] => 0
  | x :: xs => if x = eos then 0 else firstEos eos xs + 1

/-- `ref_lens` / `hyp_lens` of `_string_matching`. Without `eos`: the padded length. With
`include_eos`: one more, but only when the column does contain an eos
(`lens + 1 - (lens == max_steps)`). -/
def seqLen (eos : Option α) (includeEos : Bool) (tok : List α) : Nat :=
  match eos with
  | none => tok.length
  | some e =>
    let l := firstEos e tok
    if includeEos then (if l = tok.length then l else l + 1) else l

/-- The part of a padded column that counts: everything before the first eos, the eos
itself kept iff `include_eos`. (Not used by the model below — it only ever uses `seqLen` —
but by the statements about it and by the driver's oracle.) -/
def cut (eos : Option α) (includeEos : Bool) (tok : List α) : List α :=
  tok.take (seqLen eos includeEos tok)

/-! ### Costs -/

/-- `if ins_cost == del_cost == sub_cost > 0.0: mult = ins_cost; costs = 1.0`. -/
def shortcut (c : Costs) : Costs × Rat :=
  if c.ins = c.del ∧ c.del = c.sub ∧ 0 < c.sub then (unitCosts, c.ins) else (c, 1)

/-! ### One row update -/

/-- `sub_row = last_row[:-1] + sub_cost * neq_mask` (`zipWith` stops after `R` entries,
which is the `[:-1]`). -/
def subRow (c : Costs) (y : α) (ref : List α) (last : List Rat) : List Rat :=
  List.zipWith (fun x d => d + c.sub * (if x = y then 0 else 1)) ref last

/-- `row = last_row + ins_cost * ins_mask; row[1:] = torch.min(row[1:], sub_row)`. -/
def candRow (c : Costs) (insMask : Rat) (y : α) (ref : List α) (last : List Rat) : List Rat :=
  match last.map (fun d => d + c.ins * insMask) with
  | [] => []
  | a :: t => a :: List.zipWith min t (subRow c y ref last)

/-- Entry `i` of `(del_mat + v).min(1)`: the minimum of `del_mat[i][j] + v[j]` over the
finite entries `j ≤ i` of row `i` of `del_mat`, `del_mat[i][j] = row0[i] − row0[j] = i·d − j·d`
(the diagonal entry `j = i` starts the minimum). -/
def delMatEntry (d : Rat) (v : List Rat) (i : Nat) : Rat :=
  (List.range i).foldl (fun (acc : Rat) (j : Nat) => min acc (((i : Rat) * d - (j : Rat) * d) + v.getD j 0))
    (((i : Rat) * d - (i : Rat) * d) + v.getD i 0)

/-- `row, _ = (del_mat + row).min(1)`. -/
def delMatStep (d : Rat) (v : List Rat) : List Rat :=
  (List.range v.length).map (delMatEntry d v)

/-- The loop the code's comment says `del_mat` unrolls:
`for i = 1..|v|: v[i] = min(v[i], v[i-1] + d)`. -/
def seqSweepAux (d : Rat) : Rat → List Rat → List Rat
  | _, [] => []
  | s, x :: xs => min x (s + d) :: seqSweepAux d (min x (s + d)) xs

def seqSweep (d : Rat) : List Rat → List Rat
  | [] => []
  | v0 :: vs => v0 :: seqSweepAux d v0 vs

/-- `(0 if exclude_last else 1)`. -/
def exclOff (excl : Bool) : Nat := if excl then 0 else 1

/-- One iteration of the `hyp_idx` loop for one column. `idx = hyp_idx`, `y = hyp[hyp_idx-1]`. -/
def stepCol (c : Costs) (ref : List α) (hypLen : Nat) (excl : Bool) (idx : Nat) (y : α)
    (last : List Rat) : List Rat :=
  let notDone : Bool := decide ((idx : Int) - (if excl then 0 else 1) < (hypLen : Int))
  let insMask : Rat := if hypLen ≥ idx then 1 else 0
  let row := delMatStep c.del (candRow c insMask y ref last)
  if notDone then row else last

/-- The rows after iterations `idx, idx+1, …` (one per remaining hypothesis token). -/
def scanRows (c : Costs) (ref : List α) (hypLen : Nat) (excl : Bool) :
    Nat → List α → List Rat → List (List Rat)
  | _, [], _ => []
  | idx, y :: ys, row =>
    let r := stepCol c ref hypLen excl idx y row
    r :: scanRows c ref hypLen excl (idx + 1) ys r

/-- Rows after every iteration of `for hyp_idx in range(1, H + (0 if exclude_last else 1))`. -/
def loopRows (c : Costs) (ref hyp : List α) (hypLen : Nat) (excl : Bool) : List (List Rat) :=
  scanRows c ref hypLen excl 1 (hyp.take (hyp.length - (if excl then 1 else 0))) (row0 c ref)

/-- `row.gather(0, ref_lens)`. -/
def readRow (refLen : Nat) (row : List Rat) : Rat := row.getD refLen 0

/-! ### `edit_distance` -/

/-- `edit_distance` for one column (`ref`, `hyp` = the padded columns). -/
def editDistance (c : Costs) (eos : Option α) (includeEos norm : Bool) (ref hyp : List α) : Rat :=
  let refLen := seqLen eos includeEos ref
  let hypLen := seqLen eos includeEos hyp
  let c' := (shortcut c).1
  let mult := (shortcut c).2
  let rows := loopRows c' ref hyp hypLen false
  let row := rows.getLast?.getD (row0 c' ref)
  let er := readRow refLen row * mult
  if norm then
    -- er / ref_lens, and where ref_lens == 0: hyp_lens.gt(0)
    if refLen = 0 then (if hypLen > 0 then 1 else 0) else er / (refLen : Rat)
  else er

/-! ### `prefix_edit_distances` -/

/-- The `prefix_ers` buffer before scaling: `H + (0 if exclude_last else 1)` entries;
`prefix_ers[0] = ref_lens * del_cost`, `prefix_ers[hyp_idx] = row.gather(0, ref_lens)`.
(With the repair `fixes/C01-prefix-exclude-last-empty-hyp.diff`: no entry at all when `H = 0`
and `exclude_last`; the pinned code raised `IndexError` there.) -/
def prefixRaw (c : Costs) (ref hyp : List α) (refLen hypLen : Nat) (excl : Bool) : List Rat :=
  if hyp.length + exclOff excl = 0 then []
  else ((refLen : Rat) * c.del) :: (loopRows c ref hyp hypLen excl).map (readRow refLen)

/-- `prefix_edit_distances` for one column. -/
def prefixEditDistances (c : Costs) (eos : Option α) (includeEos norm excl : Bool) (padding : Int)
    (ref hyp : List α) : List Rat :=
  let refLen := seqLen eos includeEos ref
  let hypLen := seqLen eos includeEos hyp
  let c' := (shortcut c).1
  let mult := (shortcut c).2
  let raw := prefixRaw c' ref hyp refLen hypLen excl
  let scaled := raw.map (· * mult)
  let normed : List Rat :=
    if norm then
      -- prefix_ers / ref_lens, and where ref_lens == 0: arange(..).gt(0)
      scaled.mapIdx (fun k v =>
        if refLen = 0 then (if k > 0 then 1 else 0) else v / (refLen : Rat))
    else scaled
  -- masked_fill(arange(..) >= hyp_lens + (0 if exclude_last else 1), padding)
  normed.mapIdx (fun k v =>
    if k ≥ hypLen + exclOff excl then (padding : Rat) else v)

end PdtVerif.StringMatch
