import PdtVerif.Model.CtcPrefix
/-!
# Model of the language-model plumbing of `CTCPrefixSearch.forward` (shallow fusion)

`CtcPrefix.advance` receives the extension probabilities `ext[k][v]` per beam slot as an input.
This file models where they come from when the module is given a language model and `beta ≠ 0`,
one batch element at a time (the module flattens `(N, K)` into `N·K` columns and offsets `next_src`
by `n·K`: every gather stays inside the element's own block):

* per slot `k` the module calls `lm.calc_idx_log_probs(y_prev.flatten(1), prev, y_prev_lens.flatten())`:
  column `k` gets `(row_k, in_next_k) = run (lens k) (y k) (prev k)`;
* `ext[k][v] = fuse (row_k v) (tok v) blank` (`fuse`: the two fusion formulas);
* after `ctc_prefix_search_advance`:
  `prev = extract_by_src(prev, src); in_next = extract_by_src(in_next, src);
   prev = mix_by_mask(prev, in_next, is_nonext)` — slot `j` gets the state of its source slot
  `src j` if the new prefix did not extend it, else the source's `in_next` (`routeStates`).

The language model is abstract: a state type `σ` and `run`.  What is assumed of it (its state contract)
is stated in `Lemmas/CtcFusion.lean`.  `row` stands for the LM factor after the normalisation the module
applies (`softmax` for the valid mixture, `exp(beta · log_softmax)` otherwise): transcendental
functions are not modelled, their values are inputs (as everywhere in C05).

No Mathlib imports: the driver evaluates `routeStates` / `lmInNext` (state routing is compared with the
implementation on every run with a stateful harness LM).
-/
namespace PdtVerif.CtcPrefix

/-- one column of `calc_idx_log_probs`: index, token column, previous state ↦ (row of `V` factors, next state) -/
structure LM (σ : Type) where
  run : Nat → List Nat → σ → List XR × σ

/-- the two fusion formulas on rationals: `none` = shallow fusion (`lm_probs * nonext_probs`),
`some β` = valid mixture (`(1 - β)·tok + β·lm·(1 - blank)`) -/
def fuseQ (mix : Option Rat) (l t b : Rat) : Rat :=
  match mix with
  | none => l * t
  | some β => (1 - β) * t + β * l * (1 - b)

/-- ... on the carrier (the module only ever fuses finite numbers: outputs of `softmax` / `exp`; anything
else is not modelled and yields NaN here) -/
def fuse (mix : Option Rat) (l t b : XR) : XR :=
  match l, t, b with
  | .fin l, .fin t, .fin b => .fin (fuseQ mix l t b)
  | _, _, _ => .nan

/-- the LM outputs for every slot of the element: `(row_k, in_next_k)` -/
def lmOuts {σ} (lm : LM σ) (dflt : σ) (st : State) (sts : List σ) : List (List XR × σ) :=
  (List.range st.nb.length).map (fun k => lm.run (getN st.lens k) (st.y.getD k []) (sts.getD k dflt))

/-- `ext_probs_t[n]` -/
def lmExt {σ} (V : Nat) (mix : Option Rat) (lm : LM σ) (dflt : σ) (nonext : List XR) (blank : XR)
    (st : State) (sts : List σ) : List (List XR) :=
  (lmOuts lm dflt st sts).map (fun o => (List.range V).map (fun v => fuse mix (getX o.1 v) (getX nonext v) blank))

/-- `in_next` per slot -/
def lmInNext {σ} (lm : LM σ) (dflt : σ) (st : State) (sts : List σ) : List σ :=
  (lmOuts lm dflt st sts).map (·.2)

/-- `mix_by_mask(extract_by_src(prev, src), extract_by_src(in_next, src), is_nonext)` for an LM that
keeps one state per column -/
def routeStates {σ} (dflt : σ) (sts inNext : List σ) (src : List Nat) (isNon : List Bool) : List σ :=
  (List.range src.length).map (fun j =>
    if getB isNon j then sts.getD (getN src j) dflt else inNext.getD (getN src j) dflt)

/-- what the loop body is given per frame besides the LM: token / blank probabilities, `topk`'s answer -/
structure AcIn where
  nonext : List XR
  blank : XR
  sel : Option (List Nat)
  deriving Repr

/-- one iteration of the module loop with a fused LM, for an element for which the frame is valid -/
def lmStep {σ} (fix : Bool) (V width : Nat) (mix : Option Rat) (lm : LM σ) (dflt : σ)
    (S : State × List σ) (a : AcIn) : (State × List σ) × StepOut :=
  let ext := lmExt V mix lm dflt a.nonext a.blank S.1 S.2
  let o := advance fix V width ext a.nonext a.blank S.1 a.sel
  ((o.st, routeStates dflt S.2 (lmInNext lm dflt S.1 S.2) o.src o.isNon), o)

/-- the frames `ctc_prefix_search_advance` receives over a whole run (all frames valid) -/
def lmFrames {σ} (V width : Nat) (mix : Option Rat) (lm : LM σ) (dflt : σ) :
    State × List σ → List AcIn → List FrameIn
  | _, [] => []
  | S, a :: as =>
    { ext := lmExt V mix lm dflt a.nonext a.blank S.1 S.2, nonext := a.nonext, blank := a.blank, sel := a.sel }
      :: lmFrames V width mix lm dflt (lmStep true V width mix lm dflt S a).1 as

end PdtVerif.CtcPrefix
