import PdtVerif.Spec.Levenshtein
/-!
# The row-by-row dynamic programme shared by C01–C03 (sequential "sweep" form)

`row[j] = D(ref.take j, h)` for `j = 0..|ref|`. One step consumes hypothesis token `y`:

    new[0]   = row[0] + ins
    new[j+1] = min (min (new[j] + del) (row[j+1] + ins)) (row[j] + sub·[ref[j] ≠ y])

This is the comment in `_string.py::_string_matching`
(`for i: v[i] = min(v[i], v[i-1] + d)` after the insertion/substitution minima).
The vectorised `del_mat` form used by the code is related to this one in C01's files.
Mathlib-free.
-/
namespace PdtVerif.Lev

variable {α : Type} [DecidableEq α]

/-- `sweep c y xs diag ups left`: remaining reference tokens `xs`, `diag = row[j]`,
`ups = row[j+1..]`, `left = new[j]`; returns `new[j+1..]`. -/
def sweep (c : Costs) (y : α) : List α → Rat → List Rat → Rat → List Rat
  | x :: xs, diag, up :: rest, left =>
    let cell := min (min (left + c.del) (up + c.ins)) (diag + subCost c x y)
    cell :: sweep c y xs up rest cell
  | _, _, _, _ => []

/-- One DP step over the whole row. -/
def stepRow (c : Costs) (ref : List α) (y : α) (row : List Rat) : List Rat :=
  match row with
  | [] => []
  | d0 :: rest => (d0 + c.ins) :: sweep c y ref d0 rest (d0 + c.ins)

/-- Row 0: `[0, d, 2d, …, |ref|·d]`. -/
def row0 (c : Costs) (ref : List α) : List Rat :=
  (List.range (ref.length + 1)).map (fun (j : Nat) => c.del * (j : Rat))

/-- The whole DP: fold `stepRow` over the hypothesis. -/
def dpRow (c : Costs) (ref hyp : List α) : List Rat :=
  hyp.foldl (fun row y => stepRow c ref y row) (row0 c ref)

/-- The DP's distance: last entry of the final row. -/
def dpDist (c : Costs) (ref hyp : List α) : Rat :=
  (dpRow c ref hyp).getD ref.length 0

end PdtVerif.Lev
