/-!
# Model of `_dataloaders.py::AbstractEpochSampler` and its two subclasses

Follows the code: `__init__` decides `(rank, world, effective_total)` from the uneven
mode and the distributed environment; `__len__` is the closed formula; `__iter__` yields
`islice(perm(epoch), rank, effective_total, world)` and increments `epoch`.

The permutation source (`numpy.random.RandomState((base_seed, epoch)).permutation(N)` or
`range(N)`) is a parameter `perm : Nat → List Nat` (epoch ↦ ordering); its contract (a
list of length `N` without duplicates that depends on the epoch only) is an assumption
of the theorems and is checked on the implementation by the correspondence.

No Mathlib imports here: this file is also used by the driver.
-/
namespace PdtVerif.EpochSampler

inductive Mode where
  | raise | drop | uneven | ignore
  deriving Repr, DecidableEq

/-- What `__init__` stores. -/
structure Config where
  total : Nat
  eff : Nat
  rank : Nat
  world : Nat
  deriving Repr, DecidableEq

/-- `__init__`. `dist = some (rank, world)` iff torch.distributed is available,
initialised and `get_rank() >= 0`. `none` as result = `ValueError`. -/
def init (total : Nat) (mode : Mode) (dist : Option (Nat × Nat)) : Option Config :=
  match mode, dist with
  | .ignore, _ => some ⟨total, total, 0, 1⟩
  | _, none => some ⟨total, total, 0, 1⟩
  | .raise, some (r, w) =>
      if total % w != 0 then none else some ⟨total, total, r, w⟩
  | .drop, some (r, w) =>
      if total % w != 0 then some ⟨total, total - total % w, r, w⟩ else some ⟨total, total, r, w⟩
  | .uneven, some (r, w) => some ⟨total, total, r, w⟩

/-- `__len__`, in Python's integer arithmetic (`//` is floor division; the numerator is
never negative because `rank < world`, but the model does not assume that). -/
def len (c : Config) : Int := ((c.eff : Int) - c.rank + c.world - 1) / c.world

/-- Every `step`-th element starting with the head (`step ≥ 1`; `step = 0` behaves as 1,
which `islice` rejects and `world` can never be). -/
def everyNth {α} (step : Nat) : List α → List α
  | [] => []
  | x :: xs => x :: everyNth step (xs.drop (step - 1))
termination_by l => l.length
decreasing_by simp; omega

/-- `itertools.islice(l, start, stop, step)`. -/
def islice {α} (l : List α) (start stop step : Nat) : List α :=
  everyNth step ((l.take stop).drop start)

/-- `get_samples_for_epoch`. -/
def samples (c : Config) (perm : List Nat) : List Nat :=
  islice perm c.rank c.eff c.world

/-- Sampler object state: only the epoch counter changes. -/
structure State where
  cfg : Config
  epoch : Nat
  deriving Repr

/-- `__iter__` fully consumed: yields the epoch's samples and bumps the epoch. -/
def iter (perm : Nat → List Nat) (s : State) : List Nat × State :=
  (samples s.cfg (perm s.epoch), { s with epoch := s.epoch + 1 })

/-- Run `k` full epochs, returning the lists yielded. -/
def iterMany (perm : Nat → List Nat) : Nat → State → List (List Nat) × State
  | 0, s => ([], s)
  | k + 1, s =>
    let (y, s') := iter perm s
    let (ys, s'') := iterMany perm k s'
    (y :: ys, s'')

end PdtVerif.EpochSampler
