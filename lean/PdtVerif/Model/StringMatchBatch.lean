import PdtVerif.Model.StringMatch
/-!
# Tensor-level model of `_string.py::_string_matching` (C01, batch level)

`Model/StringMatch.lean` is the behaviour of ONE batch column. This file follows the code at
the level the code is written at: whole tensors. A 2-D tensor is its shape and its rows
(`Tensor2`: `d0` rows of `d1` entries); every line of `_string_matching` on the
`edit_distance` / `prefix_edit_distances` branches becomes one row-wise (vectorised over the
batch) operation:

* `batch_first` — `ref = ref.t(); hyp = hyp.t()` on the way in, `prefix_ers.t()` on the way out;
* `ref has batch size {}, but hyp has {}` — the `RuntimeError` for different batch sizes;
* `lensFromEosB` — `_lens_from_eos` as written: `mask`, `cumsum`, `(x.eq(1) & mask).max(dim)`,
  `argmax.masked_fill(max_.eq(0), L)` and the zero-size branch;
* `seqLensB` — `lens + 1`, and `- eq_mask` when `eq_mask.any()`;
* `delMat` — `del_mat = row.unsqueeze(1) - row + full_like(inf).triu(1)` with the `+∞` entries
  modelled EXPLICITLY in the extended rationals `ERat` (`none` = `+∞`);
* `delMatStepB` — `(del_mat + row).min(1)` over ALL `R + 1` entries of every line of `del_mat`,
  the infinite ones included, for the whole batch at once;
* `stepB` — one `hyp_idx` iteration: `not_done`, `ins_mask`, `neq_mask`, `row`, `sub_row`,
  `row[1:] = min(..)`, the deletion minimum and `torch.where(not_done, row, last_row)`;
* `gatherB` — `row.gather(0, ref_lens.unsqueeze(0)).squeeze(0)`;
* `editDistanceT`, `prefixEditDistancesT` — the two public functions.

`Lemmas/StringMatchBatch.lean` proves that entry `n` of everything here is the per-column model
on column `n` of the tensors — nothing else of the batch is looked at.

Mathlib-free (the driver runs this file next to the per-column model).
-/
namespace PdtVerif.StringMatch
open PdtVerif.Lev

variable {α : Type} [DecidableEq α]

/-! ### Extended rationals (`float` with `+inf`) -/

/-- A float that may be `+inf`: `none` is `+∞`. -/
abbrev ERat := Option Rat

/-- `a + b` with `x + ∞ = ∞`. -/
def eadd : ERat → ERat → ERat
  | some a, some b => some (a + b)
  | _, _ => none

/-- `min a b` with `min x ∞ = x`. -/
def emin : ERat → ERat → ERat
  | some a, some b => some (min a b)
  | some a, none => some a
  | none, b => b

/-! ### 2-D tensors -/

/-- A 2-D tensor: shape `(d0, d1)` and its `d0` rows of `d1` entries each. (The shape is kept
apart from the rows because a tensor with `d0 = 0` still knows its `d1`.) -/
structure Tensor2 (β : Type) where
  d0 : Nat
  d1 : Nat
  rows : List (List β)

/-- Column `n` of a row-major matrix (`dflt` where a row is too short — never on a well-shaped one). -/
def colOf {β : Type} (M : List (List β)) (n : Nat) (dflt : β) : List β := M.map (fun r => r.getD n dflt)

/-- `.t()`. -/
def Tensor2.t {β : Type} (x : Tensor2 β) (dflt : β) : Tensor2 β :=
  ⟨x.d1, x.d0, (List.range x.d1).map (fun j => colOf x.rows j dflt)⟩

/-- The tensor whose columns are the given sequences (`N = cols.length` columns of `L` entries). -/
def Tensor2.ofCols {β : Type} (L : Nat) (cols : List (List β)) (dflt : β) : Tensor2 β :=
  ⟨L, cols.length, (List.range L).map (fun i => cols.map (fun c => c.getD i dflt))⟩

/-! ### `_lens_from_eos` -/

/-- `torch.cumsum(mask, 0)`: running sums down the rows, started from `acc`. -/
def cumsumAux : List Nat → List (List Nat) → List (List Nat)
  | _, [] => []
  | acc, r :: rs => List.zipWith (· + ·) acc r :: cumsumAux (List.zipWith (· + ·) acc r) rs

/-- `_lens_from_eos(tok, eos, 0)` on an `(L, N)` tensor: per column the index of the first `eos`,
`L` when there is none. As written in the code:
`mask = tok.eq(eos); x = cumsum(mask, 0); max_, argmax = (x.eq(1) & mask).max(0);
argmax.masked_fill(max_.eq(0), L)`, and `mask.sum(0)` when `L = 0`. (`x.eq(1) & mask` holds at
most once per column, so "the" argmax is the first hit.) -/
def lensFromEosB (eos : α) (N : Nat) (tok : List (List α)) : List Nat :=
  let mask : List (List Bool) := tok.map (fun r => r.map (fun t => decide (t = eos)))
  if tok.length = 0 then List.replicate N 0
  else
    let x := cumsumAux (List.replicate N 0) (mask.map (fun r => r.map (fun b => if b then 1 else 0)))
    let hit : List (List Bool) := List.zipWith (List.zipWith (fun xi m => decide (xi = 1) && m)) x mask
    (List.range N).map (fun n =>
      let col := colOf hit n false
      if col.any id then col.findIdx id else tok.length)

/-- `ref_lens` / `hyp_lens` for the whole batch. -/
def seqLensB (eos : Option α) (inc : Bool) (N : Nat) (tok : List (List α)) : List Nat :=
  match eos with
  | none => List.replicate N tok.length  -- torch.full((batch_size,), max_steps)
  | some e =>
    let lens := lensFromEosB e N tok
    if inc then
      let eqMask := lens.map (fun l => decide (l = tok.length))  -- lens == max_steps
      let lens1 := lens.map (· + 1)
      if eqMask.any id then List.zipWith (fun l (b : Bool) => l - (if b then 1 else 0)) lens1 eqMask
      else lens1
    else lens

/-! ### `del_mat` with its `+inf` entries -/

/-- `del_mat`: `row.unsqueeze(1) - row` (entry `(i, j)` is `row0[i] − row0[j] = i·d − j·d`) plus
`torch.full_like(del_mat, inf).triu(1)` (`+∞` strictly above the diagonal, `0` elsewhere). -/
def delMat (d : Rat) (R1 : Nat) : List (List ERat) :=
  (List.range R1).map (fun (i : Nat) => (List.range R1).map (fun (j : Nat) =>
    eadd (some ((i : Rat) * d - (j : Rat) * d)) (if i < j then none else some 0)))

/-- Elementwise minimum over the rows of an `(R1, N)` block: `.min(0)` started from `+∞`. -/
def minRows (N : Nat) (M : List (List ERat)) : List ERat :=
  M.foldl (List.zipWith emin) (List.replicate N none)

/-- `row, _ = (del_mat + row).min(1)` for the whole batch: line `i` of the result is the
elementwise minimum over ALL `j` of `del_mat[i][j] + row[j]` (`row[j]` is a vector over the
batch). A minimum that is still `+∞` would be read as `0` here; `delMatStepB_finite` shows it
never is. -/
def delMatStepB (d : Rat) (N : Nat) (v : List (List Rat)) : List (List Rat) :=
  (delMat d v.length).map (fun dmLine =>
    (minRows N (List.zipWith (fun e vr => vr.map (fun x => eadd e (some x))) dmLine v)).map (fun m => m.getD 0))

/-! ### One iteration, the loop -/

/-- `torch.where(cond, a, b)` on vectors over the batch. -/
def whereV : List Bool → List Rat → List Rat → List Rat
  | p :: ps, a :: as, b :: bs => (if p then a else b) :: whereV ps as bs
  | _, _, _ => []

/-- One iteration of the `hyp_idx` loop on the whole batch. `ref` is `(R, N)`, `last` is
`(R + 1, N)`, `y = hyp[hyp_idx - 1]` and `hypLens` are vectors over the batch. -/
def stepB (c : Costs) (N : Nat) (ref : List (List α)) (hypLens : List Nat) (excl : Bool) (idx : Nat)
    (y : List α) (last : List (List Rat)) : List (List Rat) :=
  -- not_done = (hyp_idx - (0 if exclude_last else 1)) < hyp_lens
  let notDone : List Bool := hypLens.map (fun (hl : Nat) => decide ((idx : Int) - (if excl then 0 else 1) < (hl : Int)))
  -- ins_mask = (hyp_lens >= hyp_idx).float()
  let insMask : List Rat := hypLens.map (fun (hl : Nat) => if hl ≥ idx then 1 else 0)
  -- neq_mask = (ref != hyp[hyp_idx - 1]).float()
  let neqMask : List (List Rat) := ref.map (fun r => List.zipWith (fun x yy => if x = yy then (0 : Rat) else 1) r y)
  -- row = last_row + ins_cost * ins_mask
  let row := last.map (fun r => List.zipWith (fun v m => v + c.ins * m) r insMask)
  -- sub_row = last_row[:-1] + sub_cost * neq_mask   (zipWith stops after the R lines of neq_mask)
  let subRow := List.zipWith (fun l q => List.zipWith (fun v m => v + c.sub * m) l q) last neqMask
  -- row[1:] = torch.min(row[1:], sub_row)
  let row' := match row with
    | [] => []
    | a :: t => a :: List.zipWith (List.zipWith min) t subRow
  -- row, _ = (del_mat + row).min(1)
  let swept := delMatStepB c.del N row'
  -- row = torch.where(not_done, row, last_row)
  List.zipWith (fun nr lr => whereV notDone nr lr) swept last

/-- The rows (each an `(R + 1, N)` block) after iterations `idx, idx + 1, …`. -/
def scanRowsB (c : Costs) (N : Nat) (ref : List (List α)) (hypLens : List Nat) (excl : Bool) :
    Nat → List (List α) → List (List Rat) → List (List (List Rat))
  | _, [], _ => []
  | idx, y :: ys, row =>
    let r := stepB c N ref hypLens excl idx y row
    r :: scanRowsB c N ref hypLens excl (idx + 1) ys r

/-- `row = (rrange * del_cost).unsqueeze(1).expand(R + 1, N)`. -/
def row0B (c : Costs) (N : Nat) (R : Nat) : List (List Rat) :=
  (List.range (R + 1)).map (fun (j : Nat) => List.replicate N (c.del * (j : Rat)))

/-- `for hyp_idx in range(1, H + (0 if exclude_last else 1))`. -/
def loopRowsB (c : Costs) (N : Nat) (ref hyp : List (List α)) (hypLens : List Nat) (excl : Bool) :
    List (List (List Rat)) :=
  scanRowsB c N ref hypLens excl 1 (hyp.take (hyp.length - (if excl then 1 else 0))) (row0B c N ref.length)

/-- `row.gather(0, ref_lens.unsqueeze(0)).squeeze(0)`: entry `n` is `row[ref_lens[n]][n]`. -/
def gatherB (refLens : List Nat) (row : List (List Rat)) : List Rat :=
  refLens.zipIdx.map (fun (ln : Nat × Nat) => (row.getD ln.1 []).getD ln.2 0)

/-! ### `edit_distance` -/

/-- `edit_distance` after the transposition, on `(R, N)` / `(H, N)` rows. -/
def editDistanceB (c : Costs) (eos : Option α) (inc norm : Bool) (N : Nat) (ref hyp : List (List α)) :
    List Rat :=
  let c' := (shortcut c).1
  let mult := (shortcut c).2
  let refLens := seqLensB eos inc N ref
  let hypLens := seqLensB eos inc N hyp
  let rows := loopRowsB c' N ref hyp hypLens false
  let row := rows.getLast?.getD (row0B c' N ref.length)
  let er := (gatherB refLens row).map (· * mult)
  if norm then
    -- er = er / ref_lens; where ref_lens == 0 (if there is any): hyp_lens.gt(0)
    let er := List.zipWith (fun e (l : Nat) => e / (l : Rat)) er refLens
    let zeroMask := refLens.map (fun l => decide (l = 0))
    if zeroMask.any id then
      whereV zeroMask (hypLens.map (fun (l : Nat) => if l > 0 then (1 : Rat) else 0)) er
    else er
  else er

/-- `edit_distance(ref, hyp, eos, include_eos, norm, batch_first, ins, del, sub)`. -/
def editDistanceT (c : Costs) (eos : Option α) (inc norm bf : Bool) (ref hyp : Tensor2 α) (dflt : α) :
    Except String (List Rat) :=
  let ref := if bf then ref.t dflt else ref
  let hyp := if bf then hyp.t dflt else hyp
  if ref.d1 ≠ hyp.d1 then .error "RuntimeError"
  else .ok (editDistanceB c eos inc norm ref.d1 ref.rows hyp.rows)

/-! ### `prefix_edit_distances` -/

/-- The `prefix_ers` buffer, `(H + (0 if exclude_last else 1), N)`: line 0 is `ref_lens * del_cost`,
line `hyp_idx` the gather after that iteration. (Repaired code: no line at all when that size is 0.) -/
def prefixRawB (c : Costs) (N : Nat) (ref hyp : List (List α)) (refLens hypLens : List Nat) (excl : Bool) :
    List (List Rat) :=
  if hyp.length + exclOff excl = 0 then []
  else refLens.map (fun (l : Nat) => (l : Rat) * c.del) :: (loopRowsB c N ref hyp hypLens excl).map (gatherB refLens)

/-- `prefix_edit_distances` after the transposition; the result is `(H + 1 | H, N)`. -/
def prefixEditDistancesB (c : Costs) (eos : Option α) (inc norm excl : Bool) (padding : Int) (N : Nat)
    (ref hyp : List (List α)) : List (List Rat) :=
  let c' := (shortcut c).1
  let mult := (shortcut c).2
  let refLens := seqLensB eos inc N ref
  let hypLens := seqLensB eos inc N hyp
  let raw := prefixRawB c' N ref hyp refLens hypLens excl
  let scaled := raw.map (fun line => line.map (· * mult))
  let normed : List (List Rat) :=
    if norm then
      let q := scaled.map (fun line => List.zipWith (fun e (l : Nat) => e / (l : Rat)) line refLens)
      let zeroMask := refLens.map (fun l => decide (l = 0))
      if zeroMask.any id then
        q.mapIdx (fun k line => whereV zeroMask (List.replicate N (if k > 0 then (1 : Rat) else 0)) line)
      else q
    else scaled
  -- masked_fill(arange(..).unsqueeze(1) >= hyp_lens + (0 if exclude_last else 1), padding)
  normed.mapIdx (fun k line =>
    List.zipWith (fun v (hl : Nat) => if k ≥ hl + exclOff excl then (padding : Rat) else v) line hypLens)

/-- `prefix_edit_distances(ref, hyp, eos, include_eos, norm, batch_first, ins, del, sub, padding,
exclude_last)`; the table comes back transposed under `batch_first`. -/
def prefixEditDistancesT (c : Costs) (eos : Option α) (inc norm bf excl : Bool) (padding : Int)
    (ref hyp : Tensor2 α) (dflt : α) : Except String (Tensor2 Rat) :=
  let ref := if bf then ref.t dflt else ref
  let hyp := if bf then hyp.t dflt else hyp
  if ref.d1 ≠ hyp.d1 then .error "RuntimeError"
  else
    let out : Tensor2 Rat :=
      ⟨hyp.d0 + exclOff excl, ref.d1, prefixEditDistancesB c eos inc norm excl padding ref.d1 ref.rows hyp.rows⟩
    .ok (if bf then out.t 0 else out)

end PdtVerif.StringMatch
