import PdtVerif.Model.Controller
/-!
# Model of `TrainingStateController` — the text of the history file (C15)

`save_info_to_hist` formats every column with its format string and hands the list of strings to
`csv.writer` (default dialect); `update_cache` opens the file (`newline=""`),
reads it with `csv.DictReader` and converts every column with `int(...)`, `float(...)` or the
declared type of a user entry.  This file models that path character by character:

* `decValue` — the exact value of a decimal literal `[sign] digits [. digits] [e [sign] digits]`
  (what `float(text)` rounds), `parseInt` — `int(text)`;
* `reprDigits` / `reprText` — `repr(float)` = `"{}".format(float)`: the shortest digit string that
  reads back as the same float, laid out in fixed or exponent notation;
* `csvRecord` / `csvRead` — `csv.writer.writerow`, `csv.reader` over a file opened with `newline=""`
  (the tree with `fixes/C15-csv-newline.diff`; the pinned tree opened the file with newline
  translation, which turns a `\r` inside a quoted field into `\n`);
* user entries: declared type, format, value (`ETyp`, `EFmt`, `EVal`), `fmtEntry`, `parseEntry`;
* `fileText` / `readHist` — the whole file and the whole re-read.

Core Lean only (the driver runs this file).
-/
namespace PdtVerif.Controller

/-! ## numbers from text -/

def isDigit (c : Char) : Bool := decide ('0' ≤ c ∧ c ≤ '9')

/-- an optional sign in front of a literal -/
def splitSign (cs : List Char) : Bool × List Char :=
  match cs with
  | [] => (false, [])
  | c :: r => if c = '-' then (true, r) else if c = '+' then (false, r) else (false, c :: r)

def notExpMark (c : Char) : Bool := !(c == 'e' || c == 'E')
def notPoint (c : Char) : Bool := !(c == '.')

/-- the exponent part of a literal: nothing, or `e [sign] digits` -/
def expValue (rest : List Char) : Option Int :=
  match rest with
  | [] => some 0
  | _ :: er =>
    let se := splitSign er
    if se.2.isEmpty then none
    else match parseNat se.2 with
      | none => none
      | some e => some (if se.1 then -(e : Int) else (e : Int))

/-- Exact value of the decimal literal `[sign] digits [. digits] [(e|E) [sign] digits]`
(at least one digit in the mantissa); `none` for anything else (`float()` raises `ValueError`;
`inf`/`nan`, surrounding blanks and `_` separators are not modelled). -/
def decValue (cs : List Char) : Option Rat :=
  let sb := splitSign cs
  let mant := sb.2.takeWhile notExpMark
  let rest := sb.2.dropWhile notExpMark
  let ip := mant.takeWhile notPoint
  let fp := (mant.dropWhile notPoint).drop 1
  if (ip ++ fp).isEmpty then none
  else match parseNat (ip ++ fp), expValue rest with
    | some m, some e =>
      let v := (m : Rat) * pow10 (e - (fp.length : Int))
      some (if sb.1 then -v else v)
    | _, _ => none

/-- `float(text)` -/
def parseFloat (P : Params) (cs : List Char) : Option Rat := (decValue cs).map P.rnd

/-- the text of a float column: `"{:.{sig-1}e}".format(x)` -/
def fmtFloat (sig : Nat) (x : Rat) : List Char := sciText sig (fmtSci sig x)

/-- `int(text)` for `[sign] digits` -/
def parseInt (cs : List Char) : Option Int :=
  let sb := splitSign cs
  if sb.2.isEmpty then none
  else match parseNat sb.2 with
    | none => none
    | some n => some (if sb.1 then -(n : Int) else (n : Int))

/-! ## `repr(float)` -/

/-- `x` truncated to `k` significant digits: mantissa and decimal exponent (`x > 0`) -/
def truncSci (k : Nat) (a : Rat) : Nat × Int :=
  let e := exp10 a
  ((a / pow10 (e - ((k : Int) - 1))).floor.toNat, e)

/-- normalise a mantissa that was rounded up to `10^k` -/
def normSci (k : Nat) (m : Nat) (e : Int) : Nat × Int :=
  if m = 10 ^ k then (10 ^ (k - 1), e + 1) else (m, e)

def mantValue (k : Nat) (me : Nat × Int) : Rat := (me.1 : Rat) * pow10 (me.2 - ((k : Int) - 1))

/-- The `k`-digit decimals next to `a > 0` (below and above) that read back as `a`; the closer one
first. -/
def reprCandidates (rnd : Rat → Rat) (k : Nat) (a : Rat) : List (Nat × Int) :=
  let t := truncSci k a
  let lo := t
  let hi := normSci k (t.1 + 1) t.2
  let ok := fun (c : Nat × Int) => decide (rnd (mantValue k c) = a)
  let dlo := a - mantValue k lo
  let dhi := mantValue k hi - a
  let ordered := if dhi < dlo then [hi, lo] else [lo, hi]
  ordered.filter ok

/-- shortest digit string (1 … 17 digits) that reads back as `a > 0`: `(k, mantissa, exponent)` -/
def reprSearch (rnd : Rat → Rat) (a : Rat) : Nat → Nat → Option (Nat × Nat × Int)
  | 0, _ => none
  | fuel + 1, k =>
    match reprCandidates rnd k a with
    | c :: _ => some (k, c.1, c.2)
    | [] => reprSearch rnd a fuel (k + 1)

def reprDigits (rnd : Rat → Rat) (a : Rat) : Option (Nat × Nat × Int) := reprSearch rnd a 17 1

/-- layout of `repr`: fixed notation for `-4 ≤ e < 16`, else exponent notation -/
def reprLayout (neg : Bool) (k m : Nat) (e : Int) : List Char :=
  let ds := fmtNat k m
  let sign := if neg then ['-'] else []
  if -4 ≤ e ∧ e < 16 then
    if (k : Int) - 1 ≤ e then
      sign ++ ds ++ List.replicate (e - ((k : Int) - 1)).toNat '0' ++ ['.', '0']
    else if 0 ≤ e then
      sign ++ ds.take (e.toNat + 1) ++ '.' :: ds.drop (e.toNat + 1)
    else
      sign ++ ['0', '.'] ++ List.replicate ((-e).toNat - 1) '0' ++ ds
  else
    sign ++ ds.take 1 ++ (if (ds.drop 1).isEmpty then [] else '.' :: ds.drop 1) ++ ['e']
      ++ [if e < 0 then '-' else '+'] ++ fmtNat 2 e.natAbs

/-- `repr(x)` / `"{}".format(x)` for a float `x` (`none`: no digit string of at most 17 digits
reads back as `x` — does not happen for binary64, not proved) -/
def reprText (rnd : Rat → Rat) (x : Rat) : Option (List Char) :=
  if x = 0 then some ['0', '.', '0']
  else
    match reprDigits rnd (ratAbs x) with
    | none => none
    | some (k, m, e) => some (reprLayout (decide (x < 0)) k m e)

/-! ## csv: `writer.writerow`, `reader` -/

def csvSpecial (c : Char) : Bool := c == ',' || c == '"' || c == '\r' || c == '\n'

/-- one field as `csv.writer` (QUOTE_MINIMAL, doublequote) writes it -/
def csvField (f : List Char) : List Char :=
  if f.any csvSpecial then
    '"' :: (f.flatMap (fun c => if c == '"' then ['"', '"'] else [c])) ++ ['"']
  else f

def csvJoin : List (List Char) → List Char
  | [] => []
  | [f] => csvField f
  | f :: fs => csvField f ++ ',' :: csvJoin fs

/-- one record with the line terminator `\r\n`; a record that consists of one empty field is
written as `""` -/
def csvRecord (fs : List (List Char)) : List Char :=
  (if fs = [[]] then ['"', '"'] else csvJoin fs) ++ ['\r', '\n']

inductive CsvSt | startRecord | afterCR | startField | inField | inQuoted | quoteInQuoted
deriving DecidableEq, Repr

structure CsvAcc where
  st : CsvSt := .startRecord
  field : List Char := []
  fields : List (List Char) := []
  recs : List (List (List Char)) := []

def isEol (c : Char) : Bool := c == '\n' || c == '\r'

/-- state after a line end: a `\n` directly after a `\r` belongs to the same line end -/
def eolState (c : Char) : CsvSt := if c == '\r' then .afterCR else .startRecord

/-- the reader at the start of a record -/
def csvStart (a : CsvAcc) (c : Char) : CsvAcc :=
  if isEol c then { a with st := eolState c, recs := a.recs ++ [[]] }   -- empty line: no fields
  else if c == '"' then { a with st := .inQuoted }
  else if c == ',' then { a with st := .startField, fields := a.fields ++ [[]] }
  else { a with st := .inField, field := [c] }

/-- The state machine of `_csv.reader` (default dialect, not strict) on one character of a file
opened with `newline=""` (the line ends `\n`, `\r`, `\r\n` reach the reader untranslated; inside a
quoted field they are data). -/
def csvStep (a : CsvAcc) (c : Char) : CsvAcc :=
  match a.st with
  | .startRecord => csvStart a c
  | .afterCR => if c == '\n' then { a with st := .startRecord } else csvStart a c
  | .startField =>
    if isEol c then
      { st := eolState c, field := [], fields := [], recs := a.recs ++ [a.fields ++ [[]]] }
    else if c == '"' then { a with st := .inQuoted }
    else if c == ',' then { a with fields := a.fields ++ [[]] }
    else { a with st := .inField, field := [c] }
  | .inField =>
    if isEol c then
      { st := eolState c, field := [], fields := [], recs := a.recs ++ [a.fields ++ [a.field]] }
    else if c == ',' then { a with st := .startField, field := [], fields := a.fields ++ [a.field] }
    else { a with field := a.field ++ [c] }
  | .inQuoted =>
    if c == '"' then { a with st := .quoteInQuoted }
    else { a with field := a.field ++ [c] }
  | .quoteInQuoted =>
    if c == '"' then { a with st := .inQuoted, field := a.field ++ ['"'] }
    else if isEol c then
      { st := eolState c, field := [], fields := [], recs := a.recs ++ [a.fields ++ [a.field]] }
    else if c == ',' then { a with st := .startField, field := [], fields := a.fields ++ [a.field] }
    else { a with st := .inField, field := a.field ++ [c] }

/-- `csv.reader` over a file opened with `newline=""`: the records of the text (a last line
without terminator is flushed) -/
def csvRead (cs : List Char) : List (List (List Char)) :=
  let a := cs.foldl csvStep {}
  match a.st with
  | .startRecord => a.recs
  | .afterCR => a.recs
  | _ => a.recs ++ [a.fields ++ [a.field]]

/-! ## user entries (`add_entry(name, typ, fmt)`) -/

inductive ETyp | int | flt | str
deriving DecidableEq, Repr

/-- a value handed to `update_for_epoch(..., name=value)` / returned by `get_info(e)[name]` -/
inductive EVal
  | int (n : Int)
  | flt (x : Rat)
  | str (s : List Char)
deriving DecidableEq

def EVal.typ : EVal → ETyp
  | .int _ => .int
  | .flt _ => .flt
  | .str _ => .str

/-- the format strings that are modelled: `"{}"`, `"{:d}"`/`"{:0wd}"` (`dec w`, `w = 0`: no padding),
`"{:.{sig-1}e}"` (`sci sig`), `"{:s}"`, `"{!r}"` -/
inductive EFmt
  | plain
  | dec (w : Nat)
  | sci (sig : Nat)
  | s
  | r
deriving DecidableEq, Repr

structure EntryDecl where
  name : List Char
  typ : ETyp
  fmt : EFmt

/-- `fmt.format(value)`; `none` = Python raises (format code does not fit the type) or not modelled -/
def fmtEntry (rnd : Rat → Rat) : EFmt → EVal → Option (List Char)
  | .plain, .int n => some (fmtInt 0 n)
  | .dec w, .int n => some (fmtInt w n)
  | .r, .int n => some (fmtInt 0 n)
  | .plain, .flt x => reprText rnd x
  | .r, .flt x => reprText rnd x
  | .sci sig, .flt x => some (fmtFloat sig x)
  | .plain, .str s => some s
  | .s, .str s => some s
  | _, _ => none

/-- `typ(text)` -/
def parseEntry (rnd : Rat → Rat) : ETyp → List Char → Option EVal
  | .int, cs => (parseInt cs).map EVal.int
  | .flt, cs => (decValue cs).map (fun v => EVal.flt (rnd v))
  | .str, cs => some (EVal.str cs)

/-- write then read one user entry -/
def rtEntry (rnd : Rat → Rat) (d : EntryDecl) (v : EVal) : Option EVal :=
  match fmtEntry rnd d.fmt v with
  | none => none
  | some t => parseEntry rnd d.typ t

/-! ## the whole file -/

def optAll {α} : List (Option α) → Option (List α)
  | [] => some []
  | none :: _ => none
  | some a :: r => (optAll r).map (a :: ·)

/-- a history row with its user entries (in declaration order) -/
structure RowE where
  row : Row
  user : List EVal
deriving DecidableEq

def headerFields (decls : List EntryDecl) : List (List Char) := headerC ++ decls.map (·.name)

/-- the formatted user entries of one row; `none`: a format raised / wrong number of values -/
def fmtUsers (rnd : Rat → Rat) (decls : List EntryDecl) (us : List EVal) : Option (List (List Char)) :=
  if decls.length = us.length then
    optAll ((decls.zip us).map (fun dv => fmtEntry rnd dv.1.fmt dv.2))
  else none

/-- the strings `save_info_to_hist` hands to `writer.writerow` -/
def rowFieldsE (P : Params) (decls : List EntryDecl) (r : RowE) : Option (List (List Char)) :=
  (fmtUsers P.rnd decls r.user).map (fun ts => rowFieldsC P r.row ++ ts)

/-- the file after the given rows have been appended one by one to a fresh file -/
def fileText (P : Params) (decls : List EntryDecl) (rows : List RowE) : Option (List Char) :=
  (optAll (rows.map (rowFieldsE P decls))).map
    (fun lines => csvRecord (headerFields decls) ++ lines.flatMap csvRecord)

/-- `DictReader`: the value of column `name` in a record -/
def column (header : List (List Char)) (rec : List (List Char)) (name : List Char) : Option (List Char) :=
  match header.findIdx? (fun h => h == name) with
  | none => none
  | some i => rec[i]?

/-- the user entries of one record as `update_cache` converts them -/
def readUsers (rnd : Rat → Rat) (decls : List EntryDecl) (header rec : List (List Char)) :
    Option (List EVal) :=
  optAll (decls.map (fun d => (column header rec d.name).bind (parseEntry rnd d.typ)))

/-- one record as `update_cache` converts it -/
def readRow (P : Params) (decls : List EntryDecl) (header rec : List (List Char)) : Option RowE :=
  let int := fun (n : List Char) => (column header rec n).bind parseInt
  let flt := fun (n : List Char) => (column header rec n).bind (parseFloat P)
  match int nEpoch, int nEsResume, int nEsCd, int nRlrResume, int nRlrCd, flt nLr, flt nTrain,
        flt nVal, readUsers P.rnd decls header rec with
  | some e, some a, some b, some c, some d, some lr, some tr, some va, some us =>
    if 0 ≤ e then
      some { row := { epoch := e.toNat, esResume := a, esCd := b, rlrResume := c, rlrCd := d,
                      lr := some lr, train := some tr, val := some va },
             user := us }
    else none
  | _, _, _, _, _, _, _, _, _ => none

/-- `update_cache` on a file: all rows after the header (`none`: some conversion raised) -/
def readHist (P : Params) (decls : List EntryDecl) (file : List Char) : Option (List RowE) :=
  match csvRead file with
  | [] => some []
  | header :: recs => optAll (recs.map (readRow P decls header))

/-- the user entries of one row after a write and a re-read -/
def rtUsers (rnd : Rat → Rat) (decls : List EntryDecl) (us : List EVal) : Option (List EVal) :=
  if decls.length = us.length then
    optAll ((decls.zip us).map (fun dv => rtEntry rnd dv.1 dv.2))
  else none

/-- one row after a write and a re-read, record level: `rtRow` on the controller's columns,
`rtEntry` on every user entry -/
def rtRowE (P : Params) (decls : List EntryDecl) (r : RowE) : Option RowE :=
  (rtUsers P.rnd decls r.user).map (fun us => { row := rtRow P r.row, user := us })

/-- A restart at the level of the characters of the history file: everything the controller has
recorded (rows `1…`, with the user entries `users`) is written row by row with `save_info_to_hist`
and read back with `update_cache`; row 0 is rebuilt from the parameters.  `none`: a format or a
conversion raised. -/
def restartText (P : Params) (decls : List EntryDecl) (S : State) (users : List (List EVal)) :
    Option (State × List (List EVal)) :=
  let rowsE := List.zipWith (fun r u => ({ row := r, user := u } : RowE)) (S.hist.drop 1) users
  match (fileText P decls rowsE).bind (readHist P decls) with
  | none => none
  | some rows => some ({ S with hist := row0 P :: rows.map (·.row) }, rows.map (·.user))

end PdtVerif.Controller
