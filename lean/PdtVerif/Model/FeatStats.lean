/-!
# Model of `_feats.py` (mean-variance normalisation, feature deltas) and `_rl.py` (returns)

Exact arithmetic over `Rat`.  The model follows the control flow of the code:

* `MeanVarianceNormalization.accumulate` — lazily created buffers `(count, sum, sumsq)`; each
  call moves the normalised dimension to the front (`transpose(0, dim).unsqueeze(-1).flatten(1)`),
  adds the number of frames to `count` and the per-coefficient sum / sum of squares to the
  buffers.  `store(bessel)` — `RuntimeError` when nothing was accumulated or `count` is below
  the documented minimum (1 frame, 2 under Bessel; the pinned code tested `count < 2`
  whatever `bessel` is — see fixes/C18-store-single-frame), `mean = sum / count`,
  `var = sumsq / count - mean²`, `var *= count / (count - 1)` under Bessel, `std = sqrt(var)`.
  The square root is a trusted primitive: the model works at the level of the variance and
  takes the value of `sqrt` as an argument wherever a standard deviation is *used*.
* `mean_var_norm` (= `forward`) — uses the stored mean / std when present, otherwise the
  input's own mean, and the own (biased) standard deviation of the *centred* input.
* `_feat_delta_filters` — a one-hot buffer of length `1 + 2·width·order`, convolved `order`
  times (`conv1d`, i.e. cross-correlation, `padding = width`) with
  `[width, width-1, …, -width] / Σ k²`; `feat_deltas` — transpose time to the end, flatten to
  rows, pad every row ONCE by `width·order` in the chosen mode, one `conv1d` with all
  composite filters, un-flatten, and move the order dimension to `dim` (stack or concatenate).
* `time_distributed_return` — `γ = 0` returns `r`; otherwise the matrix of quotients of the
  powers of `γ`, made triangular, is multiplied with `r` (either layout).

No Mathlib import: this file is evaluated by the driver.
-/
namespace PdtVerif.FeatStats

/-! ## Small dense tensors (row-major) -/

/-- A dense tensor: `data` is the logical row-major content, `data.length = prod shape`. -/
structure Tensor where
  shape : List Nat
  data : List Rat
  deriving Repr, BEq, DecidableEq

def prod : List Nat → Nat
  | [] => 1
  | s :: rest => s * prod rest

/-- Flat row-major index → multi-index. -/
def unravel : List Nat → Nat → List Nat
  | [], _ => []
  | _ :: rest, k => (k / prod rest) :: unravel rest (k % prod rest)

/-- Multi-index → flat row-major index. -/
def ravel : List Nat → List Nat → Nat
  | _ :: rest, i :: is => i * prod rest + ravel rest is
  | _, _ => 0

def Tensor.numel (t : Tensor) : Nat := prod t.shape

/-- `x.permute(perm)`: output dimension `j` is input dimension `perm[j]`. -/
def Tensor.permute (t : Tensor) (perm : List Nat) : Tensor :=
  let oshape := perm.map (fun d => t.shape.getD d 1)
  let D := t.shape.length
  { shape := oshape
    data := (List.range (prod oshape)).map (fun k =>
      let o := unravel oshape k
      let i := (List.range D).map (fun d => o.getD (perm.idxOf d) 0)
      t.data.getD (ravel t.shape i) 0) }

/-- `x.transpose(a, b)`. -/
def Tensor.transpose (t : Tensor) (a b : Nat) : Tensor :=
  t.permute ((List.range t.shape.length).map (fun d => if d = a then b else if d = b then a else d))

/-- `movedim(x, src, dst)`: the other dimensions keep their relative order. -/
def Tensor.movedim (t : Tensor) (src dst : Nat) : Tensor :=
  let others := (List.range t.shape.length).filter (· != src)
  t.permute (others.take dst ++ [src] ++ others.drop dst)

/-- `view`/`flatten`/`unsqueeze`: only the shape changes. -/
def Tensor.reshape (t : Tensor) (shape : List Nat) : Tensor := { t with shape := shape }

/-- The rows (last dimension) of a tensor viewed as a matrix with `n` columns. -/
def rowsOf (n : Nat) (data : List Rat) (nrows : Nat) : List (List Rat) :=
  (List.range nrows).map (fun i => (data.drop (i * n)).take n)

/-- Python-style dimension normalisation: `dim ∈ [-D, D)`; `none` = out of range. -/
def normDim (dim : Int) (D : Nat) : Option Nat :=
  if dim < -(D : Int) ∨ dim ≥ (D : Int) then none
  else some (((dim + D) % D).toNat)

/-! ## Mean-variance normalisation -/

def sumSq (l : List Rat) : Rat := (l.map (fun x => x * x)).sum

/-- `x.transpose(0, dim).unsqueeze(-1).flatten(1)`: one list of frames per coefficient. -/
def columns (x : Tensor) (dim : Nat) : List (List Rat) :=
  let X := x.shape.getD dim 1
  let xt := x.transpose 0 dim
  rowsOf (x.numel / X) xt.data X

/-- The three buffers. `count` is the number of frames seen. -/
structure Acc where
  count : Nat
  sum : List Rat
  sumsq : List Rat
  deriving Repr, BEq, DecidableEq

/-- One `accumulate` call given the per-coefficient frame lists `cols` (all of one length,
the number of frames `x.size(1)` of the flattened input). Buffers are created on first use. -/
def accumulateCols (st : Option Acc) (cols : List (List Rat)) : Acc :=
  let st0 := st.getD ⟨0, List.replicate cols.length 0, List.replicate cols.length 0⟩
  { count := st0.count + (cols.headD []).length
    sum := List.zipWith (· + ·) st0.sum (cols.map List.sum)
    sumsq := List.zipWith (· + ·) st0.sumsq (cols.map sumSq) }

/-- `x.transpose(0, dim).unsqueeze(-1).flatten(1).size(1)`: the number of frames of one call, the
product of all extents but the `dim`-th — whatever the extent of `dim` itself is. -/
def frameCount (x : Tensor) (dim : Nat) : Nat := prod (x.shape.eraseIdx dim)

/-- `MeanVarianceNormalization.accumulate(x)` for a non-negative `dim`.  With at least one
coefficient the frames are counted on the columns (`accumulateCols`); with NO coefficient
(`x.size(dim) = 0`) there is no column to count them on, but the code still adds `x.size(1)` to
`count` and keeps empty `sum` / `sumsq` (audit: the first model counted 0 there, so `store`
raised where the code writes empty statistics). -/
def accumulate (st : Option Acc) (x : Tensor) (dim : Nat) : Acc :=
  let a := accumulateCols st (columns x dim)
  if x.shape.getD dim 1 = 0 then { a with count := (st.map (·.count)).getD 0 + frameCount x dim } else a

/-- `store(bessel)` at the variance level: `(mean, var)` with `std = sqrt(var)` in the code.
`none` = `RuntimeError("Too few accumulated statistics")`. -/
def store (st : Option Acc) (bessel : Bool) : Option (List Rat × List Rat) :=
  match st with
  | none => none
  | some a =>
    if a.count < (if bessel then 2 else 1) then none
    else
      let n : Rat := a.count
      let mean := a.sum.map (· / n)
      let var := List.zipWith (fun q m => q / n - m * m) a.sumsq mean
      let var := if bessel then var.map (· * (n / (n - 1))) else var
      some (mean, var)

def mean (l : List Rat) : Rat := l.sum / l.length

/-- What `tensor.std(1, unbiased=False)` squares to: the central second moment. -/
def varCentral (l : List Rat) : Rat := (l.map (fun x => (x - mean l) * (x - mean l))).sum / l.length

/-- Put per-coefficient columns back into the layout of `x` (inverse of `columns`). -/
def uncolumns (x : Tensor) (dim : Nat) (cols : List (List Rat)) : Tensor :=
  let xt := x.transpose 0 dim
  ({ shape := xt.shape, data := cols.flatten } : Tensor).transpose 0 dim

/-- One coefficient: subtract the mean, divide by `max(std, eps)`. -/
def normCol (col : List Rat) (m s eps : Rat) : List Rat := (col.map (· - m)).map (· / max s eps)

/-- `mean_var_norm` on the per-coefficient frame lists.  `sqrtOwn` supplies, per coefficient,
the value the trusted `sqrt` returns for the own variance (used only when `std` is absent).
Returns `(mean used, own variance of the centred input, normalised columns)`. -/
def meanVarNormCols (cols : List (List Rat)) (mean? std? : Option (List Rat)) (sqrtOwn : List Rat)
    (eps : Rat) : List Rat × List Rat × List (List Rat) :=
  let mu := mean?.getD (cols.map mean)
  let centred := List.zipWith (fun c m => c.map (· - m)) cols mu
  let ownVar := centred.map varCentral
  let sd := std?.getD sqrtOwn
  let ys := List.zipWith (fun c s => c.map (· / max s eps)) centred sd
  (mu, ownVar, ys)

/-- `mean_var_norm(x, dim, mean, std, eps)`: the columns are taken out of `x`
(`transpose(0, dim)…flatten(1)`), normalised, and put back (broadcast `view(shape)`). -/
def meanVarNorm (x : Tensor) (dim : Nat) (mean? std? : Option (List Rat)) (sqrtOwn : List Rat)
    (eps : Rat) : List Rat × List Rat × Tensor :=
  let (mu, ownVar, ys) := meanVarNormCols (columns x dim) mean? std? sqrtOwn eps
  (mu, ownVar, uncolumns x dim ys)

/-- A whole history of `accumulate` calls on per-coefficient frame lists. -/
def accumulateAllCols (chunks : List (List (List Rat))) : Option Acc :=
  chunks.foldl (fun st c => some (accumulateCols st c)) none

/-- A whole history of `accumulate` calls on tensors. -/
def accumulateAll (dim : Nat) (xs : List Tensor) : Option Acc :=
  xs.foldl (fun st x => some (accumulate st x dim)) none

/-! ## The module as a state machine (`accumulate` / `store(delete_stats, bessel)` in any order) -/

/-- What a `MeanVarianceNormalization` object carries between calls: the three accumulation
buffers (`none` = the buffers are `None`) and the stored statistics `(mean, var)` with
`std = sqrt(var)` (`none` = `mean`/`std` are `None`). -/
structure MvnState where
  acc : Option Acc
  stats : Option (List Rat × List Rat)
  deriving Repr, BEq, DecidableEq

inductive MvnOp where
  /-- `accumulate(x)`, `cols = columns x dim` -/
  | accumulate (cols : List (List Rat))
  /-- `store(delete_stats, bessel)` -/
  | store (deleteStats bessel : Bool)
  deriving Repr

/-- One method call.  The flag says whether the call raised `RuntimeError`; `store` raises before it
touches anything, so the state is then unchanged.  A successful `store` overwrites whatever
statistics were there and drops the buffers iff `delete_stats`. -/
def mvnStep (s : MvnState) : MvnOp → MvnState × Bool
  | .accumulate cols => ({ s with acc := some (accumulateCols s.acc cols) }, false)
  | .store del bessel =>
    match store s.acc bessel with
    | none => (s, true)
    | some st => ({ acc := if del then none else s.acc, stats := some st }, false)

/-- Any sequence of calls (a caller that catches the `RuntimeError`s and carries on). -/
def mvnRun (s : MvnState) (ops : List MvnOp) : MvnState :=
  ops.foldl (fun s op => (mvnStep s op).1) s

/-! ## `compute-mvn-stats-for-torch-feat-data-dir`: one accumulator per group -/

inductive CliResult where
  /-- an error message was printed, the command returned 1 and wrote nothing -/
  | exit1
  /-- `store` raised `RuntimeError` (a group with too few frames) -/
  | raised
  /-- the dictionary that is saved, in the order of the group table -/
  | wrote (stats : List (Option String × (List Rat × List Rat)))
  deriving Repr, BEq, DecidableEq

/-- `id2gid[id_]`: without `--id2gid` a `defaultdict` that maps every id to the group `None`;
with it a `dict` (outer `none` = `KeyError`). -/
def cliLookup (m : Option (List (String × String))) (id : String) : Option (Option String) :=
  match m with
  | none => some none
  | some tbl => (tbl.lookup id).map some

/-- `gid2mvn`: the group ids in order of first appearance, every accumulator still `None`. -/
def cliTable (m : Option (List (String × String))) : List (Option String × Option Acc) :=
  match m with
  | none => [(none, none)]
  | some tbl => (tbl.map (fun p => some p.2)).eraseDups.map (fun g => (g, none))

/-- `mvn = gid2mvn[gid]; mvn.accumulate(x)` (the module is created on first use). -/
def cliPut (tbl : List (Option String × Option Acc)) (gid : Option String) (cols : List (List Rat)) :
    List (Option String × Option Acc) :=
  tbl.map (fun p => if p.1 = gid then (p.1, some (accumulateCols p.2 cols)) else p)

/-- The loop over the files (sorted by id); `none` = an id the map does not list (exit status 1). -/
def cliLoop (m : Option (List (String × String))) :
    List (Option String × Option Acc) → List (String × List (List Rat)) →
    Option (List (Option String × Option Acc))
  | tbl, [] => some tbl
  | tbl, (id, cols) :: rest =>
    match cliLookup m id with
    | none => none
    | some gid => cliLoop m (cliPut tbl gid cols) rest

/-- The loop over the groups: a group without files is skipped (the group `None`, i.e. no
`--id2gid` and no feature file: exit status 1), otherwise `store(bessel=...)`. -/
def cliFinish (bessel : Bool) : List (Option String × Option Acc) → CliResult
  | [] => .wrote []
  | (gid, none) :: rest => if gid = none then .exit1 else cliFinish bessel rest
  | (gid, some a) :: rest =>
    match store (some a) bessel with
    | none => .raised
    | some st =>
      match cliFinish bessel rest with
      | .wrote l => .wrote ((gid, st) :: l)
      | r => r

/-- The parser rejects a map that lists an id twice (exit status 1). -/
def cliMapOk : Option (List (String × String)) → Bool
  | none => true
  | some tbl => decide (tbl.map (·.1)).Nodup

/-- The whole command on the parsed id map (`none` = no `--id2gid`) and the files in the
order of the directory dataset (sorted ids), each as its coefficient columns. -/
def cliStats (m : Option (List (String × String))) (files : List (String × List (List Rat)))
    (bessel : Bool) : CliResult :=
  if cliMapOk m then
    match cliLoop m (cliTable m) files with
    | none => .exit1
    | some t => cliFinish bessel t
  else .exit1

/-! ## Feature deltas -/

/-- `Σ_{k=1..w} k²`. -/
def sumSquares : Nat → Nat
  | 0 => 0
  | w + 1 => (w + 1) * (w + 1) + sumSquares w

/-- `torch.arange(width, -width - 1, -1) / Σ k²` — entry `j` is `(width - j) / (2 Σ_{k≤w} k²)`. -/
def kernel (w : Nat) : List Rat :=
  (List.range (2 * w + 1)).map (fun (j : Nat) => (((w : Int) - (j : Int) : Int) : Rat) / ((2 * sumSquares w : Nat) : Rat))

/-- `conv1d` without padding (a cross-correlation): `out[i] = Σ_j x[i + j] · f[j]`,
`|out| = |x| + 1 - |f|`. -/
def corrValid (x f : List Rat) : List Rat :=
  (List.range (x.length + 1 - f.length)).map (fun i =>
    ((List.range f.length).map (fun j => x.getD (i + j) 0 * f.getD j 0)).sum)

def padZero (p : Nat) (l : List Rat) : List Rat := List.replicate p 0 ++ l ++ List.replicate p 0

def oneHot (len pos : Nat) : List Rat := (List.range len).map (fun i => if i = pos then 1 else 0)

/-- The successive buffers `last_filt` of `_feat_delta_filters`. -/
def filtIter (w : Nat) (f0 : List Rat) : Nat → List Rat
  | 0 => f0
  | u + 1 => corrValid (padZero w (filtIter w f0 u)) (kernel w)

/-- `_feat_delta_filters(order, width)`; `none` = `RuntimeError` (width < 1). -/
def deltaFilters (order w : Nat) : Option (List (List Rat)) :=
  if w < 1 then none
  else
    let f0 := oneHot (1 + 2 * w * order) (w * order)
    some ((List.range (order + 1)).map (filtIter w f0))

inductive PadMode where
  | replicate | constant (v : Rat) | reflect | circular
  deriving Repr, BEq

/-- The padded row as a function of the position `i ∈ [-p, T + p)` (relative to the
unpadded row). -/
def extAt (mode : PadMode) (x : List Rat) (i : Int) : Rat :=
  let T : Int := x.length
  match mode with
  | .replicate => x.getD (max 0 (min i (T - 1))).toNat 0
  | .constant v => if i < 0 ∨ i ≥ T then v else x.getD i.toNat 0
  | .reflect => x.getD (if i < 0 then -i else if i ≥ T then 2 * (T - 1) - i else i).toNat 0
  | .circular => x.getD (i % T).toNat 0

/-- `torch.nn.functional.pad(row, (p, p), mode, value)`; `none` = the `RuntimeError`s torch
raises (reflect needs `p < T`, circular `p ≤ T`, replicate a non-empty row when `p > 0`). -/
def padLegal (mode : PadMode) (p T : Nat) : Bool :=
  match mode with
  | .replicate => p = 0 ∨ T > 0
  | .constant _ => true
  | .reflect => p = 0 ∨ p < T
  | .circular => p = 0 ∨ p ≤ T

def pad1d (mode : PadMode) (p : Nat) (x : List Rat) : Option (List Rat) :=
  let T := x.length
  if padLegal mode p T then
    some ((List.range (T + 2 * p)).map (fun (k : Nat) => extAt mode x ((k : Int) - (p : Int))))
  else none

/-- All deltas of one row: `conv1d(pad(row), filters)` — entry `u` is order `u`. -/
def deltaRow (mode : PadMode) (order w : Nat) (filters : List (List Rat)) (row : List Rat) :
    Option (List (List Rat)) :=
  (pad1d mode (w * order) row).map (fun xp => filters.map (fun f => corrValid xp f))

def setAt (l : List Nat) (i v : Nat) : List Nat := l.set i v

/-- The tail of `feat_deltas` once the rows are convolved: `outs[r][u]` is the order-`u` delta of
row `r` of the input with time moved last (`xtShape` is that tensor's shape, rank `D`).
`x.view(shape[:-1] + (order+1,) + shape[-1:])`, `transpose(-2, -1)`, `transpose(time_dim, -2)`,
`movedim(-1, dim)` and, under `concatenate`, `flatten(dim, dim + 1)`. -/
def assembleDeltas (xtShape : List Nat) (D td dm : Nat) (concatenate : Bool) (order : Nat)
    (outs : List (List (List Rat))) : Tensor :=
  let T := xtShape.getLast?.getD 1
  -- (rows, order+1, T) viewed as shape[:-1] + (order+1, T)
  let y : Tensor := { shape := xtShape.dropLast ++ [order + 1, T], data := (outs.map List.flatten).flatten }
  -- transpose(-2, -1): (..., T, order+1); then transpose(time_dim, -2)
  let y := y.transpose (D - 1) D
  let y := y.transpose td (D - 1)
  let y := y.movedim D dm
  if concatenate then
    let s := y.shape
    y.reshape (s.take dm ++ [s.getD dm 1 * s.getD (dm + 1) 1] ++ s.drop (dm + 2))
  else y

/-- The row-by-row part of `feat_deltas`: transpose time to the end, flatten to rows, pad and
convolve every row, re-assemble.  An error shows up here only through a row (`deltaRow`). -/
def featDeltasRows (x : Tensor) (td dm : Nat) (concatenate : Bool) (order w : Nat) (mode : PadMode)
    (filters : List (List Rat)) : Option Tensor :=
  let D := x.shape.length
  let xt := x.transpose td (D - 1)
  let T := xt.shape.getLast?.getD 1
  let nrows := xt.numel / (if T = 0 then 1 else T)
  let rows := rowsOf T xt.data (if T = 0 then 0 else nrows)
  (rows.mapM (deltaRow mode order w filters)).map (assembleDeltas xt.shape D td dm concatenate order)

/-- `feat_deltas` after the argument checks (`td`, `dm` normalised, `filters` built).
`torch.nn.functional.pad` and `conv1d` look at the SHAPE `(rows, 1, T)` of the flattened input, not
at its content: a padding the mode forbids for `T` frames is rejected even when there is no row at
all (another axis has extent 0), and a time axis of extent 0 is always rejected (`conv1d`: the
padded length `2·width·order` is shorter than the filter; `replicate`/`reflect` `pad` reject it
before that).  (Audit: the first version of the model raised only through a row, i.e. returned an
empty tensor in both situations; the real code raises `RuntimeError`.) -/
def featDeltasCore (x : Tensor) (td dm : Nat) (concatenate : Bool) (order w : Nat) (mode : PadMode)
    (filters : List (List Rat)) : Option Tensor :=
  let T := x.shape.getD td 1
  if T = 0 ∨ !(padLegal mode (w * order) T) then none
  else featDeltasRows x td dm concatenate order w mode filters

/-- `feat_deltas(x, dim, time_dim, concatenate, order, width, pad_mode, value)`.
`none` = `RuntimeError`. -/
def featDeltas (x : Tensor) (dim timeDim : Int) (concatenate : Bool) (order w : Nat)
    (mode : PadMode) : Option Tensor := do
  let filters ← deltaFilters order w
  let D := x.shape.length
  let td ← normDim timeDim D
  let D' := if concatenate then D else D + 1
  let dm ← normDim dim D'
  featDeltasCore x td dm concatenate order w mode filters

/-! ## Discounted returns -/

def dot (a b : List Rat) : Rat := (List.zipWith (· * ·) a b).sum

/-- `torch.matmul` of row lists; `ncols` is the width of `B`. -/
def matmul (A B : List (List Rat)) (ncols : Nat) : List (List Rat) :=
  A.map (fun row => (List.range ncols).map (fun n => dot row (B.map (fun br => br.getD n 0))))

/-- `torch.pow(gamma, arange(T))`. -/
def powers (g : Rat) (T : Nat) : List Rat := (List.range T).map (fun t => g ^ t)

/-- Pinned code: `(d.unsqueeze(0) / d.unsqueeze(1)).triu()` with `d = powers g T`:
entry `[i][j] = d[j] / d[i]` for `i ≤ j`. -/
def discountTriuQuot (d : List Rat) : List (List Rat) :=
  (List.range d.length).map (fun i => (List.range d.length).map (fun j =>
    if i ≤ j then d.getD j 0 / d.getD i 0 else 0))

/-- Pinned code: `(d.unsqueeze(1) / d.unsqueeze(0)).tril()`: entry `[i][j] = d[i] / d[j]` for `j ≤ i`. -/
def discountTrilQuot (d : List Rat) : List (List Rat) :=
  (List.range d.length).map (fun i => (List.range d.length).map (fun j =>
    if j ≤ i then d.getD i 0 / d.getD j 0 else 0))

/-- Repaired code (fixes/C18-return-underflow-nan):
`pow(gamma, (e.unsqueeze(0) - e.unsqueeze(1)).clamp_min(0)).triu()`, `e = arange(T)`:
entry `[i][j] = g^(j - i)` for `i ≤ j`. -/
def discountTriu (g : Rat) (T : Nat) : List (List Rat) :=
  (List.range T).map (fun i => (List.range T).map (fun j => if i ≤ j then g ^ (j - i) else 0))

/-- Repaired code: `pow(gamma, (e.unsqueeze(1) - e.unsqueeze(0)).clamp_min(0)).tril()`:
entry `[i][j] = g^(i - j)` for `j ≤ i`. -/
def discountTril (g : Rat) (T : Nat) : List (List Rat) :=
  (List.range T).map (fun i => (List.range T).map (fun j => if j ≤ i then g ^ (i - j) else 0))

/-- `time_distributed_return(r, gamma, batch_first)` on a `rows × cols` matrix `r`, as repaired
(the discount matrix holds `γ^(t' - t)` computed from the exponent difference). -/
def tdReturn (r : List (List Rat)) (cols : Nat) (g : Rat) (batchFirst : Bool) : List (List Rat) :=
  if g = 0 then r
  else if batchFirst then
    matmul r (discountTril g cols) cols
  else
    matmul (discountTriu g r.length) r cols

/-- The same function as in the pinned tree (the discount matrix is the quotient of two
powers).  Over `Rat` both agree (`C18_return_pinned`); in floating point the quotient is
`0/0 = NaN` once `γ^t` underflows. -/
def tdReturnQuot (r : List (List Rat)) (cols : Nat) (g : Rat) (batchFirst : Bool) : List (List Rat) :=
  if g = 0 then r
  else if batchFirst then
    matmul r (discountTrilQuot (powers g cols)) cols
  else
    matmul (discountTriuQuot (powers g r.length)) r cols

end PdtVerif.FeatStats
