import PdtVerif.Model.CommandLine
/-!
# C17 — the tensors `compute-torch-token-data-dir-error-rates` hands to `error_rate`

```
idee_, eos, padding = [0], -1, -2
...
ref = pad_sequence([torch.tensor(transcript + [eos]) for _, transcript in batch_ref_transcripts],
                   padding_value=padding)
ers = error_rate(ref, hyp, eos=eos, include_eos=False, ...)
```

Stored token ids are arbitrary `int64` values (either sign: `_parse_token2id` reads a leading `-`),
so the two local sentinels `eos = -1` and `padding = -2` are only safe because every token is first
renumbered through `token2id = defaultdict(get_idee)` (ids `0, 1, 2, …`). This file models the
columns of the two tensors and what `error_rate` reads from a column (`_lens_from_eos`: everything
before the FIRST `eos`); `Lemmas/CommandLineEos.lean` proves that the renumbered columns read back as
the renumbered sequences for tokens of either sign, and that this fails for raw ids.
-/
namespace PdtVerif.CommandLine

/-- `eos` of the command. -/
def erEos : Int := -1
/-- `padding` of the command. -/
def erPad : Int := -2

/-- One column of `pad_sequence([tensor(seq + [eos]) ...], padding_value=padding)` of height `T`
(`T` = the longest `len(seq) + 1` of the batch). -/
def erColumn (T : Nat) (ids : List Int) : List Int :=
  ids ++ erEos :: List.replicate (T - (ids.length + 1)) erPad

/-- What `error_rate(eos=-1, include_eos=False)` takes as the sequence of a column
(`_lens_from_eos`: the length up to the first `eos`, exclusive). -/
def erRead (col : List Int) : List Int := col.takeWhile (fun x => x != erEos)

/-- The columns of one tensor: height = longest sequence + 1. -/
def erTensor (seqs : List (List Int)) : List (List Int) :=
  let T := (seqs.map (fun s => s.length + 1)).foldl max 0
  seqs.map (erColumn T)

section
variable {τ υ : Type} [DecidableEq τ]

/-- `ref` and `hyp` of one pass of the loop, as lists of columns, and the `token2id` table
afterwards: references of the batch are numbered first, then the hypotheses (as `accBatch`). -/
def batchTensors (table : List τ) (batch : List (Pair υ τ)) :
    (List (List Int) × List (List Int)) × List τ :=
  let (refs, table1) := internMany table (batch.map (·.2.1))
  let (hyps, table2) := internMany table1 (batch.map (·.2.2))
  ((erTensor (refs.map (·.map Int.ofNat)), erTensor (hyps.map (·.map Int.ofNat))), table2)

/-- Every `(ref, hyp)` the command presents to `error_rate`, in order. -/
def allTensors (batchSize : Nat) (pairs : List (Pair υ τ)) :
    List (List (List Int) × List (List Int)) :=
  ((chunks batchSize pairs.length pairs).foldl
    (fun (st : List (List (List Int) × List (List Int)) × List τ) b =>
      let (x, table) := batchTensors st.2 b
      (st.1 ++ [x], table)) ([], [])).1

end
end PdtVerif.CommandLine
