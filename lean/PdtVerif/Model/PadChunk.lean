import PdtVerif.Spec.PadSlice
/-!
# Model of `_pad.py` (`_get_padding_buffers`, `pad_variable`, `chunk_by_slices`,
# `pad_masked_sequence`) and `_img.py::random_shift`

Follows the code. The crux is kept: every `masked_select` produces ONE flat buffer for the
whole batch (row-major), every `masked_scatter` walks the true cells of its mask in
row-major order over the whole batch and consumes its source front to back. Nothing in
`maskedSelect` / `maskedScatter` knows about rows "belonging together": if the per-row
counts of a source and a destination mask differ, data moves into other rows, exactly as
in the library.

Representation.
* A batch is a list of per-row records (`PadRow`, `ChunkRow`, `MaskRow`) holding the row of
  the `(N, T, F)` tensor together with that row's entry of `lens` / `pad` / `slices`
  (array-of-structures instead of the code's structure-of-arrays; `padVariableT` etc. do
  the code's shape validation on the parallel lists and zip them).
* The trailing dimensions are flattened to `F` by the code and every mask is `expand`ed
  along `F`, so selection and scatter act on whole frames; a cell of the model is one frame
  (`α` is abstract; the driver uses `List Int`).
* `T` is the time dimension of the input tensor, passed separately because rows of an
  empty batch cannot carry it.
* Errors: `Except Err`, with the Python exception class as `Err`.

`pinned = true` selects the replicate-mode buffer construction of the pinned tree (masks
cut from `arange(T)`, with torch's size-1 broadcasting when `T = 1`); `pinned = false` is
the repaired construction (`fixes/C09-replicate-pad-gt-T.diff`). The property theorems
are about `pinned = false`; `…_counterexample` / `…_pinned_partial` are about `true`.

No Mathlib imports: the driver runs this file.
-/
namespace PdtVerif.PadChunk
open PdtVerif.PadSlice

inductive Err where
  | value | runtime | notimpl
  deriving Repr, DecidableEq

variable {α : Type}

/-! ## masked_select / masked_scatter over a batch-flattened buffer -/

/-- One row of `masked_select`. -/
def selRow : List Bool → List α → List α
  | b :: m, x :: xs => if b then x :: selRow m xs else selRow m xs
  | _, _ => []

/-- `x.masked_select(mask)`: one flat buffer, row-major. -/
def maskedSelect (M : List (List Bool)) (X : List (List α)) : List α :=
  (List.zipWith selRow M X).flatten

/-- One row of `masked_scatter`: returns the new row and the unconsumed source. A true
cell met after the source ran dry keeps its old value (`maskedScatter` rejects that
situation up front, like torch). -/
def scatRow : List Bool → List α → List α → List α × List α
  | b :: m, d :: ds, src =>
    if b then
      match src with
      | s :: ss => let r := scatRow m ds ss; (s :: r.1, r.2)
      | [] => let r := scatRow m ds []; (d :: r.1, r.2)
    else
      let r := scatRow m ds src; (d :: r.1, r.2)
  | _, ds, src => (ds, src)

/-- Rows in order, the source threaded through. -/
def scatRows : List (List Bool) → List (List α) → List α → List (List α)
  | m :: M, d :: D, src => let r := scatRow m d src; r.1 :: scatRows M D r.2
  | _, D, _ => D

def countTrue (M : List (List Bool)) : Nat := (M.map (fun m => m.count true)).sum

/-- `dst.masked_scatter(mask, src)`: RuntimeError when the source has fewer elements than
the mask has true cells; surplus source elements are ignored. -/
def maskedScatter (D : List (List α)) (M : List (List Bool)) (src : List α) :
    Except Err (List (List α)) :=
  if src.length < countTrue M then .error .runtime else .ok (scatRows M D src)

/-! ## masks -/

/-- `(k > arange[:T])` for one row. -/
def maskLt (T k : Nat) : List Bool := (List.range T).map (fun t => decide (t < k))

/-- `a & ~b` -/
def andNot (a b : List Bool) : List Bool := List.zipWith (fun p q => p && !q) a b

def andM (a b : List Bool) : List Bool := List.zipWith (fun p q => p && q) a b

/-- `.max()` of a non-empty tensor of non-negative integers. -/
def maxOf (l : List Nat) : Nat := l.foldr max 0

/-! ## `_get_padding_buffers` -/

/-- What `_get_padding_buffers` sees of one row. -/
structure BufRow (α : Type) where
  x : List α
  len : Nat
  l : Nat
  r : Nat

/-- reflect, left: `x.gather(1, clamp(l - t, 0))` for `t < left_max`, selected by
`left_mask[:, :left_max]` (a mask over `arange(T)`). -/
def reflectLeft (value : α) (T leftMax : Nat) (b : BufRow α) : List α :=
  selRow ((maskLt T b.l).take leftMax)
    ((List.range leftMax).map (fun t => b.x.getD (b.l - t) value))

/-- reflect, right: `x.gather(1, clamp(len - t - 2, 0))` for `t < right_max`, selected by
`r > arange[:right_max]`. -/
def reflectRight (value : α) (T rightMax : Nat) (b : BufRow α) : List α :=
  selRow (maskLt (min T rightMax) b.r)
    ((List.range rightMax).map (fun t => b.x.getD (b.len - t - 2) value))

/-- replicate, repaired: masks are sized by the largest pad. -/
def replLeft (value : α) (leftMax : Nat) (b : BufRow α) : List α :=
  selRow (maskLt leftMax b.l) (List.replicate leftMax (b.x.headD value))

def replRight (value : α) (rightMax : Nat) (b : BufRow α) : List α :=
  selRow (maskLt rightMax b.r) (List.replicate rightMax (b.x.getD (b.len - 1) value))

/-- replicate on the pinned tree with `T = 1`: the `(N, 1, F)` mask is broadcast along the
time axis, so a row with a non-zero pad contributes `max` (not `pad`) elements. -/
def replLeftPinnedT1 (value : α) (leftMax : Nat) (b : BufRow α) : List α :=
  selRow (List.replicate leftMax (decide (0 < b.l))) (List.replicate leftMax (b.x.headD value))

def replRightPinnedT1 (value : α) (rightMax : Nat) (b : BufRow α) : List α :=
  selRow (List.replicate rightMax (decide (0 < b.r)))
    (List.replicate rightMax (b.x.getD (b.len - 1) value))

/-- `_get_padding_buffers(x, lens, left_pad, right_pad, mode)` → flat `(left_buf, right_buf)`.
Constant mode returns buffers that are never read (modelled as empty). -/
def paddingBuffers (pinned : Bool) (mode : Mode) (value : α) (T : Nat) (bs : List (BufRow α)) :
    Except Err (List α × List α) :=
  let leftMax := maxOf (bs.map (·.l))
  let rightMax := maxOf (bs.map (·.r))
  match mode with
  | .constant => .ok ([], [])
  | .reflect =>
    if bs.any (fun b => decide (b.l ≥ b.len) || decide (b.r ≥ b.len)) then .error .notimpl
    else .ok ((bs.map (reflectLeft value T leftMax)).flatten,
              (bs.map (reflectRight value T rightMax)).flatten)
  | .replicate =>
    if bs.any (fun b => decide (b.len < 1)) then .error .runtime
    else if pinned then
      if T = 1 then
        .ok ((bs.map (replLeftPinnedT1 value leftMax)).flatten,
             (bs.map (replRightPinnedT1 value rightMax)).flatten)
      else if T < leftMax ∨ T < rightMax then .error .runtime
      else .ok ((bs.map (replLeft value leftMax)).flatten,
                (bs.map (replRight value rightMax)).flatten)
    else .ok ((bs.map (replLeft value leftMax)).flatten,
              (bs.map (replRight value rightMax)).flatten)

/-! ## `pad_variable` -/

structure PadRow (α : Type) where
  x : List α
  len : Nat
  l : Nat
  r : Nat

def PadRow.buf (p : PadRow α) : BufRow α := ⟨p.x, p.len, p.l, p.r⟩
def PadRow.newLen (p : PadRow α) : Nat := p.len + (p.l + p.r)

/-- `pad_variable` after shape validation. `rows = []` is the empty batch, on which
`new_lens.max()` raises. -/
def padVariable (pinned : Bool) (mode : Mode) (value : α) (T : Nat) (rows : List (PadRow α)) :
    Except Err (List (List α)) :=
  if rows.isEmpty then .error .runtime else
  match paddingBuffers pinned mode value T (rows.map PadRow.buf) with
  | .error e => .error e
  | .ok (leftBuf, rightBuf) =>
    let Tp := maxOf (rows.map PadRow.newLen)
    let leftMask := rows.map (fun p => maskLt Tp p.l)
    let midMask := rows.map (fun p => maskLt Tp (p.l + p.len))
    let rightMask := rows.map (fun p => maskLt Tp p.newLen)
    let lenMask := rows.map (fun p => maskLt T p.len)
    let padded := rows.map (fun _ => List.replicate Tp value)
    let xsel := maskedSelect lenMask (rows.map (·.x))
    match maskedScatter padded (List.zipWith andNot midMask leftMask) xsel with
    | .error e => .error e
    | .ok padded1 =>
      if mode = .constant then .ok padded1 else
      match maskedScatter padded1 leftMask leftBuf with
      | .error e => .error e
      | .ok padded2 => maskedScatter padded2 (List.zipWith andNot rightMask midMask) rightBuf

/-- Tensor-level entry: the shape checks of `pad_variable` (ValueError), then zip. -/
def padVariableT (pinned : Bool) (mode : Mode) (value : α) (T : Nat) (x : List (List α))
    (lens pad0 pad1 : List Nat) (padOuter : Nat := 2) : Except Err (List (List α)) :=
  if lens.length ≠ x.length then .error .value
  else if padOuter ≠ 2 ∨ pad0.length ≠ x.length ∨ pad1.length ≠ x.length then .error .value
  else
    padVariable pinned mode value T
      (List.zipWith (fun (xl : List α × Nat) (p : Nat × Nat) => ⟨xl.1, xl.2, p.1, p.2⟩)
        (x.zip lens) (pad0.zip pad1))

/-! ## `pad_masked_sequence` -/

structure MaskRow (α : Type) where
  x : List α
  mask : List Bool

/-- `pad_masked_sequence` in batch-first layout. -/
def padMaskedCore (value : α) (T : Nat) (rows : List (MaskRow α)) :
    Except Err (List (List α) × List Nat) :=
  let lens := rows.map (fun r => r.mask.count true)
  let lmask := rows.map (fun r => maskLt T (r.mask.count true))
  let full := rows.map (fun r => r.x.map (fun _ => value))
  match maskedScatter full lmask (maskedSelect (rows.map (·.mask)) (rows.map (·.x))) with
  | .error e => .error e
  | .ok out => .ok (out, lens)

/-- `(A, B)` nested lists → `(B, A)`; `B` given because `A` may be 0. -/
def transpose {β : Type} (B : Nat) (X : List (List β)) (dflt : β) : List (List β) :=
  (List.range B).map (fun j => X.map (fun row => row.getD j dflt))

/-- `mask.expand(A, B)` for a 2-D tensor given as nested lists together with its own shape `(a, b)`
(the nested list cannot carry `b` when `a = 0`): torch's rule, a dimension of size 1 is repeated,
every other size must match; RuntimeError otherwise. -/
def expand2 {β : Type} (A B a b : Nat) (m : List (List β)) : Except Err (List (List β)) :=
  if (a = A ∨ a = 1) ∧ (b = B ∨ b = 1) then
    let rows := if a = A then m else (List.replicate A (m.headD []))
    .ok (rows.map (fun row => if b = B then row else
      match row with
      | v :: _ => List.replicate B v
      | [] => []))
  else .error .runtime

/-- `pad_masked_sequence(x, mask, batch_first, padding_value)` on whole tensors: `x` has outer shape
`(d0, d1)` (then the frame), `mask` has shape `(m0, m1)`. Not batch-first: both are transposed, the
batch-first core runs, the result is transposed back. The (repaired) code expands the mask to the
first two dimensions of `x` before counting (`fixes/C09-masked-broadcast-mask.diff`); the reported
lengths have one entry per batch element. -/
def padMaskedSequence (batchFirst : Bool) (value : α) (d0 d1 : Nat) (x : List (List α))
    (m0 m1 : Nat) (mask : List (List Bool)) (dflt : α) : Except Err (List (List α) × List Nat) :=
  let xb := if batchFirst then x else transpose d1 x dflt
  let N := if batchFirst then d0 else d1
  let T := if batchFirst then d1 else d0
  let mraw := if batchFirst then mask else transpose m1 mask false
  let a := if batchFirst then m0 else m1
  let b := if batchFirst then m1 else m0
  match expand2 N T a b mraw with
  | .error e => .error e
  | .ok mb =>
    match padMaskedCore value T (List.zipWith (fun xs m => (⟨xs, m⟩ : MaskRow α)) xb mb) with
    | .error e => .error e
    | .ok (out, lens) => .ok (if batchFirst then out else transpose T out dflt, lens)

/-! ## `chunk_by_slices` -/

structure ChunkRow (α : Type) where
  x : List α
  len : Nat
  start : Int
  stop : Int

namespace ChunkRow
def chunkLen (c : ChunkRow α) : Nat := (c.stop - c.start).toNat          -- (end - start).clamp_min(0)
def leftPad (c : ChunkRow α) : Nat := if c.chunkLen = 0 then 0 else (-c.start).toNat
def rightPad (c : ChunkRow α) : Nat := if c.chunkLen = 0 then 0 else (c.stop - (c.len : Int)).toNat
def start' (c : ChunkRow α) : Nat := c.start.toNat                        -- start.clamp_min(0)
def stop' (c : ChunkRow α) : Int := min c.stop (c.len : Int)             -- min(end, lens)
def sliceLen (c : ChunkRow α) : Nat := (c.stop' - (c.start' : Int)).toNat
def buf (c : ChunkRow α) : BufRow α := ⟨c.x, c.len, c.leftPad, c.rightPad⟩
/-- `(start <= arange[:T]) & (end_ > arange[:T])` -/
def sliceMask (T : Nat) (c : ChunkRow α) : List Bool :=
  (List.range T).map (fun (t : Nat) => decide (c.start ≤ (t : Int)) && decide ((t : Int) < c.stop'))
/-- reflect special case: `(start_ - lens).clamp_min(0)` -/
def offset (c : ChunkRow α) : Nat := c.start' - c.len
end ChunkRow

/-- `chunk_by_slices` after shape validation (`lens = None` already replaced by `T`).
`earlyOnT0 = true` is the pinned early return for `T = 0`; the repaired code only returns
early for non-constant modes (`fixes/C09-chunk-empty-time.diff`). -/
def chunkBySlices (pinned : Bool) (mode : Mode) (value : α) (T : Nat) (rows : List (ChunkRow α)) :
    Except Err (List (List α) × List Nat) :=
  if rows.isEmpty ∨ (T = 0 ∧ (pinned ∨ mode ≠ .constant)) then
    .ok (rows.map (fun c => c.x), rows.map (fun _ => 0))
  else
  match paddingBuffers pinned mode value T (rows.map ChunkRow.buf) with
  | .error e => .error e
  | .ok (leftBuf, rightBuf) =>
    let chunkLens := rows.map ChunkRow.chunkLen
    let Tp := max (max (maxOf (rows.map ChunkRow.leftPad)) (maxOf chunkLens))
                (maxOf (rows.map ChunkRow.rightPad))
    let xsel := maskedSelect (rows.map (ChunkRow.sliceMask T)) (rows.map (·.x))
    let leftMask := rows.map (fun c => maskLt Tp c.leftPad)
    let midMask := rows.map (fun c => maskLt Tp (c.leftPad + c.sliceLen))
    let chunks0 := rows.map (fun _ => List.replicate Tp value)
    let final := fun (chunks : List (List α)) =>
      match maskedScatter chunks (List.zipWith andNot midMask leftMask) xsel with
      | .error e => .error e
      | .ok out => .ok (out, chunkLens)
    if mode = .constant then final chunks0 else
    match maskedScatter chunks0 leftMask leftBuf with
    | .error e => .error e
    | .ok chunks1 =>
      let rightMask := List.zipWith andNot
        (rows.map (fun c => maskLt Tp (c.leftPad + c.sliceLen + c.rightPad))) midMask
      match maskedScatter chunks1 rightMask rightBuf with
      | .error e => .error e
      | .ok chunks2 =>
        if mode ≠ .reflect then final chunks2 else
        -- slices lying wholly right of the sequence start `offset` cells into the padding
        let geMask := rows.map (fun c => (List.range Tp).map
          (fun t => decide (c.leftPad + c.sliceLen + c.offset ≤ t) && decide (0 < c.offset)))
        let pick := List.zipWith andM rightMask geMask
        let rightBuf2 := maskedSelect pick chunks2           -- chunks[right_mask]
        -- `right_pad -= offset` (an Int in the code; only used as `right_pad > arange`, for
        -- which truncated subtraction gives the same mask)
        let newRight := rows.map (fun c => (List.range Tp).map
          (fun t => decide (t < c.rightPad - c.offset) && decide (0 < c.offset)))
        match maskedScatter chunks2 (List.zipWith andNot newRight midMask) rightBuf2 with
        | .error e => .error e
        | .ok chunks3 => final chunks3

/-- Tensor-level entry: `lens` shape check (RuntimeError), `lens = None` ↦ `T`. -/
def chunkBySlicesT (pinned : Bool) (mode : Mode) (value : α) (T : Nat) (x : List (List α))
    (slices : List (Int × Int)) (lens : Option (List Nat)) :
    Except Err (List (List α) × List Nat) :=
  if x.isEmpty ∨ (T = 0 ∧ (pinned ∨ mode ≠ .constant)) then
    .ok (x, x.map (fun _ => 0))
  else
    let lens' := match lens with
      | none => x.map (fun _ => T)
      | some l => l
    if lens'.length ≠ x.length then .error .runtime
    else
      chunkBySlices pinned mode value T
        (List.zipWith (fun (xl : List α × Nat) (s : Int × Int) => ⟨xl.1, xl.2, s.1, s.2⟩)
          (x.zip lens') slices)

/-! ## `random_shift` (the uniform draws are inputs) -/

structure ShiftRow (α : Type) where
  x : List α
  len : Nat
  u0 : Rat      -- draw for the left side, in [0, 1)
  u1 : Rat

/-- `(prop * len * u).long()` (truncation = floor, everything is non-negative). -/
def shiftAmount (prop : Rat) (len : Nat) (u : Rat) : Nat := (prop * (len : Rat) * u).floor.toNat

/-- The `(2, N)` pad tensor of `random_shift`, with the arithmetic that turns a proportion, a length and a
draw into a number of elements left abstract (`amt`): exact arithmetic (`shiftAmount`), or the double
precision arithmetic of the repaired code (`shiftAmountF64`, below). -/
def ShiftRow.toPadWith (amt : Rat → Nat → Rat → Nat) (p0 p1 : Rat) (s : ShiftRow α) : PadRow α :=
  ⟨s.x, s.len, amt p0 s.len s.u0, amt p1 s.len s.u1⟩

def ShiftRow.toPad (p0 p1 : Rat) (s : ShiftRow α) : PadRow α := s.toPadWith shiftAmount p0 p1

/-- `random_shift(input, in_lens, prop, mode, value, training)` → `(out, out_lens)`, for a given amount
arithmetic `amt`. -/
def randomShiftWith (amt : Rat → Nat → Rat → Nat) (pinned : Bool) (mode : Mode) (value : α) (T : Nat)
    (p0 p1 : Rat) (training : Bool) (rows : List (ShiftRow α)) : Except Err (List (List α) × List Nat) :=
  if training then
    match padVariable pinned mode value T (rows.map (ShiftRow.toPadWith amt p0 p1)) with
    | .error e => .error e
    | .ok out => .ok (out, rows.map (fun s => (s.toPadWith amt p0 p1).newLen))
  else .ok (rows.map (·.x), rows.map (·.len))

/-- `random_shift` in exact (rational) arithmetic: `amt = shiftAmount`. -/
def randomShift (pinned : Bool) (mode : Mode) (value : α) (T : Nat) (p0 p1 : Rat)
    (training : Bool) (rows : List (ShiftRow α)) : Except Err (List (List α) × List Nat) :=
  randomShiftWith shiftAmount pinned mode value T p0 p1 training rows

/-! ## shape validation: what each function accepts, as a function of the argument SHAPES

A shape is the list of dimension sizes torch reports. These functions follow the checks the code makes
before it touches data (and nothing else); the property theorems `C09_shapes_*` say that they accept
exactly the documented shapes and name the error class of every refusal. -/

abbrev Shape := List Nat

/-- `pad_variable`: `x.ndim < 2`, `lens.shape != (N,)`, `pad.shape != (2, N)` → ValueError. -/
def padVariableShapes (x lens pad : Shape) : Except Err Unit :=
  match x with
  | N :: _ :: _ =>
    if lens ≠ [N] then .error .value
    else if pad ≠ [2, N] then .error .value
    else .ok ()
  | _ => .error .value

/-- `chunk_by_slices`: `x.ndim < 2` → RuntimeError; an empty batch, or an empty time dimension in a
non-constant mode, returns before `lens` is looked at; `lens` is `None` or of shape `(N,)`, else
RuntimeError. (The shape of `slices` is not checked by the code.) -/
def chunkBySlicesShapes (mode : Mode) (x : Shape) (lens : Option Shape) : Except Err Unit :=
  match x with
  | N :: T :: _ =>
    if N = 0 ∨ (T = 0 ∧ mode ≠ .constant) then .ok ()
    else match lens with
      | none => .ok ()
      | some l => if l ≠ [N] then .error .runtime else .ok ()
  | _ => .error .runtime

/-- `pad_masked_sequence`: `x.ndim < 2`, `mask.ndim != 2` → RuntimeError; the mask must `expand` to the
first two dimensions of `x` (torch: equal sizes, or size 1), else RuntimeError. Both tensors are
transposed together when not batch-first, so the layout flag does not enter. -/
def padMaskedShapes (x mask : Shape) : Except Err Unit :=
  match x, mask with
  | d0 :: d1 :: _, [m0, m1] =>
    if (m0 = d0 ∨ m0 = 1) ∧ (m1 = d1 ∨ m1 = 1) then .ok () else .error .runtime
  | _, _ => .error .runtime

/-- `random_shift`: `input.dim() < 2`, `in_lens.dim() != 1`, `in_lens.size(0) != N` → RuntimeError, in
training and in evaluation mode alike (`pad_variable`'s own checks then always pass: it is handed
`in_lens` and a freshly stacked `(2, N)` tensor). -/
def randomShiftShapes (x lens : Shape) : Except Err Unit :=
  match x with
  | N :: _ :: _ => if lens ≠ [N] then .error .runtime else .ok ()
  | _ => .error .runtime

/-! ## `random_shift` under floating-point rounding

`rnd` stands for rounding to the working precision. The code computes
`trunc (rnd (rnd (prop * len) * u))`, with `prop` already a number of that precision (the repaired code
works in double precision, where the configured `prop` is one; the code before
`fixes/C09-random-shift-float32-bound.diff` worked in float32, i.e. with `rnd prop` in place of `prop`). -/

def shiftAmountR (rnd : Rat → Rat) (prop : Rat) (len : Nat) (u : Rat) : Nat :=
  (rnd (rnd (prop * (len : Rat)) * u)).floor.toNat

/-- `2^s` for an integer exponent -/
def pow2 (s : Int) : Rat := if 0 ≤ s then ((2 ^ s.toNat : Nat) : Rat) else 1 / ((2 ^ (-s).toNat : Nat) : Rat)

/-- Round-to-nearest, ties to even, of a positive rational to `prec` significant bits (a binary
floating-point format with unbounded exponent: float32 is `prec = 24`, float64 `prec = 53`, away from
overflow and subnormals). Non-positive inputs are returned as they are (not needed here). -/
def roundBits (prec : Nat) (q : Rat) : Rat :=
  if q ≤ 0 then q else
  let e0 : Int := (q.num.toNat.log2 : Int) - (q.den.log2 : Int)
  let e : Int := if pow2 e0 ≤ q then e0 else e0 - 1          -- 2^e ≤ q < 2^(e+1)
  let s : Int := (prec : Int) - 1 - e
  let scaled := q * pow2 s                                     -- in [2^(prec-1), 2^prec)
  let m := scaled.floor
  let frac := scaled - (m : Rat)
  let m' := if frac < 1 / 2 then m else if 1 / 2 < frac then m + 1 else if m % 2 = 0 then m else m + 1
  (m' : Rat) * pow2 (-s)

/-- the amount the code before `fixes/C09-random-shift-float32-bound.diff` added: everything in float32,
the configured proportion rounded first -/
def shiftAmountF32 (prop : Rat) (len : Nat) (u : Rat) : Nat :=
  shiftAmountR (roundBits 24) (roundBits 24 prop) len u

/-- the amount the repaired code adds: double precision, `prop` is a double already -/
def shiftAmountF64 (prop : Rat) (len : Nat) (u : Rat) : Nat := shiftAmountR (roundBits 53) prop len u

/-- `random_shift` as the repaired code computes it: the amounts in double precision (`prop` a double, the
lengths converted to double, the float32 draws promoted), everything else as above. This — not the exact
`randomShift` — is what the library does when a product lands within an ulp of an integer. -/
def randomShiftF64 (pinned : Bool) (mode : Mode) (value : α) (T : Nat) (p0 p1 : Rat)
    (training : Bool) (rows : List (ShiftRow α)) : Except Err (List (List α) × List Nat) :=
  randomShiftWith shiftAmountF64 pinned mode value T p0 p1 training rows

end PdtVerif.PadChunk
