import PdtVerif.Model.SeqScoreWalk
/-!
# `SequentialLanguageModelDistribution`: the cache and `validate_args` plumbing of `log_prob`

A small state machine over abstract values (`Value` = the tensor handed to `log_prob`, shape
and content; `Scores` = the tensor it returns). The state is the pair
`(_samples_cache, _log_probs_cache)`; the operations are `sample`, `log_prob`, `clear_cache`.

```
def log_prob(self, value):
    if self._validate_args: self._validate_sample(value)          # ValueError
    ...
    if num_samples == 0: return torch.empty(shape)
    if self.cache_samples and self._samples_cache is not None
       and self._samples_cache.shape == value.shape and (self._samples_cache == value).all():
        assert self._log_probs_cache is not None
        return self._log_probs_cache
    if self.cache_samples: self._samples_cache = value
    ... log_probs = score(value) ...
    if self.cache_samples: self._log_probs_cache = log_probs
    return log_probs
```

`sample` stores `(samples, the walks' own log-probabilities)` when `cache_samples` is set and
at least one sample was drawn; `clear_cache` empties both. `validate_args=None` leaves
`Distribution._validate_args` at its class default `__debug__`, i.e. validation is **on**.

**Scoring can raise** (audit finding): the language model or `sequence_log_probs` may raise while
`value` is scored (e.g. an embedding lookup of an out-of-vocabulary token that sits after the
first `eos`, which `_validate_sample` accepts). The code as pinned has already executed
`self._samples_cache = value` at that point, while `_log_probs_cache` still holds the scores of
the previous value (or `None`): the cache is left inconsistent. The model has a `pinned` switch:
`true` = the code as pinned (samples written before scoring), `false` = the repaired order
(both caches written after the scores exist).
-/
namespace PdtVerif.SeqScore

/-- What `log_prob` depends on besides the cache. -/
structure DistCfg (Value Scores : Type) where
  /-- `cache_samples` -/
  cacheSamples : Bool
  /-- `validate_args` as given to the constructor -/
  validateArgs : Option Bool
  /-- `_validate_sample(value)` does not raise -/
  valid : Value → Bool
  /-- `num_samples == 0` -/
  isEmpty : Value → Bool
  /-- `torch.empty(shape)` -/
  emptyScores : Value → Scores
  /-- `lm(hist[:-1])` followed by `SequenceLogProbabilities(1, eos)`, reshaped -/
  score : Value → Scores
  /-- the language model (or `sequence_log_probs`) raises while this value is scored -/
  raises : Value → Bool

/-- `(_samples_cache, _log_probs_cache)` -/
structure DistCache (Value Scores : Type) where
  samples : Option Value
  logProbs : Option Scores

def DistCache.empty {Value Scores : Type} : DistCache Value Scores := ⟨none, none⟩

inductive DistErr where
  | valueError   -- `_validate_sample`
  | assertion    -- `assert self._log_probs_cache is not None`
  | scoring      -- whatever the language model / `sequence_log_probs` raised
  deriving DecidableEq, Repr

/-- `self._validate_args` after `Distribution.__init__(…, validate_args)`: the class default is
`__debug__` (true unless python runs with `-O`). -/
def validating (validateArgs : Option Bool) : Bool := validateArgs.getD true

/-- `log_prob(value)`: result and next cache. `pinned = true`: `_samples_cache = value` is
executed before the scores are computed (the code as pinned), so a raising language model leaves
`(value, scores of the previous value)` behind. -/
def logProbStep {Value Scores : Type} [DecidableEq Value] (pinned : Bool)
    (cfg : DistCfg Value Scores) (st : DistCache Value Scores) (value : Value) :
    Except DistErr Scores × DistCache Value Scores :=
  if validating cfg.validateArgs && !cfg.valid value then (.error .valueError, st)
  else if cfg.isEmpty value then (.ok (cfg.emptyScores value), st)
  else if cfg.cacheSamples && decide (st.samples = some value) then
    match st.logProbs with
    | some l => (.ok l, st)
    | none => (.error .assertion, st)
  else if cfg.raises value then
    (.error .scoring, if pinned && cfg.cacheSamples then ⟨some value, st.logProbs⟩ else st)
  else
    let l := cfg.score value
    if cfg.cacheSamples then (.ok l, ⟨some value, some l⟩) else (.ok l, st)

/-- `sample(sample_shape)`: `empty` = the sample shape holds a 0 (nothing is drawn, nothing
cached); otherwise `drawn` are the stacked walks and `walkScores` the walks' own reported
log-probabilities. -/
def sampleStep {Value Scores : Type} (cfg : DistCfg Value Scores) (st : DistCache Value Scores)
    (empty : Bool) (drawn : Value) (walkScores : Scores) : DistCache Value Scores :=
  if empty then st
  else if cfg.cacheSamples then ⟨some drawn, some walkScores⟩ else st

inductive DistOp (Value Scores : Type) where
  | sample (empty : Bool) (drawn : Value) (walkScores : Scores)
  | logProb (value : Value)
  | clearCache

/-- Run a sequence of calls on one distribution object; the outputs of the `log_prob` calls. -/
def runDist {Value Scores : Type} [DecidableEq Value] (pinned : Bool)
    (cfg : DistCfg Value Scores) :
    DistCache Value Scores → List (DistOp Value Scores) → List (Except DistErr Scores)
  | _, [] => []
  | st, .sample e d w :: ops => runDist pinned cfg (sampleStep cfg st e d w) ops
  | st, .logProb v :: ops =>
    let r := logProbStep pinned cfg st v
    r.1 :: runDist pinned cfg r.2 ops
  | _, .clearCache :: ops => runDist pinned cfg DistCache.empty ops

/-- `log_prob` of a distribution that never caches: the reference. -/
def refLogProb {Value Scores : Type} (cfg : DistCfg Value Scores) (value : Value) :
    Except DistErr Scores :=
  if validating cfg.validateArgs && !cfg.valid value then .error .valueError
  else if cfg.isEmpty value then .ok (cfg.emptyScores value)
  else if cfg.raises value then .error .scoring
  else .ok (cfg.score value)

/-- The values handed to the `log_prob` calls of a sequence of operations. -/
def logProbArgs {Value Scores : Type} : List (DistOp Value Scores) → List Value
  | [] => []
  | .logProb v :: ops => v :: logProbArgs ops
  | _ :: ops => logProbArgs ops

/-! ## The walks' own scores of a `sample()` (what the cache is filled with) -/

/-- `log_probs` of `sample()` without a batch shape: the single walk's reported scores. -/
def sampleFlatLp (lm : LM) (V : Nat) (eos : Option Nat) (M maxIters : Nat)
    (draws : List (List Nat)) : List (Option Rat) :=
  (walk lm V eos M maxIters draws).lp

/-- `log_probs` of `sample()` with `batch_size = N`: the stacked reported scores of the walks. -/
def sampleBatchedLp (lm : LM) (V : Nat) (eos : Option Nat) (N maxIters : Nat)
    (draws : List (List (List Nat))) : List (Option Rat) :=
  draws.flatMap (fun d => (walk lm V eos N maxIters d).lp)

/-! ## The concrete configuration: values are lists of token rows -/

/-- The batch element that scores row `i` of a value: `i % N` with a batch shape `(N,)` (rows
are stacked sample-major), `i` itself without one (`log_prob` hands all rows to the language
model as one batch). -/
def elemOf (N : Option Nat) (i : Nat) : Nat :=
  match N with
  | none => i
  | some n => i % n

/-- `log_prob` of a value given as its list of rows (row `i` = flattened sample/batch index `i`). -/
def scoreRows (lm : LM) (V : Nat) (eos : Option Nat) (N : Option Nat) (rows : List (List Nat)) :
    List (Option Rat) :=
  rows.zipIdx.map (fun rn => some (distLogProb lm V eos (elemOf N rn.2) (rn.1.map Int.ofNat)))

/-- The distribution of the model as a `DistCfg`: validation is the repaired
`_validate_sample` on every row, a value without rows is the empty sample; `raises` says on which
values the language model raises (none for the model's own total `LM`). -/
def distCfg (lm : LM) (V : Nat) (eos : Option Nat) (maxIters : Option Nat) (N : Option Nat)
    (cache : Bool) (validateArgs : Option Bool)
    (raises : List (List Nat) → Bool := fun _ => false) :
    DistCfg (List (List Nat)) (List (Option Rat)) where
  cacheSamples := cache
  validateArgs := validateArgs
  valid := fun v => v.all (fun r =>
    validateSample false V (eos.map Int.ofNat) maxIters (r.map Int.ofNat))
  isEmpty := fun v => v.isEmpty
  emptyScores := fun _ => []
  score := scoreRows lm V eos N
  raises := raises

/-- A language model that looks its history up in an embedding table raises (`IndexError`) on a
value one of whose rows holds an out-of-vocabulary token in `hist[:-1]`, i.e. anywhere but in the
last position — also after the first `eos`, where `_validate_sample` does not look. -/
def oovInHistory (V : Nat) (value : List (List Nat)) : Bool :=
  value.any (fun r => r.dropLast.any (fun x => decide (V ≤ x)))

end PdtVerif.SeqScore
