import PdtVerif.Model.SeqScoreWalk
/-!
# `SequentialLanguageModelDistribution`: the cache and `validate_args` plumbing of `log_prob`

A small state machine over abstract values (`Value` = the tensor handed to `log_prob`, shape
and content; `Scores` = the tensor it returns, shape and content - in the concrete configuration
`distCfg` both are `Shaped` tensors, so that an answer handed out in the wrong layout is a wrong
answer). The state is the pair
`(_samples_cache, _log_probs_cache)`; the operations are `sample`, `log_prob`, `clear_cache`.

```
def log_prob(self, value):
    if self._validate_args: self._validate_sample(value)          # ValueError
    ...
    if num_samples == 0: return torch.empty(shape)
    if self.cache_samples and self._samples_cache is not None
       and self._samples_cache.shape == value.shape and (self._samples_cache == value).all():
        assert self._log_probs_cache is not None
        return self._log_probs_cache
    if self.cache_samples: self._samples_cache = value
    ... log_probs = score(value) ...
    if self.cache_samples: self._log_probs_cache = log_probs
    return log_probs
```

`sample` stores `(samples, the walks' own log-probabilities)` when `cache_samples` is set and
at least one sample was drawn; `clear_cache` empties both. `validate_args=None` leaves
`Distribution._validate_args` at its class default `__debug__`, i.e. validation is **on**.

**Scoring can raise** (audit finding): the language model or `sequence_log_probs` may raise while
`value` is scored (e.g. an embedding lookup of an out-of-vocabulary token that sits after the
first `eos`, which `_validate_sample` accepts). The code as pinned has already executed
`self._samples_cache = value` at that point, while `_log_probs_cache` still holds the scores of
the previous value (or `None`): the cache is left inconsistent. The model has a `pinned` switch:
`true` = the code as pinned (samples written before scoring), `false` = the repaired order
(both caches written after the scores exist).
-/
namespace PdtVerif.SeqScore

/-- What `log_prob` depends on besides the cache. -/
structure DistCfg (Value Scores : Type) where
  /-- `cache_samples` -/
  cacheSamples : Bool
  /-- `validate_args` as given to the constructor -/
  validateArgs : Option Bool
  /-- `_validate_sample(value)` does not raise -/
  valid : Value → Bool
  /-- `num_samples == 0` -/
  isEmpty : Value → Bool
  /-- `torch.empty(shape)` -/
  emptyScores : Value → Scores
  /-- `lm(hist[:-1])` followed by `SequenceLogProbabilities(1, eos)`, reshaped -/
  score : Value → Scores
  /-- the language model (or `sequence_log_probs`) raises while this value is scored -/
  raises : Value → Bool

/-- `(_samples_cache, _log_probs_cache)` -/
structure DistCache (Value Scores : Type) where
  samples : Option Value
  logProbs : Option Scores

def DistCache.empty {Value Scores : Type} : DistCache Value Scores := ⟨none, none⟩

inductive DistErr where
  | valueError   -- `_validate_sample`
  | assertion    -- `assert self._log_probs_cache is not None`
  | scoring      -- whatever the language model / `sequence_log_probs` raised
  deriving DecidableEq, Repr

/-- `self._validate_args` after `Distribution.__init__(…, validate_args)`: the class default is
`__debug__` (true unless python runs with `-O`). -/
def validating (validateArgs : Option Bool) : Bool := validateArgs.getD true

/-- `log_prob(value)`: result and next cache. `pinned = true`: `_samples_cache = value` is
executed before the scores are computed (the code as pinned), so a raising language model leaves
`(value, scores of the previous value)` behind. -/
def logProbStep {Value Scores : Type} [DecidableEq Value] (pinned : Bool)
    (cfg : DistCfg Value Scores) (st : DistCache Value Scores) (value : Value) :
    Except DistErr Scores × DistCache Value Scores :=
  if validating cfg.validateArgs && !cfg.valid value then (.error .valueError, st)
  else if cfg.isEmpty value then (.ok (cfg.emptyScores value), st)
  else if cfg.cacheSamples && decide (st.samples = some value) then
    match st.logProbs with
    | some l => (.ok l, st)
    | none => (.error .assertion, st)
  else if cfg.raises value then
    (.error .scoring, if pinned && cfg.cacheSamples then ⟨some value, st.logProbs⟩ else st)
  else
    let l := cfg.score value
    if cfg.cacheSamples then (.ok l, ⟨some value, some l⟩) else (.ok l, st)

/-- `sample(sample_shape)`: `empty` = the sample shape holds a 0 (nothing is drawn, nothing
cached); otherwise `drawn` are the stacked walks and `walkScores` the walks' own reported
log-probabilities. -/
def sampleStep {Value Scores : Type} (cfg : DistCfg Value Scores) (st : DistCache Value Scores)
    (empty : Bool) (drawn : Value) (walkScores : Scores) : DistCache Value Scores :=
  if empty then st
  else if cfg.cacheSamples then ⟨some drawn, some walkScores⟩ else st

inductive DistOp (Value Scores : Type) where
  | sample (empty : Bool) (drawn : Value) (walkScores : Scores)
  | logProb (value : Value)
  | clearCache

/-- Run a sequence of calls on one distribution object; the outputs of the `log_prob` calls. -/
def runDist {Value Scores : Type} [DecidableEq Value] (pinned : Bool)
    (cfg : DistCfg Value Scores) :
    DistCache Value Scores → List (DistOp Value Scores) → List (Except DistErr Scores)
  | _, [] => []
  | st, .sample e d w :: ops => runDist pinned cfg (sampleStep cfg st e d w) ops
  | st, .logProb v :: ops =>
    let r := logProbStep pinned cfg st v
    r.1 :: runDist pinned cfg r.2 ops
  | _, .clearCache :: ops => runDist pinned cfg DistCache.empty ops

/-- `log_prob` of a distribution that never caches: the reference. -/
def refLogProb {Value Scores : Type} (cfg : DistCfg Value Scores) (value : Value) :
    Except DistErr Scores :=
  if validating cfg.validateArgs && !cfg.valid value then .error .valueError
  else if cfg.isEmpty value then .ok (cfg.emptyScores value)
  else if cfg.raises value then .error .scoring
  else .ok (cfg.score value)

/-- The values handed to the `log_prob` calls of a sequence of operations. -/
def logProbArgs {Value Scores : Type} : List (DistOp Value Scores) → List Value
  | [] => []
  | .logProb v :: ops => v :: logProbArgs ops
  | _ :: ops => logProbArgs ops

/-! ## The walks' own scores of a `sample()` (what the cache is filled with) -/

/-- `log_probs` of `sample()` without a batch shape: the single walk's reported scores. -/
def sampleFlatLp (lm : LM) (V : Nat) (eos : Option Nat) (M maxIters : Nat)
    (draws : List (List Nat)) : List (Option Rat) :=
  (walk lm V eos M maxIters draws).lp

/-- `log_probs` of `sample()` with `batch_size = N`: the stacked reported scores of the walks. -/
def sampleBatchedLp (lm : LM) (V : Nat) (eos : Option Nat) (N maxIters : Nat)
    (draws : List (List (List Nat))) : List (Option Rat) :=
  draws.flatMap (fun d => (walk lm V eos N maxIters d).lp)

/-! ## The concrete configuration: values are shaped tensors of token rows -/

/-- A tensor as the wrapper sees it: its shape and its cells in row-major order. For a value
(`sample()`'s result, `log_prob`'s argument) a cell is one token row, i.e. the event dimension
stays inside the cell and the last entry of `shape` is its size; for scores a cell is one number.
Two values with the same rows but different shapes (`(4, S)` / `(2, 2, S)`) are different values:
the cache's hit test is `_samples_cache.shape == value.shape and (_samples_cache == value).all()`,
and the answer `log_probs.view(value.shape[:-1])` differs in shape. -/
structure Shaped (α : Type) where
  shape : List Nat
  cells : List α
  deriving DecidableEq, Repr

def shapeProd (shape : List Nat) : Nat := shape.foldl (· * ·) 1

/-- `self.batch_shape` -/
def batchShape (N : Option Nat) : List Nat :=
  match N with
  | none => []
  | some n => [n]

/-- The shape test of `_validate_sample` on the values this model covers: a value has the shape
`sample_shape + batch_shape + (S,)`. (The code only asks that `batch_shape + (S,)` *broadcasts*
with `value.shape`; a value whose batch dimension is 1 or missing while `batch_shape = (N,)`,
`N > 1`, passes the code's test and is then scored against batch element 0 only, or - when
`numel // (N * S) == 0` - answered with uninitialised memory. Such values are outside the property
(no walk of the distribution produces them), are not generated, and the model rejects them.) -/
def batchDimOk (N : Option Nat) (shape : List Nat) : Bool :=
  match N with
  | none => decide (1 ≤ shape.length)
  | some n => decide (2 ≤ shape.length) && shape.dropLast.getLast? == some n

/-- `num_samples = value.numel() // (batch_size * value.size(-1))` -/
def numSamples (N : Option Nat) (shape : List Nat) : Nat :=
  shapeProd shape / (N.getD 1 * shape.getLastD 1)

/-- The batch element that scores row `i` of a value: `i % N` with a batch shape `(N,)` (rows
are stacked sample-major), `i` itself without one (`log_prob` hands all rows to the language
model as one batch). -/
def elemOf (N : Option Nat) (i : Nat) : Nat :=
  match N with
  | none => i
  | some n => i % n

/-- `log_prob` of the rows of a value (row `i` = flattened sample/batch index `i`), before the
final `.view(shape)`. -/
def scoreRows (lm : LM) (V : Nat) (eos : Option Nat) (N : Option Nat) (rows : List (List Nat)) :
    List (Option Rat) :=
  rows.zipIdx.map (fun rn => some (distLogProb lm V eos (elemOf N rn.2) (rn.1.map Int.ofNat)))

/-- The distribution of the model as a `DistCfg` over shaped tensors: validation is the shape
test and the repaired `_validate_sample` on every row; `num_samples == 0` is the empty sample,
answered with `torch.empty(value.shape[:-1])` (no cells); every other value gets
`log_probs.view(value.shape[:-1])`; `raises` says on which rows the language model raises (none
for the model's own total `LM`). -/
def distCfg (lm : LM) (V : Nat) (eos : Option Nat) (maxIters : Option Nat) (N : Option Nat)
    (cache : Bool) (validateArgs : Option Bool)
    (raises : List (List Nat) → Bool := fun _ => false) :
    DistCfg (Shaped (List Nat)) (Shaped (Option Rat)) where
  cacheSamples := cache
  validateArgs := validateArgs
  valid := fun v => batchDimOk N v.shape && v.cells.all (fun r =>
    validateSample false V (eos.map Int.ofNat) maxIters (r.map Int.ofNat))
  isEmpty := fun v => decide (numSamples N v.shape = 0)
  emptyScores := fun v => ⟨v.shape.dropLast, []⟩
  score := fun v => ⟨v.shape.dropLast, scoreRows lm V eos N v.cells⟩
  raises := fun v => raises v.cells

/-- `samples.size(-1)`: the common width of the stacked (padded) walks. -/
def rowsWidth (rows : List (List Nat)) : Nat := (rows.head?.map List.length).getD 0

/-- What `sample(sample_shape)` returns when something is drawn: `samples.reshape(shape)` with
`shape = sample_shape + batch_shape + (samples.size(-1),)`. -/
def sampleValue (sampleShape : List Nat) (N : Option Nat) (rows : List (List Nat)) :
    Shaped (List Nat) :=
  ⟨sampleShape ++ batchShape N ++ [rowsWidth rows], rows⟩

/-- What `sample` caches next to it: `log_probs.view(shape[:-1])`. -/
def sampleScores (sampleShape : List Nat) (N : Option Nat) (rows : List (List Nat))
    (walkLp : List (Option Rat)) : Shaped (Option Rat) :=
  ⟨(sampleValue sampleShape N rows).shape.dropLast, walkLp⟩

/-- `sample(sample_shape)` when the sample shape holds a 0: `torch.empty(sample_shape +
batch_shape + event_shape)`, `event_shape = (max_iters,)` or `(1,)`. -/
def emptySample (sampleShape : List Nat) (N : Option Nat) (maxIters : Option Nat) :
    Shaped (List Nat) :=
  ⟨sampleShape ++ batchShape N ++ [maxIters.getD 1], []⟩

/-- A language model that looks its history up in an embedding table raises (`IndexError`) on a
value one of whose rows holds an out-of-vocabulary token in `hist[:-1]`, i.e. anywhere but in the
last position — also after the first `eos`, where `_validate_sample` does not look. -/
def oovInHistory (V : Nat) (value : List (List Nat)) : Bool :=
  value.any (fun r => r.dropLast.any (fun x => decide (V ≤ x)))

/-- The same language model behind a `log_prob` that first replaces whatever follows the first
`eos` of every row by `eos` (`fill_after_eos(value, eos, -1)`, part of the proposed repair
`fixes/C07-cache-aliases-caller-tensors.diff`): the model never sees the tokens validation does not
look at, and raises only on an out-of-vocabulary token that sits before the first `eos` (and not
in the last position) - which validation rejects unless it is switched off. -/
def oovBeforeEos (V : Nat) (eos : Option Nat) (value : List (List Nat)) : Bool :=
  value.any (fun r =>
    (match eos with
     | none => r
     | some e => fillAfterEos r e e).dropLast.any (fun x => decide (V ≤ x)))

/-! ## The tensors belong to the caller: in-place edits between the calls

`sample()` returns the very tensor it caches, `log_prob(value)` caches `value` itself and returns
the very tensor it caches as scores (code as pinned): the cache *aliases* tensors the caller
holds. A caller that edits one of them in place (`sample[0, 0] = 3`, `scores.neg_()`) edits the
cache: the hit test compares the edited tensor with itself, and the next `log_prob` answers with
the scores of the content *before* the edit (or with the edited scores). The repaired code caches
clones and returns a clone on a hit, so the cache is a value store (`runCalls`).

The caller's tensors are named by numbers; the script says what the caller does with them. -/

inductive CallOp (Value Scores : Type) where
  /-- `t_r = dist.sample(...)` -/
  | sample (r : Nat) (empty : Bool) (drawn : Value) (walkScores : Scores)
  /-- `t_r = <a new tensor holding v>` when `r` is unused, else the in-place `t_r.copy_(v)` -/
  | setValue (r : Nat) (v : Value)
  /-- `dist.log_prob(t_r)` (ignored when the caller has no tensor `r`) -/
  | logProb (r : Nat)
  /-- in-place edit of the tensor the `k`-th `log_prob` call (from 0) returned -/
  | editScores (k : Nat) (f : Scores → Scores)
  | clearCache

/-- The state of the aliasing object and of the caller's tensors. -/
structure AliasState (Value Scores : Type) where
  /-- the caller's value tensors (latest binding first) -/
  heap : List (Nat × Value)
  /-- `_samples_cache`: *which* of the caller's tensors it is -/
  samples : Option Nat
  /-- `_log_probs_cache`: identity of the tensor object and its current content -/
  logProbs : Option (Nat × Scores)
  /-- next unused object identity -/
  nextId : Nat
  /-- per `log_prob` call so far (oldest first): identity of the tensor it returned, `none`
  when it raised or returned a tensor nobody else holds -/
  answered : List (Option Nat)

def AliasState.init {Value Scores : Type} : AliasState Value Scores := ⟨[], none, none, 0, []⟩

/-- `log_prob(t_r)` on the aliasing object (write order: both caches after the scores exist). -/
def aliasLogProb {Value Scores : Type} [DecidableEq Value] (cfg : DistCfg Value Scores)
    (st : AliasState Value Scores) (value : Value) (r : Nat) :
    Except DistErr Scores × AliasState Value Scores :=
  if validating cfg.validateArgs && !cfg.valid value then
    (.error .valueError, { st with answered := st.answered ++ [none] })
  else if cfg.isEmpty value then
    (.ok (cfg.emptyScores value), { st with answered := st.answered ++ [none] })
  else if cfg.cacheSamples &&
      decide ((st.samples.bind fun c => st.heap.lookup c) = some value) then
    match st.logProbs with
    | some (i, l) => (.ok l, { st with answered := st.answered ++ [some i] })
    | none => (.error .assertion, { st with answered := st.answered ++ [none] })
  else if cfg.raises value then
    (.error .scoring, { st with answered := st.answered ++ [none] })
  else
    let l := cfg.score value
    if cfg.cacheSamples then
      (.ok l, { st with samples := some r, logProbs := some (st.nextId, l),
                        nextId := st.nextId + 1, answered := st.answered ++ [some st.nextId] })
    else (.ok l, { st with answered := st.answered ++ [none] })

/-- Run a script on the aliasing object; the outputs of the `log_prob` calls (content at the
moment the call returns). -/
def runAliased {Value Scores : Type} [DecidableEq Value] (cfg : DistCfg Value Scores) :
    AliasState Value Scores → List (CallOp Value Scores) → List (Except DistErr Scores)
  | _, [] => []
  | st, .sample r e d w :: ops =>
    let st1 := { st with heap := (r, d) :: st.heap }
    if e || !cfg.cacheSamples then runAliased cfg st1 ops
    else runAliased cfg { st1 with samples := some r, logProbs := some (st.nextId, w),
                                   nextId := st.nextId + 1 } ops
  | st, .setValue r v :: ops => runAliased cfg { st with heap := (r, v) :: st.heap } ops
  | st, .logProb r :: ops =>
    match st.heap.lookup r with
    | none => runAliased cfg st ops
    | some v =>
      let res := aliasLogProb cfg st v r
      res.1 :: runAliased cfg res.2 ops
  | st, .editScores k f :: ops =>
    match st.answered.getD k none, st.logProbs with
    | some i, some (j, l) =>
      if i = j then runAliased cfg { st with logProbs := some (j, f l) } ops
      else runAliased cfg st ops
    | _, _ => runAliased cfg st ops
  | st, .clearCache :: ops => runAliased cfg { st with samples := none, logProbs := none } ops

/-- The script as the object that caches *copies* sees it: every `log_prob` gets the content its
argument has at the time of the call; edits of the caller's tensors are the caller's business. -/
def resolveCalls {Value Scores : Type} :
    List (Nat × Value) → List (CallOp Value Scores) → List (DistOp Value Scores)
  | _, [] => []
  | heap, .sample r e d w :: ops => .sample e d w :: resolveCalls ((r, d) :: heap) ops
  | heap, .setValue r v :: ops => resolveCalls ((r, v) :: heap) ops
  | heap, .logProb r :: ops =>
    match heap.lookup r with
    | none => resolveCalls heap ops
    | some v => .logProb v :: resolveCalls heap ops
  | heap, .editScores _ _ :: ops => resolveCalls heap ops
  | heap, .clearCache :: ops => .clearCache :: resolveCalls heap ops

/-- The repaired object (caches clones, returns a clone on a hit) on a script. -/
def runCalls {Value Scores : Type} [DecidableEq Value] (cfg : DistCfg Value Scores)
    (ops : List (CallOp Value Scores)) : List (Except DistErr Scores) :=
  runDist false cfg DistCache.empty (resolveCalls [] ops)

/-- What a distribution that never caches answers to the `log_prob` calls of a script. -/
def refCalls {Value Scores : Type} (cfg : DistCfg Value Scores)
    (ops : List (CallOp Value Scores)) : List (Except DistErr Scores) :=
  (logProbArgs (resolveCalls [] ops)).map (refLogProb cfg)

end PdtVerif.SeqScore
