/-!
# Model of `_decoding.py::beam_search_advance` and `BeamSearch.forward`

Follows the code, quirks included:

* scores live on the extended line `Score = Option Rat` (`none` = `-inf`); `-inf + x = -inf`;
* a beam slot keeps the *whole stored column* `col` (the `S` entries `y_prev[:, n, k]`) and its
  length `len` separately; only `col.take len` is meaningful, the rest is whatever the code left
  there (clamped old tokens, the duplicate token written by `torch.cat([y_next, y_t])`, padding,
  uninitialised memory modelled by the parameter `junk`);
* `beam_search_advance`: candidates = `log_probs_prev.unsqueeze(2) + log_probs_t` flattened,
  `K = min(width, Kp * V)`, selection of `K` flat indices (`topk`, a parameter `sel`),
  `src = ind / V`, `tok = ind % V`, gather of the source column, growth of the sequence
  dimension only if some length already fills it (a decision over the **whole batch**),
  scatter of the token at position `len`, `len + 1`, padding up to `width` with `-inf`;
* `BeamSearch.forward`: `eos_mask` (last counted token is eos, `t > 0`), `done_mask`
  (`finish_all_paths`), clamp of the history, the language model call on every row with the
  **threaded state**, forced re-emission of eos at score 0 for finished paths, length decrement,
  `extract_by_src` = gather from the batch-flattened state list at `n * prev_width + src`,
  freezing of finished batch elements (`_to_width`, `pad_y`, `torch.where`), loop exit, final
  `_to_width`.

What stands for external code (contracts are hypotheses of the theorems):
* `sel : List Score → Nat → List Nat` — `Tensor.topk` (any maximal-`K` selection, best first);
* `LM.run t hist state` — one row of `lm.calc_idx_log_probs` followed by `log_softmax` and
  the `update_log_probs_for_step` hook (the hook is assumed not to touch `log_probs_prev`);
  rows of a batch are computed independently of each other.

Core Lean only (the driver runs this file).
-/
namespace PdtVerif.Beam

/-- Extended scores: `none` is `-inf`. -/
abbrev Score := Option Rat

namespace Score
/-- IEEE addition restricted to `{-inf} ∪ ℚ`. -/
def add : Score → Score → Score
  | some a, some b => some (a + b)
  | _, _ => none

/-- `a ≤ b`. -/
def le : Score → Score → Bool
  | none, _ => true
  | some _, none => false
  | some a, some b => decide (a ≤ b)
end Score

/-- One beam slot: stored column, counted length, score. -/
structure Slot where
  col : List Int
  len : Nat
  score : Score
  deriving Repr, DecidableEq

/-- The meaningful part of a slot. -/
def Slot.path (s : Slot) : List Int := s.col.take s.len

def Slot.dflt : Slot := ⟨[], 0, none⟩

/-- `Tensor.topk(K)` on one row: returns `K` flat indices. -/
abbrev Sel := List Score → Nat → List Nat

/-- `(log_probs_prev.unsqueeze(2) + log_probs_t).flatten(1)` for one batch row. -/
def candidates (slots : List Slot) (logp : List (List Score)) : List Score :=
  (slots.zip logp).flatMap fun (s, row) => row.map fun x => s.score.add x

/-- The new slot for flat candidate index `ind` (the three branches of the code). -/
def extend (V S : Nat) (lensGiven grow : Bool) (slots : List Slot) (cands : List Score)
    (ind : Nat) : Slot :=
  let tok : Int := ((ind % V : Nat) : Int)
  let p := slots.getD (ind / V) Slot.dflt
  let sc := cands.getD ind none
  if S = 0 then ⟨[tok], 1, sc⟩                       -- `y_next = y_t`, lengths one
  else if !lensGiven then ⟨p.col ++ [tok], S + 1, sc⟩ -- `y_prev_lens is None`
  else ⟨(if grow then p.col ++ [tok] else p.col).set p.len tok, p.len + 1, sc⟩

/-- `beam_search_advance` for one batch row. `S` = `y_prev.size(0)`; `grow` is the batch-wide
decision `y_prev_lens.max() >= S`. Returns the new slots and `next_src`. -/
def advanceRow (sel : Sel) (V width S : Nat) (lensGiven grow : Bool) (junk : Int)
    (slots : List Slot) (logp : List (List Score)) : List Slot × List Nat :=
  let cands := candidates slots logp
  let K := min width (slots.length * V)
  let inds := sel cands K
  let rem := width - K
  (inds.map (extend V S lensGiven grow slots cands)
      ++ List.replicate rem ⟨List.replicate (S + 1) junk, 0, none⟩,
   inds.map (· / V) ++ List.replicate rem 0)

/-- `y_prev_lens.max()` over the whole batch (0 for an empty tensor is never needed). -/
def maxLen (rows : List (List Slot)) : Nat :=
  (rows.flatMap id).foldl (fun m s => max m s.len) 0

/-- The functional entry point on a whole batch, with the argument checks that can fail
(`none` = the code raises). `rows[n] = (slots of element n, log_probs_t[n])`. When
`lensGiven = false` the `len` fields of the input are ignored. -/
def advanceBatch (sel : Sel) (V width S : Nat) (lensGiven : Bool) (junk : Int)
    (rows : List (List Slot × List (List Score))) :
    Option (Nat × List (List Slot × List Nat)) :=
  let Kp := (rows.head?.map (·.1.length)).getD 0
  let K := min width (Kp * V)
  let m := maxLen (rows.map (·.1))
  let grow := !lensGiven || decide (S ≤ m)
  if width < 1 then none
  else if rows.any (fun r => r.1.length != Kp || r.2.length != Kp
      || r.2.any (·.length != V) || r.1.any (·.col.length != S)) then none
  else if S = 0 && lensGiven && m != 0 then none       -- "Invalid lengths for t=0"
  else if S != 0 && lensGiven && decide (S < m) then none  -- scatter index out of range
  else if S != 0 && !grow && decide (K < width) then none  -- cat of S rows with S+1 rows
  else
    some (if S = 0 || grow then S + 1 else S,
      rows.map fun r => advanceRow sel V width S lensGiven grow junk r.1 r.2)

/-! ## `BeamSearch` -/

structure Cfg where
  V : Nat
  width : Nat
  /-- already normalised by `__init__`: `(eos + V) % V` -/
  eos : Option Int
  finishAll : Bool
  pad : Int
  junk : Int
  /-- `true` = the pinned tree's `done_mask = eos_mask.all(1)`: slots with score `-inf` must
  also end in eos before an element counts as finished. `false` = the repaired rule
  (`fixes/C04-neginf-slots-block-finish.diff`): `-inf` slots are not waited for. -/
  waitNegInf : Bool := false
  deriving Repr

/-- `BeamSearch.__init__`'s treatment of `eos` (`none` result = `ValueError`). -/
def normEos (V : Nat) (eos : Option Int) : Option (Option Int) :=
  match eos with
  | none => some none
  | some e => if -(V : Int) ≤ e ∧ e < V then some (some ((e + V) % V)) else none

/-- One row of the language model as `forward` uses it. -/
structure LM (σ : Type) where
  run : Nat → List Int → σ → List Score × σ

/-- One batch element: its slots and the language-model states aligned with them. -/
structure Elem (σ : Type) where
  slots : List Slot
  sts : List σ

def clampTok (V : Nat) (x : Int) : Int := min (max x 0) ((V : Int) - 1)

/-- The last counted token of the slot is eos. -/
def lastIsEos (eos : Option Int) (s : Slot) : Bool :=
  match eos with
  | none => false
  | some e => decide (0 < s.len) && (s.col[s.len - 1]? == some e)

/-- `eos_mask[n, k]` (all false at `t = 0`). -/
def isEnded (eos : Option Int) (t : Nat) (s : Slot) : Bool :=
  t != 0 && lastIsEos eos s

/-- `done_mask[n]`. -/
def elemDone {σ} (cfg : Cfg) (t : Nat) (e : Elem σ) : Bool :=
  match cfg.eos with
  | none => false
  | some _ =>
    if t == 0 then false
    else if cfg.finishAll then
      e.slots.all fun s => isEnded cfg.eos t s || (!cfg.waitNegInf && s.score.isNone)
    else (e.slots.head?.map (isEnded cfg.eos t)).getD false

/-- The row a finished path gets: all mass on eos. -/
def eosRow (V : Nat) (e : Int) : List Score :=
  (List.range V).map fun (v : Nat) => if (v : Int) = e then some 0 else none

/-- Language-model call + eos masking for every row of one element:
`(log_probs_t[n, k], in_next[n * Kp + k])`. -/
def elemRows {σ} (cfg : Cfg) (lm : LM σ) (t : Nat) (e : Elem σ) : List (List Score × σ) :=
  (e.slots.zip e.sts).map fun (s, st) =>
    let r := lm.run t (s.col.map (clampTok cfg.V)) st
    (match cfg.eos with
      | some eo => if isEnded cfg.eos t s then eosRow cfg.V eo else r.1
      | none => r.1, r.2)

def clampSlot (V : Nat) (s : Slot) : Slot := { s with col := s.col.map (clampTok V) }

/-- Extend + prune one element and decrement the lengths of paths that had finished.
Returns `(y_next/lens/log_probs_next, next_src, in_next rows)`. -/
def stepElem {σ} (sel : Sel) (cfg : Cfg) (lm : LM σ) (t S : Nat) (grow : Bool) (e : Elem σ) :
    List Slot × List Nat × List σ :=
  let rows := elemRows cfg lm t e
  let adv := advanceRow sel cfg.V cfg.width S true grow cfg.junk
    (e.slots.map (clampSlot cfg.V)) (rows.map (·.1))
  let nxt := (adv.1.zip adv.2).map fun (s, src) =>
    if isEnded cfg.eos t (e.slots.getD src Slot.dflt) then { s with len := s.len - 1 } else s
  (nxt, adv.2, rows.map (·.2))

/-- `_to_width`. -/
def toWidth (sel : Sel) (width S : Nat) (slots : List Slot) : List Slot :=
  if slots.length < width then
    slots ++ List.replicate (width - slots.length) ⟨List.replicate S 0, 0, none⟩
  else if width < slots.length then
    (sel (slots.map (·.score)) width).map fun i => slots.getD i Slot.dflt
  else slots

/-- One iteration of the `for t` loop body after the exit test. `Kp` = `prev_width`.
`.error "shape"` = the `torch.where` of `S + 1` rows against `S` rows raises;
`.error "lm index"` = the language model is asked for index `t` of a history tensor with only
`S < t` rows, outside the documented contract of `calc_idx_log_probs` (`idx <= hist.size(0)`);
a model that reads `hist[idx - 1]` raises. -/
def stepBatch {σ} (sel : Sel) (cfg : Cfg) (lm : LM σ) (dflt : σ) (t S Kp : Nat)
    (elems : List (Elem σ)) : Except String (Nat × List (Elem σ)) :=
  let grow := decide (S ≤ maxLen (elems.map (·.slots)))
  let res := elems.map (stepElem sel cfg lm t S grow)
  let inNext := res.flatMap (·.2.2)
  if decide (S < t) then .error "lm index"   -- `lm.calc_idx_log_probs(hist, prev, t)` with `t > hist.size(0)`
  else if elems.any (elemDone cfg t) && !grow then .error "shape"
  else
    .ok (if grow then S + 1 else S,
      ((elems.zip res).zipIdx).map fun ((e, r), n) =>
        { sts := r.2.1.map fun src => inNext.getD (n * Kp + src) dflt
          slots :=
            if elemDone cfg t e then
              (toWidth sel cfg.width S e.slots).map fun s => { s with col := s.col ++ [cfg.pad] }
            else r.1 })

/-- `for t in range(max_iters)` with the `done_mask.all()` exit. -/
def loop {σ} (sel : Sel) (cfg : Cfg) (lm : LM σ) (dflt : σ) :
    Nat → Nat → Nat → Nat → List (Elem σ) → Except String (Nat × List (Elem σ))
  | 0, _, S, _, elems => .ok (S, elems)
  | fuel + 1, t, S, Kp, elems =>
    if cfg.eos.isSome && t != 0 && elems.all (elemDone cfg t) then .ok (S, elems)
    else
      match stepBatch sel cfg lm dflt t S Kp elems with
      | .error e => .error e
      | .ok (S', elems') => loop sel cfg lm dflt fuel (t + 1) S' cfg.width elems'

def initElem {σ} (s : σ) : Elem σ := ⟨[⟨[], 0, some 0⟩], [s]⟩

/-- `BeamSearch.forward` (one initial language-model state per batch element). -/
def search {σ} (sel : Sel) (cfg : Cfg) (lm : LM σ) (dflt : σ) (inits : List σ)
    (maxIters : Nat) : Except String (List (List Slot)) :=
  match loop sel cfg lm dflt maxIters 0 0 1 (inits.map initElem) with
  | .error e => .error e
  | .ok (S, elems) => .ok (elems.map fun e => toWidth sel cfg.width S e.slots)

/-! ## The deterministic selection the driver uses: score descending, index ascending -/

def selDet : Sel := fun c K =>
  ((c.zipIdx.mergeSort fun a b => Score.le b.1 a.1).map (·.2)).take K

/-! The same selection by a structurally recursive (kernel-reducible) insertion sort; used for
the `decide` examples and counterexamples in `Properties/C04.lean`. -/

def insBy {α} (le : α → α → Bool) (a : α) : List α → List α
  | [] => [a]
  | b :: l => if le a b then a :: b :: l else b :: insBy le a l

def isort {α} (le : α → α → Bool) : List α → List α
  | [] => []
  | a :: l => insBy le a (isort le l)

def selIns : Sel := fun c K =>
  ((isort (fun a b => Score.le b.1 a.1) c.zipIdx).map (·.2)).take K

end PdtVerif.Beam
