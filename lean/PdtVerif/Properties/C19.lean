import PdtVerif.Lemmas.Estimators
import PdtVerif.Lemmas.EstimatorsCount
import PdtVerif.Lemmas.EstimatorsParams
import PdtVerif.Lemmas.EstimatorsIMH
import PdtVerif.Lemmas.EstimatorsObj
import PdtVerif.Lemmas.EstimatorsLife
/-!
# C19 — estimators are unbiased where promised; relaxed distributions are consistent

Property theorems only (helper lemmas: `Lemmas/Estimators.lean`).

* Estimator theorems hold over an arbitrary field `α` (so over `ℝ` and over the `ℚ` the
  driver executes); gradients are *formal tangents*: a point carries `P(b)` and a number
  `dp` standing for the derivative of `P(b)` along some direction of parameter space, and
  autograd is modelled by dual-number arithmetic.  The only facts used about tangents are
  the stated hypotheses (e.g. `Σ dp = 0`, which is the derivative of `Σ P = 1`).
* Relaxed-distribution theorems are over `ℝ` with Mathlib's `Real.exp`/`Real.log`.
* SRSWOR / combinatorics theorems are over `ℚ`/`ℕ`, all sizes.
-/
namespace PdtVerif.Estimators

section Estimators
variable {α : Type} [Field α]

/-- `Ω` is a probability distribution with nowhere-vanishing probabilities. -/
structure IsDist (Ω : List (Pt α)) : Prop where
  pos : ∀ b ∈ Ω, b.p ≠ 0
  total : (Ω.map (·.p)).sum = 1

/-- **score_identity** (finite Ω, formal tangent): `Σ_b P_b f_b (P_b'/P_b) = Σ_b P_b' f_b`,
i.e. `E[f ∇log P] = ∇ Σ_b P_b f_b` for a parameter-free `f`. -/
theorem score_identity (Ω : List (Pt α)) (h : ∀ b ∈ Ω, b.p ≠ 0) :
    (Ω.map fun b => b.p * (b.f.val * (b.dp / b.p))).sum = (Ω.map fun b => b.dp * b.f.val).sum := by
  congr 1
  apply List.map_congr_left
  intro b hb
  have := h b hb
  field_simp

theorem expectD_val (Ω : List (Pt α)) (g : Pt α → Dual α) :
    (expectD Ω g).val = (Ω.map fun b => b.p * (g b).val).sum := by
  simp [expectD, Dual.sum_val, Function.comp_def, Pt.pD]

theorem expectD_grad (Ω : List (Pt α)) (g : Pt α → Dual α) :
    (expectD Ω g).grad = (Ω.map fun b => b.dp * (g b).val + b.p * (g b).grad).sum := by
  simp [expectD, Dual.sum_grad, Function.comp_def, Pt.pD]

/-- `Σ_b p_b (X_b + Y_b · p_b'/p_b) = Σ p X + Σ p' Y` -/
theorem sum_score (Ω : List (Pt α)) (h : ∀ b ∈ Ω, b.p ≠ 0) (X Y : Pt α → α) :
    (Ω.map fun b => b.p * (X b + Y b * (b.dp / b.p))).sum
      = (Ω.map fun b => b.p * X b).sum + (Ω.map fun b => b.dp * Y b).sum := by
  rw [← List.sum_map_add]
  congr 1
  apply List.map_congr_left
  intro b hb
  have := h b hb
  field_simp

/-- **C19_direct** (no control variate): for every sample space, integrand, `N ≥ 1`, the
average over `Ω^N` of the value returned by `DirectEstimator` and of its gradient is the
exact expectation and its exact gradient. -/
theorem C19_direct (Ω : List (Pt α)) (hΩ : IsDist Ω) (N : Nat) (hN : (N : α) ≠ 0) :
    meanOver (·.p) N Ω (fun t => directEstimate (t.map (Pt.directSample false)) none)
      = expectD Ω (·.f) := by
  rw [meanOver_additive (·.p) Ω hΩ.total N hN _ (fun b => b.f.val)
    (fun b => b.f.grad + b.f.val * (b.dp / b.p))]
  · apply Dual.ext'
    · rw [expectD_val]
    · rw [expectD_grad]
      show (Ω.map fun b => b.p * (b.f.grad + b.f.val * (b.dp / b.p))).sum = _
      rw [sum_score Ω hΩ.pos, add_comm, ← List.sum_map_add]
  · intro t ht
    have hl := length_of_mem_tuples Ω N t ht
    apply Dual.ext'
    · rw [directEstimate_val]
      simp [directFb, Pt.directSample, List.map_map, Function.comp_def, hl]
    · rw [directEstimate_grad]
      simp [directFb, Pt.directSample, Pt.logpD, List.map_map, Function.comp_def, hl]

/-- linearity used below: `Σ w (a − c + k) = Σ w a − Σ w c + k Σ w` -/
theorem sum_lin (Ω : List (Pt α)) (w a c : Pt α → α) (k : α) :
    (Ω.map fun b => w b * (a b - c b + k)).sum
      = (Ω.map fun b => w b * a b).sum - (Ω.map fun b => w b * c b).sum + k * (Ω.map w).sum := by
  induction Ω with
  | nil => simp
  | cons x xs ih => simp only [List.map_cons, List.sum_cons, ih]; ring

/-- `DirectEstimator` with a control variate and an *arbitrary* `cv_mean = μ`: the average over
`Ω^N` of value and gradient, in closed form. -/
theorem direct_cv_mean (Ω : List (Pt α)) (hΩ : IsDist Ω) (N : Nat) (hN : (N : α) ≠ 0) (μ : Dual α) :
    meanOver (·.p) N Ω (fun t => directEstimate (t.map (Pt.directSample true)) (some μ))
      = ⟨(expectD Ω (·.f)).val - (expectD Ω (·.c)).val + μ.val,
         (expectD Ω (·.f)).grad - (expectD Ω (·.c)).grad + μ.grad
           + μ.val * (Ω.map (·.dp)).sum⟩ := by
  rw [meanOver_additive (·.p) Ω hΩ.total N hN _ (fun b => b.f.val - b.c.val + μ.val)
    (fun b => (b.f.grad - b.c.grad + μ.grad) + (b.f.val - b.c.val + μ.val) * (b.dp / b.p))]
  · have hp := hΩ.total
    apply Dual.ext'
    · show (Ω.map fun b => b.p * (b.f.val - b.c.val + μ.val)).sum = _
      rw [sum_lin Ω (·.p), hp, expectD_val, expectD_val]; ring
    · show (Ω.map fun b => b.p * ((b.f.grad - b.c.grad + μ.grad)
        + (b.f.val - b.c.val + μ.val) * (b.dp / b.p))).sum = _
      rw [sum_score Ω hΩ.pos, sum_lin Ω (·.p), sum_lin Ω (·.dp), hp, expectD_grad, expectD_grad,
        List.sum_map_add, List.sum_map_add]
      ring
  · intro t ht
    have hl := length_of_mem_tuples Ω N t ht
    apply Dual.ext'
    · rw [directEstimate_val]
      simp [directFb, Pt.directSample, List.map_map, Function.comp_def, hl]
    · rw [directEstimate_grad]
      simp [directFb, Pt.directSample, Pt.logpD, List.map_map, Function.comp_def, hl]

/-- **C19_direct_cv**: with a control variate `c` whose mean `μ_c = E c` is supplied as a
*differentiable* function of the parameters (the dual number `expectD Ω c`), the average over
`Ω^N` of value and gradient is again the exact expectation and gradient of `f`.  Uses
`Σ_b P_b' = 0` (the derivative of `Σ_b P_b = 1`). -/
theorem C19_direct_cv (Ω : List (Pt α)) (hΩ : IsDist Ω) (hd : (Ω.map (·.dp)).sum = 0)
    (N : Nat) (hN : (N : α) ≠ 0) :
    meanOver (·.p) N Ω
        (fun t => directEstimate (t.map (Pt.directSample true)) (some (expectD Ω (·.c))))
      = expectD Ω (·.f) := by
  rw [direct_cv_mean Ω hΩ N hN, hd]
  apply Dual.ext' <;> simp

/-- **C19_direct_cv_detached** (companion): if `cv_mean` is passed *detached*, the value is still
unbiased but the mean gradient is `∇E f − ∇E c`. -/
theorem C19_direct_cv_detached (Ω : List (Pt α)) (hΩ : IsDist Ω) (hd : (Ω.map (·.dp)).sum = 0)
    (N : Nat) (hN : (N : α) ≠ 0) :
    meanOver (·.p) N Ω
        (fun t => directEstimate (t.map (Pt.directSample true)) (some (expectD Ω (·.c)).detach))
      = ⟨(expectD Ω (·.f)).val, (expectD Ω (·.f)).grad - (expectD Ω (·.c)).grad⟩ := by
  rw [direct_cv_mean Ω hΩ N hN, hd]
  apply Dual.ext' <;> simp


/-! ### importance sampling -/

theorem Dual.mul_comm' (a b : Dual α) : a * b = b * a := by
  apply Dual.ext' <;> simp <;> ring

theorem isEstimate_val (ss : List (ISSample α)) :
    (isEstimate ss).val
      = (ss.map fun s => s.f.val * s.p.val / s.q.val).sum / (ss.length : α) := by
  simp only [isEstimate, Dual.sum_val, List.map_map, Function.comp_def, Dual.mul_val, LogD.exp,
    LogD.subLogConst, LogD.sub, LogD.detach, Dual.divConst, Dual.div, Dual.detach_val]
  rw [div_eq_mul_inv, ← List.sum_map_mul_right]
  congr 1
  apply List.map_congr_left
  intro s _
  simp only [div_eq_mul_inv]; ring

theorem isEstimate_grad (ss : List (ISSample α)) (hq : ∀ s ∈ ss, s.q.val ≠ 0) :
    (isEstimate ss).grad
      = (ss.map fun s => (s.f.grad * s.p.val + s.f.val * s.p.grad) / s.q.val).sum
          / (ss.length : α) := by
  simp only [isEstimate, Dual.sum_grad, List.map_map, Function.comp_def, Dual.mul_grad, LogD.exp,
    LogD.subLogConst, LogD.sub, LogD.detach, Dual.divConst, Dual.div, Dual.detach_val,
    Dual.detach_grad]
  rw [div_eq_mul_inv, ← List.sum_map_mul_right]
  congr 1
  apply List.map_congr_left
  intro s hs
  have := hq s hs
  field_simp
  ring

/-- **C19_is**: if the proposal `Q` is a probability distribution that dominates (`Q(b) ≠ 0` on
`Ω`), the average over `Ω^N` (weights `Π Q`) of the value returned by
`ImportanceSamplingEstimator` and of its gradient is `Σ_b P(b) f(b)` and its exact gradient
(w.r.t. whatever the density `P` and `f` depend on) — for any, possibly unnormalised, density `P`.
The proposal's own tangent `dq` does not occur on the right: no gradient reaches the proposal. -/
theorem C19_is (Ω : List (ISPt α)) (hq : ∀ b ∈ Ω, b.q ≠ 0) (hsum : (Ω.map (·.q)).sum = 1)
    (N : Nat) (hN : (N : α) ≠ 0) :
    meanOver (·.q) N Ω (fun t => isEstimate (t.map ISPt.sample))
      = Dual.sum (Ω.map fun b => b.p * b.f) := by
  rw [meanOver_additive (·.q) Ω hsum N hN _ (fun b => b.f.val * b.p.val / b.q)
    (fun b => (b.f.grad * b.p.val + b.f.val * b.p.grad) / b.q)]
  · apply Dual.ext'
    · simp only [Dual.sum_val, List.map_map, Function.comp_def, Dual.mul_val]
      congr 1
      apply List.map_congr_left
      intro b hb
      have := hq b hb
      field_simp
    · simp only [Dual.sum_grad, List.map_map, Function.comp_def, Dual.mul_grad]
      congr 1
      apply List.map_congr_left
      intro b hb
      have := hq b hb
      field_simp
      ring
  · intro t ht
    have hl := length_of_mem_tuples Ω N t ht
    have hq' : ∀ s ∈ t.map ISPt.sample, s.q.val ≠ 0 := by
      intro s hs
      simp only [List.mem_map] at hs
      obtain ⟨b, hb, rfl⟩ := hs
      have : b ∈ Ω := mem_of_mem_tuples Ω N t ht b hb
      exact hq b this
    apply Dual.ext'
    · rw [isEstimate_val]
      simp [ISPt.sample, List.map_map, Function.comp_def, hl]
    · rw [isEstimate_grad _ hq']
      simp [ISPt.sample, List.map_map, Function.comp_def, hl]

/-! ### enumeration -/

/-- **C19_enumerate**: `EnumerateEstimator` returns the exact expectation and, through autograd,
its exact gradient (no sampling, so no averaging).
(Audit: DEFINITIONAL up to `a * b = b * a` — the code computes `Σ f(b)·P(b)`, the spec `expectD` is
`Σ P(b)·f(b)`. That is all there is to say about this estimator, but it is not a theorem with content: kept as
documentation, NOT counted as an obligation.) -/
theorem C19_enumerate (Ω : List (Pt α)) :
    enumerateEstimate (Ω.map fun b => (b.f, b.pD)) = expectD Ω (·.f) := by
  simp only [enumerateEstimate, expectD, List.map_map, Function.comp_def, LogD.exp]
  congr 1
  apply List.map_congr_left
  intro b _
  exact Dual.mul_comm' _ _

/-! ### relaxation-based estimators: value -/

theorem relaxEstimate_val (ss : List (RelaxSample α)) (h : (ss.length : α) ≠ 0) :
    (relaxEstimate ss).val
      = (ss.map fun s => s.f.val - s.cvzcond.val + s.cvz.val).sum / (ss.length : α) := by
  simp only [relaxEstimate, Dual.mean_val, List.map_map, Function.comp_def, zipWith_map_map,
    List.length_map, Dual.add_val, Dual.sub_val, Dual.detach_val, Dual.mul_val,
    add_sub_cancel_right]
  rw [List.map_const', List.sum_replicate, nsmul_eq_mul]
  field_simp

/-- **C19_relax_value**: the value returned by `RelaxEstimator` is the sample mean of
`f(b) − c(z̃) + c(z)`. -/
theorem C19_relax_value (ss : List (RelaxSample α)) (h : (ss.length : α) ≠ 0) :
    (relaxEstimate ss).val
      = ((ss.map (·.f.val)).sum - (ss.map (·.cvzcond.val)).sum + (ss.map (·.cvz.val)).sum)
          / (ss.length : α) := by
  rw [relaxEstimate_val ss h]
  congr 1
  clear h
  induction ss with
  | nil => simp
  | cons x xs ih => simp only [List.map_cons, List.sum_cons, ih]; ring

/-- **C19_st_value**: `StraightThroughEstimator` returns the sample mean of `f(H(z))`.
(Audit: DEFINITIONAL — `stEstimate` is `Dual.mean`, this unfolds it. Kept as documentation, NOT counted.) -/
theorem C19_st_value (fbs : List (Dual α)) :
    (stEstimate fbs).val = (fbs.map (·.val)).sum / (fbs.length : α) := by
  simp [stEstimate, Dual.mean_val]

/-! ### RELAX: mean of value AND gradient over the whole sample space

`RelaxEstimator` draws `z` (through `u`), thresholds it to `b`, draws `z̃ | b` (through `v`) and
combines `f(b)`, `c(z)`, `c(z̃)`, `log P(b)`.  The *joint* sample space of one Monte-Carlo draw is
abstracted as a finite list `Ω` of `RelaxSample`s (what the estimator sees of one draw, every
quantity a dual number) with weights `w` summing to one — a quadrature grid over `(u, v)`, or any
finitely supported law.  `N` i.i.d. draws are `tuples N Ω`, as for the other estimators. -/

theorem relaxEstimate_grad (ss : List (RelaxSample α)) (h : (ss.length : α) ≠ 0) :
    (relaxEstimate ss).grad
      = (ss.map fun s => (s.f.grad - s.cvzcond.grad + s.cvz.grad)
          + (s.f.val - s.cvzcond.val) * s.logp.grad).sum / (ss.length : α) := by
  simp only [relaxEstimate, Dual.mean_grad, List.map_map, Function.comp_def,
    zipWith_map_map, List.length_map, Dual.add_grad, Dual.sub_grad, Dual.detach_grad, Dual.mul_grad,
    Dual.detach_val, Dual.sub_val, zero_mul, zero_add, sub_zero]
  rw [List.sum_map_add, List.map_const', List.sum_replicate, nsmul_eq_mul, List.sum_map_add]
  field_simp
  rw [List.sum_map_add, List.sum_map_add]

/-- **C19_relax_mean** (closed form, no hypothesis on the control variate): the average over `Ω^N`
of the value and of the gradient returned by `RelaxEstimator`. -/
theorem C19_relax_mean (w : RelaxSample α → α) (Ω : List (RelaxSample α)) (hw : (Ω.map w).sum = 1)
    (N : Nat) (hN : (N : α) ≠ 0) :
    meanOver w N Ω relaxEstimate
      = ⟨(Ω.map fun s => w s * (s.f.val - s.cvzcond.val + s.cvz.val)).sum,
         (Ω.map fun s => w s * ((s.f.grad - s.cvzcond.grad + s.cvz.grad)
            + (s.f.val - s.cvzcond.val) * s.logp.grad)).sum⟩ := by
  apply meanOver_additive w Ω hw N hN
  intro t ht
  have hl := length_of_mem_tuples Ω N t ht
  have hN' : (t.length : α) ≠ 0 := by rw [hl]; exact hN
  apply Dual.ext'
  · rw [relaxEstimate_val t hN', hl]
  · rw [relaxEstimate_grad t hN', hl]

/-- `Σ w (a − c̃ + c)` and `Σ w ((fg − c̃g + cg) + (fv − c̃v)·l)` split into their means -/
theorem sum_relax_split (Ω : List (RelaxSample α)) (w : RelaxSample α → α) :
    (Ω.map fun s => w s * ((s.f.grad - s.cvzcond.grad + s.cvz.grad)
        + (s.f.val - s.cvzcond.val) * s.logp.grad)).sum
      = (Ω.map fun s => w s * (s.f.grad + s.f.val * s.logp.grad)).sum
        - (Ω.map fun s => w s * (s.cvzcond.grad + s.cvzcond.val * s.logp.grad)).sum
        + (Ω.map fun s => w s * s.cvz.grad).sum := by
  induction Ω with
  | nil => simp
  | cons x xs ih => simp only [List.map_cons, List.sum_cons, ih]; ring

/-- **C19_relax_grad**: RELAX is unbiased in value AND gradient once the control-variate terms have
the means the construction promises — `E c(z̃) = E c(z)` (`hval`; `z̃ | b` is distributed as `z | b`)
and `∇ E c(z̃) = ∇ E c(z)` with the left side as score-function + pathwise estimate
`E[c(z̃)·∇log P(b) + ∇c(z̃)]` and the right side pathwise `E[∇c(z)]` (`hgrad`).  Then the mean over
`Ω^N` of the returned dual number is `(E f, E[∇f + f·∇log P(b)])`: exactly the mean of
`DirectEstimator` without control variate, which `C19_direct` / `score_identity` identify with the
exact expectation and its exact gradient. -/
theorem C19_relax_grad (w : RelaxSample α → α) (Ω : List (RelaxSample α)) (hw : (Ω.map w).sum = 1)
    (N : Nat) (hN : (N : α) ≠ 0)
    (hval : (Ω.map fun s => w s * s.cvzcond.val).sum = (Ω.map fun s => w s * s.cvz.val).sum)
    (hgrad : (Ω.map fun s => w s * (s.cvzcond.grad + s.cvzcond.val * s.logp.grad)).sum
              = (Ω.map fun s => w s * s.cvz.grad).sum) :
    meanOver w N Ω relaxEstimate
      = ⟨(Ω.map fun s => w s * s.f.val).sum,
         (Ω.map fun s => w s * (s.f.grad + s.f.val * s.logp.grad)).sum⟩ := by
  rw [C19_relax_mean w Ω hw N hN]
  apply Dual.ext'
  · show (Ω.map fun s => w s * (s.f.val - s.cvzcond.val + s.cvz.val)).sum = _
    have e : (Ω.map fun s => w s * (s.f.val - s.cvzcond.val + s.cvz.val)).sum
        = (Ω.map fun s => w s * s.f.val).sum - (Ω.map fun s => w s * s.cvzcond.val).sum
          + (Ω.map fun s => w s * s.cvz.val).sum := by
      clear hw hval hgrad
      induction Ω with
      | nil => simp
      | cons x xs ih => simp only [List.map_cons, List.sum_cons, ih]; ring
    rw [e, hval]; ring
  · show (Ω.map fun s => w s * ((s.f.grad - s.cvzcond.grad + s.cvz.grad)
        + (s.f.val - s.cvzcond.val) * s.logp.grad)).sum = _
    rw [sum_relax_split, hgrad]; ring

/-- **C19_relax_grad_exact**: the same, with the score-function hypothesis spelled out: if moreover
`f` carries no gradient of its own and `E[f(b)·∇log P(b)] = g` (the exact gradient of `E f`, by
`score_identity` on the discrete marginal), the mean gradient of RELAX is `g`. -/
theorem C19_relax_grad_exact (w : RelaxSample α → α) (Ω : List (RelaxSample α)) (hw : (Ω.map w).sum = 1)
    (N : Nat) (hN : (N : α) ≠ 0) (g : α)
    (hval : (Ω.map fun s => w s * s.cvzcond.val).sum = (Ω.map fun s => w s * s.cvz.val).sum)
    (hgrad : (Ω.map fun s => w s * (s.cvzcond.grad + s.cvzcond.val * s.logp.grad)).sum
              = (Ω.map fun s => w s * s.cvz.grad).sum)
    (hf : ∀ s ∈ Ω, s.f.grad = 0)
    (hscore : (Ω.map fun s => w s * (s.f.val * s.logp.grad)).sum = g) :
    meanOver w N Ω relaxEstimate = ⟨(Ω.map fun s => w s * s.f.val).sum, g⟩ := by
  rw [C19_relax_grad w Ω hw N hN hval hgrad]
  apply Dual.ext'
  · rfl
  · show (Ω.map fun s => w s * (s.f.grad + s.f.val * s.logp.grad)).sum = g
    rw [← hscore]
    congr 1
    apply List.map_congr_left
    intro s hs
    rw [hf s hs, zero_add]

end Estimators

/-! ## relaxed distributions over ℝ -/
theorem C19_threshold (eps p v b : ℝ) (hb : b = 0 ∨ b = 1) (heps : 0 ≤ eps)
    (hp : 0 < p) (hp1 : p < 1) (hv : 0 < v) (hv1 : v < 1) :
    lbThreshold (lbCsample TR eps p v b) = b := by
  rcases hb with rfl | rfl
  · have h := lbCsample_zero_neg eps p v hp hv hv1
    unfold lbThreshold
    rw [if_neg (not_le.mpr h)]
  · have h := lbCsample_one_pos eps p v heps hp1 hv hv1
    unfold lbThreshold
    rw [if_pos h.le]

theorem C19_factor (logit z : ℝ) :
    ∃ c, lbClogProb TR logit z (lbThreshold z) = some c ∧
      lbLogProb TR logit z = lbTlogProb TR logit (lbThreshold z) + c := by
  refine ⟨-z + (1 - lbThreshold z) * logit + TR.log1p (TR.exp logit)
      - 2 * TR.log1p (TR.exp (logit - z)), by simp [lbClogProb], ?_⟩
  have hb : lbThreshold z = 0 ∨ lbThreshold z = 1 := by
    unfold lbThreshold; split <;> simp
  simp only [lbLogProb, lbTlogProb, Transc.log1p]
  have e1 : TR.log = Real.log := rfl
  have e2 : TR.exp = Real.exp := rfl
  rw [e1, e2, log1p_exp_neg]
  rcases hb with h | h <;> rw [h] <;> ring

/-- **C19_tlog_doc**: the form of `-binary_cross_entropy_with_logits` the model executes equals the
documented `b log σ(l) + (1 - b) log(1 - σ(l))`, for every real `l` and EVERY `b`. -/
theorem C19_tlog_doc (logit b : ℝ) :
    lbTlogProb TR logit b
      = b * Real.log (TR.sigmoid logit) + (1 - b) * Real.log (1 - TR.sigmoid logit) :=
  lbTlogProb_eq_doc logit b

/-- **C19_threshold_clamped**: `threshold(csample(b)) = b` for the code AS CALLED — `probs` and the
uniform draw both pass through `clamp_probs` — for EVERY real `probs` and draw (in particular
`probs ∈ {0, 1}`, draws `∈ {0, 1}`) and every `0 < eps < 1/2`.  Dropping either clamp falsifies it
(`p = 1`, `b = 1` divides by `0`): this is the clause seed C19-a3 breaks. -/
theorem C19_threshold_clamped (eps p v b : ℝ) (hb : b = 0 ∨ b = 1) (h0 : 0 < eps) (h1 : eps < 1 / 2) :
    lbThreshold (lbCsampleC TR eps p v b) = b := by
  obtain ⟨hp, hp1⟩ := clampProbs_mem eps p h0 h1
  obtain ⟨hv, hv1⟩ := clampProbs_mem eps v h0 h1
  exact C19_threshold eps _ _ b hb h0.le hp hp1 hv hv1

/-- and the clamped conditional sample is the unclamped one wherever the clamp is inactive -/
theorem C19_csampleC_eq (eps p v b : ℝ) (hp : eps ≤ p) (hp1 : p ≤ 1 - eps) (hv : eps ≤ v)
    (hv1 : v ≤ 1 - eps) : lbCsampleC TR eps p v b = lbCsample TR eps p v b := by
  simp only [lbCsampleC, clampProbs_id eps p hp hp1, clampProbs_id eps v hv hv1]

/-- **C19_rsample_threshold**: with `logits = log(p/(1-p))`, the thresholded relaxed sample is 1
exactly when `u ≥ 1 - p`; so under `u ~ U(0,1)` it is Bernoulli(`p`). -/
theorem C19_rsample_threshold (p u : ℝ) (hp : 0 < p) (hp1 : p < 1) (hu : 0 < u) (hu1 : u < 1) :
    lbThreshold (lbRsample TR (Real.log (p / (1 - p))) u) = (if 1 - p ≤ u then 1 else 0) := by
  have h1 : (0 : ℝ) < 1 - p := by linarith
  have h2 : (0 : ℝ) < 1 - u := by linarith
  have hden : 0 < (1 - p) * (1 - u) := mul_pos h1 h2
  have hx : 0 < p * u / ((1 - p) * (1 - u)) := div_pos (mul_pos hp hu) hden
  rw [lbRsample_eq p u hp hp1 hu hu1]
  unfold lbThreshold
  have key : (0 ≤ Real.log (p * u / ((1 - p) * (1 - u)))) ↔ 1 - p ≤ u := by
    rw [Real.log_nonneg_iff hx, le_div_iff₀ hden]
    constructor <;> intro h <;> nlinarith
  by_cases h : 1 - p ≤ u
  · rw [if_pos (key.mpr h), if_pos h]
  · rw [if_neg (fun h' => h (key.mp h')), if_neg h]

/-- **C19_csample_reparam**: the conditional relaxed sample (without the `eps` guard) is the relaxed
sample at a uniform point of the region of `u` that thresholds to `b`:
`u = 1 - p + p v` for `b = 1`, `u = (1 - p)(1 - v)` for `b = 0`. -/
theorem C19_csample_reparam (p v : ℝ) (hp : 0 < p) (hp1 : p < 1) (hv : 0 < v) (hv1 : v < 1) :
    lbCsample TR 0 p v 1 = lbRsample TR (Real.log (p / (1 - p))) (1 - p + p * v) ∧
    lbCsample TR 0 p v 0 = lbRsample TR (Real.log (p / (1 - p))) ((1 - p) * (1 - v)) := by
  have h1 : (0 : ℝ) < 1 - p := by linarith
  have h2 : (0 : ℝ) < 1 - v := by linarith
  constructor
  · have hu : 0 < 1 - p + p * v := by nlinarith
    have hu1 : 1 - p + p * v < 1 := by nlinarith
    rw [lbRsample_eq p _ hp hp1 hu hu1]
    simp only [lbCsample, TR]
    have e : (2 * 1 - 1 : ℝ) * Real.log (v / ((1 - v) * ((1 - 1) * p + 1 * (1 - p))) + 1) + 1 * 0
        = Real.log (v / ((1 - v) * (1 - p)) + 1) := by ring_nf
    rw [e]
    congr 1
    have e2 : 1 - (1 - p + p * v) = p * (1 - v) := by ring
    rw [e2]
    field_simp
    ring
  · have hu : 0 < (1 - p) * (1 - v) := mul_pos h1 h2
    have hu1 : (1 - p) * (1 - v) < 1 := by nlinarith
    rw [lbRsample_eq p _ hp hp1 hu hu1]
    simp only [lbCsample, TR]
    have e : (2 * 0 - 1 : ℝ) * Real.log (v / ((1 - v) * ((1 - 0) * p + 0 * (1 - p))) + 1) + 0 * 0
        = - Real.log (v / ((1 - v) * p) + 1) := by ring_nf
    rw [e, ← Real.log_inv]
    congr 1
    have hD : 0 < v + (1 - v) * p := by nlinarith
    have e2 : 1 - (1 - p) * (1 - v) = v + (1 - v) * p := by ring
    rw [e2]
    field_simp


/-- **C19_csample_spec**: the specification `lbCsampleSpec` (stated in the distribution's own
`logits`) is the code's formula at the exact probability `p = σ(logits)`, for every `b`; and
(`eps = 0`) it is the relaxed sample `z(u)` of THIS distribution at the uniform point of the region
of `b`: `u = 1 − p + p v` for `b = 1`, `u = (1 − p)(1 − v)` for `b = 0`.  The code evaluates the
formula at `clamp_probs(probs)`: equal while `eps ≤ p ≤ 1 − eps` (`C19_csampleC_eq`), different
beyond (finding `C19.relaxed.csample_clamped_probs`). -/
theorem C19_csample_spec (eps logit v b : ℝ) :
    lbCsampleSpec TR eps logit v b = lbCsample TR eps (TR.sigmoid logit) v b := by
  simp only [lbCsampleSpec, lbCsample, lb_sigmoid_neg]

theorem C19_csample_spec_reparam (logit v : ℝ) (hv : 0 < v) (hv1 : v < 1) :
    lbCsampleSpec TR 0 logit v 1
        = lbRsample TR logit (1 - TR.sigmoid logit + TR.sigmoid logit * v) ∧
    lbCsampleSpec TR 0 logit v 0 = lbRsample TR logit ((1 - TR.sigmoid logit) * (1 - v)) := by
  obtain ⟨hp, hp1⟩ := lb_sigmoid_pos logit
  have h := C19_csample_reparam (TR.sigmoid logit) v hp hp1 hv hv1
  rw [lb_logit_sigmoid] at h
  rw [C19_csample_spec, C19_csample_spec]
  exact h

/-! ## categorical relaxation -/
section Gumbel
variable {α : Type} [Field α] [LinearOrder α] [IsStrictOrderedRing α]

/-- **C19_threshold_cat**: for a one-hot `b` (hot at `k`), `threshold(csample(b)) = b` for every
choice of the uniform draws and of `probs` — whatever `log` returns: the
`min(z_k − eps·max(1,|z_k|), ·)` guard alone makes `z_k` the strict maximum (`eps > 0`).  Over an
ordered field any positive margin does; in floating point only a relative one survives rounding
(finding `C19.gumbel.csample_guard_absorbed`, fixes/C19-gumbel-guard.diff). -/
theorem C19_threshold_cat (T : Transc α) (eps : α) (heps : 0 < eps) (probs vs b : List α)
    (k V : Nat) (hb : b.length = V) (hp : probs.length = V) (hv : vs.length = V) (hk : k < V)
    (hbk : b[k]'(by omega) = 1) (hb0 : ∀ j (hj : j < V), j ≠ k → b[j]'(by omega) = 0) :
    gThreshold (gCsample T eps probs vs b) = b := by
  -- name the pieces of `gCsample`
  set logv := vs.map T.log with hlogv
  set zmatch := List.zipWith (fun lv b => -(T.log (-lv)) * b) logv b with hzm
  set zk := sumL zmatch with hzk
  set s := sumL (List.zipWith (· * ·) logv b) with hs
  set nomat := List.zipWith (fun lv p => -(T.log (-lv / p - s))) logv probs with hnm
  set z := gCsample T eps probs vs b with hz
  have hlv : logv.length = V := by simp [hlogv, hv]
  have hzml : zmatch.length = V := by simp [hzm, hlv, hb]
  have hnml : nomat.length = V := by simp [hnm, hlv, hp]
  have hzl : z.length = V := by
    simp [hz, gCsample, hv, hb, hp]
  have hg : zk - eps * absClampMin1 zk < zk := by
    have h1 : (1 : α) ≤ absClampMin1 zk := by
      simp only [absClampMin1]
      split_ifs <;> first | exact le_refl _ | (rename_i h; exact not_lt.mp h)
    have : 0 < eps * absClampMin1 zk := mul_pos heps (lt_of_lt_of_le one_pos h1)
    linarith
  have hzj : ∀ j (hj : j < V), z[j]'(by omega)
      = zmatch[j]'(by omega) + (if zk - eps * absClampMin1 zk < nomat[j]'(by omega)
            then zk - eps * absClampMin1 zk else nomat[j]'(by omega))
          * (1 - b[j]'(by omega)) := by
    intro j hj
    simp [hz, gCsample, hzm, hnm, hzk, hs, hlogv]
  have hzmj : ∀ j (hj : j < V), zmatch[j]'(by omega) = -(T.log (-(logv[j]'(by omega)))) * b[j]'(by omega) := by
    intro j hj
    simp [hzm]
  -- `zk` is the hot entry of zmatch
  have hzk' : zk = zmatch[k]'(by omega) := by
    rw [hzk]
    apply sumL_single zmatch k (by omega)
    intro j hj hne
    rw [hzmj j (by omega), hb0 j (by omega) hne, mul_zero]
  have hzkk : z[k]'(by omega) = zk := by
    rw [hzj k hk, hbk, sub_self, mul_zero, add_zero, hzk']
  have hzoff : ∀ j (hj : j < V), j ≠ k → z[j]'(by omega) < zk := by
    intro j hj hne
    rw [hzj j hj, hzmj j hj, hb0 j hj hne, mul_zero, zero_add, sub_zero, mul_one]
    split
    · linarith
    · rename_i h
      have := not_lt.mp h
      linarith
  -- so argmax z = k
  have harg : argmax z = k := by
    apply argmax_of_strict_max z k (by omega)
    intro j hj hne
    rw [hzkk]
    exact hzoff j (by omega) hne
  -- and the one-hot vector at k is b
  unfold gThreshold
  rw [harg, hzl]
  apply List.ext_getElem
  · simp [oneHot, hb]
  · intro j h1 h2
    have hjV : j < V := by simpa [oneHot] using h1
    simp only [oneHot, List.getElem_map, List.getElem_range]
    by_cases hjk : j = k
    · subst hjk; rw [if_pos rfl, hbk]
    · rw [if_neg hjk, hb0 j hjV hjk]

/-- **C19_threshold_cat_clamped**: the same for `csample` as called (`probs` and draws through
`clamp_probs`): the clamps are irrelevant for this clause, the `min(z_k − eps, ·)` guard decides. -/
theorem C19_threshold_cat_clamped (T : Transc α) (eps : α) (heps : 0 < eps) (probs vs b : List α)
    (k V : Nat) (hb : b.length = V) (hp : probs.length = V) (hv : vs.length = V) (hk : k < V)
    (hbk : b[k]'(by omega) = 1) (hb0 : ∀ j (hj : j < V), j ≠ k → b[j]'(by omega) = 0) :
    gThreshold (gCsampleC T eps probs vs b) = b :=
  C19_threshold_cat T eps heps _ _ b k V hb (by simp [hp]) (by simp [hv]) hk hbk hb0

end Gumbel

/-- **C19_factor_cat**: relaxed categorical density = threshold probability × conditional density.
`logits = [lf 0, .., lf (V-1)]` normalised (`Σ exp = 1`), `z = [zf 0, ..]` arbitrary (every pair of
equal-length lists has this form), `b = threshold z`. -/
theorem C19_factor_cat (V : Nat) (hV : 0 < V) (lf zf : Nat → ℝ)
    (hnorm : ((List.range V).map fun j => Real.exp (lf j)).sum = 1) :
    ∃ c, gClogProb TR ((List.range V).map lf) ((List.range V).map zf)
            (gThreshold ((List.range V).map zf)) = some c ∧
      gLogProb TR ((List.range V).map lf) ((List.range V).map zf)
        = gTlogProb ((List.range V).map lf) (gThreshold ((List.range V).map zf)) + c := by
  have hzl : ((List.range V).map zf).length = V := by simp
  obtain ⟨k, hkdef⟩ : ∃ k, k = argmax ((List.range V).map zf) := ⟨_, rfl⟩
  have hk : k < V := by
    have := argmax_lt ((List.range V).map zf) (by omega); omega
  have hb : gThreshold ((List.range V).map zf)
      = (List.range V).map fun j => if j = k then (1 : ℝ) else 0 := by
    simp only [gThreshold, oneHot, hzl, ← hkdef]
  have hb' := hb
  rw [hb]
  rw [← hb'] at hb
  refine ⟨_, gClogProb_map (List.range V) lf zf (fun j => if j = k then (1 : ℝ) else 0) hb', ?_⟩
  rw [gLogProb_map, gTlogProb_map]
  have hζ : ((List.range V).map fun i => zf i * (if i = k then (1 : ℝ) else 0)).sum = zf k := by
    simp only [mul_ite, mul_one, mul_zero]
    exact sum_range_ite V k hk zf
  rw [hζ]
  have hexp : ∀ a b : ℝ, Real.exp (a - b) = Real.exp a * Real.exp (-b) := by
    intro a b; rw [sub_eq_add_neg, Real.exp_add]
  -- the defect of the termwise identity sums to zero
  let E : Nat → ℝ := fun j =>
    (if j = k then Real.exp (-(zf k)) else 0) + (-Real.exp (-(zf k))) * Real.exp (lf j)
  have hE : ((List.range V).map E).sum = 0 := by
    show ((List.range V).map fun j =>
      (if j = k then Real.exp (-(zf k)) else 0) + (-Real.exp (-(zf k))) * Real.exp (lf j)).sum = 0
    rw [List.sum_map_add, List.sum_map_mul_left, hnorm,
      sum_range_ite V k hk (fun _ => Real.exp (-(zf k)))]
    ring
  let LP : Nat → ℝ := fun j => (lf j - zf j) - Real.exp (lf j - zf j)
  let TL : Nat → ℝ := fun j => if (if j = k then (1 : ℝ) else 0) = 0 then 0 else lf j
  let CL : Nat → ℝ := fun j =>
    ((lf j * (1 - (if j = k then (1 : ℝ) else 0)) - zf j)
        - Real.exp (lf j * (1 - (if j = k then (1 : ℝ) else 0)) - zf j))
      - (-Real.exp (lf j * (1 - (if j = k then (1 : ℝ) else 0)) - zf k)
          * (1 - (if j = k then (1 : ℝ) else 0)))
  show ((List.range V).map LP).sum = ((List.range V).map TL).sum + ((List.range V).map CL).sum
  have hterm : ∀ j ∈ List.range V, LP j = (TL j + CL j) + E j := by
    intro j _
    by_cases hj : j = k
    · subst hj
      simp only [LP, TL, CL, E, if_true, one_ne_zero, if_false, sub_self, mul_zero, zero_sub,
        hexp (lf j) (zf j)]
      ring
    · simp only [LP, TL, CL, E, hj, if_false, if_true, sub_zero, mul_one, hexp (lf j) (zf j),
        hexp (lf j) (zf k)]
      ring
  calc ((List.range V).map LP).sum
      = ((List.range V).map fun j => (TL j + CL j) + E j).sum := by
        congr 1; exact List.map_congr_left hterm
    _ = (((List.range V).map TL).sum + ((List.range V).map CL).sum) + ((List.range V).map E).sum := by
        rw [List.sum_map_add, List.sum_map_add]
    _ = _ := by rw [hE, add_zero]

/-! ## Metropolis–Hastings with proposal = density -/
section IMH
variable {α σ : Type} [Field α] [LinearOrder α]

/-- **C19_imh** (supplied start): proposal = density (log-ratio 0 everywhere) and every
`log u_n < 0` (`u_n < 1`) ⇒ every proposal is accepted and the estimate is the plain
post-burn-in average of `f` over the proposals; the supplied start does not matter. -/
theorem C19_imh_supplied (ratio : σ → α) (f : σ → α) (inSupport : σ → Bool) (N burnIn tries : Nat)
    (b0 : σ) (draws : List σ) (lus : List (Option α))
    (hr : ∀ b, ratio b = 0) (hlu : ∀ lu ∈ lus, NegLog lu) (hb : burnIn < N)
    (hd : N ≤ draws.length) (hl : N ≤ lus.length) :
    imhEstimate ratio f inSupport N burnIn tries (some b0) draws lus
      = some ((((draws.take N).drop burnIn).map f).sum / ((N - burnIn : Nat) : α)) := by
  simp only [imhEstimate]
  rw [if_neg (by omega), imh_chain ratio f hr N burnIn b0 draws lus hlu hb hd hl]

/-- **C19_imh** (drawn start): the first draw is the start (it lies in the support), the next `N`
draws are all accepted. -/
theorem C19_imh_drawn (ratio : σ → α) (f : σ → α) (inSupport : σ → Bool) (N burnIn tries : Nat)
    (d0 : σ) (draws : List σ) (lus : List (Option α))
    (hr : ∀ b, ratio b = 0) (hs : ∀ b, inSupport b = true) (htries : 0 < tries)
    (hlu : ∀ lu ∈ lus, NegLog lu) (hb : burnIn < N)
    (hd : N ≤ draws.length) (hl : N ≤ lus.length) :
    imhEstimate ratio f inSupport N burnIn tries none (d0 :: draws) lus
      = some ((((draws.take N).drop burnIn).map f).sum / ((N - burnIn : Nat) : α)) := by
  obtain ⟨t, rfl⟩ : ∃ t, tries = t + 1 := ⟨tries - 1, by omega⟩
  simp only [imhEstimate, findInitial, hs d0, if_true]
  rw [if_neg (by omega), imh_chain ratio f hr N burnIn d0 draws lus hlu hb hd hl]

/-- **C19_imh_values** (value semantics of the chain, ANY densities / draws / uniforms / start):
the estimate is the mean of the LIST of recorded values `f b_t` of the kept chain states
(`imhValues`: `b_t` = `imhChain`, a proposal where it was accepted and the previous state where it
was not); an error (`none`) exactly when the list is not defined. -/
theorem C19_imh_values (ratio : σ → α) (f : σ → α) (inSupport : σ → Bool) (N burnIn tries : Nat)
    (init : Option σ) (draws : List σ) (lus : List (Option α)) (hb : burnIn < N) :
    imhEstimate ratio f inSupport N burnIn tries init draws lus
      = (imhValues ratio f inSupport N burnIn tries init draws lus).map
          (fun vs => vs.sum / ((N - burnIn : Nat) : α)) :=
  imh_values ratio f inSupport N burnIn tries init draws lus hb

/-- **C19_imh_recorded_prefix**: a recorded value stays what it was — what the first steps
recorded is a prefix of what is recorded after any further steps. -/
theorem C19_imh_recorded_prefix (ratio : σ → α) (f : σ → α) (burnIn : Nat) (b0 : σ)
    (steps more : List (σ × Option α)) (h : burnIn ≤ steps.length) :
    imhRecorded ratio f burnIn b0 steps <+: imhRecorded ratio f burnIn b0 (steps ++ more) :=
  imhRecorded_prefix ratio f burnIn b0 steps more h

/-- **C19_imh_chain**: one state per step, each either that step's proposal or the previous
state; the record has `steps − burn_in` entries. -/
theorem C19_imh_chain (ratio : σ → α) (f : σ → α) (burnIn : Nat) (b0 : σ)
    (steps : List (σ × Option α)) :
    (imhChain ratio b0 (ratio b0) steps).length = steps.length
    ∧ (imhRecorded ratio f burnIn b0 steps).length = steps.length - burnIn
    ∧ ∀ (last : σ) (lastR : α) (cur : σ) (lu : Option α),
        (imhStep ratio last lastR cur lu).1 = cur ∨ (imhStep ratio last lastR cur lu).1 = last := by
  refine ⟨imhChain_length ratio steps b0 (ratio b0), ?_, fun last lastR cur lu => imhStep_fst ratio last lastR cur lu⟩
  simp [imhRecorded, imhChain_length]

/-- **C19_imh_recorded_accept_all**: proposal = density and every `u_n < 1` ⇒ the chain IS the list
of proposals, so the recorded values are `f` of the post-burn-in proposals (with
`C19_imh_values`: the plain post-burn-in average, `C19_imh_supplied` / `_drawn`). -/
theorem C19_imh_recorded_accept_all (ratio : σ → α) (f : σ → α) (burnIn : Nat) (b0 : σ)
    (steps : List (σ × Option α)) (hr : ∀ b, ratio b = 0) (hlu : ∀ s ∈ steps, NegLog s.2) :
    imhRecorded ratio f burnIn b0 steps = ((steps.map Prod.fst).drop burnIn).map f := by
  unfold imhRecorded
  rw [hr b0, imhChain_accept_all ratio hr steps b0 hlu]

/-! ### a density that vanishes on part of the proposal's support (audit) -/

/-- **C19_imh_support_total**: the chain with `-inf` log-ratios (`imhChainS`, either variant) IS the chain of the
theorems above whenever the density is positive on the whole support of the proposal: same states, same
recorded values. -/
theorem C19_imh_support_total (poison : Bool) (ratio : σ → Option α) (r : σ → α)
    (h : ∀ b, ratio b = some (r b)) (f : σ → α) (burnIn : Nat) (b0 : σ) (steps : List (σ × Option α)) :
    imhChainS poison ratio b0 (.fin (r b0)) steps = imhChain r b0 (r b0) steps ∧
    imhRecordedS poison ratio f burnIn b0 (r b0) steps = imhRecorded r f burnIn b0 steps := by
  have e := imhChainS_total poison ratio r h steps b0 (r b0)
  exact ⟨e, by unfold imhRecordedS imhRecorded; rw [e]⟩

/-- **C19_imh_support_fixed** (the repaired loop, `torch.where(accept, cur_ratio, last_ratio)`): started inside
the density's support, (1) every state of the chain lies in the support, (2) after any steps the carried
log-ratio is a number and is the log-ratio of the state the chain is in, (3) a proposal outside the support is
a plain rejection: the chain goes on from the same state with the same log-ratio. -/
theorem C19_imh_support_fixed (ratio : σ → Option α) (b0 : σ) (r0 : α) (h0 : ratio b0 = some r0)
    (steps : List (σ × Option α)) :
    (∀ s ∈ imhChainS false ratio b0 (.fin r0) steps, (ratio s).isSome = true) ∧
    (∃ r', (imhAfterS false ratio b0 (.fin r0) steps).2 = .fin r' ∧
      ratio (imhAfterS false ratio b0 (.fin r0) steps).1 = some r') ∧
    (∀ c lu, ratio c = none →
      imhChainS false ratio b0 (.fin r0) ((c, lu) :: steps) = b0 :: imhChainS false ratio b0 (.fin r0) steps) := by
  refine ⟨imhChainS_fixed_support ratio steps b0 r0 h0, imhAfterS_fixed_inv ratio steps b0 r0 h0, ?_⟩
  intro c lu hc
  simp [imhChainS, imhStepS, hc]

/-- **C19_imh_support_pinned_counterexample** (finding `C19.imh.ninf_ratio_poisons_chain`): on the pinned tree
(`accept * cur_ratio + (~accept) * last_ratio` with `cur_ratio = -inf`: `0 · (-inf) = NaN`) ONE proposal outside
the density's support freezes the chain for good: whatever is proposed afterwards, with whatever uniforms, the
state never changes again — the estimate is `f` of that one state. -/
theorem C19_imh_support_pinned_counterexample (ratio : σ → Option α) (b0 : σ) (r0 : α) (c : σ)
    (lu : Option α) (hc : ratio c = none) (rest : List (σ × Option α)) :
    imhChainS true ratio b0 (.fin r0) ((c, lu) :: rest) = List.replicate (rest.length + 1) b0 := by
  simp only [imhChainS, imhStepS, hc, if_true, List.replicate_succ]
  rw [imhChainS_nan]

end IMH

/-! ## fixed-cardinality sampling -/
/-- **C19_srswor** -/
theorem C19_srswor (total given : Nat) (outcomes : List Rat) (steps : List (Rat × Rat))
    (h : srswor total given outcomes = .ok steps)
    (hc : ∀ s ∈ steps, bernoulliConsistent s = true) :
    (steps.map Prod.snd).length = outcomes.length ∧
    (∀ b ∈ steps.map Prod.snd, b = 0 ∨ b = 1) ∧
    ((steps.map Prod.snd).take total).sum = (given : Rat) ∧
    (∀ b ∈ (steps.map Prod.snd).drop total, b = 0) := by
  unfold srswor at h
  split at h
  · cases h
  · split at h
    · cases h
    · rename_i h1 h2
      injection h with h
      have hs : steps = srsworLoop (given : Rat) (clampR total) outcomes := by rw [← h]; rfl
      subst hs
      refine ⟨by simp [srsworLoop_length], ?_⟩
      exact srsworLoop_spec outcomes given total (by omega) (by omega) hc

/-- (Audit: the guard of `srswor` read back — DEFINITIONAL; that the CODE raises exactly there is
correspondence. Kept as documentation, NOT counted as an obligation.) -/
theorem C19_srswor_error (total given : Nat) (outcomes : List Rat) :
    srswor total given outcomes = .error ↔ (total < given ∨ outcomes.length < total) := by
  unfold srswor
  split
  · simp [*]
  · split <;> simp [*]


/-! ## binomial coefficients -/
section Binom
open Nat
/-- **C19_binom** (recursive branch, `length_ > 20`) -/
theorem C19_binom_rec (L n k : Nat) (hn : n ≤ L) : binomRec L n k = Nat.choose n k := by
  simp only [binomRec, binomRow_eq]
  rw [List.getD_eq_getElem?_getD, List.getElem?_map, List.getElem?_range' (by omega)]
  simp

/-- **C19_binom** (factorial branch, `length_ ≤ 20`; integers unbounded) -/
theorem C19_binom_fact (L n k : Nat) (hn : n ≤ L) : binomFact L n k = Nat.choose n k := by
  unfold binomFact
  by_cases hk : k ≤ n
  · have e : (n : Int) - k = ((n - k : Nat) : Int) := by omega
    have h1 : ¬ ((n : Int) - k < -1) := by omega
    have h2 : ¬ (L < k) := by omega
    simp only [h1, h2, if_false]
    have h3 : ¬ (((n - k : Nat) : Int) = -1) := by omega
    simp only [e, h3, if_false, Int.toNat_natCast]
    rw [factTable_getD L n (by omega), factTable_getD L k (by omega), factTable_getD L (n - k) (by omega),
      Nat.choose_eq_factorial_div_factorial hk]
  · have hlt : n < k := by omega
    have h : (if (n : Int) - k < -1 then (-1 : Int) else (n : Int) - k) = -1 := by
      split <;> omega
    simp only [h, if_true]
    exact (Nat.choose_eq_zero_of_lt hlt).symm

/-- **C19_binom**: both branches of `binomial_coefficient` compute the binomial coefficient. -/
theorem C19_binom (L n k : Nat) (hn : n ≤ L) : binomialCoefficient L n k = Nat.choose n k := by
  unfold binomialCoefficient
  split
  · exact C19_binom_rec L n k hn
  · exact C19_binom_fact L n k hn


end Binom

/-! ## support enumeration -/
/-- **C19_enum_vocab**: `enumerate_vocab_sequences(length, V)` lists every sequence of `length`
symbols `< V` exactly once (and nothing else). -/
theorem C19_enum_vocab (n V : Nat) (hV : 0 < V) :
    (enumVocab n V).Nodup ∧
    ∀ seq : List Nat, seq ∈ enumVocab n V ↔ (seq.length = n ∧ ∀ d ∈ seq, d < V) := by
  rw [enumVocab_eq]
  constructor
  · apply List.Nodup.map_on _ List.nodup_range
    intro a ha b hb hab
    rw [List.mem_range] at ha hb
    rw [← ofDigits_digits V n a ha, ← ofDigits_digits V n b hb, hab]
  · intro seq
    simp only [List.mem_map, List.mem_range]
    constructor
    · rintro ⟨s, _, rfl⟩
      exact ⟨digitsLE_length V n s, digitsLE_lt V hV n s⟩
    · rintro ⟨hl, hd⟩
      obtain ⟨e1, e2⟩ := digits_ofDigits V seq hd
      rw [hl] at e1 e2
      exact ⟨ofDigitsLE V seq, e2, e1⟩

/-- (Audit: `enumVocab` is a `map` over `range (V ^ n)`: DEFINITIONAL. Kept, NOT counted; the count with
content is `C19_enum_vocab` — every sequence exactly once.) -/
theorem C19_enum_vocab_length (n V : Nat) : (enumVocab n V).length = V ^ n := by
  simp [enumVocab]

/-- **C19_enum_card_length**: `enumerate_binary_sequences_with_cardinality(n, k)` has exactly
`C(n, k)` rows (all `n`, `k`; `0` rows when `k > n`). -/
theorem C19_enum_card_length (n k : Nat) : (enumCard n k).length = Nat.choose n k :=
  enumCard_length n k

/-- **C19_enum_card_rows**: the rows are pairwise distinct binary vectors of length `n`, each with
exactly `k` ones — and every such vector is a row. -/
theorem C19_enum_card_rows (n k : Nat) :
    (enumCard n k).Nodup ∧
    ∀ row : List Nat, row ∈ enumCard n k ↔
      (row.length = n ∧ (∀ d ∈ row, d = 0 ∨ d = 1) ∧ row.count 1 = k) := by
  obtain ⟨hnd, hmem⟩ := C19_enum_vocab n 2 (by norm_num)
  refine ⟨hnd.filter _, ?_⟩
  intro row
  simp only [enumCard, enumBinary, List.mem_filter, hmem, beq_iff_eq, ← List.sum_eq_foldr]
  constructor
  · rintro ⟨⟨hl, hd⟩, hs⟩
    refine ⟨hl, fun d hd' => by have := hd d hd'; omega, ?_⟩
    rw [count_one_eq_sum row hd, hs]
  · rintro ⟨hl, hd, hc⟩
    have hd2 : ∀ d ∈ row, d < 2 := fun d hd' => by rcases hd d hd' with h | h <;> omega
    exact ⟨⟨hl, hd2⟩, by rw [← count_one_eq_sum row hd2, hc]⟩

/-- **C19_enum_card_tensor**: the tensor variant of the cardinality filter
(`_enumerate_binary_sequences_with_cardinality_tensor`, one batch element of length `n ≤ lmax`):
its valid rows are the rows of the `int` variant for `(n, k)`, in the same order, padded with
zeros up to `lmax` — hence `C(n, k)` of them, exactly the binary vectors with `k` ones inside the
first `n` positions and zeros beyond (`C19_enum_card_rows`). -/
theorem C19_enum_card_tensor (lmax n k : Nat) (h : n ≤ lmax) :
    enumCardTensor lmax n k = (enumCard n k).map (· ++ List.replicate (lmax - n) 0)
    ∧ (enumCardTensor lmax n k).length = Nat.choose n k := by
  obtain ⟨d, rfl⟩ := Nat.exists_eq_add_of_le h
  have e : n + d - n = d := by omega
  rw [enumCardTensor_eq, e]
  exact ⟨rfl, by rw [List.length_map, C19_enum_card_length]⟩

/-- **C19_srswor_support_prob**: `|support| · P = 1` for the SRSWOR distribution — the number of
rows of `enumerate_support` (the cardinality filter) times `exp(log_prob)` (from the log-factorial
table, with its clamped indices) is exactly one, for all `given ≤ total ≤ out_size`, `out_size ≥ 1`;
i.e. the distribution is uniform over the `C(total, given)` subsets.  Exact arithmetic; the code's
float32 logs are compared with this value to 1e-5 by the harness. -/
theorem C19_srswor_support_prob (outSize total given : Nat) (hg : given ≤ total)
    (ht : total ≤ outSize) (ho : 0 < outSize) :
    ((enumCard total given).length : Rat) * srsworProb outSize total given = 1 := by
  rw [C19_enum_card_length, srsworProb, srsworPartition_eq outSize total given hg ht ho]
  have h := Nat.choose_mul_factorial_mul_factorial hg
  have hq : ((Nat.choose total given : Nat) : Rat) * (given.factorial : Rat) * ((total - given).factorial : Rat)
      = (total.factorial : Rat) := by exact_mod_cast h
  have h1 : (given.factorial : Rat) ≠ 0 := by exact_mod_cast (Nat.factorial_pos given).ne'
  have h2 : ((total - given).factorial : Rat) ≠ 0 := by exact_mod_cast (Nat.factorial_pos _).ne'
  have h3 : (total.factorial : Rat) ≠ 0 := by exact_mod_cast (Nat.factorial_pos total).ne'
  field_simp
  linarith [hq]


/-! ## The two constructions (`probs=` / `logits=`), batch and event shape -/
section Params

/-- **LogisticBernoulli, either construction: `probs = sigmoid(logits)` entry by entry** (for the
`probs=` construction up to the documented `clamp_probs`); every entry of the parameter tensor is
one variable (`batch_shape = shape`, `event_shape = ()`). -/
theorem C19_params_lb_sigmoid (eps : ℝ) (h0 : 0 < eps) (h1 : eps < 1 / 2) (shape : List Nat)
    (data : List ℝ) :
    (lbParams TR eps .logits shape data).probs
        = (lbParams TR eps .logits shape data).logits.map TR.sigmoid
    ∧ (lbParams TR eps .probs shape data).logits.map TR.sigmoid
        = (lbParams TR eps .probs shape data).probs.map (clampProbs eps)
    ∧ ∀ c, (lbParams TR eps c shape data).batchShape = shape
        ∧ (lbParams TR eps c shape data).eventShape = [] := by
  refine ⟨rfl, ?_, ?_⟩
  · simp only [lbParams, List.map_map]
    apply List.map_congr_left
    intro p _
    exact sigmoid_probsToLogitsBin eps p h0 h1
  · intro c; cases c <;> exact ⟨rfl, rfl⟩

/-- **Both constructions of LogisticBernoulli denote the same distribution**: the object built
from `probs` and the object built from ITS `logits` hold the same `probs`, `logits` and shapes
(probabilities inside `[eps, 1 - eps]`, where `clamp_probs` is inactive). -/
theorem C19_params_lb (eps : ℝ) (h0 : 0 < eps) (shape : List Nat) (ps : List ℝ)
    (hp : ∀ p ∈ ps, eps ≤ p ∧ p ≤ 1 - eps) :
    lbParams TR eps .logits shape (lbParams TR eps .probs shape ps).logits
      = lbParams TR eps .probs shape ps := by
  simp only [lbParams, RelaxedParams.mk.injEq, List.map_map, true_and, and_true]
  conv_rhs => rw [← List.map_id ps]
  apply List.map_congr_left
  intro p hp'
  have h1 : (0 : ℝ) < p := lt_of_lt_of_le h0 (hp p hp').1
  have h2 : p < 1 := by have := (hp p hp').2; linarith
  simp only [Function.comp, probsToLogitsBin_eq eps p (hp p hp').1 (hp p hp').2 h0,
    sigmoid_logit p h1 h2, id]

/-- ... and the other way round: built from `logits`, then from ITS `probs`. -/
theorem C19_params_lb_conv (eps : ℝ) (h0 : 0 < eps) (shape : List Nat) (ls : List ℝ)
    (hl : ∀ l ∈ ls, eps ≤ TR.sigmoid l ∧ TR.sigmoid l ≤ 1 - eps) :
    lbParams TR eps .probs shape (lbParams TR eps .logits shape ls).probs
      = lbParams TR eps .logits shape ls := by
  simp only [lbParams, RelaxedParams.mk.injEq, List.map_map, true_and]
  conv_rhs => rw [← List.map_id ls]
  apply List.map_congr_left
  intro l hl'
  simp only [Function.comp, probsToLogitsBin_sigmoid eps l h0 (hl l hl').1 (hl l hl').2, id]

/-- `dist.expand(pre ++ batch_shape)` is the distribution of the expanded parameter. -/
theorem C19_params_lb_expand (eps : ℝ) (c : Ctor) (shape pre : List Nat) (data : List ℝ) :
    (lbParams TR eps c shape data).expand pre
      = lbParams TR eps c (pre ++ shape) (List.replicate (prodL pre) data).flatten := by
  cases c <;> simp only [lbParams, RelaxedParams.expand, List.map_flatten, List.map_replicate]

variable (eps : ℝ) (shape : List Nat)

/-- **GumbelOneHotCategorical(logits=..)**: the LAST axis is the class axis (so there IS one: `shape ≠ []` —
the constructor raises `ValueError` for a 0-dimensional parameter, while the total model `gParams` would read it
as one class; the guard `_hsh` of this and the next three theorems keeps them inside the code's domain); along it the stored
`logits` are normalised (`Σ exp = 1` in every row), `probs = exp(logits)`, and `probs` is the
softmax of the tensor that was handed over, row by row. -/
theorem C19_params_cat_logits (data : List ℝ) (_hsh : shape ≠ []) (hV : 0 < shape.getLastD 1)
    (hlen : data.length = prodL shape.dropLast * shape.getLastD 1) :
    (gParams TR eps .logits shape data).batchShape = shape.dropLast
    ∧ (gParams TR eps .logits shape data).eventShape = [shape.getLastD 1]
    ∧ (gParams TR eps .logits shape data).probs = (gParams TR eps .logits shape data).logits.map Real.exp
    ∧ (gParams TR eps .logits shape data).probs
        = ((rowsOf (shape.getLastD 1) (prodL shape.dropLast) data).map (softmaxRow TR)).flatten
    ∧ ∀ r ∈ rowsOf (shape.getLastD 1) (prodL shape.dropLast) (gParams TR eps .logits shape data).logits,
        sumL (r.map Real.exp) = 1 := by
  have hrow := rowsOf_row_length (shape.getLastD 1) (prodL shape.dropLast) data hlen
  have hne : ∀ r ∈ rowsOf (shape.getLastD 1) (prodL shape.dropLast) data, r ≠ [] := by
    intro r hr h
    have := hrow r hr
    rw [h, List.length_nil] at this
    omega
  refine ⟨rfl, rfl, ?_, ?_, ?_⟩
  · simp only [gParams, List.map_flatten, List.map_map]
    congr 1
    apply List.map_congr_left
    intro r hr
    exact softmaxRow_logSoftmaxRow r (hne r hr)
  · simp only [gParams, List.map_map]
    congr 1
    apply List.map_congr_left
    intro r hr
    exact softmaxRow_shift r (hne r hr)
  · intro r hr
    simp only [gParams] at hr
    rw [rowsOf_flatten_map _ _ _ hlen (logSoftmaxRow TR)
      (fun r h => by rw [logSoftmaxRow_length, h])] at hr
    obtain ⟨r0, hr0, rfl⟩ := List.mem_map.1 hr
    exact sum_exp_logSoftmaxRow r0 (hne r0 hr0)

/-- **GumbelOneHotCategorical(probs=..)**: `probs` is the handed-over tensor divided by its sum
along the last axis (every row sums to one), `logits = log(clamp_probs(probs))`. -/
theorem C19_params_cat_probs (data : List ℝ) (_hsh : shape ≠ [])
    (hlen : data.length = prodL shape.dropLast * shape.getLastD 1)
    (hs : ∀ r ∈ rowsOf (shape.getLastD 1) (prodL shape.dropLast) data, sumL r ≠ 0) :
    (gParams TR eps .probs shape data).batchShape = shape.dropLast
    ∧ (gParams TR eps .probs shape data).eventShape = [shape.getLastD 1]
    ∧ (gParams TR eps .probs shape data).logits
        = (gParams TR eps .probs shape data).probs.map (probsToLogits TR eps)
    ∧ (gParams TR eps .probs shape data).probs
        = ((rowsOf (shape.getLastD 1) (prodL shape.dropLast) data).map normRow).flatten
    ∧ ∀ r ∈ rowsOf (shape.getLastD 1) (prodL shape.dropLast) (gParams TR eps .probs shape data).probs,
        sumL r = 1 := by
  refine ⟨rfl, rfl, ?_, rfl, ?_⟩
  · simp only [gParams, List.map_flatten, List.map_map]
  · intro r hr
    simp only [gParams] at hr
    rw [rowsOf_flatten_map _ _ _ hlen normRow (fun r h => by rw [normRow_length, h])] at hr
    obtain ⟨r0, hr0, rfl⟩ := List.mem_map.1 hr
    exact sumL_normRow r0 (hs r0 hr0)

/-- **Both constructions of GumbelOneHotCategorical denote the same distribution**
(`softmax(logits) = probs / Σ probs` along the last axis): the object built from `probs = θ` and
the object built from ITS `logits` hold the same tensors and shapes (normalised probabilities
inside `[eps, 1 - eps]`). -/
theorem C19_params_cat (h0 : 0 < eps) (θ : List ℝ) (_hsh : shape ≠ [])
    (hlen : θ.length = prodL shape.dropLast * shape.getLastD 1)
    (hs : ∀ r ∈ rowsOf (shape.getLastD 1) (prodL shape.dropLast) θ, sumL r ≠ 0)
    (hc : ∀ r ∈ rowsOf (shape.getLastD 1) (prodL shape.dropLast) θ,
      ∀ x ∈ normRow r, eps ≤ x ∧ x ≤ 1 - eps) :
    gParams TR eps .logits shape (gParams TR eps .probs shape θ).logits
      = gParams TR eps .probs shape θ := by
  have key := rowsOf_flatten_map (shape.getLastD 1) (prodL shape.dropLast) θ hlen
    (fun r => (normRow r).map (probsToLogits TR eps))
    (fun r h => by rw [List.length_map, normRow_length, h])
  simp only [gParams, RelaxedParams.mk.injEq, List.map_map, true_and]
  have e : (fun r => List.map (probsToLogits TR eps) r) ∘ normRow
      = fun r => (normRow r).map (probsToLogits TR eps) := rfl
  rw [e, key, List.map_map, List.map_map]
  constructor
  · congr 1
    apply List.map_congr_left
    intro r hr
    have h := row_probs_then_logits eps h0 r (hs r hr) (hc r hr)
    simp only [Function.comp, h.1, h.2]
  · congr 1
    apply List.map_congr_left
    intro r hr
    have h := row_probs_then_logits eps h0 r (hs r hr) (hc r hr)
    simp only [Function.comp, h.1]

/-- ... and the other way round: built from `logits = l`, then from ITS `probs`. -/
theorem C19_params_cat_conv (l : List ℝ) (_hsh : shape ≠ []) (hV : 0 < shape.getLastD 1)
    (hlen : l.length = prodL shape.dropLast * shape.getLastD 1)
    (hc : ∀ r ∈ rowsOf (shape.getLastD 1) (prodL shape.dropLast) l,
      ∀ x ∈ softmaxRow TR (logSoftmaxRow TR r), eps ≤ x ∧ x ≤ 1 - eps) :
    gParams TR eps .probs shape (gParams TR eps .logits shape l).probs
      = gParams TR eps .logits shape l := by
  have hrow := rowsOf_row_length (shape.getLastD 1) (prodL shape.dropLast) l hlen
  have hne : ∀ r ∈ rowsOf (shape.getLastD 1) (prodL shape.dropLast) l, r ≠ [] := by
    intro r hr h
    have := hrow r hr
    rw [h, List.length_nil] at this
    omega
  have key := rowsOf_flatten_map (shape.getLastD 1) (prodL shape.dropLast) l hlen
    (fun r => softmaxRow TR (logSoftmaxRow TR r))
    (fun r h => by rw [softmaxRow_length, logSoftmaxRow_length, h])
  simp only [gParams, RelaxedParams.mk.injEq, List.map_map, true_and]
  have e : softmaxRow TR ∘ logSoftmaxRow TR = fun r => softmaxRow TR (logSoftmaxRow TR r) := rfl
  rw [e, key, List.map_map, List.map_map]
  constructor
  · congr 1
    apply List.map_congr_left
    intro r hr
    have h := row_logits_then_probs eps r (hne r hr) (hc r hr)
    simp only [Function.comp, h.1]
  · congr 1
    apply List.map_congr_left
    intro r hr
    have h := row_logits_then_probs eps r (hne r hr) (hc r hr)
    simp only [Function.comp, h.1, h.2]


/-- `dist.expand(pre ++ batch_shape)` of the categorical relaxation is the distribution of the
expanded parameter (new LEADING axes; the class axis stays last). -/
theorem C19_params_cat_expand (eps : ℝ) (c : Ctor) (shape pre : List Nat) (data : List ℝ)
    (hs : shape ≠ []) (hlen : data.length = prodL shape.dropLast * shape.getLastD 1) :
    (gParams TR eps c shape data).expand pre
      = gParams TR eps c (pre ++ shape) (List.replicate (prodL pre) data).flatten := by
  have e1 : (pre ++ shape).getLastD 1 = shape.getLastD 1 := by
    simp only [List.getLastD_eq_getLast?, List.getLast?_append, List.getLast?_eq_some_getLast hs,
      Option.getD_some, Option.some_or]
  have e2 : (pre ++ shape).dropLast = pre ++ shape.dropLast := List.dropLast_append_of_ne_nil hs
  have e3 := rowsOf_replicate (shape.getLastD 1) (prodL shape.dropLast) data hlen (prodL pre)
  cases c <;>
  · simp only [gParams, RelaxedParams.expand, e1, e2, prodL_append, e3,
      List.map_flatten, List.map_replicate, flatten_replicate_flatten]

/-- **thresholding a conditional relaxed sample returns the conditioning value, at tensor level**:
for a LogisticBernoulli of ANY construction, batch shape and `expand` (any `RelaxedParams`), any
sample shape, all draws and every binary `b` of the shape of the draws — the parameter each entry
meets is picked by the broadcasting rule `paramAt`. -/
theorem C19_threshold_tensor (eps : ℝ) (h0 : 0 < eps) (h1 : eps < 1 / 2) (P : RelaxedParams ℝ)
    (vs bs : List ℝ) (hb : ∀ b ∈ bs, b = 0 ∨ b = 1) (hlen : bs.length ≤ vs.length) :
    (lbCsampleT TR eps P vs bs).map lbThreshold = bs := by
  simp only [lbCsampleT, List.map_map]
  calc ((vs.zip bs).zipIdx).map _
      = ((vs.zip bs).zipIdx).map (fun x => x.1.2) := by
        apply List.map_congr_left
        intro x hx
        have hm := List.fst_mem_of_mem_zipIdx hx
        have hb' : x.1.2 ∈ bs := (List.of_mem_zip (a := x.1.1) (b := x.1.2) hm).2
        exact C19_threshold_clamped eps _ _ _ (hb _ hb') h0 h1
    _ = (((vs.zip bs).zipIdx).map Prod.fst).map Prod.snd := by rw [List.map_map]; rfl
    _ = bs := by rw [List.zipIdx_map_fst, List.map_snd_zip hlen]

/-- **thresholding a conditional relaxed sample returns the conditioning value, at tensor level**
(categorical relaxation): any construction / batch shape / `expand` (any `RelaxedParams` whose
`probs` has `B · V` entries), any sample shape, all draws, every tensor `bs` of one-hot rows. -/
theorem C19_threshold_cat_tensor (eps : ℝ) (h0 : 0 < eps) (P : RelaxedParams ℝ) (V : Nat)
    (hV : P.eventShape = [V]) (hB : 0 < prodL P.batchShape)
    (hP : P.probs.length = prodL P.batchShape * V) (vs bs : List (List ℝ))
    (hv : ∀ v ∈ vs, v.length = V) (hb : ∀ b ∈ bs, ∃ k, k < V ∧ b = oneHot k V)
    (hlen : bs.length ≤ vs.length) :
    (gCsampleT TR eps P vs bs).map gThreshold = bs := by
  simp only [gCsampleT, List.map_map, hV, List.headD_cons]
  calc ((vs.zip bs).zipIdx).map _
      = ((vs.zip bs).zipIdx).map (fun x => x.1.2) := by
        apply List.map_congr_left
        intro x hx
        have hm := List.fst_mem_of_mem_zipIdx hx
        obtain ⟨hv', hb'⟩ := List.of_mem_zip (a := x.1.1) (b := x.1.2) hm
        obtain ⟨k, hk, hbk⟩ := hb _ hb'
        simp only [Function.comp]
        rw [hbk]
        refine C19_threshold_cat_clamped TR eps h0 _ _ _ k V (by simp [oneHot])
          (paramRowAt_length _ _ _ _ hB hP) (hv _ hv') hk (by simp [oneHot]) ?_
        intro j hj hjk
        simp [oneHot, hjk]
    _ = (((vs.zip bs).zipIdx).map Prod.fst).map Prod.snd := by rw [List.map_map]; rfl
    _ = bs := by rw [List.zipIdx_map_fst, List.map_snd_zip hlen]

end Params

/-! ## non-vacuity: every theorem above has its hypotheses instantiated on a concrete input -/
def exΩ : List (Pt Rat) :=
  [⟨1/4, -1, ⟨3, 0⟩, ⟨1, 0⟩, -13/10⟩, ⟨3/4, 1, ⟨5, 0⟩, ⟨2, 0⟩, -3/10⟩]

theorem exΩ_dist : IsDist exΩ := ⟨by simp [exΩ], by norm_num [exΩ]⟩
theorem exΩ_dp : (exΩ.map (·.dp)).sum = 0 := by norm_num [exΩ]
theorem exΩ_expect : expectD exΩ (·.f) = ⟨9/2, 2⟩ := by
  apply Dual.ext' <;> norm_num [exΩ, expectD_val, expectD_grad]

example : meanOver (·.p) 2 exΩ (fun t => directEstimate (t.map (Pt.directSample false)) none)
    = ⟨9/2, 2⟩ := by rw [C19_direct exΩ exΩ_dist 2 (by norm_num), exΩ_expect]
example : meanOver (·.p) 2 exΩ
    (fun t => directEstimate (t.map (Pt.directSample true)) (some (expectD exΩ (·.c))))
    = ⟨9/2, 2⟩ := by
  rw [C19_direct_cv exΩ exΩ_dist exΩ_dp 2 (by norm_num), exΩ_expect]

def exIS : List (ISPt Rat) := [⟨1/2, 1, ⟨1/4, -1⟩, ⟨3, 0⟩⟩, ⟨1/2, -1, ⟨3/4, 1⟩, ⟨5, 0⟩⟩]
example : meanOver (·.q) 2 exIS (fun t => isEstimate (t.map ISPt.sample)) = ⟨9/2, 2⟩ := by
  rw [C19_is exIS (by simp [exIS]) (by norm_num [exIS]) 2 (by norm_num)]
  apply Dual.ext' <;> norm_num [exIS, Dual.sum_val, Dual.sum_grad]

example : ∃ steps, srswor 3 2 [1, 0, 1, 0] = .ok steps ∧ (∀ s ∈ steps, bernoulliConsistent s = true) := by
  refine ⟨_, rfl, ?_⟩
  intro s hs
  simp [srsworLoop] at hs
  rcases hs with rfl | rfl | rfl | rfl <;> norm_num [bernoulliConsistent]

example : binomialCoefficient 30 30 15 = 155117520 := by decide
example : binomialCoefficient 5 5 2 = 10 := by decide
example : [2, 0, 1] ∈ enumVocab 3 3 := (C19_enum_vocab 3 3 (by norm_num)).2 _ |>.mpr ⟨rfl, by decide⟩
example : enumVocab 2 2 = [[0, 0], [1, 0], [0, 1], [1, 1]] := by decide

example : imhEstimate (fun _ : Nat => (0 : Rat)) (fun i => (i : Rat)) (fun _ => true) 3 1 5 none
    [7, 1, 2, 4] [some (-1/2), none, some (-3)] = some 3 := by
  rw [C19_imh_drawn (fun _ : Nat => (0 : Rat)) _ _ 3 1 5 7 [1, 2, 4] _ (fun _ => rfl) (fun _ => rfl)
    (by norm_num) ?_ (by norm_num) (by simp) (by simp)]
  · norm_num
  · intro lu hlu l hl
    simp only [List.mem_cons, List.not_mem_nil, or_false] at hlu
    rcases hlu with rfl | rfl | rfl
    · cases hl; norm_num
    · cases hl
    · cases hl; norm_num

-- ratios differ: after state 2 (log-ratio 2) was accepted, proposal 0 is rejected twice (log u = -1/2, -1 are
-- not below 0 - 2), so f(state 2) is recorded at both kept steps; the last proposal is accepted (u = 0)
example : imhValues (fun i : Nat => (i : Rat)) (fun i => (10 * i : Rat)) (fun _ => true) 4 1 5 (some 5)
    [2, 0, 0, 3] [some (-4), some (-1/2), some (-1), none] = some [20, 20, 30] := by
  simp [imhValues, imhRecorded, imhChain, imhStep]
  norm_num

example : imhEstimate (fun i : Nat => (i : Rat)) (fun i => (10 * i : Rat)) (fun _ => true) 4 1 5 (some 5)
    [2, 0, 0, 3] [some (-4), some (-1/2), some (-1), none] = some (70 / 3) := by
  rw [C19_imh_values _ _ _ 4 1 5 _ _ _ (by decide)]
  simp [imhValues, imhRecorded, imhChain, imhStep]
  norm_num

example : imhEstimate (fun _ : Nat => (0 : Rat)) (fun i => (i : Rat)) (fun _ => true) 2 0 5 (some 9)
    [1, 2] [some (-1/2), none] = some (3/2) := by
  rw [C19_imh_supplied (fun _ : Nat => (0 : Rat)) _ _ 2 0 5 9 [1, 2] _ (fun _ => rfl) ?_
    (by norm_num) (by simp) (by simp)]
  · norm_num
  · intro lu hlu l hl
    simp only [List.mem_cons, List.not_mem_nil, or_false] at hlu
    rcases hlu with rfl | rfl
    · cases hl; norm_num
    · cases hl

/-- three states, the density vanishes on state 0, the start is state 1; state 0 is proposed first, then state 2
twice with `u = 0` (always accepted where a comparison is possible): the repaired chain moves to 2, the pinned
one is frozen at 1; with `f = 10·state` the estimates are 50/3 and 10. -/
def exRatioS : Nat → Option Rat := fun i => if i = 0 then none else some 0

example : imhChainS false exRatioS 1 (.fin 0) [(0, some (-1)), (2, none), (2, none)] = [1, 2, 2] ∧
    imhChainS true exRatioS 1 (.fin 0) [(0, some (-1)), (2, none), (2, none)] = [1, 1, 1] ∧
    imhRecordedS false exRatioS (fun i => (10 * i : Rat)) 0 1 0 [(0, some (-1)), (2, none), (2, none)] = [10, 20, 20] ∧
    imhRecordedS true exRatioS (fun i => (10 * i : Rat)) 0 1 0 [(0, some (-1)), (2, none), (2, none)] = [10, 10, 10] := by
  decide +kernel

example : imhChainS true exRatioS 1 (.fin 0) [(0, some (-1)), (2, none), (2, none)] = List.replicate 3 1 :=
  C19_imh_support_pinned_counterexample exRatioS 1 0 0 (some (-1)) rfl _

example : ∀ s ∈ imhChainS false exRatioS 1 (.fin 0) [(0, some (-1)), (2, none), (2, none)], (exRatioS s).isSome = true :=
  (C19_imh_support_fixed exRatioS 1 0 rfl _).1

example : lbThreshold (lbCsample TR (1/100) (1/4) (1/2) 1) = 1 :=
  C19_threshold _ _ _ _ (Or.inr rfl) (by norm_num) (by norm_num) (by norm_num) (by norm_num) (by norm_num)
example : lbThreshold (lbRsample TR (Real.log ((1/4) / (1 - 1/4))) (7/8)) = 1 := by
  rw [C19_rsample_threshold _ _ (by norm_num) (by norm_num) (by norm_num) (by norm_num)]; norm_num
example : lbCsample TR 0 (1/4) (1/2) 1 = lbRsample TR (Real.log ((1/4) / (1 - 1/4))) (1 - 1/4 + 1/4 * (1/2)) :=
  (C19_csample_reparam _ _ (by norm_num) (by norm_num) (by norm_num) (by norm_num)).1
example : gThreshold (gCsample TR (1/100) [1/4, 1/4, 1/2] [1/3, 1/2, 2/3] [0, 1, 0]) = [0, 1, 0] := by
  apply C19_threshold_cat TR (1/100) (by norm_num) _ _ _ 1 3 rfl rfl rfl (by norm_num) (by simp)
  intro j hj hne
  have : j = 0 ∨ j = 2 := by omega
  rcases this with rfl | rfl <;> simp
example : ∃ c, gClogProb TR ((List.range 2).map fun _ => Real.log (1/2)) ((List.range 2).map fun j => (j : ℝ))
      (gThreshold ((List.range 2).map fun j => (j : ℝ))) = some c ∧
    gLogProb TR ((List.range 2).map fun _ => Real.log (1/2)) ((List.range 2).map fun j => (j : ℝ))
      = gTlogProb ((List.range 2).map fun _ => Real.log (1/2))
          (gThreshold ((List.range 2).map fun j => (j : ℝ))) + c :=
  C19_factor_cat 2 (by norm_num) _ _ (by
    have : Real.exp (Real.log (1/2)) = 1/2 := Real.exp_log (by norm_num)
    rw [show List.range 2 = [0, 1] from rfl]
    simp only [List.map_cons, List.map_nil, List.sum_cons, List.sum_nil, this]; norm_num)
example : lbThreshold (lbCsampleC TR (1/1000) 1 1 1) = 1 :=
  C19_threshold_clamped _ _ _ _ (Or.inr rfl) (by norm_num) (by norm_num)
example : lbThreshold (lbCsampleC TR (1/1000) 0 0 0) = 0 :=
  C19_threshold_clamped _ _ _ _ (Or.inl rfl) (by norm_num) (by norm_num)
example : (enumCard 4 2).length = 6 := by decide
example : enumCard 3 2 = [[1, 1, 0], [1, 0, 1], [0, 1, 1]] := by decide
example : ((enumCard 5 2).length : Rat) * srsworProb 6 5 2 = 1 :=
  C19_srswor_support_prob 6 5 2 (by norm_num) (by norm_num) (by norm_num)
example : srsworProb 6 5 2 = 1 / 10 := by
  rw [srsworProb, srsworPartition_eq 6 5 2 (by norm_num) (by norm_num) (by norm_num)]
  norm_num [Nat.factorial]

/-- a two-point joint space on which the hypotheses of `C19_relax_grad` hold non-trivially
(`c(z̃)` and `c(z)` differ pointwise, their means and gradient means agree) -/
def exRelax : List (RelaxSample Rat) :=
  [⟨⟨3, 0⟩, ⟨1, 0⟩, ⟨2, 0⟩, ⟨-1, -2⟩⟩, ⟨⟨5, 0⟩, ⟨3, 1⟩, ⟨2, 1⟩, ⟨-1, 2⟩⟩]
example : meanOver (fun _ => (1 / 2 : Rat)) 2 exRelax relaxEstimate = ⟨4, 2⟩ := by
  rw [C19_relax_grad_exact (fun _ => (1 / 2 : Rat)) exRelax (by norm_num [exRelax]) 2 (by norm_num) 2
    (by norm_num [exRelax]) (by norm_num [exRelax]) (by simp [exRelax]) (by norm_num [exRelax])]
  apply Dual.ext' <;> norm_num [exRelax]

example : lbThreshold (lbCsample TR (1/100) (1/4) (1/2) 0) = 0 :=
  C19_threshold _ _ _ _ (Or.inl rfl) (by norm_num) (by norm_num) (by norm_num) (by norm_num) (by norm_num)

/-! the two constructions: hypotheses are satisfiable on tensors with more than one entry / row -/
example : lbParams TR (1/100) .logits [2] (lbParams TR (1/100) .probs [2] [1/4, 3/4]).logits
    = lbParams TR (1/100) .probs [2] [1/4, 3/4] :=
  C19_params_lb (1/100) (by norm_num) [2] [1/4, 3/4] (by
    intro p hp
    simp only [List.mem_cons, List.not_mem_nil, or_false] at hp
    rcases hp with rfl | rfl <;> constructor <;> norm_num)

example : (lbParams TR (1/100) .probs [2] [0, 1]).logits.map TR.sigmoid = [1/100, 99/100] := by
  rw [(C19_params_lb_sigmoid (1/100) (by norm_num) (by norm_num) [2] [0, 1]).2.1]
  simp only [lbParams, List.map_cons, List.map_nil, clampProbs]
  norm_num

theorem exRows : rowsOf ([2, 2].getLastD 1) (prodL [2, 2].dropLast) [(1 : ℝ), 3, 2, 2]
    = [[1, 3], [2, 2]] := rfl

example : gParams TR (1/100) .logits [2, 2] (gParams TR (1/100) .probs [2, 2] [1, 3, 2, 2]).logits
    = gParams TR (1/100) .probs [2, 2] [1, 3, 2, 2] :=
  C19_params_cat (1/100) [2, 2] (by norm_num) [1, 3, 2, 2] (by simp) (by simp [prodL])
    (by
      intro r hr
      rw [exRows] at hr
      simp only [List.mem_cons, List.not_mem_nil, or_false] at hr
      rcases hr with rfl | rfl <;> norm_num [sumL])
    (by
      intro r hr x hx
      rw [exRows] at hr
      simp only [List.mem_cons, List.not_mem_nil, or_false] at hr
      have e1 : normRow [(1 : ℝ), 3] = [1/4, 3/4] := by norm_num [normRow, sumL]
      have e2 : normRow [(2 : ℝ), 2] = [1/2, 1/2] := by norm_num [normRow, sumL]
      rcases hr with rfl | rfl
      · rw [e1] at hx
        simp only [List.mem_cons, List.not_mem_nil, or_false] at hx
        rcases hx with rfl | rfl <;> constructor <;> norm_num
      · rw [e2] at hx
        simp only [List.mem_cons, List.not_mem_nil, or_false] at hx
        rcases hx with rfl | rfl <;> constructor <;> norm_num)

example : (lbCsampleT TR (1/1000) ((lbParams TR (1/1000) .logits [2] [-3, 40]).expand [2])
    [0, 1/2, 1, 1/3] [1, 0, 0, 1]).map lbThreshold = [1, 0, 0, 1] :=
  C19_threshold_tensor _ (by norm_num) (by norm_num) _ _ _ (by simp) (by simp)

example : enumCardTensor 3 2 1 = [[1, 0, 0], [0, 1, 0]] := by decide

example : (gCsampleT TR (1/100) ⟨[2], [2], [1/4, 3/4, 1/2, 1/2], [0, 0, 0, 0]⟩
    [[1/2, 1/3], [1/5, 1/7], [1, 0]] [oneHot 0 2, oneHot 1 2, oneHot 1 2]).map gThreshold
    = [oneHot 0 2, oneHot 1 2, oneHot 1 2] :=
  C19_threshold_cat_tensor (1/100) (by norm_num) _ 2 rfl (by decide) (by simp [prodL]) _ _
    (by simp) (by
      intro b hb
      simp only [List.mem_cons, List.not_mem_nil, or_false] at hb
      rcases hb with rfl | rfl | rfl
      · exact ⟨0, by norm_num, rfl⟩
      · exact ⟨1, by norm_num, rfl⟩
      · exact ⟨1, by norm_num, rfl⟩) (by simp)

/-! ### audit: the theorems that had no instance of their hypotheses -/
example : meanOver (·.p) 2 exΩ
    (fun t => directEstimate (t.map (Pt.directSample true)) (some (expectD exΩ (·.c)).detach))
    = ⟨9/2, 2 - (expectD exΩ (·.c)).grad⟩ := by
  rw [C19_direct_cv_detached exΩ exΩ_dist exΩ_dp 2 (by norm_num), exΩ_expect]

/-- `C19_srswor` applied: 2 of 3, one padding position, outcomes 1, 0, 1, 0 -/
example : ((srsworLoop 2 3 [1, 0, 1, 0]).map Prod.snd).length = 4 ∧
    (∀ b ∈ (srsworLoop 2 3 [1, 0, 1, 0]).map Prod.snd, b = 0 ∨ b = 1) ∧
    (((srsworLoop 2 3 [1, 0, 1, 0]).map Prod.snd).take 3).sum = ((2 : Nat) : Rat) ∧
    (∀ b ∈ ((srsworLoop 2 3 [1, 0, 1, 0]).map Prod.snd).drop 3, b = 0) :=
  C19_srswor 3 2 [1, 0, 1, 0] _ rfl (by
    intro s hs
    simp [srsworLoop] at hs
    rcases hs with rfl | rfl | rfl | rfl <;> norm_num [bernoulliConsistent])

example : binomRec 30 30 15 = Nat.choose 30 15 ∧ binomFact 12 7 9 = Nat.choose 7 9 :=
  ⟨C19_binom_rec 30 30 15 (by norm_num), C19_binom_fact 12 7 9 (by norm_num)⟩

example : lbCsampleC TR (1/1000) (1/4) (1/2) 1 = lbCsample TR (1/1000) (1/4) (1/2) 1 :=
  C19_csampleC_eq _ _ _ _ (by norm_num) (by norm_num) (by norm_num) (by norm_num)

example : imhRecorded (fun i : Nat => (i : Rat)) (fun i => (10 * i : Rat)) 1 5 [(2, some (-4)), (0, some (-1/2))]
    <+: imhRecorded (fun i : Nat => (i : Rat)) (fun i => (10 * i : Rat)) 1 5
      ([(2, some (-4)), (0, some (-1/2))] ++ [(0, some (-1)), (3, none)]) :=
  C19_imh_recorded_prefix _ _ 1 5 _ _ (by simp)

example : imhRecorded (fun _ : Nat => (0 : Rat)) (fun i => (i : Rat)) 1 9 [(1, some (-1/2)), (2, none), (4, some (-3))]
    = [2, 4] := by
  rw [C19_imh_recorded_accept_all (fun _ : Nat => (0 : Rat)) _ 1 9 _ (fun _ => rfl) (by
    intro s hs l hl
    simp only [List.mem_cons, List.not_mem_nil, or_false] at hs
    rcases hs with rfl | rfl | rfl
    · cases hl; norm_num
    · cases hl
    · cases hl; norm_num)]
  norm_num

/-- the other direction of the two constructions, hypotheses satisfiable: logits 0 and log 3 -/
example : lbParams TR (1/100) .probs [2] (lbParams TR (1/100) .logits [2] [0, Real.log 3]).probs
    = lbParams TR (1/100) .logits [2] [0, Real.log 3] :=
  C19_params_lb_conv (1/100) (by norm_num) [2] [0, Real.log 3] (by
    intro l hl
    simp only [List.mem_cons, List.not_mem_nil, or_false] at hl
    have e3 : Real.exp (-Real.log 3) = 1/3 := by
      rw [Real.exp_neg, Real.exp_log (by norm_num)]; norm_num
    rcases hl with rfl | rfl
    · simp only [Transc.sigmoid, TR, neg_zero, Real.exp_zero]; constructor <;> norm_num
    · simp only [Transc.sigmoid, TR, e3]; constructor <;> norm_num)

theorem exRows0 : rowsOf ([2, 2].getLastD 1) (prodL [2, 2].dropLast) [(0 : ℝ), 0, Real.log 3, 0]
    = [[0, 0], [Real.log 3, 0]] := rfl

theorem exSoft0 : softmaxRow TR [(0 : ℝ), 0] = [1/2, 1/2] := by
  simp only [softmaxRow, sumL, TR, List.map_cons, List.map_nil, List.foldr_cons, List.foldr_nil, Real.exp_zero]
  norm_num

theorem exSoft3 : softmaxRow TR [Real.log 3, 0] = [3/4, 1/4] := by
  simp only [softmaxRow, sumL, TR, List.map_cons, List.map_nil, List.foldr_cons, List.foldr_nil, Real.exp_zero,
    Real.exp_log (by norm_num : (0 : ℝ) < 3)]
  norm_num

/-- `C19_params_cat_conv` and `C19_params_cat_logits` with their hypotheses: shape (2, 2), rows (0, 0) and
(log 3, 0), i.e. class probabilities (1/2, 1/2) and (3/4, 1/4) -/
example : gParams TR (1/100) .probs [2, 2] (gParams TR (1/100) .logits [2, 2] [0, 0, Real.log 3, 0]).probs
    = gParams TR (1/100) .logits [2, 2] [0, 0, Real.log 3, 0] :=
  C19_params_cat_conv (1/100) [2, 2] [0, 0, Real.log 3, 0] (by simp) (by decide) (by simp [prodL]) (by
    intro r hr x hx
    rw [exRows0] at hr
    simp only [List.mem_cons, List.not_mem_nil, or_false] at hr
    rcases hr with rfl | rfl
    · rw [softmaxRow_shift _ (by simp), exSoft0] at hx
      simp only [List.mem_cons, List.not_mem_nil, or_false] at hx
      rcases hx with rfl | rfl <;> constructor <;> norm_num
    · rw [softmaxRow_shift _ (by simp), exSoft3] at hx
      simp only [List.mem_cons, List.not_mem_nil, or_false] at hx
      rcases hx with rfl | rfl <;> constructor <;> norm_num)

example : (gParams TR (1/100) .logits [2, 2] [0, 0, Real.log 3, 0]).batchShape = [2] ∧
    (gParams TR (1/100) .logits [2, 2] [0, 0, Real.log 3, 0]).probs = [1/2, 1/2, 3/4, 1/4] := by
  obtain ⟨h1, _, _, h4, _⟩ := C19_params_cat_logits (1/100) [2, 2] [0, 0, Real.log 3, 0] (by simp) (by decide) (by simp [prodL])
  refine ⟨h1, ?_⟩
  rw [h4, exRows0]
  simp [exSoft0, exSoft3]

/-- `C19_params_cat_probs` / `C19_params_cat_expand` with their hypotheses: unnormalised rows (1, 3), (2, 2) -/
example : (gParams TR (1/100) .probs [2, 2] [1, 3, 2, 2]).probs = [1/4, 3/4, 1/2, 1/2] := by
  obtain ⟨_, _, _, h4, _⟩ := C19_params_cat_probs (1/100) [2, 2] [1, 3, 2, 2] (by simp) (by simp [prodL]) (by
    intro r hr
    rw [exRows] at hr
    simp only [List.mem_cons, List.not_mem_nil, or_false] at hr
    rcases hr with rfl | rfl <;> norm_num [sumL])
  rw [h4, exRows]
  norm_num [normRow, sumL]

example : (gParams TR (1/100) .probs [2, 2] [1, 3, 2, 2]).expand [3]
    = gParams TR (1/100) .probs ([3] ++ [2, 2]) (List.replicate (prodL [3]) [(1 : ℝ), 3, 2, 2]).flatten :=
  C19_params_cat_expand (1/100) .probs [2, 2] [3] [1, 3, 2, 2] (by simp) (by simp [prodL])

example : (lbParams TR (1/100) .logits [2] [-3, 40]).expand [2, 3]
    = lbParams TR (1/100) .logits ([2, 3] ++ [2]) (List.replicate (prodL [2, 3]) [(-3 : ℝ), 40]).flatten :=
  C19_params_lb_expand _ _ _ _ _

/-! ## The distribution OBJECT: what it denotes does not depend on what was done with it before

The relaxed distributions store the attribute they were built with and derive the other one lazily
(`lazy_property`: computed on the first read, then kept in `__dict__`); the SRSWOR distribution does
the same with `log_partition`.  `expand` builds the derived object from what it finds in `__dict__`
(`RelaxedObj.expand`, `SrsworObj.expand` follow the code).  A history is any sequence of reads of the
lazy attributes (every method is a sequence of such reads as far as the object's state goes:
`csample` reads `probs`; `rsample`, `log_prob`, `tlog_prob`, `clog_prob`, `mean` read `logits`) and of
`expand`s, each continuing on the derived object.  Whatever the history, a reader of the final object
gets the attributes of a FRESHLY CONSTRUCTED distribution of the expanded parameter — so every theorem
above about `lbParams` / `gParams` (threshold, factorisation, conditional samples, tensor level)
applies to the object after the history. -/

/-- **LogisticBernoulli, any history**: shapes, `probs` and `logits` read off the object after ANY
sequence of reads and `expand`s are those of `LogisticBernoulli(c = data expanded by the leading axes the
history added)`. -/
theorem C19_obj_lb_history (eps : ℝ) (c : Ctor) (shape : List Nat) (data : List ℝ) (h : List ObjOp) :
    ((lbObj c shape data).run (lbConv TR eps) h).params (lbConv TR eps)
      = lbParams TR eps c (preOf h ++ shape) (tile (prodL (preOf h)) data) := by
  have hc := Coherent.run (lbConv_tiles eps) (c := c) h [] (o := lbObj c shape data)
    (P := lbParams TR eps c shape data) (by rw [expand_nil]; exact lbObj_coherent eps c shape data)
  rw [hc.params]
  exact C19_params_lb_expand eps c shape _ data

/-- **GumbelOneHotCategorical, any history** (the class axis stays last; `shape ≠ []`, whole rows). -/
theorem C19_obj_cat_history (eps : ℝ) (c : Ctor) (shape : List Nat) (data : List ℝ) (hs : shape ≠ [])
    (hV : 0 < shape.getLastD 1) (hlen : data.length = prodL shape.dropLast * shape.getLastD 1)
    (h : List ObjOp) :
    ((gObj TR c shape data).run (gConv TR eps (shape.getLastD 1)) h).params (gConv TR eps (shape.getLastD 1))
      = gParams TR eps c (preOf h ++ shape) (tile (prodL (preOf h)) data) := by
  have hc := Coherent.run (gConv_tiles eps _ hV) (c := c) h [] (o := gObj TR c shape data)
    (P := gParams TR eps c shape data) (by rw [expand_nil]; exact gObj_coherent eps c shape data hV hlen)
  rw [hc.params]
  exact C19_params_cat_expand eps c shape _ data hs hlen

theorem SrsworObj.run_outSize (h : List SrsworOp) : ∀ o : SrsworObj, (o.run h).outSize = o.outSize := by
  induction h with
  | nil => intro o; rfl
  | cons op h ih =>
    intro o
    simp only [SrsworObj.run, List.foldl_cons]
    have := ih (o.step op)
    simp only [SrsworObj.run] at this
    rw [this]
    cases op with
    | partition =>
      simp only [SrsworObj.step, SrsworObj.readPartition]
      split <;> rfl
    | expand pre => rfl

/-- **SRSWOR, any history**: after any sequence of reads of `log_partition` (`log_prob` reads it)
and `expand`s the object has the expanded batch shape and counts, and `exp(log_prob(·))` of every
batch element is `1 / partition` of ITS counts (`= 1 / C(total, given)`: `C19_srswor_support_prob`). -/
theorem C19_obj_srswor_history (shape : List Nat) (outSize : Nat) (total given : List Nat)
    (hl : total.length = given.length) (h : List SrsworOp) :
    ((srsworObj shape outSize total given).run h).batchShape = preOfS h ++ shape
    ∧ ((srsworObj shape outSize total given).run h).total = tile (prodL (preOfS h)) total
    ∧ ((srsworObj shape outSize total given).run h).given = tile (prodL (preOfS h)) given
    ∧ ((srsworObj shape outSize total given).run h).probs
        = tile (prodL (preOfS h)) (List.zipWith (srsworProb outSize) total given) := by
  have hc := CoherentS.run h [] (o := srsworObj shape outSize total given) (shape := shape)
    (total := total) (given := given)
    ⟨rfl, by simp [srsworObj, prodL, tile_one], by simp [srsworObj, prodL, tile_one],
      by simpa [prodL, tile_one] using hl, Or.inl rfl⟩
  obtain ⟨h1, h2, h3, h4, h5⟩ := hc
  refine ⟨h1, h2, h3, ?_⟩
  have ho := SrsworObj.run_outSize h (srsworObj shape outSize total given)
  have e : List.zipWith (srsworProb outSize) total given
      = (List.zipWith (srsworPartition outSize) total given).map (1 / ·) := by
    rw [List.map_zipWith]; rfl
  have key : ((srsworObj shape outSize total given).run h).readPartition.1
      = tile (prodL (preOfS h)) (List.zipWith (srsworPartition outSize) total given) := by
    rw [← tile_zipWith _ _ _ _ hl]
    rcases h5 with h5 | h5
    · simp only [SrsworObj.readPartition, h5, h2, h3, ho]; rfl
    · simp only [SrsworObj.readPartition, h5, ho]; rfl
  rw [SrsworObj.probs, key, e, tile_map]

/-- a concrete history: read `probs` (as `csample` does), expand, read `logits`, expand again -/
example : ((lbObj .logits [2] [(-3 : ℝ), 40]).run (lbConv TR (1/100))
      [.probs, .expand [3], .logits, .expand [2]]).params (lbConv TR (1/100))
    = lbParams TR (1/100) .logits ([2, 3] ++ [2]) (tile 6 [(-3 : ℝ), 40]) :=
  C19_obj_lb_history (1/100) .logits [2] [-3, 40] [.probs, .expand [3], .logits, .expand [2]]

example : ((gObj TR .probs [2, 2] [(1 : ℝ), 3, 2, 2]).run (gConv TR (1/100) 2)
      [.logits, .expand [3], .probs]).params (gConv TR (1/100) 2)
    = gParams TR (1/100) .probs ([3] ++ [2, 2]) (tile 3 [(1 : ℝ), 3, 2, 2]) :=
  C19_obj_cat_history (1/100) .probs [2, 2] [1, 3, 2, 2] (by simp) (by simp) (by simp [prodL])
    [.logits, .expand [3], .probs]

/-- totals equal, given counts different, cached before the expand -/
example : ((srsworObj [2] 3 [3, 3] [0, 1]).run [.partition, .expand [2], .partition]).probs
    = [1, 1/3, 1, 1/3] := by
  obtain ⟨_, _, _, h⟩ := C19_obj_srswor_history [2] 3 [3, 3] [0, 1] rfl [.partition, .expand [2], .partition]
  rw [h]
  decide +kernel

/-! ## The estimator OBJECT: assignments to public attributes and repeated calls (sixth round)

Model: `estRun` / `attrsAfter` / `callsAt`, `isCall`, `directCall`, `imhCall` (Model/Estimators.lean).
That the python `__call__`s read every attribute at call time - which is what makes this the right
model - is correspondence only (harness: lives). -/
section Life
variable {A D R : Type}

/-- **C19_life_history** (audit F: NOT counted as an obligation any more - it is the fold `estRun`
rewritten as the two recursions `attrsAfter` / `callsAt`, true for EVERY `call : A → D → R`; that a call
reads nothing but the record is the TYPE of `estStep`, i.e. the modelling decision, not something
proved about the estimators.  Kept as documentation and as the lemma behind `estRun_last`.)
(the estimator OBJECT, any class): after ANY history of attribute assignments
and calls on an object constructed with the attribute values `a`, the object's state is the attribute
values in force (`attrsAfter`: the assignments in order) and EVERY result returned so far is the call
function evaluated at the attribute values in force at that call and at that call's draws
(`callsAt`) - the value of a call is a function of (current attribute values, draws) only; nothing an
earlier call or the constructor's arguments left behind reaches it. -/
theorem C19_life_history (call : A → D → R) (a : A) (h : List (EstOp A D)) :
    estRun call a h = (attrsAfter a h, (callsAt a h).map fun ad => call ad.1 ad.2) :=
  estRun_eq call a h

/-- **C19_life_fresh** (corollary; small, NOT counted as an obligation): the call that ends a history
returns what a freshly constructed object with the attribute values in force returns on the same
draws. -/
theorem C19_life_fresh (call : A → D → R) (a : A) (h : List (EstOp A D)) (d : D) :
    (estRun call a (h ++ [.call d])).2.getLast?
      = (estRun call (attrsAfter a h) [.call d]).2.getLast? := by
  rw [estRun_last]
  simp [estRun, estStep]

end Life

section LifeMC
variable {α σ : Type} [Field α]

/-- **C19_life_is** (`C19_life_history` composed with `C19_is`): an ImportanceSamplingEstimator object
constructed with ANY attribute values, after ANY history of assignments (`mc_samples`, `func`,
`density`, `proposal`, `self_normalize`, `is_log`) and calls: if the attributes in force are
`mc_samples = N ≥ 1`, `self_normalize = is_log = False` and a dominating proposal `Q` (a probability
distribution on `Ω`), the average over `Ω^N` of the value of the NEXT call and of its gradient is
`Σ_b P(b) f(b)` and its exact gradient, for the density and integrand IN FORCE.  (`isCall` divides by
the attribute `mc_samples` as the code does and draws `mc_samples` points: both reads happen in the
call.) -/
theorem C19_life_is (Ω : List σ) (a0 : ISAttrs α σ) (h : List (EstOp (ISAttrs α σ) (List σ)))
    (N : Nat) (hN : (N : α) ≠ 0)
    (hmc : (attrsAfter a0 h).mcSamples = N)
    (hsn : (attrsAfter a0 h).selfNormalize = false) (hlog : (attrsAfter a0 h).isLog = false)
    (hq : ∀ b ∈ Ω, ((attrsAfter a0 h).proposal b).val ≠ 0)
    (hsum : (Ω.map fun b => ((attrsAfter a0 h).proposal b).val).sum = 1) :
    meanOver (fun b => ((attrsAfter a0 h).proposal b).val) N Ω
        (fun t => lastValue (estRun isCall a0 (h ++ [.call t])))
      = Dual.sum (Ω.map fun b => (attrsAfter a0 h).density b * (attrsAfter a0 h).func b) := by
  have step : ∀ t ∈ tuples N Ω, lastValue (estRun isCall a0 (h ++ [.call t]))
      = isEstimate ((t.map fun b => (⟨((attrsAfter a0 h).proposal b).val, ((attrsAfter a0 h).proposal b).grad,
          (attrsAfter a0 h).density b, (attrsAfter a0 h).func b⟩ : ISPt α)).map ISPt.sample) := by
    intro t ht
    have hl := length_of_mem_tuples Ω N t ht
    simp only [lastValue, estRun_last, Option.getD_some]
    rw [isCall_eq _ t hsn hlog (by rw [hl, hmc]) (by rw [hmc]; rintro rfl; exact hN Nat.cast_zero)]
    simp [ISPt.sample, List.map_map, Function.comp_def]
  rw [meanOver_congr _ N Ω _ _ step]
  generalize attrsAfter a0 h = a at hmc hsn hlog hq hsum ⊢
  have key := C19_is (Ω.map fun b => (⟨(a.proposal b).val, (a.proposal b).grad, a.density b, a.func b⟩ : ISPt α))
    (by simpa using hq) (by simpa [List.map_map, Function.comp_def] using hsum) N hN
  rw [meanOver_map] at key
  simpa [List.map_map, Function.comp_def] using key

/-- **C19_life_direct** (composed with `C19_direct`): the same for a DirectEstimator object whose
attributes in force are `mc_samples = N ≥ 1`, `is_log = False`, `cv = None` - whatever `cv_mean` an
earlier configuration left behind (`directEstimate_nocv`), whatever it was constructed with. -/
theorem C19_life_direct (Ω : List σ) (a0 : DirectAttrs α σ)
    (h : List (EstOp (DirectAttrs α σ) (List σ))) (N : Nat) (hN : (N : α) ≠ 0)
    (hmc : (attrsAfter a0 h).mcSamples = N) (hlog : (attrsAfter a0 h).isLog = false)
    (hcv : (attrsAfter a0 h).cv = none)
    (hp : ∀ b ∈ Ω, ((attrsAfter a0 h).proposal.p b).val ≠ 0)
    (hsum : (Ω.map fun b => ((attrsAfter a0 h).proposal.p b).val).sum = 1) :
    meanOver (fun b => ((attrsAfter a0 h).proposal.p b).val) N Ω
        (fun t => lastValue (estRun directCall a0 (h ++ [.call t])))
      = Dual.sum (Ω.map fun b => (attrsAfter a0 h).proposal.p b * (attrsAfter a0 h).func b) := by
  have step : ∀ t ∈ tuples N Ω, lastValue (estRun directCall a0 (h ++ [.call t]))
      = directEstimate ((t.map fun b => (⟨((attrsAfter a0 h).proposal.p b).val,
          ((attrsAfter a0 h).proposal.p b).grad, (attrsAfter a0 h).func b, 0,
          (attrsAfter a0 h).proposal.lv b⟩ : Pt α)).map (Pt.directSample false)) none := by
    intro t ht
    have hl := length_of_mem_tuples Ω N t ht
    simp only [lastValue, estRun_last, Option.getD_some]
    rw [directCall_eq _ t hlog (by rw [hl, hmc]) (by rw [hmc]; rintro rfl; exact hN Nat.cast_zero)
      (by rw [hcv]; rfl), directEstimate_nocv]
    · rw [List.map_map, Option.getD_some]
      congr 1
      apply List.map_congr_left
      intro b _
      simp [DirectAttrs.sample, Pt.directSample, Pt.logpD, hcv]
    · intro s hs
      simp only [List.mem_map] at hs
      obtain ⟨b, _, rfl⟩ := hs
      simp [DirectAttrs.sample, hcv]
  rw [meanOver_congr _ N Ω _ _ step]
  generalize attrsAfter a0 h = a at hmc hlog hcv hp hsum ⊢
  have key := C19_direct (Ω.map fun b => (⟨(a.proposal.p b).val, (a.proposal.p b).grad, a.func b, 0,
      a.proposal.lv b⟩ : Pt α))
    ⟨by simpa using hp, by simpa [List.map_map, Function.comp_def] using hsum⟩ N hN
  rw [meanOver_map] at key
  simpa [expectD, Pt.pD, List.map_map, Function.comp_def] using key

end LifeMC
section LifeIMH
variable {α σ : Type} [Field α] [LinearOrder α]

/-- **C19_life_imh** (composed with `C19_imh_values`): an IMH object after any history of assignments
(`mc_samples`, `burn_in`, `initial_sample`, `initial_sample_tries`, `density` / `proposal` = the
log-ratio and the support test, `func`, `is_log`) and calls: with `is_log = False` and
`burn_in < mc_samples` IN FORCE the next call returns the mean of the recorded values of the chain run
with the attribute values in force (an error exactly when that list is undefined). -/
theorem C19_life_imh (a0 : IMHAttrs α σ) (h : List (EstOp (IMHAttrs α σ) (List σ × List (Option α))))
    (draws : List σ) (lus : List (Option α)) (hlog : (attrsAfter a0 h).isLog = false)
    (hb : (attrsAfter a0 h).burnIn < (attrsAfter a0 h).mcSamples) :
    (estRun imhCall a0 (h ++ [.call (draws, lus)])).2.getLast?
      = some ((imhValues (attrsAfter a0 h).ratio (attrsAfter a0 h).func (attrsAfter a0 h).inSupport
          (attrsAfter a0 h).mcSamples (attrsAfter a0 h).burnIn (attrsAfter a0 h).tries (attrsAfter a0 h).init
          draws lus).map
        (fun vs => vs.sum / (((attrsAfter a0 h).mcSamples - (attrsAfter a0 h).burnIn : Nat) : α))) := by
  rw [estRun_last]
  simp only [imhCall, hlog, Bool.false_eq_true, if_false]
  rw [C19_imh_values _ _ _ _ _ _ _ _ _ hb]

end LifeIMH

/-! ### non-vacuity of the `C19_life_*` theorems -/

/-- an importance-sampling object constructed for ONE sample, self-normalised, with another integrand;
called; then `mc_samples`, `func`, `self_normalize` assigned -/
def exISObj : ISAttrs Rat Nat :=
  ⟨1, fun _ => ⟨7, 0⟩, fun i => if i = 0 then ⟨1/4, -1⟩ else ⟨3/4, 1⟩,
    fun i => if i = 0 then ⟨1/2, 1⟩ else ⟨1/2, -1⟩, true, false⟩
def exISHist : List (EstOp (ISAttrs Rat Nat) (List Nat)) :=
  [.call [0], .set fun a => { a with mcSamples := 2 },
   .set fun a => { a with func := fun i => if i = 0 then ⟨3, 0⟩ else ⟨5, 0⟩ },
   .set fun a => { a with selfNormalize := false }]

example : meanOver (fun b => ((attrsAfter exISObj exISHist).proposal b).val) 2 [0, 1]
      (fun t => lastValue (estRun isCall exISObj (exISHist ++ [.call t]))) = ⟨9/2, 2⟩ := by
  rw [C19_life_is [0, 1] exISObj exISHist 2 (by norm_num) rfl rfl rfl
    (by intro b hb; simp at hb; rcases hb with rfl | rfl <;> norm_num [attrsAfter, exISObj, exISHist])
    (by norm_num [attrsAfter, exISObj, exISHist])]
  apply Dual.ext' <;> norm_num [attrsAfter, exISObj, exISHist, Dual.sum_val, Dual.sum_grad]

/-- the object after the history IS the freshly constructed one (all six attributes) -/
example : (estRun isCall exISObj (exISHist ++ [.call [1, 0]])).2.getLast?
    = (estRun isCall ⟨2, fun i => if i = 0 then ⟨3, 0⟩ else ⟨5, 0⟩, exISObj.density, exISObj.proposal,
        false, false⟩ [.call [1, 0]]).2.getLast? :=
  C19_life_fresh isCall exISObj exISHist [1, 0]

/-- an IMH object: constructed with burn_in 0 and 2 samples, called, `mc_samples := 3`, `burn_in := 1` -/
def exIMHObj : IMHAttrs Rat Nat := ⟨2, 0, 3, fun i => (i : Rat), fun _ => 0, fun _ => true, some 0, false⟩
def exIMHHist : List (EstOp (IMHAttrs Rat Nat) (List Nat × List (Option Rat))) :=
  [.call ([1, 1], [some (-1), some (-1)]), .set fun a => { a with mcSamples := 3 },
   .set fun a => { a with burnIn := 1 }]

example : (estRun imhCall exIMHObj (exIMHHist ++ [.call ([4, 2, 6], [some (-1), some (-1), some (-1)])])).2.getLast?
    = some (some 4) := by
  rw [C19_life_imh exIMHObj exIMHHist _ _ rfl (by decide)]
  decide +kernel


/-- a DirectEstimator object constructed with a control variate and one sample; called; the control
variate taken away (its `cv_mean` stays), `mc_samples := 2` -/
def exDObj : DirectAttrs Rat Nat :=
  ⟨1, fun i => if i = 0 then ⟨3, 0⟩ else ⟨5, 0⟩, some fun _ => ⟨1, 0⟩, some ⟨7, 0⟩,
    ⟨fun i => if i = 0 then ⟨1/4, -1⟩ else ⟨3/4, 1⟩, fun _ => -1⟩, false⟩
def exDHist : List (EstOp (DirectAttrs Rat Nat) (List Nat)) :=
  [.call [1], .set fun a => { a with cv := none }, .set fun a => { a with mcSamples := 2 }]

example : meanOver (fun b => ((attrsAfter exDObj exDHist).proposal.p b).val) 2 [0, 1]
      (fun t => lastValue (estRun directCall exDObj (exDHist ++ [.call t]))) = ⟨9/2, 2⟩ := by
  rw [C19_life_direct [0, 1] exDObj exDHist 2 (by norm_num) rfl rfl rfl
    (by intro b hb; simp at hb; rcases hb with rfl | rfl <;> norm_num [attrsAfter, exDObj, exDHist])
    (by norm_num [attrsAfter, exDObj, exDHist])]
  apply Dual.ext' <;> norm_num [attrsAfter, exDObj, exDHist, Dual.sum_val, Dual.sum_grad]

/-! ### audit F: objects an assignment makes INVALID (no constructor check runs again) fail in the
model as the code does - `isCall` / `directCall` used to be total there (`mc_samples = 0`: the empty sum
`0` where `math.log(0)` raises resp. the mean of an empty tensor is NaN; a control variate without
`cv_mean`: `func(b)` where `fb - cvb + None` raises TypeError).  The `C19_life_*` theorems were already
stated under the guards (`(N : α) ≠ 0`, `cv = none`, `burn_in < mc_samples`). -/
example : (estRun isCall exISObj (exISHist ++ [.set fun a => { a with mcSamples := 0 }, .call []])).2.getLast?
    = some none := by rfl
example : (estRun directCall exDObj [.set fun a => { a with cvMean := none }, .call [1]]).2.getLast?
    = some none := by rfl
example : (estRun directCall exDObj (exDHist ++ [.set fun a => { a with mcSamples := 0 }, .call []])).2.getLast?
    = some none := by rfl
example : (estRun imhCall exIMHObj [.set fun a => { a with burnIn := 2 },
      .call ([1, 1], [some (-1), some (-1)])]).2.getLast? = some none := by decide +kernel

end PdtVerif.Estimators
