import PdtVerif.Lemmas.Attention
/-!
# C20 — attention is a masked convex combination of values, blind to masked positions

Property theorems only (helper lemmas live in `Lemmas/Attention.lean`).

Every statement is about the executable model `attend` / `mhaForward` of
`Model/Attention.lean` (the control flow of `GlobalSoftAttention.forward` and
`MultiHeadedAttention.forward` for one element of the broadcast batch) and holds

* for every sequence length, query/key/value size, mask, and score flavour
  (dot with any scale, generalised with any matrix and optional bias, concat with any
  parameters and ANY function in place of `tanh`),
* over every linearly ordered field `κ` (ℚ, ℝ, …),
* for every function `e : κ → κ` in place of `exp`; positivity `∀ x, 0 < e x` is assumed
  only where it is needed (convexity, the weights).

Finiteness restriction (C20_blind): the replaced keys/values are elements of `κ`, i.e.
finite numbers.  In IEEE arithmetic a masked weight `0` times a value `±inf`/`nan` is
`nan`; that case is outside the theorem (and outside the harness's generator).
Float rounding is not modelled.

Kept-position guard (audit): every theorem about `attend` / `mhaForward` carries `true ∈ effMask mask T` — "at
least one position kept", the quantifier of the property.  Most proofs do not need it: for an all-masked
sequence the model computes `0 / 0 = 0` in the field while the code returns NaN (and NaN ≠ NaN), so without the
guard the invariance statements would also "hold" where the code has nothing meaningful to say.
-/
namespace PdtVerif.Attention

section Single
variable {κ : Type} [Field κ]

/-- **C20_model_eq_spec**: `masked_fill(~mask, -inf)` → `softmax` → weighted sum is the
declarative masked average over the kept positions (no positivity needed). -/
theorem C20_model_eq_spec (th e : κ → κ) (fl : Flavour κ) (D : Nat) (q : List κ)
    (ks vs : List (List κ)) (mask : Option (List Bool))
    (hv : ks.length = vs.length) (hm : (effMask mask ks.length).length = ks.length)
    (_hk : true ∈ effMask mask ks.length) :
    attend th e fl D q ks vs mask = attendSpec th e fl D q ks vs mask :=
  attend_eq_attendSpec th e fl D q ks vs mask hv hm

private theorem maskedExp_nonneg [LinearOrder κ] [IsOrderedRing κ] (e : κ → κ) (he : ∀ x, 0 < e x) :
    ∀ (ss : List κ) (m : List Bool), ∀ x ∈ maskedExp e ss m, 0 ≤ x
  | [], _, x, h => by simp [maskedExp] at h
  | _ :: _, [], x, h => by simp [maskedExp] at h
  | s :: ss, b :: m, x, h => by
    simp only [maskedExp, List.zipWith_cons_cons, List.mem_cons] at h
    rcases h with rfl | h
    · cases b
      · simp
      · simpa using le_of_lt (he s)
    · exact maskedExp_nonneg e he ss m x h

private theorem maskedExp_masked (e : κ → κ) :
    ∀ (ss : List κ) (m : List Bool) (t : Nat), ss.length = m.length → m[t]? = some false →
      (maskedExp e ss m)[t]? = some 0
  | [], [], t, _, h => by simp at h
  | [], _ :: _, _, hl, _ => by simp at hl
  | _ :: _, [], _, hl, _ => by simp at hl
  | s :: ss, b :: m, 0, _, h => by
    simp only [List.getElem?_cons_zero, Option.some.injEq] at h
    subst h
    simp [maskedExp]
  | s :: ss, b :: m, t + 1, hl, h => by
    have := maskedExp_masked e ss m t (by simpa using hl) (by simpa using h)
    simpa [maskedExp] using this

private theorem sum_map_div (l : List κ) (Z : κ) : (l.map (· / Z)).sum = l.sum / Z := by
  induction l with
  | nil => simp
  | cons a l ih => simp only [List.map_cons, List.sum_cons, ih]; ring

private theorem maskedExp_sum_pos [LinearOrder κ] [IsStrictOrderedRing κ] (e : κ → κ) (he : ∀ x, 0 < e x) (sc : List κ → κ)
    (ks : List (List κ)) (m : List Bool) (hm : m.length = ks.length) (hk : true ∈ m) :
    0 < (maskedExp e (ks.map sc) m).sum := by
  rw [maskedExp_sum e sc ks ks m rfl hm]
  exact sum_w_pos _ _ (keptPairs_ne_nil rfl hm hk) (fun a _ => he _)

/-- **C20_weights**: the attention weights `a = softmax(masked scores)` are non-negative,
exactly zero on masked positions, and sum to one — for every mask with at least one kept
position. -/
theorem C20_weights [LinearOrder κ] [IsStrictOrderedRing κ] (th e : κ → κ) (he : ∀ x, 0 < e x) (fl : Flavour κ) (q : List κ)
    (ks : List (List κ)) (mask : Option (List Bool))
    (hm : (effMask mask ks.length).length = ks.length) (hk : true ∈ effMask mask ks.length) :
    (∀ w ∈ weights th e fl q ks mask, 0 ≤ w) ∧
    (∀ t : Nat, (effMask mask ks.length)[t]? = some false →
        (weights th e fl q ks mask)[t]? = some 0) ∧
    (weights th e fl q ks mask).sum = 1 := by
  have hZ := maskedExp_sum_pos e he (score th fl q) ks _ hm hk
  refine ⟨?_, ?_, ?_⟩
  · intro w hw
    simp only [weights, softmaxMasked, List.mem_map] at hw
    obtain ⟨x, hx, rfl⟩ := hw
    exact div_nonneg (maskedExp_nonneg e he _ _ x hx) (le_of_lt hZ)
  · intro t ht
    have := maskedExp_masked e (ks.map (score th fl q)) _ t (by simp [hm]) ht
    simp [weights, softmaxMasked, this]
  · simp only [weights, softmaxMasked]
    rw [sum_map_div, div_self (ne_of_gt hZ)]

private theorem attend_getD (th e : κ → κ) (fl : Flavour κ) (D : Nat) (q : List κ)
    (ks vs : List (List κ)) (mask : Option (List Bool))
    (hv : ks.length = vs.length) (hm : (effMask mask ks.length).length = ks.length)
    (d : Nat) (hd : d < D) :
    (attend th e fl D q ks vs mask).getD d 0 =
      ((keptPairs ks vs (effMask mask ks.length)).map (fun kv =>
        e (score th fl q kv.1) /
          ((keptPairs ks vs (effMask mask ks.length)).map (fun kv => e (score th fl q kv.1))).sum
          * kv.2.getD d 0)).sum := by
  rw [attend_eq_attendSpec th e fl D q ks vs mask hv hm]
  simp [attendSpec, List.getD_eq_getElem?_getD, hd]

/-- **C20_convex** (bounds form): with at least one kept position, every output coordinate
lies between any lower and any upper bound of the kept values at that coordinate. -/
theorem C20_convex_bounds [LinearOrder κ] [IsStrictOrderedRing κ] (th e : κ → κ) (he : ∀ x, 0 < e x) (fl : Flavour κ) (D : Nat)
    (q : List κ) (ks vs : List (List κ)) (mask : Option (List Bool))
    (hv : ks.length = vs.length) (hm : (effMask mask ks.length).length = ks.length)
    (hk : true ∈ effMask mask ks.length) (d : Nat) (hd : d < D) (lo hi : κ)
    (hlo : ∀ (t : Nat) (v : List κ), vs[t]? = some v →
      (effMask mask ks.length)[t]? = some true → lo ≤ v.getD d 0)
    (hhi : ∀ (t : Nat) (v : List κ), vs[t]? = some v →
      (effMask mask ks.length)[t]? = some true → v.getD d 0 ≤ hi) :
    lo ≤ (attend th e fl D q ks vs mask).getD d 0 ∧
      (attend th e fl D q ks vs mask).getD d 0 ≤ hi := by
  rw [attend_getD th e fl D q ks vs mask hv hm d hd]
  have hne := keptPairs_ne_nil (κ := κ) hv hm hk
  constructor
  · apply le_wavg _ (fun kv => e (score th fl q kv.1)) (fun kv => kv.2.getD d 0) lo hne
      (fun a _ => he _)
    rintro ⟨k, v⟩ ha
    obtain ⟨t, _, h2, h3⟩ := mem_keptPairs ha
    exact hlo t v h2 h3
  · apply wavg_le _ (fun kv => e (score th fl q kv.1)) (fun kv => kv.2.getD d 0) hi hne
      (fun a _ => he _)
    rintro ⟨k, v⟩ ha
    obtain ⟨t, _, h2, h3⟩ := mem_keptPairs ha
    exact hhi t v h2 h3

/-- **C20_convex**: with at least one kept position, every output coordinate lies between
the smallest and the largest kept value at that coordinate: there are kept positions `t₁`,
`t₂` with `value[t₁][d] ≤ out[d] ≤ value[t₂][d]`. -/
theorem C20_convex [LinearOrder κ] [IsStrictOrderedRing κ] (th e : κ → κ) (he : ∀ x, 0 < e x) (fl : Flavour κ) (D : Nat)
    (q : List κ) (ks vs : List (List κ)) (mask : Option (List Bool))
    (hv : ks.length = vs.length) (hm : (effMask mask ks.length).length = ks.length)
    (hk : true ∈ effMask mask ks.length) (d : Nat) (hd : d < D) :
    ∃ (t₁ t₂ : Nat) (v₁ v₂ : List κ),
      vs[t₁]? = some v₁ ∧ (effMask mask ks.length)[t₁]? = some true ∧
      vs[t₂]? = some v₂ ∧ (effMask mask ks.length)[t₂]? = some true ∧
      v₁.getD d 0 ≤ (attend th e fl D q ks vs mask).getD d 0 ∧
      (attend th e fl D q ks vs mask).getD d 0 ≤ v₂.getD d 0 := by
  have hne := keptPairs_ne_nil (κ := κ) hv hm hk
  obtain ⟨⟨k₁, v₁⟩, h₁, hmin⟩ := exists_min _ (fun kv : List κ × List κ => kv.2.getD d 0) hne
  obtain ⟨⟨k₂, v₂⟩, h₂, hmax⟩ := exists_max _ (fun kv : List κ × List κ => kv.2.getD d 0) hne
  obtain ⟨t₁, _, a₁, b₁⟩ := mem_keptPairs h₁
  obtain ⟨t₂, _, a₂, b₂⟩ := mem_keptPairs h₂
  refine ⟨t₁, t₂, v₁, v₂, a₁, b₁, a₂, b₂, ?_⟩
  rw [attend_getD th e fl D q ks vs mask hv hm d hd]
  constructor
  · exact le_wavg _ (fun kv => e (score th fl q kv.1)) (fun kv => kv.2.getD d 0) _ hne
      (fun a _ => he _) (fun a ha => hmin a ha)
  · exact wavg_le _ (fun kv => e (score th fl q kv.1)) (fun kv => kv.2.getD d 0) _ hne
      (fun a _ => he _) (fun a ha => hmax a ha)

private theorem wsum_ge [LinearOrder κ] [IsStrictOrderedRing κ] (d : Nat) (lo : κ) :
    ∀ (ws : List κ) (vs : List (List κ)) (m : List Bool),
      ws.length = vs.length → m.length = vs.length → (∀ w ∈ ws, 0 ≤ w) →
      (∀ t : Nat, m[t]? = some false → ws[t]? = some 0) →
      (∀ (t : Nat) (v : List κ), vs[t]? = some v → m[t]? = some true → lo ≤ v.getD d 0) →
      lo * ws.sum ≤ wsumCoord ws vs d
  | [], _, _, _, _, _, _, _ => by simp [wsumCoord]
  | _ :: _, [], _, h, _, _, _, _ => by simp at h
  | _ :: _, _ :: _, [], _, h, _, _, _ => by simp at h
  | w :: ws, v :: vs, b :: m, h1, h2, hw, hz, hlo => by
    have ih := wsum_ge d lo ws vs m (by simpa using h1) (by simpa using h2)
      (fun x hx => hw x (by simp [hx]))
      (fun t ht => by simpa using hz (t + 1) (by simpa using ht))
      (fun t x hx ht => hlo (t + 1) x (by simpa using hx) (by simpa using ht))
    simp only [wsumCoord, List.zipWith_cons_cons, List.sum_cons] at ih ⊢
    have hw0 : 0 ≤ w := hw w (by simp)
    have hterm : lo * w ≤ w * v.getD d 0 := by
      cases b with
      | true =>
        have := hlo 0 v (by simp) (by simp)
        nlinarith
      | false =>
        have := hz 0 (by simp)
        simp only [List.getElem?_cons_zero, Option.some.injEq] at this
        subst this
        simp
    linarith

/-- **C20_convex_of_weights**: convexity needs nothing about HOW the weights were computed:
for ANY weights that are non-negative, vanish on masked positions and sum to one, each
coordinate of `(a.unsqueeze(-1) * value).sum(dim)` lies between any bounds of the kept
values.  (`C20_weights` shows that the model's softmax weights are of this kind.) -/
theorem C20_convex_of_weights [LinearOrder κ] [IsStrictOrderedRing κ] (ws : List κ)
    (vs : List (List κ)) (m : List Bool) (d : Nat) (lo hi : κ)
    (hl : ws.length = vs.length) (hm : m.length = vs.length) (hw : ∀ w ∈ ws, 0 ≤ w)
    (hz : ∀ t : Nat, m[t]? = some false → ws[t]? = some 0) (hs : ws.sum = 1)
    (hlo : ∀ (t : Nat) (v : List κ), vs[t]? = some v → m[t]? = some true → lo ≤ v.getD d 0)
    (hhi : ∀ (t : Nat) (v : List κ), vs[t]? = some v → m[t]? = some true → v.getD d 0 ≤ hi) :
    lo ≤ wsumCoord ws vs d ∧ wsumCoord ws vs d ≤ hi := by
  constructor
  · have := wsum_ge d lo ws vs m hl hm hw hz hlo
    rwa [hs, mul_one] at this
  · -- the upper bound is the lower bound of the negated values
    have h := wsum_ge d (-hi) ws (vs.map (fun v => (List.range (d + 1)).map (fun j => - v.getD j 0)))
      m (by simp [hl]) (by simp [hm]) hw hz (by
        intro t v hv ht
        simp only [List.getElem?_map, Option.map_eq_some_iff] at hv
        obtain ⟨v0, hv0, rfl⟩ := hv
        have := hhi t v0 hv0 ht
        simp only [List.getD_eq_getElem?_getD] at this
        simp [List.getD_eq_getElem?_getD]
        linarith)
    rw [hs, mul_one] at h
    have hneg : wsumCoord ws (vs.map (fun v => (List.range (d + 1)).map (fun j => - v.getD j 0))) d
        = - wsumCoord ws vs d := by
      clear h hl hm hw hz hs hlo hhi
      induction ws generalizing vs with
      | nil => simp [wsumCoord]
      | cons w ws ih =>
        cases vs with
        | nil => simp [wsumCoord]
        | cons v vs =>
          have := ih vs
          simp only [wsumCoord, List.map_cons, List.zipWith_cons_cons, List.sum_cons] at this ⊢
          rw [this]
          simp [List.getD_eq_getElem?_getD]
          ring
    rw [hneg] at h
    linarith

private theorem maskedExp_scale (e e' : κ → κ) (g : κ) (h : ∀ x, e' x = e x * g) :
    ∀ (ss : List κ) (m : List Bool), maskedExp e' ss m = (maskedExp e ss m).map (· * g)
  | [], _ => by simp [maskedExp]
  | _ :: _, [] => by simp [maskedExp]
  | s :: ss, b :: m => by
    have ih := maskedExp_scale e e' g h ss m
    simp only [maskedExp] at ih ⊢
    simp only [List.zipWith_cons_cons, List.map_cons, ih]
    cases b <;> simp [h]

private theorem sum_map_mul_right' (l : List κ) (g : κ) : (l.map (· * g)).sum = l.sum * g := by
  induction l with
  | nil => simp
  | cons a l ih => simp only [List.map_cons, List.sum_cons, ih]; ring

private theorem softmaxMasked_scale (e e' : κ → κ) (g : κ) (hg : g ≠ 0) (h : ∀ x, e' x = e x * g)
    (ss : List κ) (m : List Bool) : softmaxMasked e' ss m = softmaxMasked e ss m := by
  simp only [softmaxMasked, maskedExp_scale e e' g h, sum_map_mul_right', List.map_map]
  apply List.map_congr_left
  intro x _
  simp only [Function.comp]
  exact mul_div_mul_right x _ hg

/-- **C20_shift_invariant**: the attention weights and the output do not depend on a common
positive (indeed: non-zero) factor in the function used in place of `exp`: every `e'` with
`e' x = e x * g`, `g ≠ 0`, gives the same result as `e`.  With `e = exp` and `g = exp (-c)` this
is the shift invariance of the softmax, `e' x = exp (x - c)`: the max-subtracting softmax that
torch computes (and the instance `expShift c` the driver runs, which does not underflow for
strongly negative scores) is the same function of the inputs as the plain one. -/
theorem C20_shift_invariant (th e e' : κ → κ) (g : κ) (hg : g ≠ 0) (h : ∀ x, e' x = e x * g)
    (fl : Flavour κ) (D : Nat) (q : List κ) (ks vs : List (List κ)) (mask : Option (List Bool))
    (_hv : ks.length = vs.length) (_hm : (effMask mask ks.length).length = ks.length)
    (_hk : true ∈ effMask mask ks.length) :
    weights th e' fl q ks mask = weights th e fl q ks mask ∧
    attend th e' fl D q ks vs mask = attend th e fl D q ks vs mask := by
  have hw : weights th e' fl q ks mask = weights th e fl q ks mask := by
    simp only [weights, softmaxMasked_scale e e' g hg h]
  exact ⟨hw, by simp only [attend, hw]⟩

/-- **C20_nomask**: a call without a mask is the call with the all-true mask (the code skips
`masked_fill`; the model reads "no mask" as "keep everything").
(Audit: DEFINITIONAL — `rfl`: `effMask none T` IS `replicate T true`. That the CODE's two paths agree is the
harness predicate `C20.nomask` on the implementation. Kept as documentation, NOT counted as an obligation.) -/
theorem C20_nomask (th e : κ → κ) (fl : Flavour κ) (D : Nat) (q : List κ) (ks vs : List (List κ)) :
    attend th e fl D q ks vs none = attend th e fl D q ks vs (some (List.replicate ks.length true)) :=
  rfl

/-- **C20_blind**: the output does not change when the keys and values at masked positions
are replaced by any other (finite: elements of `κ`) keys and values.  Holds for every
`e`, every flavour, every mask. -/
theorem C20_blind (th e : κ → κ) (fl : Flavour κ) (D : Nat) (q : List κ)
    (ks vs ks' vs' : List (List κ)) (mask : Option (List Bool))
    (hv : ks.length = vs.length) (hk' : ks'.length = ks.length) (hv' : vs'.length = ks.length)
    (hm : (effMask mask ks.length).length = ks.length)
    (_hk : true ∈ effMask mask ks.length)
    (hagree : ∀ t : Nat, (effMask mask ks.length)[t]? = some true →
      ks[t]? = ks'[t]? ∧ vs[t]? = vs'[t]?) :
    attend th e fl D q ks vs mask = attend th e fl D q ks' vs' mask := by
  rw [attend_eq_attendSpec th e fl D q ks vs mask hv hm,
    attend_eq_attendSpec th e fl D q ks' vs' mask (by omega) (by rw [hk']; exact hm)]
  unfold attendSpec
  rw [hk', keptPairs_congr (by omega) (by omega) (by omega) (by omega) hagree]

/-- **C20_perm**: permuting the sequence positions consistently (keys, values and mask
together) does not change the output. -/
theorem C20_perm (th e : κ → κ) (fl : Flavour κ) (D : Nat) (q : List κ)
    (ks vs ks' vs' : List (List κ)) (mask mask' : Option (List Bool))
    (hv : ks.length = vs.length) (hm : (effMask mask ks.length).length = ks.length)
    (hv' : ks'.length = vs'.length) (hm' : (effMask mask' ks'.length).length = ks'.length)
    (_hk : true ∈ effMask mask ks.length)
    (hp : ((ks.zip vs).zip (effMask mask ks.length)).Perm
      ((ks'.zip vs').zip (effMask mask' ks'.length))) :
    attend th e fl D q ks vs mask = attend th e fl D q ks' vs' mask' := by
  rw [attend_eq_attendSpec th e fl D q ks vs mask hv hm,
    attend_eq_attendSpec th e fl D q ks' vs' mask' hv' hm']
  simp only [attendSpec]
  have hkp := keptPairs_perm hp
  have hZ : ((keptPairs ks vs (effMask mask ks.length)).map (fun kv => e (score th fl q kv.1))).sum
      = ((keptPairs ks' vs' (effMask mask' ks'.length)).map (fun kv => e (score th fl q kv.1))).sum :=
    (hkp.map _).sum_eq
  apply List.map_congr_left
  intro d _
  rw [hZ]
  exact (hkp.map _).sum_eq

/-- **C20_perm_index**: the same with the permutation given as a list of indices `σ` (a
rearrangement of `0 … T-1`): position `i` of the new call holds old position `σ[i]`. -/
theorem C20_perm_index (th e : κ → κ) (fl : Flavour κ) (D : Nat) (q : List κ)
    (ks vs : List (List κ)) (m : List Bool) (σ : List Nat)
    (hv : ks.length = vs.length) (hm : m.length = ks.length) (hk : true ∈ m)
    (hσ : σ.Perm (List.range ks.length)) :
    attend th e fl D q (σ.map (fun i => ks.getD i [])) (σ.map (fun i => vs.getD i []))
        (some (σ.map (fun i => m.getD i false)))
      = attend th e fl D q ks vs (some m) := by
  apply C20_perm
  · simp
  · simp [effMask]
  · exact hv
  · simpa [effMask] using hm
  · -- a kept position of the old call sits somewhere in the new one
    obtain ⟨j, hj, hjt⟩ := List.getElem_of_mem hk
    have hjσ : j ∈ σ := hσ.symm.subset (List.mem_range.mpr (by omega))
    simp only [effMask, Option.getD_some, List.mem_map]
    exact ⟨j, hjσ, by simp [List.getD_eq_getElem?_getD, hj, hjt]⟩
  · have h1 : ((σ.map (fun i => ks.getD i [])).zip (σ.map (fun i => vs.getD i []))).zip
          (σ.map (fun i => m.getD i false))
        = σ.map (fun i => ((ks.getD i [], vs.getD i []), m.getD i false)) := by
      simp [List.zip_map']
    have h2 : (ks.zip vs).zip m
        = (List.range ks.length).map (fun i => ((ks.getD i [], vs.getD i []), m.getD i false)) := by
      apply List.ext_getElem
      · simp [hv, hm]
      · intro i h1 h2
        simp only [List.length_zip, lt_min_iff] at h1
        simp [List.getD_eq_getElem?_getD, h1.1.1, h1.1.2, h1.2]
    simp only [effMask, Option.getD_some]
    rw [h1, h2]
    exact hσ.map _

end Single

/-! ## Multi-headed attention -/
section Multi
variable {κ : Type}

/-- **C20_multihead**: `MultiHeadedAttention.forward` (project with `WQ/WK/WV` and their
biases, `unflatten` into heads, one call of the wrapped attention with the head axis as a
batch axis and the mask `unsqueeze(-1)`-broadcast along it, `flatten`, project with `WC`)
equals the docstring: head `h` is the wrapped single-head attention applied to the `h`-th
blocks of the projections with THE SAME mask; the heads are concatenated and projected. -/
theorem C20_multihead [Field κ] (th e : κ → κ) (m : MHA κ) (q : List κ) (ks vs : List (List κ))
    (mask : Option (List Bool))
    (hv : ks.length = vs.length) (hm : (effMask mask ks.length).length = ks.length)
    (_hk : true ∈ effMask mask ks.length) :
    mhaForward th e m q ks vs mask = mhaSpec th e m q ks vs mask := by
  simp only [mhaForward, mhaCore, mhaSpec]
  congr 2
  apply List.map_congr_left
  intro h hh
  have hlt : h < m.numHeads := List.mem_range.mp hh
  have hmask : (mask.map (fun mm => (unsqueezeLast mm).map (fun r => bget r h false))) = mask := by
    cases mask with
    | none => rfl
    | some mm => simp [unsqueezeLast_broadcast]
  simp only [hmask, headSpec, List.map_map]
  rw [unflatten_getD _ _ _ _ hlt, headBlock_linear]
  have hk : ((fun x : List (List κ) => x.getD h []) ∘
        fun k => unflatten m.numHeads m.dk (linear m.WK m.bK k))
      = linear (headBlock m.dk h m.WK) (m.bK.map (headBlock m.dk h)) := by
    funext k
    simp only [Function.comp]
    rw [unflatten_getD _ _ _ _ hlt, headBlock_linear]
  have hvv : ((fun x : List (List κ) => x.getD h []) ∘
        fun v => unflatten m.numHeads m.dv (linear m.WV m.bV v))
      = linear (headBlock m.dv h m.WV) (m.bV.map (headBlock m.dv h)) := by
    funext v
    simp only [Function.comp]
    rw [unflatten_getD _ _ _ _ hlt, headBlock_linear]
  rw [hk, hvv]
  exact attend_eq_attendSpec th e m.inner m.dv _ _ _ mask (by simp [hv]) (by simpa using hm)

/-- **C20_multihead_blind**: the multi-headed output does not change either when keys and
values at masked positions are replaced (the projections act position by position and every
head uses the same mask). -/
theorem C20_multihead_blind [Field κ] (th e : κ → κ) (m : MHA κ) (q : List κ)
    (ks vs ks' vs' : List (List κ)) (mask : Option (List Bool))
    (hv : ks.length = vs.length) (hk' : ks'.length = ks.length) (hv' : vs'.length = ks.length)
    (hm : (effMask mask ks.length).length = ks.length)
    (hk : true ∈ effMask mask ks.length)
    (hagree : ∀ t : Nat, (effMask mask ks.length)[t]? = some true →
      ks[t]? = ks'[t]? ∧ vs[t]? = vs'[t]?) :
    mhaForward th e m q ks vs mask = mhaForward th e m q ks' vs' mask := by
  rw [C20_multihead th e m q ks vs mask hv hm hk,
    C20_multihead th e m q ks' vs' mask (by omega) (by rw [hk']; exact hm) (by rw [hk']; exact hk)]
  simp only [mhaSpec]
  congr 2
  apply List.map_congr_left
  intro h _
  simp only [headSpec]
  rw [← attend_eq_attendSpec _ _ _ _ _ _ _ _ (by simp [hv]) (by simpa using hm),
    ← attend_eq_attendSpec _ _ _ _ _ _ _ _ (by simp; omega) (by simpa [hk'] using hm)]
  apply C20_blind
  · simp [hv]
  · simp [hk']
  · simp [hv']
  · simpa using hm
  · simpa using hk
  · intro t ht
    have := hagree t (by simpa using ht)
    simp [List.getElem?_map, this.1, this.2]

/-- **C20_multihead_perm**: … nor under a consistent permutation of the positions. -/
theorem C20_multihead_perm [Field κ] (th e : κ → κ) (m : MHA κ) (q : List κ)
    (ks vs ks' vs' : List (List κ)) (mask mask' : Option (List Bool))
    (hv : ks.length = vs.length) (hm : (effMask mask ks.length).length = ks.length)
    (hv' : ks'.length = vs'.length) (hm' : (effMask mask' ks'.length).length = ks'.length)
    (hk : true ∈ effMask mask ks.length)
    (hp : ((ks.zip vs).zip (effMask mask ks.length)).Perm
      ((ks'.zip vs').zip (effMask mask' ks'.length))) :
    mhaForward th e m q ks vs mask = mhaForward th e m q ks' vs' mask' := by
  have hk2 : true ∈ effMask mask' ks'.length := by
    have e1 : ((ks.zip vs).zip (effMask mask ks.length)).map Prod.snd = effMask mask ks.length :=
      List.map_snd_zip (by simp only [List.length_zip, hm, ← hv, Nat.min_self, le_refl])
    have e2 : ((ks'.zip vs').zip (effMask mask' ks'.length)).map Prod.snd = effMask mask' ks'.length :=
      List.map_snd_zip (by simp only [List.length_zip, hm', ← hv', Nat.min_self, le_refl])
    rw [← e2]
    exact (hp.map Prod.snd).subset (by rw [e1]; exact hk)
  rw [C20_multihead th e m q ks vs mask hv hm hk, C20_multihead th e m q ks' vs' mask' hv' hm' hk2]
  simp only [mhaSpec]
  congr 2
  apply List.map_congr_left
  intro h _
  simp only [headSpec]
  rw [← attend_eq_attendSpec _ _ _ _ _ _ _ _ (by simp [hv]) (by simpa using hm),
    ← attend_eq_attendSpec _ _ _ _ _ _ _ _ (by simp [hv']) (by simpa using hm')]
  apply C20_perm
  · simp [hv]
  · simpa using hm
  · simp [hv']
  · simpa using hm'
  · simpa using hk
  · simp only [List.length_map, List.zip_map]
    have := hp.map (Prod.map (Prod.map
      (linear (headBlock m.dk h m.WK) (m.bK.map (headBlock m.dk h)))
      (linear (headBlock m.dv h m.WV) (m.bV.map (headBlock m.dv h)))) id)
    simpa [List.zip_map, List.zip_map_left] using this

/-- **C20_multihead_shift**: `mhaForwardH` — every head exponentiating with its own
`eh h x = e x * g h`, `g h ≠ 0` (the driver: `exp (x - c_h)`, `c_h` the largest kept score of head
`h`) — is `mhaForward` with the one function `e`. -/
theorem C20_multihead_shift [Field κ] (th e : κ → κ) (eh : Nat → κ → κ) (g : Nat → κ)
    (hg : ∀ h, g h ≠ 0) (he : ∀ h x, eh h x = e x * g h) (m : MHA κ) (q : List κ)
    (ks vs : List (List κ)) (mask : Option (List Bool))
    (hv : ks.length = vs.length) (hm : (effMask mask ks.length).length = ks.length)
    (hk : true ∈ effMask mask ks.length) :
    mhaForwardH th eh m q ks vs mask = mhaForward th e m q ks vs mask ∧
    mhaSpecH th eh m q ks vs mask = mhaSpec th e m q ks vs mask := by
  constructor
  · simp only [mhaForwardH, mhaCoreH, mhaForward, mhaCore]
    congr 2
    apply List.map_congr_left
    intro h _
    have hmask : (mask.map (fun mm => (unsqueezeLast mm).map (fun r => bget r h false))) = mask := by
      cases mask with
      | none => rfl
      | some mm => simp [unsqueezeLast_broadcast]
    exact (C20_shift_invariant th e (eh h) (g h) (hg h) (he h) _ _ _ _ _ _
      (by simp [hv]) (by rw [hmask]; simpa using hm) (by rw [hmask]; simpa using hk)).2
  · simp only [mhaSpecH, mhaSpec]
    congr 2
    apply List.map_congr_left
    intro h _
    simp only [headSpec]
    -- attendSpec only uses `e` through quotients `e s / Σ e s'`
    unfold attendSpec
    simp only [he h]
    apply List.map_congr_left
    intro d _
    have hZ : ∀ (l : List (List κ × List κ)) (sc : List κ → κ),
        (l.map (fun kv => e (sc kv.1) * g h)).sum = (l.map (fun kv => e (sc kv.1))).sum * g h := by
      intro l sc
      induction l with
      | nil => simp
      | cons a l ih => simp only [List.map_cons, List.sum_cons, ih]; ring
    rw [hZ]
    apply congrArg
    apply List.map_congr_left
    intro kv _
    rw [mul_div_mul_right _ _ (hg h)]

/-- **C20_bias_exact**: the (repaired) constructor puts a bias on exactly the projections
for which one was requested.
(Audit: DEFINITIONAL — the model's repaired wiring is `wireFlags f := f` and `optBias flag b` is `some` iff
`flag`; a case split over the 16 flag combinations. What is proved with content is that the PINNED wiring
violates the clause (`C20_bias_pinned_counterexample`, `'`); that the repaired CODE wires the flags through is the
predicate `C20.multihead.bias.*` on all 16 combinations. Kept as documentation, NOT counted as an obligation.) -/
theorem C20_bias_exact (f : BiasFlags) (p : MHAParams κ) : BiasAsRequested f (build f p) := by
  obtain ⟨a, b, c, d⟩ := f
  cases a <;> cases b <;> cases c <;> cases d <;>
    simp [BiasAsRequested, build, buildWith, wireFlags, optBias]

/-- The PINNED constructor (`bias_WK`, `bias_WV` take `bias_WQ`'s value) violates the
clause: a bias requested only on `W^K` is not created. -/
theorem C20_bias_pinned_counterexample (p : MHAParams κ) :
    ¬ BiasAsRequested ⟨false, true, false, false⟩
      (buildWith wireFlagsPinned ⟨false, true, false, false⟩ p) := by
  simp [BiasAsRequested, buildWith, wireFlagsPinned, optBias]

/-- … and a bias requested only on `W^Q` is also put on `W^K` and `W^V`. -/
theorem C20_bias_pinned_counterexample' (p : MHAParams κ) :
    (buildWith wireFlagsPinned ⟨true, false, false, false⟩ p).bK.isSome = true ∧
    (buildWith wireFlagsPinned ⟨true, false, false, false⟩ p).bV.isSome = true := by
  simp [buildWith, wireFlagsPinned, optBias]

end Multi

/-! ## The score functions (exact algebra, bias placement) -/
section Scores
variable {κ : Type} [Field κ]

/-- **C20_score_eq_spec**: the three `score` implementations (`(query * key).sum(-1) * scale`;
`linear(key, W, b)` then a dot product with the query; `linear(cat([query, key]), W, b)`, `tanh`,
`linear(·, v)`) are the docstring formulas `scoreSpec` — for every well-shaped parameter set, every
query / key of the declared sizes, every field, ANY function in place of `tanh`:
`scale Σ_i q_i k_i`, `Σ_i q_i (Σ_j W_ij k_j + b_i)`, `Σ_i v_i th(Σ_c W_ic [q, k]_c + b_i)`.
In particular the bias of the generalised flavour sits INSIDE the bracket (it is multiplied by the
query) and the bias of the concat flavour sits inside the `tanh`; `v` has no bias. -/
theorem C20_score_eq_spec (th : κ → κ) (Q K : Nat) (fl : Flavour κ) (q k : List κ)
    (hq : q.length = Q) (hk : k.length = K) (hfl : fl.WellShaped Q K) :
    score th fl q k = scoreSpec th Q K fl q k :=
  score_eq_scoreSpec th Q K fl q k hq hk hfl

private theorem sumTo_add (n : Nat) (f g : Nat → κ) :
    sumTo n (fun i => f i + g i) = sumTo n f + sumTo n g := by
  induction n generalizing f g with
  | zero => simp [sumTo]
  | succ n ih => rw [sumTo_succ', sumTo_succ', sumTo_succ', ih]; ring

/-- **C20_score_general_bias**: the bias of `GeneralizedDotProductSoftAttention` changes every
score of one query by the SAME amount `Σ_i q_i b_i` (it does not depend on the key). -/
theorem C20_score_general_bias (th : κ → κ) (Q K : Nat) (W : List (List κ)) (b : List κ)
    (q k : List κ) (hq : q.length = Q) (hk : k.length = K)
    (hfl : (Flavour.general W (some b)).WellShaped Q K) :
    score th (.general W (some b)) q k
      = score th (.general W none) q k + sumTo Q (fun i => q.getD i 0 * b.getD i 0) := by
  have hfl' : (Flavour.general W (none : Option (List κ))).WellShaped Q K :=
    ⟨hfl.1, hfl.2.1, by simp⟩
  rw [score_eq_scoreSpec th Q K _ q k hq hk hfl, score_eq_scoreSpec th Q K _ q k hq hk hfl']
  simp only [scoreSpec, biasAt, add_zero]
  rw [← sumTo_add]
  apply sumTo_congr
  intro i _
  ring

end Scores

/-! ## Shapes: `broadcast_shapes`, `check_input`, the result shape -/

/-- **C20_broadcast_shapes**: the model's `broadcastShapes` succeeds with `c` exactly when the torch /
numpy rule holds: aligned at the last axis, sizes equal or one of them 1 at every position,
`c` takes the size that is not 1 and has the larger rank. -/
theorem C20_broadcast_shapes (a b c : List Nat) :
    broadcastShapes a b = some c ↔ BroadcastTo a b c :=
  broadcastShapes_iff a b c

/-- **C20_check_input_accepts**: `check_input` accepts a call EXACTLY under the conditions `InputOk`
(ranks, last axes, legal `dim ≠ -1`, `query.unsqueeze(dim)` / `key` / `mask` / `value` jointly
broadcastable — every condition stated with the declarative `BroadcastTo`), and `full` is then the
jointly broadcast shape `(E*, T, F*, D)`. -/
theorem C20_check_input_accepts (Q K : Nat) (vsz : Option Nat) (dim : Int) (q k v : List Nat)
    (mask : Option (List Nat)) (full : List Nat) :
    checkInputFull Q K vsz dim q k v mask = .ok full ↔ InputOk Q K vsz dim q k v mask full :=
  checkInputFull_ok_iff Q K vsz dim q k v mask full

/-- **C20_check_input_error_class**: for the single-head flavours the error is the `ValueError`
class exactly when a rank / size / `dim` condition fails (they are tested first); every other
rejection comes from `broadcast_shapes` (`RuntimeError`). -/
theorem C20_check_input_error_class (Q K : Nat) (dim : Int) (q k v : List Nat)
    (mask : Option (List Nat)) :
    (checkInputFull Q K none dim q k v mask = .error .value ↔ ¬ RanksSizesDimOk Q K dim q k v) ∧
    (checkInputFull Q K none dim q k v mask = .error .runtime ↔
      RanksSizesDimOk Q K dim q k v ∧ ∀ full, ¬ InputOk Q K none dim q k v mask full) := by
  refine ⟨checkInputFull_value_error_iff Q K dim q k v mask, ?_⟩
  have hv := checkInputFull_value_error_iff Q K dim q k v mask
  have hok := fun full => checkInputFull_ok_iff Q K none dim q k v mask full
  constructor
  · intro h
    refine ⟨?_, fun full hI => ?_⟩
    · by_contra hn
      rw [hv.mpr hn] at h
      cases h
    · rw [(hok full).mpr hI] at h
      cases h
  · rintro ⟨hr, hno⟩
    cases hc : checkInputFull Q K none dim q k v mask with
    | ok full => exact absurd ((hok full).mp hc) (hno full)
    | error err =>
      cases err with
      | value => exact absurd hr (hv.mp hc)
      | runtime => rfl

/-- **C20_check_input_documented**: the documented shapes — `query (A*, Q)`, `key (B*, T, C*, K)`,
`value (B*, T, C*, D)`, optional `mask (B*, T, C*)`, `(A*)` broadcastable with `(B*, C*)`
axis by axis — are accepted for `dim = len(B*)` and for its negative name `len(B*) - key.dim()`
(when `B*` is not empty: axis 0 has no legal negative name), and the result has the shape
`(E*, D)` with `E*` the broadcast of `(A*)` with `(B*, C*)`. -/
theorem C20_check_input_documented (Q K D T : Nat) (A B C : List Nat) (vsz : Option Nat)
    (withMask : Bool) (dim : Int)
    (hbc : List.Forall₂ (fun x y => compat1 x y = true) A (B ++ C))
    (hv : ∀ n, vsz = some n → n = D)
    (hdim : dim = B.length ∨
      (B ≠ [] ∧ dim = (B.length : Int) - ((B ++ [T] ++ C ++ [K]).length : Int))) :
    checkInput Q K vsz dim (A ++ [Q]) (B ++ [T] ++ C ++ [K]) (B ++ [T] ++ C ++ [D])
        (if withMask then some (B ++ [T] ++ C) else none)
      = .ok (List.zipWith pick1 A (B ++ C) ++ [D]) :=
  checkInput_documented Q K D T A B C vsz withMask dim hbc hv hdim

/-! ## Broadcasting: implicit = explicit expansion, for every legal `dim` -/

/-- **C20_broadcast_explicit**: `forward` at tensor level (`tensorApply`: `check_input`, then for
every index of the output the per-element function applied to what query, key, value and mask
hold at the broadcast positions, the sequence axis being the axis `dim` names) gives the SAME
tensor when every argument is first expanded explicitly to the jointly broadcast shape
(`query` to `(E*, F*, Q)`, `key` to `(E*, T, F*, K)`, `value` to `(E*, T, F*, D)`, `mask` to
`(E*, T, F*)`) — for every call `check_input` accepts (every legal `dim`, non-negative or negative;
size-1 axes anywhere; a mask of lower rank), every per-element function `f` (`attend` of any
flavour, `mhaForward`), every carrier.  The mask must not have more axes than the scores
(documented: `(B*, T, C*)`).
Guard `_hseq` (audit E): key or mask has the full length at the sequence axis.  The proof does not use it —
the statement holds for the MODEL on every accepted call — but `tensorApply` describes the CODE only there:
with a key and a mask of size 1 at the sequence axis against longer values the code returns the sum of the
values and implicit ≠ explicit expansion (`C20_seq_axis_not_carried_counterexample`). -/
theorem C20_broadcast_explicit {κ : Type} [Zero κ]
    (f : Nat → List κ → List (List κ) → List (List κ) → Option (List Bool) → List κ)
    (outSize : Nat → Nat) (Q K : Nat) (vsz : Option Nat) (dim : Int)
    (q k v : Tensor κ) (mask : Option (Tensor Bool)) (full : List Nat)
    (hok : checkInputFull Q K vsz dim q.shape k.shape v.shape (mask.map (·.shape)) = .ok full)
    (hmask : ∀ mt, mask = some mt → mt.shape.length < k.shape.length)
    (_hseq : seqAxisCarried dim k.shape (mask.map (·.shape)) full = true) :
    ∃ t t' : Tensor κ,
      tensorApply f outSize Q K vsz dim q k v mask = .ok t ∧
      tensorApply f outSize Q K vsz dim
          (q.expand ((full.dropLast.eraseIdx (seqAxis dim k.shape.length)) ++ [Q]))
          (k.expand (full.dropLast ++ [K])) (v.expand full)
          (mask.map (·.expand full.dropLast)) = .ok t' ∧
      t'.shape = t.shape ∧ ∀ idx, idx.length = t.shape.length → t'.val idx = t.val idx :=
  tensorApply_expand f outSize Q K vsz dim q k v mask full hok hmask

/-- **C20_tensor_entry**: every entry of the tensor-level result is the per-element function on one
element of the broadcast batch (`elemAt`), so `C20_convex`, `C20_blind`, `C20_perm`, … apply to
every entry of every accepted call.
(Audit E: "every accepted call" is to be read under the guard `seqAxisCarried` of `C20_broadcast_explicit` —
outside it `tensorApply` is not what the code computes.)
(Audit: DEFINITIONAL — `tensorApply` is DEFINED entry by entry through `elemAt`; the proof unfolds it and closes
with `rfl`, `rfl` ("per entry by construction"). The content at tensor level is `C20_broadcast_explicit`; that torch
tensors behave like `tensorApply` is correspondence. Kept as documentation, NOT counted as an obligation.) -/
theorem C20_tensor_entry {κ : Type} [Zero κ]
    (f : Nat → List κ → List (List κ) → List (List κ) → Option (List Bool) → List κ)
    (outSize : Nat → Nat) (Q K : Nat) (vsz : Option Nat) (dim : Int)
    (q k v : Tensor κ) (mask : Option (Tensor Bool)) (full : List Nat) (t : Tensor κ)
    (hok : checkInputFull Q K vsz dim q.shape k.shape v.shape (mask.map (·.shape)) = .ok full)
    (ht : tensorApply f outSize Q K vsz dim q k v mask = .ok t) (idx : List Nat) :
    t.shape = (full.eraseIdx (seqAxis dim k.shape.length)).dropLast ++ [outSize (full.getLastD 0)] ∧
    t.val idx =
      (let el := elemAt (seqAxis dim k.shape.length) (full.getD (seqAxis dim k.shape.length) 0) Q K
          (full.getLastD 0) q k v mask idx.dropLast
       (f (full.getLastD 0) el.1 el.2.1 el.2.2.1 el.2.2.2).getD (idx.getLastD 0) 0) := by
  simp only [tensorApply, hok, Except.ok.injEq] at ht
  subst ht
  exact ⟨rfl, rfl⟩

/-! ## Which axis the mask is unsqueezed on -/

/-- **C20_mask_shared**: with `mask.unsqueeze(-1)` every head `h` of batch element `b` sees
`mask[t][b]`. -/
theorem C20_mask_shared (mask : List (List Bool)) (t b h : Nat) (row : List Bool)
    (hrow : mask[t]? = some row) (hb : b < row.length) :
    headMaskView .last mask t b h = row.getD b false := by
  have h0 : mask.getD t [] = row := by simp [List.getD_eq_getElem?_getD, hrow]
  simp only [headMaskView, h0]
  have : bget (row.map (fun x => [x])) b [] = [row.getD b false] := by
    unfold bget
    split
    · rename_i h1
      have hl : row.length = 1 := by simpa using h1
      have hb0 : b = 0 := by omega
      subst hb0
      simp [List.getD_eq_getElem?_getD, hb]
    · simp [List.getD_eq_getElem?_getD, hb]
  rw [this, bget_singleton]

/-- **C20_multihead_batch**: at batch level (query `(B, Q)`, key `(T, B, K)`, mask `(T, B)`),
the repaired forward gives, for batch element `b`, the docstring's multi-headed attention
with column `b` of the mask shared by all heads. -/
theorem C20_multihead_batch {κ : Type} [Field κ] (th e : κ → κ) (m : MHA κ) (qs : List (List κ))
    (kss vss : List (List (List κ))) (mask : List (List Bool)) (b : Nat)
    (hrows : ∀ row ∈ mask, b < row.length)
    (hv : (kss.getD b []).length = (vss.getD b []).length)
    (hT : mask.length = (kss.getD b []).length)
    (hkept : true ∈ mask.map (fun row => row.getD b false)) :
    mhaBatchElem th e .last m qs kss vss mask b
      = some (mhaSpec th e m (qs.getD b []) (kss.getD b []) (vss.getD b [])
          (some (mask.map (fun row => row.getD b false)))) := by
  have hcol : ∀ h : Nat, (List.range mask.length).map (fun t => headMaskView .last mask t b h)
      = mask.map (fun row => row.getD b false) := by
    intro h
    apply List.ext_getElem
    · simp
    · intro t h1 h2
      simp only [List.length_map, List.length_range] at h1
      simp only [List.getElem_map, List.getElem_range]
      exact C20_mask_shared mask t b h mask[t] (by simp [h1]) (hrows _ (List.getElem_mem h1))
  rw [← C20_multihead th e m _ _ _ _ hv (by simp [effMask, hT]) (by simpa [effMask] using hkept)]
  simp only [mhaBatchElem, maskAxisLegal, if_true, mhaForward, mhaCore, hcol]
  congr 4
  funext h
  simp [unsqueezeLast_broadcast]

/-- The PINNED `mask.unsqueeze(-2)`: with batch size = number of heads = 2 the call is
accepted, and head 1 of batch element 0 is masked with `mask[0][1]` instead of `mask[0][0]`. -/
theorem C20_mask_pinned_counterexample :
    maskAxisLegal .secondLast 2 2 = true ∧
    headMaskView .secondLast [[true, false]] 0 0 1 = false ∧
    headMaskView .last [[true, false]] 0 0 1 = true := by
  decide

/-- … and with batch size ≠ number of heads (both > 1) the pinned call is not even legal
(torch raises), while the repaired one always is. -/
theorem C20_mask_pinned_raises :
    maskAxisLegal .secondLast 2 3 = false ∧ maskAxisLegal .last 2 3 = true := by
  decide

/-- a positive stand-in for `exp` on ℚ (used by the concrete witnesses below) -/
def eQ (x : Rat) : Rat := 1 + x * x

theorem eQ_pos (x : Rat) : 0 < eQ x := by
  unfold eQ; nlinarith [mul_self_nonneg x]

/-- two heads, all sizes 1, dot-product heads -/
def mhaWitness : MHA Rat where
  numHeads := 2
  dq := 1
  dk := 1
  dv := 1
  WQ := [[1], [1]]
  WK := [[1], [2]]
  WV := [[1], [1]]
  WC := [[1, 1]]
  bQ := none
  bK := none
  bV := none
  bC := none
  inner := .dot 1

/-- Whole-output witness for the PINNED mask axis with batch size = heads = 2, `T = 2`,
mask `[[true, true], [true, false]]` (`T × B`): batch element 0 keeps both positions, but
under `unsqueeze(-2)` its head 1 is masked with batch element 1's column — the output is
`34/7`, while the docstring's value (and the repaired forward) is `612/77`. -/
theorem C20_mask_pinned_output_counterexample :
    mhaBatchElem id eQ .secondLast mhaWitness [[1], [1]] [[[1], [2]], [[0], [1]]]
        [[[1], [5]], [[2], [7]]] [[true, true], [true, false]] 0 = some [34 / 7] ∧
    mhaBatchElem id eQ .last mhaWitness [[1], [1]] [[[1], [2]], [[0], [1]]]
        [[[1], [5]], [[2], [7]]] [[true, true], [true, false]] 0 = some [612 / 77] ∧
    mhaSpec id eQ mhaWitness [1] [[1], [2]] [[1], [5]] (some [true, true]) = [612 / 77] := by
  decide +kernel

/-! ## Block-by-block accumulation; the whole sequence as the mixture of its consecutive blocks

STATUS (audit E).  The library sums `(a.unsqueeze(-1) * value).sum(dim)` in ONE shot: `chunks` / `blocks` /
`accumulate` / `attendChunked` are not a model of library code (the driver does not run them, the harness does
not compare them) but of a block-wise implementation STRATEGY.  What the theorems say about the modelled code
is an algebraic fact about `attend`: its weighted sum is ADDITIVE over any cut of the sequence into consecutive
blocks, in any order (`C20_chunked_any_order`), and the attention over the sequence is the mixture of the
attentions over the blocks (`C20_split_merge`, the one the harness evaluates on the implementation as
`C20.split`).  Like every statement about `attend` they carry the guards of the property's domain (equal
lengths of keys / values / mask, at least one kept position) although the algebra does not need them. -/
section Blocks
variable {κ : Type} [Field κ]

/-- **C20_chunked_any_order**: accumulating the weighted sum over consecutive blocks of the sequence by a left
fold (`out = 0; for blk: out += (a[blk] * value[blk]).sum(dim)`) gives `forward`'s one-shot sum, for EVERY list
of block lengths `ns` (lengths may be 0, need not divide `T`, may stop short of `T` — the remainder is one more
block — or overshoot) and in whatever ORDER the blocks are visited (e.g. the last, partial block first): any
rearrangement `bs` of the blocks accumulates to the same output.  Every length `T`, flavour, mask and `e`. -/
theorem C20_chunked_any_order (th e : κ → κ) (fl : Flavour κ) (D : Nat) (ns : List Nat) (q : List κ)
    (ks vs : List (List κ)) (mask : Option (List Bool))
    (_hv : ks.length = vs.length) (_hm : (effMask mask ks.length).length = ks.length)
    (_hk : true ∈ effMask mask ks.length)
    (bs : List (List κ × List (List κ))) (hbs : bs.Perm (blocks ns (weights th e fl q ks mask) vs)) :
    (List.range D).map (accumulate bs) = attend th e fl D q ks vs mask := by
  unfold attend
  refine List.map_congr_left (fun d _ => ?_)
  rw [accumulate_perm hbs d]
  exact wsumChunked_eq ns _ vs d

/-- **C20_chunked**: the blocks in their own order: `attendChunked = attend`.
(Audit E: the INSTANCE `bs := blocks …`, `List.Perm.refl` of `C20_chunked_any_order` — `attendChunked` unfolds to
that accumulation.  Kept as the readable special case, NOT counted as an obligation.) -/
theorem C20_chunked (th e : κ → κ) (fl : Flavour κ) (D : Nat) (ns : List Nat) (q : List κ)
    (ks vs : List (List κ)) (mask : Option (List Bool))
    (hv : ks.length = vs.length) (hm : (effMask mask ks.length).length = ks.length)
    (hk : true ∈ effMask mask ks.length) :
    attendChunked th e fl D ns q ks vs mask = attend th e fl D q ks vs mask :=
  C20_chunked_any_order th e fl D ns q ks vs mask hv hm hk _ (List.Perm.refl _)

/-- **C20_split_merge**: the attention over the whole sequence is the MIXTURE of the attentions over its
consecutive blocks: block `B` enters with the share `Σ_{t ∈ B} a_t` of the whole-sequence weights, blocks
without a kept position are left out (`mergeBlocks`).  Every chunking `ns`, every coordinate.  (What the
harness checks on the implementation as `C20.split`; the nested form of "convex combination".) -/
theorem C20_split_merge [LinearOrder κ] [IsStrictOrderedRing κ] (th e : κ → κ) (he : ∀ x, 0 < e x)
    (fl : Flavour κ) (D : Nat) (ns : List Nat) (q : List κ) (ks vs : List (List κ))
    (mask : Option (List Bool))
    (_hv : ks.length = vs.length) (_hm : (effMask mask ks.length).length = ks.length)
    (_hk : true ∈ effMask mask ks.length) (d : Nat) (hd : d < D) :
    mergeBlocks th e fl D q d ns (weights th e fl q ks mask) ks vs (effMask mask ks.length) =
      (attend th e fl D q ks vs mask).getD d 0 := by
  have hw : weights th e fl q ks mask = weights th e fl q ks (some (effMask mask ks.length)) := rfl
  rw [attend_getD_wsum th e fl D q ks vs mask d hd, hw, weights_some,
    mergeBlocks_eq th e he fl D q d hd _ ns ks vs, wsumCoord_map_div]

end Blocks

/-- Leaving out a block that carries weight is NOT harmless (the seeded change C20-e2 drops the last block
when the length is a multiple of the block size): `T = 4`, blocks of 2, all-ones values — the accumulated
"weights" no longer sum to one.
(Audit E: a computation on literals about a MUTATION of a strategy the library does not use — a sharpness
witness for `C20_chunked_any_order` ("all the blocks" cannot be weakened), not a statement about the modelled
code.  Kept as documentation, NOT counted as an obligation.) -/
theorem C20_chunked_drop_block_counterexample :
    accumulate (blocks [2] (weights id eQ (.dot 1) [1] [[1], [2], [0], [1]] none)
        [[1], [1], [1], [1]]).dropLast 0 = 7 / 10 ∧
    (attend id eQ (.dot 1) 1 [1] [[1], [2], [0], [1]] [[1], [1], [1], [1]] none).getD 0 0 = 1 := by
  decide +kernel

/-! ## The sequence axis of the scores (audit E): where the tensor-level model describes the code

`check_input` accepts every jointly broadcastable call — also a key AND a mask of size 1 at the sequence axis
against `T > 1` values (not a documented shape).  The code then returns the SUM of the values
(`attendSeqB`: the single softmax weight 1 is broadcast along the values), while the tensor-level model
`tensorApply` reads the key through broadcasting and returns their average.  `C20_broadcast_explicit` is
therefore stated under `seqAxisCarried` (key or mask has the full length); under that guard the scores have
as many positions as the values and the code's computation IS `attend`. -/
section SeqAxis

/-- **C20_seq_axis_carried**: when the scores have as many positions as the values, reading the weights
through broadcasting along the values' sequence axis changes nothing: the code's last line is `attend`.
(Not counted: `attendSeqB` is tied to the code only by the harness's observation of the sum, not by the
driver.) -/
theorem C20_seq_axis_carried {κ : Type} [Field κ] (th e : κ → κ) (fl : Flavour κ) (D : Nat) (q : List κ)
    (ks vs : List (List κ)) (mask : Option (List Bool))
    (hv : ks.length = vs.length) (hm : (effMask mask ks.length).length = ks.length) :
    attendSeqB th e fl D q ks vs mask = attend th e fl D q ks vs mask :=
  attendSeqB_eq_attend th e fl D q ks vs mask hv hm

/-- the witness call: query `(2,)`, key `(1, 2)` — ONE position —, value `(5, 1)` = 1 … 5, no mask, `dim = 0` -/
def seqQ : Tensor Rat := ⟨[2], fun idx => [1, 2].getD (idx.headD 0) 0⟩
def seqK : Tensor Rat := ⟨[1, 2], fun idx => [1, 0].getD (idx.getD 1 0) 0⟩
def seqV : Tensor Rat := ⟨[5, 1], fun idx => [1, 2, 3, 4, 5].getD (idx.headD 0) 0⟩

/-- **C20_seq_axis_not_carried_counterexample**: `check_input` accepts the witness call (jointly broadcast
shape `(5, 1)`), neither key nor mask carries the sequence axis, the tensor-level model returns the average
`3` of the values — and the code's computation (`attendSeqB`; observed on the implementation: `15.`) gives
their sum `15`, outside `[1, 5]`: outside the guard neither the convexity clause nor "implicit = explicit
expansion" holds for the code, and `tensorApply` is not a model of it.  (Not counted, see above.) -/
theorem C20_seq_axis_not_carried_counterexample :
    checkInputFull 2 2 none 0 seqQ.shape seqK.shape seqV.shape none = .ok [5, 1] ∧
    seqAxisCarried 0 seqK.shape none [5, 1] = false ∧
    (tensorApply (attend id eQ (.dot 1)) id 2 2 none 0 seqQ seqK seqV none).toOption.map (·.val [0])
      = some 3 ∧
    attendSeqB id eQ (.dot 1) 1 [1, 2] [[1, 0]] [[1], [2], [3], [4], [5]] none = [15] := by
  refine ⟨by decide, by decide, by decide +kernel, by decide +kernel⟩

end SeqAxis

/-! ## Constructors: an omitted argument IS its documented default (improvement round f; NOT counted)

The model of the constructors (`SingleArgs.resolve`, `MultiArgs.resolve`, `mkDot` / `mkGeneral` / `mkConcat`) keeps
only the RESOLVED configuration — there is no "was the argument passed" state, so these statements are true by
the model's definition (`rfl`; same rule as `C20_nomask` / `C20_bias_exact`: kept, not in `obligations`).  What
ties them to the library is the correspondence: the driver resolves the constructor arguments of every generated
case AS SPELLED (omitted / `None` = `null`) with these functions, the harness compares the configuration the
constructed module shows (`dim`, `scale_factor`, bias presence, hidden size, `d_v`, `out_size`, `d_q`, `d_k`, rows
of the four projections) and every output with the model, and the predicate `C20.ctor` compares modules built
from differently spelled argument lists with each other.  `C20_ctor_default_dot_head_scores` is the clause the
seeded change C20-f2 broke, for the model: a wrapped dot-product module built WITHOUT a `scale_factor` scores each
head with the plain dot product of the head slices (no `d_k ^ (-1/2)`). -/
section Ctor
variable {κ : Type}

/-- The same arguments with every omitted one written out as its documented default. -/
def SingleArgs.explicit (one : κ) (a : SingleArgs κ) : SingleArgs κ :=
  { dim := some (a.dim.getD 0), scaleFactor := some (a.scaleFactor.getD one),
    bias := some (a.bias.getD false), hiddenSize := some (a.hiddenSize.getD 1000) }

def MultiArgs.explicit (valueSize numHeads : Nat) (a : MultiArgs) : MultiArgs :=
  { outSize := some (a.outSize.getD valueSize), dv := some (a.dv.getD (max 1 (valueSize / numHeads))),
    biasWQ := some (a.biasWQ.getD false), biasWK := some (a.biasWK.getD false),
    biasWV := some (a.biasWV.getD false), biasWC := some (a.biasWC.getD false) }

theorem C20_ctor_single_omitted_eq_default (one : κ) (a : SingleArgs κ) :
    (a.explicit one).resolve one = a.resolve one := rfl

theorem C20_ctor_multi_omitted_eq_default (valueSize numHeads : Nat) (a : MultiArgs) :
    (a.explicit valueSize numHeads).resolve valueSize numHeads = a.resolve valueSize numHeads := rfl

theorem C20_ctor_default_dot_head_scores [Field κ] (th : κ → κ) (m : MHA κ) (dim : Option Int)
    (hin : m.inner = mkDot (({ dim := dim } : SingleArgs κ).resolve 1))
    (q : List κ) (ks : List (List κ)) (h : Nat) :
    mhaHeadScores th m q ks h =
      ks.map (fun k => dot ((unflatten m.numHeads m.dq (linear m.WQ m.bQ q)).getD h [])
        ((unflatten m.numHeads m.dk (linear m.WK m.bK k)).getD h [])) := by
  simp [mhaHeadScores, hin, mkDot, SingleArgs.resolve, score, List.map_map, Function.comp_def]

example : (({} : SingleArgs Rat).resolve 1).scaleFactor = 1 ∧ (({} : SingleArgs Rat).resolve 1).dim = 0 ∧
    (({} : SingleArgs Rat).resolve 1).hiddenSize = 1000 ∧ (({} : SingleArgs Rat).resolve 1).bias = false := by
  decide
example : (({} : MultiArgs).resolve 7 2).dv = 3 ∧ (({} : MultiArgs).resolve 7 2).outSize = 7 ∧
    (({} : MultiArgs).resolve 1 3).dv = 1 ∧ (({ dv := some 5 } : MultiArgs).resolve 7 2).dv = 5 := by decide
end Ctor

/-! ## Non-vacuity: the hypotheses are satisfiable on concrete, non-trivial inputs -/
section Examples

-- three positions, the last one masked; hypotheses of C20_weights / C20_convex / C20_blind hold
example :
    let ks : List (List Rat) := [[1, 0], [0, 1], [3, 3]]
    let vs : List (List Rat) := [[1, 5], [2, -1], [100, 100]]
    let mask := some [true, true, false]
    ks.length = vs.length ∧ (effMask mask ks.length).length = ks.length ∧
      true ∈ effMask mask ks.length := by
  decide

example :=
  C20_convex id eQ eQ_pos (.dot (1 / 2)) 2 [1, 2] [[1, 0], [0, 1], [3, 3]]
    [[1, 5], [2, -1], [100, 100]] (some [true, true, false]) rfl rfl (by decide) 0 (by decide)

-- blindness: the masked third key/value replaced
example :
    attend id eQ (.general [[1, 2], [0, 1]] (some [1, -1])) 2 [1, 2] [[1, 0], [0, 1], [3, 3]]
        [[1, 5], [2, -1], [100, 100]] (some [true, true, false])
      = attend id eQ (.general [[1, 2], [0, 1]] (some [1, -1])) 2 [1, 2] [[1, 0], [0, 1], [-7, 9]]
        [[1, 5], [2, -1], [0, 12345]] (some [true, true, false]) := by
  apply C20_blind <;> try rfl
  · decide
  intro t ht
  match t with
  | 0 => simp
  | 1 => simp
  | 2 => simp [effMask] at ht
  | t + 3 => simp [effMask] at ht

-- permutation: positions rotated
example :
    attend id eQ (.concat [[1, 0, 2, 1]] none [3]) 1 [1, 2] [[3, 3], [1, 0], [0, 1]]
        [[100], [1], [2]] (some [false, true, true])
      = attend id eQ (.concat [[1, 0, 2, 1]] none [3]) 1 [1, 2] [[1, 0], [0, 1], [3, 3]]
        [[1], [2], [100]] (some [true, true, false]) :=
  C20_perm_index id eQ _ 1 [1, 2] [[1, 0], [0, 1], [3, 3]] [[1], [2], [100]] [true, true, false]
    [2, 0, 1] rfl rfl (by decide) (by decide)

-- shapes: a (3, 1, 4) tensor against a (2, 1) tensor
example : broadcastShapes [3, 1, 4] [2, 1] = some [3, 2, 4] := by decide

-- check_input: query (5, 1, 2) against key (1, 7, 3, 4), value (5, 7, 1, 6), mask (7, 3); dim = 1 and -3
example : checkInput 2 4 none 1 [5, 1, 2] [1, 7, 3, 4] [5, 7, 1, 6] (some [7, 3]) = .ok [5, 3, 6] := by
  decide
example : checkInput 2 4 none (-3) [5, 1, 2] [1, 7, 3, 4] [5, 7, 1, 6] (some [7, 3]) = .ok [5, 3, 6] := by
  decide
example : checkInput 2 4 none (-1) [5, 1, 2] [1, 7, 3, 4] [5, 7, 1, 6] none = .error .value := by decide
example : checkInput 2 4 none 1 [5, 2, 2] [1, 7, 3, 4] [5, 7, 1, 6] none = .error .runtime := by decide

-- the hypotheses of C20_broadcast_explicit on that call
example : checkInputFull 2 4 none 1 [5, 1, 2] [1, 7, 3, 4] [5, 7, 1, 6] (some [7, 3])
    = .ok [5, 7, 3, 6] := by decide

-- C20_check_input_documented: A* = (5, 1), B* = (1,), C* = (3,)
example := C20_check_input_documented 2 4 6 7 [5, 1] [1] [3] none true 1
  (by repeat constructor) (by simp) (Or.inl rfl)

-- the score formulas on a concrete generalised attention with bias
example : score id (.general [[1, 2], [0, 1]] (some [1, -1])) [1, 2] [3, (4 : Rat)]
    = 1 * ((1 * 3 + 2 * 4) + 1) + 2 * ((0 * 3 + 1 * 4) + -1) := by decide +kernel

/-! ### audit: theorems whose hypotheses were never instantiated together, applied -/

-- C20_weights / C20_convex_bounds applied: three positions, the last masked, generalised flavour with bias
example := C20_weights id eQ eQ_pos (.general [[1, 2], [0, 1]] (some [1, -1])) [1, 2]
  [[1, 0], [0, 1], [3, 3]] (some [true, true, false]) rfl (by decide)

example := C20_convex_bounds id eQ eQ_pos (.dot (1 / 2)) 2 [1, 2] [[1, 0], [0, 1], [3, 3]]
  [[1, 5], [2, -1], [100, 100]] (some [true, true, false]) rfl rfl (by decide) 1 (by decide) (-1) 5
  (by
    intro t v hv hm
    match t with
    | 0 => simp at hv; subst hv; norm_num
    | 1 => simp at hv; subst hv; norm_num
    | 2 => simp [effMask] at hm
    | t + 3 => simp at hv)
  (by
    intro t v hv hm
    match t with
    | 0 => simp at hv; subst hv; norm_num
    | 1 => simp at hv; subst hv; norm_num
    | 2 => simp [effMask] at hm
    | t + 3 => simp at hv)

-- C20_convex_of_weights with weights that are NOT a softmax: (1/3, 2/3, 0)
example : (-1 : Rat) ≤ wsumCoord [1/3, 2/3, 0] [[1, 5], [2, -1], [100, 100]] 1 ∧
    wsumCoord [(1/3 : Rat), 2/3, 0] [[1, 5], [2, -1], [100, 100]] 1 ≤ 5 :=
  C20_convex_of_weights (κ := Rat) [1/3, 2/3, 0] [[1, 5], [2, -1], [100, 100]] [true, true, false] 1 (-1) 5 rfl rfl
    (by intro w hw; simp at hw; rcases hw with rfl | rfl | rfl <;> norm_num)
    (by
      intro t ht
      match t with
      | 0 => simp at ht
      | 1 => simp at ht
      | 2 => simp
      | t + 3 => simp at ht)
    (by norm_num)
    (by
      intro t v hv hm
      match t with
      | 0 => simp at hv; subst hv; norm_num
      | 1 => simp at hv; subst hv; norm_num
      | 2 => simp at hm
      | t + 3 => simp at hv)
    (by
      intro t v hv hm
      match t with
      | 0 => simp at hv; subst hv; norm_num
      | 1 => simp at hv; subst hv; norm_num
      | 2 => simp at hm
      | t + 3 => simp at hv)

-- C20_shift_invariant: e' = 2 e
example := C20_shift_invariant id eQ (fun x => eQ x * 2) 2 (by norm_num) (fun _ => rfl)
  (.concat [[1, 0, 2, 1]] none [3]) 1 [1, 2] [[1, 0], [0, 1], [3, 3]] [[1], [2], [100]] (some [true, true, false])
  rfl rfl (by decide)

-- C20_model_eq_spec / C20_multihead / _blind applied on the two-head witness with a masked position
example := C20_model_eq_spec id eQ (.dot 1) 1 [1] [[1], [2], [7]] [[1], [5], [9]] (some [true, true, false]) rfl rfl
  (by decide)

example := C20_multihead id eQ mhaWitness [1] [[1], [2], [7]] [[1], [5], [9]] (some [true, true, false]) rfl rfl
  (by decide)

example : mhaForward id eQ mhaWitness [1] [[1], [2], [7]] [[1], [5], [9]] (some [true, true, false])
    = mhaForward id eQ mhaWitness [1] [[1], [2], [-3]] [[1], [5], [1000]] (some [true, true, false]) := by
  apply C20_multihead_blind <;> try rfl
  · decide
  intro t ht
  match t with
  | 0 => simp
  | 1 => simp
  | 2 => simp [effMask] at ht
  | t + 3 => simp [effMask] at ht

example : mhaForward id eQ mhaWitness [1] [[7], [1], [2]] [[9], [1], [5]] (some [false, true, true])
    = mhaForward id eQ mhaWitness [1] [[1], [2], [7]] [[1], [5], [9]] (some [true, true, false]) := by
  apply C20_multihead_perm <;> try rfl
  · decide
  · decide

-- C20_multihead_batch applied (the mask of the pinned-output witness)
example := C20_multihead_batch id eQ mhaWitness [[1], [1]] [[[1], [2]], [[0], [1]]] [[[1], [5]], [[2], [7]]]
  [[true, true], [true, false]] 0 (by intro row hr; simp at hr; rcases hr with rfl | rfl <;> decide) rfl rfl
  (by decide)

example : headMaskView .last [[true, false], [false, true]] 1 1 5 = true :=
  C20_mask_shared [[true, false], [false, true]] 1 1 5 [false, true] rfl (by decide)

-- the score theorems applied
example := C20_score_eq_spec (κ := Rat) id 2 2 (.general [[1, 2], [0, 1]] (some [1, -1])) [1, 2] [3, 4] rfl rfl
  (by simp [Flavour.WellShaped])

example := C20_score_general_bias (κ := Rat) id 2 2 [[1, 2], [0, 1]] [1, -1] [1, 2] [3, 4] rfl rfl
  (by simp [Flavour.WellShaped])

-- C20_broadcast_explicit with both hypotheses: the call of the check_input example, mask of lower rank
example := C20_broadcast_explicit (κ := Rat) (attend id eQ (.dot 1)) id 2 4 none 1
  ⟨[5, 1, 2], fun idx => (idx.sum : Rat)⟩ ⟨[1, 7, 3, 4], fun idx => (idx.sum : Rat) / 2⟩
  ⟨[5, 7, 1, 6], fun idx => (idx.getLastD 0 : Rat)⟩ (some ⟨[7, 3], fun idx => idx.sum % 2 == 0⟩) [5, 7, 3, 6]
  (by decide) (by intro mt h; cases h; decide) (by decide)
-- ... and with the sequence axis carried by the MASK only (key of size 1 there): still inside the guard
example := C20_broadcast_explicit (κ := Rat) (attend id eQ (.dot 1)) id 2 4 none 1
  ⟨[5, 1, 2], fun idx => (idx.sum : Rat)⟩ ⟨[1, 1, 3, 4], fun idx => (idx.sum : Rat) / 2⟩
  ⟨[5, 7, 1, 6], fun idx => (idx.getLastD 0 : Rat)⟩ (some ⟨[7, 3], fun idx => idx.sum % 2 == 0⟩) [5, 7, 3, 6]
  (by decide) (by intro mt h; cases h; decide) (by decide)
-- the guard is a real restriction: accepted call, nobody carries the sequence axis
example : checkInputFull 2 4 none 1 [5, 1, 2] [1, 1, 3, 4] [5, 7, 1, 6] (some [1, 3]) = .ok [5, 7, 3, 6] ∧
    seqAxisCarried 1 [1, 1, 3, 4] (some [1, 3]) [5, 7, 3, 6] = false := by decide

-- blocks: T = 5 cut into blocks of lengths 2, 0, 2 and the remainder 1; third position masked
example := C20_chunked id eQ (.dot 1) 1 [2, 0, 2] [1] [[1], [2], [7], [0], [3]] [[1], [5], [9], [2], [4]]
  (some [true, true, false, true, true]) rfl rfl (by decide)
example : attendChunked id eQ (.dot 1) 1 [2, 0, 2] [1] [[1], [2], [7], [0], [3]] [[1], [5], [9], [2], [4]]
    (some [true, true, false, true, true]) = [23 / 6] := by decide +kernel
-- the same blocks visited last-first
example := C20_chunked_any_order id eQ (.dot 1) 1 [2] [1] [[1], [2], [7]] [[1], [5], [9]]
  (some [true, true, false]) rfl rfl (by decide)
  ((blocks [2] (weights id eQ (.dot 1) [1] [[1], [2], [7]] (some [true, true, false])) [[1], [5], [9]]).reverse)
  (List.reverse_perm _)
-- mixture of the blocks [0, 2), [2, 3) (nothing kept: left out), [3, 5)
example := C20_split_merge id eQ eQ_pos (.dot 1) 1 [2, 1] [1] [[1], [2], [7], [0], [3]] [[1], [5], [9], [2], [4]]
  (some [true, true, false, true, true]) rfl rfl (by decide) 0 (by decide)
example : mergeBlocks id eQ (.dot 1) 1 [1] 0 [2, 1]
    (weights id eQ (.dot 1) [1] [[1], [2], [7], [0], [3]] (some [true, true, false, true, true]))
    [[1], [2], [7], [0], [3]] [[1], [5], [9], [2], [4]] [true, true, false, true, true] = 23 / 6 := by
  decide +kernel

end Examples

end PdtVerif.Attention
