import PdtVerif.Lemmas.Slicing
/-!
# C10 — slicing policies yield the documented windows; token chunks are slice-relative

Property theorems only. `Model/Slicing.lean` is the tensor-style model of the (repaired) code,
`Spec/SlicePolicy.lean` the declarative policies, `Lemmas/Slicing.lean` the helper lemmas.
All statements are for every batch size, padded length, lobe size and input.
-/
namespace PdtVerif.Slicing
open PdtVerif.SlicePolicy

/-! ## token chunking -/

/-- **C10_tokens_filter**: for every batch, slices and (optional) lengths, what the code keeps for
element `n` — through the batch-flattened `refs[mask]` and `masked_scatter_` — is exactly the list
of tokens of `refs[n]` (within `ref_lens[n]`) whose segment is known and contained in (overlapping,
if `partial`) slice `n`, in their original order; `chunked_lens[n]` is its length. The only other
thing done to a kept token is `shiftTok`. -/
theorem C10_tokens_filter (p retain : Bool) (refs : List (List Tok)) (slices : List (Int × Int))
    (refLens : Option (List Int)) (hs : slices.length = refs.length) :
    chunkTokens p retain refs slices refLens =
      ((List.range refs.length).map fun n =>
          (tokensKept p (refs.getD n []) (slices.getD n (0, 0))
            (refLens.map fun l => (l.getD n 0).toNat)).map (shiftTok retain (slices.getD n (0, 0)).1),
       (List.range refs.length).map fun n =>
          (tokensKept p (refs.getD n []) (slices.getD n (0, 0))
            (refLens.map fun l => (l.getD n 0).toNat)).length) :=
  chunkTokens_eq p retain refs slices refLens hs

/-- What `tokensKept` means, spelled out: a token is kept iff it is one of the first `ref_len`
tokens, its segment is known, and it is contained in / overlaps the slice … -/
theorem C10_tokens_kept_iff (p : Bool) (toks : List Tok) (sl : Int × Int) (refLen : Option Nat)
    (tk : Tok) :
    tk ∈ tokensKept p toks sl refLen ↔
      tk ∈ (match refLen with
        | none => toks
        | some l => toks.take l) ∧
      (0 ≤ tk.2.1 ∧ 0 ≤ tk.2.2 ∧ tk.2.1 ≤ tk.2.2) ∧
      (if p then sl.1 < tk.2.2 ∧ tk.2.1 < sl.2 else sl.1 ≤ tk.2.1 ∧ tk.2.2 ≤ sl.2) := by
  unfold tokensKept tokKnown tokInSlice
  cases refLen <;> cases p <;> simp [List.mem_filter, and_assoc]

/-- … and the kept tokens appear in the order of the source sequence. -/
theorem C10_tokens_kept_order (p : Bool) (toks : List Tok) (sl : Int × Int) (refLen : Option Nat) :
    (tokensKept p toks sl refLen).Sublist toks := by
  unfold tokensKept
  cases refLen with
  | none => exact List.filter_sublist
  | some l => exact (List.filter_sublist).trans (List.take_sublist l toks)

example : tokensKept false [(0, 0, 2), (-1, 2, 4), (1, 4, 6), (2, -1, 7), (3, 5, 8)] (3, 7) (some 5)
    = [(1, 4, 6)] := by decide
example : tokensKept true [(0, 0, 2), (-1, 2, 4), (1, 4, 6), (2, -1, 7), (3, 5, 8)] (3, 7) (some 5)
    = [(-1, 2, 4), (1, 4, 6), (3, 5, 8)] := by decide

/-- **C10_tokens_retain_partial**: the clause "re-expresses boundaries as offsets from the slice
start" is false of the code (see the counterexample below); restricted to `retain = true` the code
returns exactly the specified chunks. -/
theorem C10_tokens_retain_partial (p : Bool) (refs : List (List Tok)) (slices : List (Int × Int))
    (refLens : Option (List Int)) (hs : slices.length = refs.length) :
    (chunkTokens p true refs slices refLens).1 =
      SlicePolicy.tokens p true refs slices (refLens.map fun l => l.map Int.toNat) := by
  rw [C10_tokens_filter p true refs slices refLens hs]
  unfold SlicePolicy.tokens tokensRow
  simp only [Option.map_map, Function.comp_def, getD_map_toNat]
  apply List.map_congr_left
  intro n _
  congr 1

example : (chunkTokens true true [[(0, 0, 2), (1, 4, 6), (3, 5, 8)], [(7, 2, 2)]] [(3, 7), (-1, 3)]
    (some [3, 1])).1 = [[(1, 4, 6), (3, 5, 8)], [(7, 2, 2)]] := by decide

/-- **C10_tokens_relative_counterexample**: token `(1, 4, 6)` in slice `[3, 7)`: the code returns
boundaries `(7, 9)` = in + start; slice-relative is `(1, 3)`. (Replayed on the implementation:
corpus/C10/tokens-boundaries-plus-start.json.) -/
theorem C10_tokens_relative_counterexample :
    (chunkTokens false false [[(1, 4, 6)]] [(3, 7)] none).1 = [[(1, 7, 9)]] ∧
    SlicePolicy.tokens false false [[(1, 4, 6)]] [(3, 7)] none = [[(1, 1, 3)]] := by
  decide

/-- The exact shape of the defect, for every input: with `retain = false` every returned token is
the specified (slice-relative) token with **twice the slice start added** to both boundaries, i.e.
`out_boundary = in_boundary + slice_start`. The kept tokens and their order are as specified. -/
theorem C10_tokens_plus_start (p : Bool) (refs : List (List Tok)) (slices : List (Int × Int))
    (refLens : Option (List Int)) (hs : slices.length = refs.length) :
    (chunkTokens p false refs slices refLens).1 =
      (List.range refs.length).map fun n =>
        ((SlicePolicy.tokens p false refs slices (refLens.map fun l => l.map Int.toNat)).getD n []).map
          fun tk => (tk.1, tk.2.1 + 2 * (slices.getD n (0, 0)).1, tk.2.2 + 2 * (slices.getD n (0, 0)).1) := by
  rw [C10_tokens_filter p false refs slices refLens hs]
  apply List.map_congr_left
  intro n hn
  have hn' : n < refs.length := by simpa using hn
  unfold SlicePolicy.tokens tokensRow
  simp only [List.getD_eq_getElem?_getD, List.getElem?_map, List.getElem?_range hn', Option.map_some,
    Option.getD_some, Option.map_map, Function.comp_def, List.map_map]
  have h1 : (fun (x : List Int) => (Option.map Int.toNat x[n]?).getD 0) = fun l => (l[n]?.getD 0).toNat := by
    funext x; cases x[n]? <;> simp
  rw [h1]
  apply List.map_congr_left
  intro tk _
  simp only [shiftTok, relTok, Bool.false_eq_true, if_false]
  refine Prod.ext rfl (Prod.ext ?_ ?_) <;> simp only <;> omega


/-- The defect shows exactly when the slice does not start at frame 0 and something is kept. -/
theorem C10_tokens_relative_iff (start : Int) (kept : List Tok) :
    kept.map (shiftTok false start) = kept.map (relTok false start) ↔ start = 0 ∨ kept = [] := by
  constructor
  · intro h
    cases kept with
    | nil => exact Or.inr rfl
    | cons tk tks =>
      left
      simp only [List.map_cons, List.cons.injEq, shiftTok, relTok, Bool.false_eq_true, if_false,
        Prod.mk.injEq, true_and] at h
      omega
  · rintro (h | h)
    · subst h
      apply List.map_congr_left
      intro tk _
      simp [shiftTok, relTok]
    · subst h; rfl

/-! ## policy 'fixed' -/

/-- **C10_fixed** (lengths given): for every padded length `T`, lobe, window type, validity and
every vector of lengths `≤ T`, the `arange` windows masked by `in_lens > mids`, flattened over the
batch, are exactly the windows the documented policy prescribes for each sequence, in order, each
labelled with its batch element. -/
theorem C10_fixed (T lobe : Nat) (wt : WinType) (vo : Bool) (lens : List Nat) (hl : ∀ l ∈ lens, l ≤ T) :
    fixedBatch lens.length T lobe wt vo (some (lens.map Int.ofNat)) = SlicePolicy.fixed lobe wt vo lens :=
  fixedBatch_given T lobe wt vo lens hl

/-- **C10_fixed** (lengths omitted): every sequence counts as having length `T`. -/
theorem C10_fixed_omitted (N T lobe : Nat) (wt : WinType) (vo : Bool) :
    fixedBatch N T lobe wt vo none = SlicePolicy.fixed lobe wt vo (List.replicate N T) :=
  fixedBatch_omitted N T lobe wt vo

/-- The bound `k ≤ len` in `SlicePolicy.fixedRow` is no restriction: no later candidate is kept. -/
theorem C10_fixed_spec_complete (lobe : Nat) (wt : WinType) (vo : Bool) (len k : Nat)
    (h : fixedKeep lobe wt vo len (fixedStart lobe wt vo k) = true) : k ≤ len :=
  Nat.le_of_lt_succ (fixedKeep_bound lobe wt vo len k h)

example : fixedBatch 1 8 2 .symmetric false none = [⟨-1, 4, 0⟩, ⟨2, 7, 0⟩, ⟨5, 10, 0⟩] := by decide
example : SlicePolicy.fixed 2 .causal false [8, 5] =
    [⟨-2, 1, 0⟩, ⟨1, 4, 0⟩, ⟨4, 7, 0⟩, ⟨-2, 1, 1⟩, ⟨1, 4, 1⟩] := by decide

/-! ## policy 'ref' -/

/-- **C10_ref**: for every batch of token rows of width `T`, with `in_lens` / `other_lens` given or
omitted (in-domain: `0 ≤ in_lens ≤ T`), the grid masks + flatten + boolean indexing of the code
return exactly the documented per-token windows of each sequence (missing `-1` boundaries, empty
segments, lobes, validity), in order, labelled with their batch element. When `other_lens` is
omitted the end of the last token of the sequence is used. -/
theorem C10_ref (T lobe : Nat) (wt : WinType) (vo : Bool) (rows : List (List Tok))
    (inLens otherLens : Option (List Int)) (hrows : ∀ r ∈ rows, r.length = T)
    (hin : ∀ l, inLens = some l → l.length = rows.length ∧ ∀ x ∈ l, 0 ≤ x ∧ x ≤ (T : Int))
    (hother : ∀ o, otherLens = some o → o.length = rows.length) :
    refBatch T lobe wt vo rows inLens otherLens =
      SlicePolicy.ref lobe wt vo rows (lensOf T rows.length inLens) (othersOf rows.length otherLens) :=
  C10_ref_aux T lobe wt vo rows inLens otherLens hrows hin hother

example : refBatch 6 2 .symmetric false
    [[(1, 0, 0), (2, 2, 3), (3, -1, 1), (4, 0, -1), (5, 3, 5), (6, 4, 4)]] (some [5]) (some [6])
    = [⟨-2, 2, 0⟩, ⟨0, 5, 0⟩, ⟨1, 7, 0⟩] := by decide
example : refBatch 2 0 .future true [[(7, 0, 2), (8, 2, 3)]] none none = [⟨0, 2, 0⟩, ⟨2, 3, 0⟩] := by
  decide

/-! ## valid-only windows lie inside their sequence -/

/-- **C10_valid_inside** ('fixed', lengths given): `0 ≤ start < end ≤ in_lens[src]`. -/
theorem C10_valid_inside_fixed (T lobe : Nat) (wt : WinType) (lens : List Nat) (hl : ∀ l ∈ lens, l ≤ T)
    (w : Win) (hw : w ∈ fixedBatch lens.length T lobe wt true (some (lens.map Int.ofNat))) :
    w.src < lens.length ∧ Inside w (lens.getD w.src 0) := by
  rw [C10_fixed T lobe wt true lens hl] at hw
  exact fixed_spec_inside lobe wt lens w hw

/-- **C10_valid_inside** ('fixed', lengths omitted): `0 ≤ start < end ≤ T`. -/
theorem C10_valid_inside_fixed_omitted (N T lobe : Nat) (wt : WinType) (w : Win)
    (hw : w ∈ fixedBatch N T lobe wt true none) : w.src < N ∧ Inside w T := by
  rw [C10_fixed_omitted] at hw
  have := fixed_spec_inside lobe wt _ w hw
  simp only [List.length_replicate] at this
  refine ⟨this.1, ?_⟩
  have h2 := this.2
  simp only [List.getD_eq_getElem?_getD, List.getElem?_replicate, this.1, if_true, Option.getD_some] at h2
  exact h2

/-- **C10_valid_inside** ('ref'): `0 ≤ start < end ≤ other_lens[src]` (the given frame length, or
the end of the sequence's last token when `other_lens` is omitted). -/
theorem C10_valid_inside_ref (T lobe : Nat) (wt : WinType) (rows : List (List Tok))
    (inLens otherLens : Option (List Int)) (hrows : ∀ r ∈ rows, r.length = T)
    (hin : ∀ l, inLens = some l → l.length = rows.length ∧ ∀ x ∈ l, 0 ≤ x ∧ x ≤ (T : Int))
    (hother : ∀ o, otherLens = some o → o.length = rows.length)
    (w : Win) (hw : w ∈ refBatch T lobe wt true rows inLens otherLens) :
    w.src < rows.length ∧
      Inside w (((othersOf rows.length otherLens).getD w.src none).getD
        (refOther (rows.getD w.src []) ((lensOf T rows.length inLens).getD w.src 0))) := by
  rw [C10_ref T lobe wt true rows inLens otherLens hrows hin hother] at hw
  exact ref_spec_inside lobe wt rows _ _ w hw

/- TARGET (not proved): C10_valid_inside for 'ali' on the whole branch,
     ∀ w ∈ aliBatch T lobe wt true rows inLens, Inside w (len w.src)
   for rows of width `T` and `0 ≤ in_lens ≤ T`. What is missing is the lemma that the two
   `nonzero` calls produce run lists satisfying `RunsWf` (run `i` starts before run `j ≥ i` of the
   same sequence ends; no run ends beyond its sequence). That lemma is only checked by the
   correspondence (exhaustively for T ≤ 7 over two labels, every length, batches). -/

/-- **C10_valid_inside_ali_partial**: the lobe index arithmetic on the batch-flattened run lists
(the two shifted views `[: NN - offs]`, `[offs :]` and the `is_same` mask, for every lobe, window
type and batch) only produces windows inside their sequence, *provided* the run lists are
well-formed (`RunsWf`). -/
theorem C10_valid_inside_ali_partial (len : Nat → Int) (lobe : Nat) (wt : WinType)
    (sources starts ends : List Nat) (hwf : RunsWf len sources starts ends) (w : Win)
    (hw : w ∈ aliLobe lobe wt true sources starts ends) : Inside w (len w.src) :=
  aliLobe_valid_inside len lobe wt sources starts ends hwf w hw

/-- The hypothesis is satisfiable: runs `[0,2)`, `[2,3)` of one sequence of length 3. -/
example : RunsWf (fun _ => 3) [0, 0] [0, 2] [2, 3] := by
  intro i j n a b hij h1 h2 h3 h4
  show (a : Int) < b ∧ (b : Int) ≤ 3
  match i, j with
  | 0, 0 => simp at h3 h4; omega
  | 0, 1 => simp at h3 h4; omega
  | 1, 1 => simp at h3 h4; omega
  | 1, 0 => omega
  | _ + 2, _ => simp at h1
  | 0, _ + 2 => simp at h2
  | 1, _ + 2 => simp at h2

/-- The docstring example `[1]*4 + [2]*3 + [1] + [5]*2`: its run lists (computed by the model) and
the windows for lobe 1. -/
example : aliBatch 10 1 .symmetric true [[1, 1, 1, 1, 2, 2, 2, 1, 5, 5]] none = [⟨0, 8, 0⟩, ⟨4, 10, 0⟩] := by
  decide
example : aliBatch 10 1 .causal false [[1, 1, 1, 1, 2, 2, 2, 1, 5, 5]] none =
    [⟨0, 4, 0⟩, ⟨0, 7, 0⟩, ⟨4, 8, 0⟩, ⟨7, 10, 0⟩] := by decide
example : SlicePolicy.ali 1 .future false [[1, 1, 1, 1, 2, 2, 2, 1, 5, 5]] [10] =
    [⟨0, 7, 0⟩, ⟨4, 8, 0⟩, ⟨7, 10, 0⟩, ⟨8, 10, 0⟩] := by decide

end PdtVerif.Slicing
