import PdtVerif.Lemmas.Slicing
import PdtVerif.Lemmas.SlicingAli
import PdtVerif.Lemmas.SlicingDir
/-!
# C10 — slicing policies yield the documented windows; token chunks are slice-relative

Property theorems only. `Model/Slicing.lean` is the tensor-style model of the (repaired) code,
`Spec/SlicePolicy.lean` the declarative policies, `Lemmas/Slicing.lean` and `Lemmas/SlicingAli.lean`
(policy 'ali', the directory-level worker) the helper lemmas; `Model/SlicingDir.lean` /
`Lemmas/SlicingDir.lean` the rest of the worker (features and alignments through C09's `ChunkBySlices`
model, file names, the files a sub-directory ends up holding).
All statements are for every batch size, padded length, lobe size and input.
-/
namespace PdtVerif.Slicing
open PdtVerif.SlicePolicy PdtVerif.PadSlice

/-! ## token chunking -/

/-- **C10_tokens_filter**: for every batch, slices and (optional) lengths, what the code keeps for
element `n` — through the batch-flattened `refs[mask]` and `masked_scatter_` — is exactly the list
of tokens of `refs[n]` (within `ref_lens[n]`) whose segment is known and contained in (overlapping,
if `partial`) slice `n`, in their original order; `chunked_lens[n]` is its length. The only other
thing done to a kept token is `shiftTok`. -/
theorem C10_tokens_filter (p retain : Bool) (refs : List (List Tok)) (slices : List (Int × Int))
    (refLens : Option (List Int)) (hs : slices.length = refs.length) :
    chunkTokens p retain refs slices refLens =
      ((List.range refs.length).map fun n =>
          (tokensKept p (refs.getD n []) (slices.getD n (0, 0))
            (refLens.map fun l => (l.getD n 0).toNat)).map (shiftTok retain (slices.getD n (0, 0)).1),
       (List.range refs.length).map fun n =>
          (tokensKept p (refs.getD n []) (slices.getD n (0, 0))
            (refLens.map fun l => (l.getD n 0).toNat)).length) :=
  chunkTokens_eq p retain refs slices refLens hs

/-- Non-vacuity (audit): a two-row batch with lengths; row 0 drops a token before the slice, keeps a contained
and a partially overlapping one; row 1 keeps an empty segment and loses one to `ref_lens`; slice 1 starts at `-1`. -/
example : chunkTokens true false [[(0, 0, 2), (1, 4, 6), (3, 5, 8)], [(7, 2, 2), (8, 0, 1)]] [(3, 7), (-1, 3)]
    (some [3, 1]) = ([[(1, 7, 9), (3, 8, 11)], [(7, 1, 1)]], [2, 1]) := by
  rw [C10_tokens_filter _ _ _ _ _ rfl]; decide

/-- **C10_tokens_entry** (audit): the same through the function's shape checks. `C10_tokens_filter` is stated
about the core computation and holds for a `ref_lens` vector of any size (a missing entry is read as 0 by the
`getD` in its statement) — inputs the code rejects. Under the guard `slices.shape == (N, 2)` and
`ref_lens.shape == (N,)` the function returns exactly the filtered rows; no default is read. -/
theorem C10_tokens_entry (p retain : Bool) (refs : List (List Tok)) (slices : List (Int × Int))
    (refLens : Option (List Int)) (hs : slices.length = refs.length)
    (hl : ∀ l, refLens = some l → l.length = refs.length) :
    chunkTokensEntry p retain refs slices refLens =
      .ok ((List.range refs.length).map fun n =>
          (tokensKept p (refs.getD n []) (slices.getD n (0, 0))
            (refLens.map fun l => (l.getD n 0).toNat)).map (shiftTok retain (slices.getD n (0, 0)).1),
       (List.range refs.length).map fun n =>
          (tokensKept p (refs.getD n []) (slices.getD n (0, 0))
            (refLens.map fun l => (l.getD n 0).toNat)).length) := by
  have h1 : lensOk refs.length refLens = true := by
    cases refLens with
    | none => rfl
    | some l => simp [lensOk, hl l rfl]
  simp only [chunkTokensEntry, hs, bne_self_eq_false, Bool.false_eq_true, if_false, h1, Bool.not_true]
  rw [C10_tokens_filter p retain refs slices refLens hs]

/-- The guard itself (the model's definition unfolded — NOT counted as an obligation; the code's
`RuntimeError` is checked by the correspondence runs): a wrong number of slices or lengths is rejected. -/
theorem C10_tokens_entry_rejects (p retain : Bool) (refs : List (List Tok)) (slices : List (Int × Int))
    (refLens : Option (List Int))
    (h : slices.length ≠ refs.length ∨ ∃ l, refLens = some l ∧ l.length ≠ refs.length) :
    chunkTokensEntry p retain refs slices refLens = .error .shape := by
  unfold chunkTokensEntry
  by_cases hs : slices.length = refs.length
  · rcases h with h | ⟨l, rfl, hl⟩
    · exact absurd hs h
    · simp [hs, lensOk, hl]
  · simp [hs]

example : chunkTokensEntry true false [[(0, 0, 2), (1, 4, 6), (3, 5, 8)], [(7, 2, 2), (8, 0, 1)]] [(3, 7), (-1, 3)]
    (some [3, 1]) = .ok ([[(1, 7, 9), (3, 8, 11)], [(7, 1, 1)]], [2, 1]) :=
  (C10_tokens_entry true false _ _ (some [3, 1]) rfl (by intro l h; cases h; rfl)).trans (by decide)
example : chunkTokensEntry true false [[(0, 0, 2)], [(7, 2, 2)]] [(0, 7), (-1, 3)] (some [1]) = .error .shape :=
  C10_tokens_entry_rejects _ _ _ _ _ (Or.inr ⟨_, rfl, by decide⟩)
-- … whereas the core computation (and `C10_tokens_filter`) is total on it: the missing length of row 1 reads as 0
example : chunkTokens true false [[(0, 0, 2)], [(7, 2, 2)]] [(0, 7), (-1, 3)] (some [1]) = ([[(0, 0, 2)], []], [1, 0]) := by
  decide

/-- What `tokensKept` means, spelled out: a token is kept iff it is one of the first `ref_len`
tokens, its segment is known, and it is contained in / overlaps the slice … -/
theorem C10_tokens_kept_iff (p : Bool) (toks : List Tok) (sl : Int × Int) (refLen : Option Nat)
    (tk : Tok) :
    tk ∈ tokensKept p toks sl refLen ↔
      tk ∈ (match refLen with
        | none => toks
        | some l => toks.take l) ∧
      (0 ≤ tk.2.1 ∧ 0 ≤ tk.2.2 ∧ tk.2.1 ≤ tk.2.2) ∧
      (if p then sl.1 < tk.2.2 ∧ tk.2.1 < sl.2 else sl.1 ≤ tk.2.1 ∧ tk.2.2 ≤ sl.2) := by
  unfold tokensKept tokKnown tokInSlice
  cases refLen <;> cases p <;> simp [List.mem_filter, and_assoc]

/-- … and the kept tokens appear in the order of the source sequence. -/
theorem C10_tokens_kept_order (p : Bool) (toks : List Tok) (sl : Int × Int) (refLen : Option Nat) :
    (tokensKept p toks sl refLen).Sublist toks := by
  unfold tokensKept
  cases refLen with
  | none => exact List.filter_sublist
  | some l => exact (List.filter_sublist).trans (List.take_sublist l toks)

example : tokensKept false [(0, 0, 2), (-1, 2, 4), (1, 4, 6), (2, -1, 7), (3, 5, 8)] (3, 7) (some 5)
    = [(1, 4, 6)] := by decide
example : tokensKept true [(0, 0, 2), (-1, 2, 4), (1, 4, 6), (2, -1, 7), (3, 5, 8)] (3, 7) (some 5)
    = [(-1, 2, 4), (1, 4, 6), (3, 5, 8)] := by decide

-- non-vacuity (audit): the characterisation applied in both directions on the list above
example : ((1, 4, 6) : Tok) ∈ tokensKept false [(0, 0, 2), (-1, 2, 4), (1, 4, 6), (2, -1, 7), (3, 5, 8)] (3, 7) (some 5) :=
  (C10_tokens_kept_iff false _ (3, 7) (some 5) (1, 4, 6)).mpr (by decide)
example : ((3, 5, 8) : Tok) ∉ tokensKept false [(0, 0, 2), (-1, 2, 4), (1, 4, 6), (2, -1, 7), (3, 5, 8)] (3, 7) (some 5) :=
  fun h => absurd ((C10_tokens_kept_iff false _ (3, 7) (some 5) (3, 5, 8)).mp h) (by decide)

/-- **C10_tokens_retain_partial**: the clause "re-expresses boundaries as offsets from the slice
start" is false of the code (see the counterexample below); restricted to `retain = true` the code
returns exactly the specified chunks. -/
theorem C10_tokens_retain_partial (p : Bool) (refs : List (List Tok)) (slices : List (Int × Int))
    (refLens : Option (List Int)) (hs : slices.length = refs.length) :
    (chunkTokens p true refs slices refLens).1 =
      SlicePolicy.tokens p true refs slices (refLens.map fun l => l.map Int.toNat) := by
  rw [C10_tokens_filter p true refs slices refLens hs]
  unfold SlicePolicy.tokens tokensRow
  simp only [Option.map_map, Function.comp_def, getD_map_toNat]
  apply List.map_congr_left
  intro n _
  congr 1

example : (chunkTokens true true [[(0, 0, 2), (1, 4, 6), (3, 5, 8)], [(7, 2, 2)]] [(3, 7), (-1, 3)]
    (some [3, 1])).1 = [[(1, 4, 6), (3, 5, 8)], [(7, 2, 2)]] := by decide

example : (chunkTokens true true [[(0, 0, 2), (1, 4, 6), (3, 5, 8)], [(7, 2, 2), (8, 0, 1)]] [(3, 7), (-1, 3)]
    (some [3, 1])).1 = SlicePolicy.tokens true true [[(0, 0, 2), (1, 4, 6), (3, 5, 8)], [(7, 2, 2), (8, 0, 1)]]
      [(3, 7), (-1, 3)] (some [3, 1]) :=
  C10_tokens_retain_partial true _ _ (some [3, 1]) rfl
example : SlicePolicy.tokens true true [[(0, 0, 2), (1, 4, 6), (3, 5, 8)], [(7, 2, 2), (8, 0, 1)]] [(3, 7), (-1, 3)]
    (some [3, 1]) = [[(1, 4, 6), (3, 5, 8)], [(7, 2, 2)]] := by decide

/-- **C10_tokens_relative_counterexample**: token `(1, 4, 6)` in slice `[3, 7)`: the code returns
boundaries `(7, 9)` = in + start; slice-relative is `(1, 3)`. (Replayed on the implementation:
corpus/C10/tokens-boundaries-plus-start.json.) -/
theorem C10_tokens_relative_counterexample :
    (chunkTokens false false [[(1, 4, 6)]] [(3, 7)] none).1 = [[(1, 7, 9)]] ∧
    SlicePolicy.tokens false false [[(1, 4, 6)]] [(3, 7)] none = [[(1, 1, 3)]] := by
  decide

/-- The exact shape of the defect, for every input: with `retain = false` every returned token is
the specified (slice-relative) token with **twice the slice start added** to both boundaries, i.e.
`out_boundary = in_boundary + slice_start`. The kept tokens and their order are as specified. -/
theorem C10_tokens_plus_start (p : Bool) (refs : List (List Tok)) (slices : List (Int × Int))
    (refLens : Option (List Int)) (hs : slices.length = refs.length) :
    (chunkTokens p false refs slices refLens).1 =
      (List.range refs.length).map fun n =>
        ((SlicePolicy.tokens p false refs slices (refLens.map fun l => l.map Int.toNat)).getD n []).map
          fun tk => (tk.1, tk.2.1 + 2 * (slices.getD n (0, 0)).1, tk.2.2 + 2 * (slices.getD n (0, 0)).1) := by
  rw [C10_tokens_filter p false refs slices refLens hs]
  apply List.map_congr_left
  intro n hn
  have hn' : n < refs.length := by simpa using hn
  unfold SlicePolicy.tokens tokensRow
  simp only [List.getD_eq_getElem?_getD, List.getElem?_map, List.getElem?_range hn', Option.map_some,
    Option.getD_some, Option.map_map, Function.comp_def, List.map_map]
  have h1 : (fun (x : List Int) => (Option.map Int.toNat x[n]?).getD 0) = fun l => (l[n]?.getD 0).toNat := by
    funext x; cases x[n]? <;> simp
  rw [h1]
  apply List.map_congr_left
  intro tk _
  simp only [shiftTok, relTok, Bool.false_eq_true, if_false]
  refine Prod.ext rfl (Prod.ext ?_ ?_) <;> simp only <;> omega

-- non-vacuity (audit): two rows, one token dropped, both slices away from 0
example : (chunkTokens false false [[(1, 4, 6)], [(2, 0, 1), (3, 2, 5)]] [(3, 7), (2, 6)] none).1 =
    [[(1, 7, 9)], [(3, 4, 7)]] := by
  rw [C10_tokens_plus_start false _ _ none rfl]; decide

/-- The defect shows exactly when the slice does not start at frame 0 and something is kept. -/
theorem C10_tokens_relative_iff (start : Int) (kept : List Tok) :
    kept.map (shiftTok false start) = kept.map (relTok false start) ↔ start = 0 ∨ kept = [] := by
  constructor
  · intro h
    cases kept with
    | nil => exact Or.inr rfl
    | cons tk tks =>
      left
      simp only [List.map_cons, List.cons.injEq, shiftTok, relTok, Bool.false_eq_true, if_false,
        Prod.mk.injEq, true_and] at h
      omega
  · rintro (h | h)
    · subst h
      apply List.map_congr_left
      intro tk _
      simp [shiftTok, relTok]
    · subst h; rfl

example : ¬ ([((1 : Int), (4 : Int), (6 : Int))].map (shiftTok false 3) = [(1, 4, 6)].map (relTok false 3)) := by
  rw [C10_tokens_relative_iff]; decide

/-! ## policy 'fixed' -/

/-- **C10_fixed** (lengths given): for every padded length `T`, lobe, window type, validity and
every vector of lengths `≤ T`, the `arange` windows masked by `in_lens > mids`, flattened over the
batch, are exactly the windows the documented policy prescribes for each sequence, in order, each
labelled with its batch element. -/
theorem C10_fixed (T lobe : Nat) (wt : WinType) (vo : Bool) (lens : List Nat) (hl : ∀ l ∈ lens, l ≤ T) :
    fixedBatch lens.length T lobe wt vo (some (lens.map Int.ofNat)) = SlicePolicy.fixed lobe wt vo lens :=
  fixedBatch_given T lobe wt vo lens hl

/-- **C10_fixed** (lengths omitted): every sequence counts as having length `T`. -/
theorem C10_fixed_omitted (N T lobe : Nat) (wt : WinType) (vo : Bool) :
    fixedBatch N T lobe wt vo none = SlicePolicy.fixed lobe wt vo (List.replicate N T) :=
  fixedBatch_omitted N T lobe wt vo

/-- The bound `k ≤ len` in `SlicePolicy.fixedRow` is no restriction: no later candidate is kept. -/
theorem C10_fixed_spec_complete (lobe : Nat) (wt : WinType) (vo : Bool) (len k : Nat)
    (h : fixedKeep lobe wt vo len (fixedStart lobe wt vo k) = true) : k ≤ len :=
  Nat.le_of_lt_succ (fixedKeep_bound lobe wt vo len k h)

example : fixedBatch 1 8 2 .symmetric false none = [⟨-1, 4, 0⟩, ⟨2, 7, 0⟩, ⟨5, 10, 0⟩] := by decide
example : SlicePolicy.fixed 2 .causal false [8, 5] =
    [⟨-2, 1, 0⟩, ⟨1, 4, 0⟩, ⟨4, 7, 0⟩, ⟨-2, 1, 1⟩, ⟨1, 4, 1⟩] := by decide

-- non-vacuity (audit): the theorems applied to a batch of three lengths (one 0); valid-only drops the windows
-- [-1,4), [2,7), [5,10) that stick out and keeps [0,5), [3,8)
example : fixedBatch 3 8 2 .symmetric false (some [8, 5, 0]) =
    [⟨-1, 4, 0⟩, ⟨2, 7, 0⟩, ⟨5, 10, 0⟩, ⟨-1, 4, 1⟩, ⟨2, 7, 1⟩] :=
  (C10_fixed 8 2 .symmetric false [8, 5, 0] (by decide)).trans (by decide)
example : fixedBatch 3 8 2 .symmetric true (some [8, 5, 0]) = [⟨0, 5, 0⟩, ⟨3, 8, 0⟩, ⟨0, 5, 1⟩] :=
  (C10_fixed 8 2 .symmetric true [8, 5, 0] (by decide)).trans (by decide)
example : 1 ≤ 8 := C10_fixed_spec_complete 2 .symmetric true 8 1 (by decide)
example : 2 ≤ 8 := C10_fixed_spec_complete 2 .symmetric false 8 2 (by decide)
example : fixedKeep 2 .symmetric false 8 (fixedStart 2 .symmetric false 3) = false := by decide

/-- **C10_fixed_entry** (audit): the same through the entry point — `T ≠ 0` (for `T = 0` the function returns
nothing before looking at anything), `in_lens` of the batch's size (otherwise `Err.shape`), `other_lens` unused. -/
theorem C10_fixed_entry (N T lobe : Nat) (wt : WinType) (vo : Bool) (lens : List Nat) (otherLens : Option (List Int))
    (hN : lens.length = N) (hT : T ≠ 0) (hl : ∀ l ∈ lens, l ≤ T) :
    sliceSpectData (.feats N T) (some (lens.map Int.ofNat)) otherLens wt vo lobe =
      .ok (SlicePolicy.fixed lobe wt vo lens) := by
  subst hN
  simp only [sliceSpectData, hT, if_false, lensOk, List.length_map, beq_self_eq_true, Bool.not_true,
    Bool.false_eq_true]
  rw [fixedBatch_given T lobe wt vo lens hl]

theorem C10_fixed_entry_omitted (N T lobe : Nat) (wt : WinType) (vo : Bool) (otherLens : Option (List Int))
    (hT : T ≠ 0) :
    sliceSpectData (.feats N T) none otherLens wt vo lobe =
      .ok (SlicePolicy.fixed lobe wt vo (List.replicate N T)) := by
  simp only [sliceSpectData, hT, if_false, lensOk, Bool.not_true, Bool.false_eq_true]
  rw [fixedBatch_omitted]

example : sliceSpectData (.feats 3 8) (some [8, 5, 0]) (some [7]) .symmetric true 2 =
    .ok [⟨0, 5, 0⟩, ⟨3, 8, 0⟩, ⟨0, 5, 1⟩] :=
  (C10_fixed_entry 3 8 2 .symmetric true [8, 5, 0] (some [7]) rfl (by decide) (by decide)).trans (by decide)

/-! ## policy 'ref' -/

/-- **C10_ref**: for every batch of token rows of width `T`, with `in_lens` / `other_lens` given or
omitted (in-domain: `0 ≤ in_lens ≤ T`), the grid masks + flatten + boolean indexing of the code
return exactly the documented per-token windows of each sequence (missing `-1` boundaries, empty
segments, lobes, validity), in order, labelled with their batch element. When `other_lens` is
omitted the end of the last token of the sequence is used. -/
theorem C10_ref (T lobe : Nat) (wt : WinType) (vo : Bool) (rows : List (List Tok))
    (inLens otherLens : Option (List Int)) (hrows : ∀ r ∈ rows, r.length = T)
    (hin : ∀ l, inLens = some l → l.length = rows.length ∧ ∀ x ∈ l, 0 ≤ x ∧ x ≤ (T : Int))
    (hother : ∀ o, otherLens = some o → o.length = rows.length) :
    refBatch T lobe wt vo rows inLens otherLens =
      SlicePolicy.ref lobe wt vo rows (lensOf T rows.length inLens) (othersOf rows.length otherLens) :=
  C10_ref_aux T lobe wt vo rows inLens otherLens hrows hin hother

example : refBatch 6 2 .symmetric false
    [[(1, 0, 0), (2, 2, 3), (3, -1, 1), (4, 0, -1), (5, 3, 5), (6, 4, 4)]] (some [5]) (some [6])
    = [⟨-2, 2, 0⟩, ⟨0, 5, 0⟩, ⟨1, 7, 0⟩] := by decide
example : refBatch 2 0 .future true [[(7, 0, 2), (8, 2, 3)]] none none = [⟨0, 2, 0⟩, ⟨2, 3, 0⟩] := by
  decide

-- non-vacuity (audit): all three hypotheses together on a two-row batch (the docstring row and a second row cut by
-- `in_lens`), lengths and frame lengths given; valid-only drops four of the five windows
example : refBatch 6 2 .symmetric false
    [[(1, 0, 0), (2, 2, 3), (3, -1, 1), (4, 0, -1), (5, 3, 5), (6, 4, 4)],
     [(1, 0, 2), (2, 2, 3), (3, 9, 9), (4, 9, 9), (5, 9, 9), (6, 9, 9)]] (some [5, 2]) (some [6, 3])
    = [⟨-2, 2, 0⟩, ⟨0, 5, 0⟩, ⟨1, 7, 0⟩, ⟨-2, 4, 1⟩, ⟨0, 5, 1⟩] :=
  (C10_ref 6 2 .symmetric false _ (some [5, 2]) (some [6, 3]) (by decide)
    (by intro l h; cases h; decide) (by intro o h; cases h; decide)).trans (by decide)
example : refBatch 6 2 .symmetric true
    [[(1, 0, 0), (2, 2, 3), (3, -1, 1), (4, 0, -1), (5, 3, 5), (6, 4, 4)],
     [(1, 0, 2), (2, 2, 3), (3, 9, 9), (4, 9, 9), (5, 9, 9), (6, 9, 9)]] (some [5, 2]) (some [6, 3])
    = [⟨0, 5, 0⟩] :=
  (C10_ref 6 2 .symmetric true _ (some [5, 2]) (some [6, 3]) (by decide)
    (by intro l h; cases h; decide) (by intro o h; cases h; decide)).trans (by decide)
-- lengths omitted: the end of the last token (5) is the frame length; the window [3,6) of the last token is dropped
example : refBatch 3 1 .future true [[(7, 0, 2), (8, 2, 3), (9, 3, 5)]] none none = [⟨0, 3, 0⟩, ⟨2, 4, 0⟩] :=
  (C10_ref 3 1 .future true _ none none (by decide) (by intro l h; cases h) (by intro o h; cases h)).trans (by decide)

/-- **C10_ref_entry** (audit): the same through the entry point (`T ≠ 0`; `in_lens` / `other_lens` of the batch's
size, otherwise `Err.shape`). -/
theorem C10_ref_entry (N T lobe : Nat) (wt : WinType) (vo : Bool) (rows : List (List Tok))
    (inLens otherLens : Option (List Int)) (hN : rows.length = N) (hT : T ≠ 0)
    (hrows : ∀ r ∈ rows, r.length = T)
    (hin : ∀ l, inLens = some l → l.length = N ∧ ∀ x ∈ l, 0 ≤ x ∧ x ≤ (T : Int))
    (hother : ∀ o, otherLens = some o → o.length = N) :
    sliceSpectData (.ref N T rows) inLens otherLens wt vo lobe =
      .ok (SlicePolicy.ref lobe wt vo rows (lensOf T N inLens) (othersOf N otherLens)) := by
  subst hN
  have h1 : lensOk rows.length inLens = true := by
    cases inLens with
    | none => rfl
    | some l => simp [lensOk, (hin l rfl).1]
  have h2 : lensOk rows.length otherLens = true := by
    cases otherLens with
    | none => rfl
    | some o => simp [lensOk, hother o rfl]
  simp only [sliceSpectData, hT, if_false, h1, h2, Bool.not_true, Bool.or_self, Bool.false_eq_true]
  rw [C10_ref_aux T lobe wt vo rows inLens otherLens hrows hin hother]

example : sliceSpectData (.ref 1 3 [[(7, 0, 2), (8, 2, 3), (9, 3, 5)]]) (some [2]) none .future true 1 =
    .ok [⟨0, 3, 0⟩] :=
  (C10_ref_entry 1 3 1 .future true _ (some [2]) none rfl (by decide) (by decide)
    (by intro l h; cases h; decide) (by intro o h; cases h)).trans (by decide)

/-! ## valid-only windows lie inside their sequence -/

/-- **C10_valid_inside** ('fixed', lengths given): `0 ≤ start < end ≤ in_lens[src]`. -/
theorem C10_valid_inside_fixed (T lobe : Nat) (wt : WinType) (lens : List Nat) (hl : ∀ l ∈ lens, l ≤ T)
    (w : Win) (hw : w ∈ fixedBatch lens.length T lobe wt true (some (lens.map Int.ofNat))) :
    w.src < lens.length ∧ Inside w (lens.getD w.src 0) := by
  rw [C10_fixed T lobe wt true lens hl] at hw
  exact fixed_spec_inside lobe wt lens w hw

/-- **C10_valid_inside** ('fixed', lengths omitted): `0 ≤ start < end ≤ T`. -/
theorem C10_valid_inside_fixed_omitted (N T lobe : Nat) (wt : WinType) (w : Win)
    (hw : w ∈ fixedBatch N T lobe wt true none) : w.src < N ∧ Inside w T := by
  rw [C10_fixed_omitted] at hw
  have := fixed_spec_inside lobe wt _ w hw
  simp only [List.length_replicate] at this
  refine ⟨this.1, ?_⟩
  have h2 := this.2
  simp only [List.getD_eq_getElem?_getD, List.getElem?_replicate, this.1, if_true, Option.getD_some] at h2
  exact h2

/-- **C10_valid_inside** ('ref'): `0 ≤ start < end ≤ other_lens[src]` (the given frame length, or
the end of the sequence's last token when `other_lens` is omitted). -/
theorem C10_valid_inside_ref (T lobe : Nat) (wt : WinType) (rows : List (List Tok))
    (inLens otherLens : Option (List Int)) (hrows : ∀ r ∈ rows, r.length = T)
    (hin : ∀ l, inLens = some l → l.length = rows.length ∧ ∀ x ∈ l, 0 ≤ x ∧ x ≤ (T : Int))
    (hother : ∀ o, otherLens = some o → o.length = rows.length)
    (w : Win) (hw : w ∈ refBatch T lobe wt true rows inLens otherLens) :
    w.src < rows.length ∧
      Inside w (((othersOf rows.length otherLens).getD w.src none).getD
        (refOther (rows.getD w.src []) ((lensOf T rows.length inLens).getD w.src 0))) := by
  rw [C10_ref T lobe wt true rows inLens otherLens hrows hin hother] at hw
  exact ref_spec_inside lobe wt rows _ _ w hw

-- non-vacuity (audit): a window that exists (all hypotheses, incl. membership, hold together), and a window the
-- non-valid policy returns that is NOT inside and that valid-only drops
example : Inside ⟨3, 8, 0⟩ 8 :=
  (C10_valid_inside_fixed 8 2 .symmetric [8, 5] (by decide) ⟨3, 8, 0⟩ (by decide)).2
example : (⟨5, 10, 0⟩ : Win) ∈ fixedBatch 2 8 2 .symmetric false (some [8, 5]) ∧ ¬ Inside ⟨5, 10, 0⟩ 8 ∧
    (⟨5, 10, 0⟩ : Win) ∉ fixedBatch 2 8 2 .symmetric true (some [8, 5]) := by decide
example : Inside ⟨3, 6, 1⟩ 8 := (C10_valid_inside_fixed_omitted 2 8 2 .causal ⟨3, 6, 1⟩ (by decide)).2
example : Inside ⟨0, 5, 0⟩ 6 :=
  (C10_valid_inside_ref 6 2 .symmetric
    [[(1, 0, 0), (2, 2, 3), (3, -1, 1), (4, 0, -1), (5, 3, 5), (6, 4, 4)],
     [(1, 0, 2), (2, 2, 3), (3, 9, 9), (4, 9, 9), (5, 9, 9), (6, 9, 9)]] (some [5, 2]) (some [6, 3]) (by decide)
    (by intro l h; cases h; decide) (by intro o h; cases h; decide) ⟨0, 5, 0⟩ (by decide)).2
example : Inside ⟨2, 4, 0⟩ 5 :=
  (C10_valid_inside_ref 3 1 .future [[(7, 0, 2), (8, 2, 3), (9, 3, 5)]] none none (by decide)
    (by intro l h; cases h) (by intro o h; cases h) ⟨2, 4, 0⟩ (by decide)).2

/-! ## policy 'ali' -/

/-- **C10_ali**: for every batch of alignment rows of width `T`, with `in_lens` given (in-domain:
`0 ≤ in_lens ≤ T`) or omitted, every lobe size, window type and BOTH validity settings, the code
path — neighbour mask, the two `nonzero` calls on `cat([nonempty, mask])` and
`cat([0, mask, 0]) | (nonempty & in_lens == arange)` over the whole batch, then either the two
shifted views `[: NN - offs]` / `[offs :]` with the `is_same` mask (valid-only) or the `start_idx` /
`end_idx` vectors updated `lobe_size` times and gathered with Python index semantics (not
valid-only) — returns exactly the windows of the documented policy: for each sequence, in batch
order, window `m` runs from the start of run `m - lobe` to the end of run `m + lobe` of the first
`in_lens` labels (dropped, resp. clipped to the first / last run, when such a run does not exist),
labelled with its batch element. -/
theorem C10_ali (T lobe : Nat) (wt : WinType) (vo : Bool) (rows : List (List Int))
    (inLens : Option (List Int)) (hrows : ∀ r ∈ rows, r.length = T)
    (hin : ∀ l, inLens = some l → l.length = rows.length ∧ ∀ x ∈ l, 0 ≤ x ∧ x ≤ (T : Int)) :
    aliBatch T lobe wt vo rows inLens = SlicePolicy.ali lobe wt vo rows (lensOf T rows.length inLens) :=
  aliBatch_eq T lobe wt vo rows inLens hrows (fun l hl => (hin l hl).2)

/-- The same through the entry point (`T = 0` returns nothing before anything is looked at). -/
theorem C10_ali_entry (N T lobe : Nat) (wt : WinType) (vo : Bool) (rows : List (List Int))
    (inLens otherLens : Option (List Int)) (hN : rows.length = N) (hT : T ≠ 0)
    (hrows : ∀ r ∈ rows, r.length = T)
    (hin : ∀ l, inLens = some l → l.length = N ∧ ∀ x ∈ l, 0 ≤ x ∧ x ≤ (T : Int)) :
    sliceSpectData (.ali N T rows) inLens otherLens wt vo lobe =
      .ok (SlicePolicy.ali lobe wt vo rows (lensOf T N inLens)) :=
  sliceSpectData_ali_eq N T lobe wt vo rows inLens otherLens hN hT hrows hin

/-- **C10_order_source** for `'ali'`: the returned sources are non-decreasing (sequences in batch
order) and the windows labelled `n` are exactly the policy's windows of sequence `n`, in order. -/
theorem C10_order_source_ali (T lobe : Nat) (wt : WinType) (vo : Bool) (rows : List (List Int))
    (inLens : Option (List Int)) (hrows : ∀ r ∈ rows, r.length = T)
    (hin : ∀ l, inLens = some l → l.length = rows.length ∧ ∀ x ∈ l, 0 ≤ x ∧ x ≤ (T : Int)) :
    ((aliBatch T lobe wt vo rows inLens).map (·.src)).Pairwise (· ≤ ·) ∧
    ∀ n, n < rows.length →
      (aliBatch T lobe wt vo rows inLens).filter (fun w => w.src == n) =
        (aliRow lobe wt vo (rows.getD n []) ((lensOf T rows.length inLens).getD n 0)).map
          fun w => ⟨w.1, w.2, n⟩ := by
  rw [C10_ali T lobe wt vo rows inLens hrows hin]
  unfold SlicePolicy.ali
  rw [labelRows_eq_labelFrom]
  refine ⟨labelFrom_sorted 0 _, ?_⟩
  intro n hn
  have hlen : (lensOf T rows.length inLens).length = rows.length := by
    cases inLens with
    | none => simp [lensOf]
    | some l => simp [lensOf, (hin l rfl).1]
  have hn2 : n < (lensOf T rows.length inLens).length := by omega
  have := labelFrom_filter 0 (List.zipWith (aliRow lobe wt vo) rows (lensOf T rows.length inLens)) n
    (by simp; omega)
  simp only [Nat.zero_add] at this
  rw [this]
  simp [List.getD_eq_getElem?_getD, List.getElem?_zipWith, List.getElem?_eq_getElem hn,
    List.getElem?_eq_getElem hn2]

example : SlicePolicy.ali 1 .symmetric false [[1, 1, 2, 5], [3, 3, 3, 4]] [4, 3] =
    [⟨0, 3, 0⟩, ⟨0, 4, 0⟩, ⟨2, 4, 0⟩, ⟨0, 3, 1⟩] := by decide
example : aliBatch 4 1 .symmetric false [[1, 1, 2, 5], [3, 3, 3, 4]] (some [4, 3]) =
    [⟨0, 3, 0⟩, ⟨0, 4, 0⟩, ⟨2, 4, 0⟩, ⟨0, 3, 1⟩] := by decide

-- non-vacuity (audit): the theorems applied, all hypotheses together, to a two-row batch with lengths [4, 3]
-- (row 1 loses its last run); valid-only keeps one window of four
example : aliBatch 4 1 .symmetric false [[1, 1, 2, 5], [3, 3, 3, 4]] (some [4, 3]) =
    [⟨0, 3, 0⟩, ⟨0, 4, 0⟩, ⟨2, 4, 0⟩, ⟨0, 3, 1⟩] :=
  (C10_ali 4 1 .symmetric false _ (some [4, 3]) (by decide) (by intro l h; cases h; decide)).trans (by decide)
example : aliBatch 4 1 .symmetric true [[1, 1, 2, 5], [3, 3, 3, 4]] (some [4, 3]) = [⟨0, 4, 0⟩] :=
  (C10_ali 4 1 .symmetric true _ (some [4, 3]) (by decide) (by intro l h; cases h; decide)).trans (by decide)
example : sliceSpectData (.ali 2 4 [[1, 1, 2, 5], [3, 3, 3, 4]]) (some [4, 3]) none .causal false 2 =
    .ok [⟨0, 2, 0⟩, ⟨0, 3, 0⟩, ⟨0, 4, 0⟩, ⟨0, 3, 1⟩] :=
  (C10_ali_entry 2 4 2 .causal false _ (some [4, 3]) none rfl (by decide) (by decide)
    (by intro l h; cases h; decide)).trans (by decide)
example : (aliBatch 4 1 .symmetric false [[1, 1, 2, 5], [3, 3, 3, 4]] (some [4, 3])).filter (fun w => w.src == 1) =
    [⟨0, 3, 1⟩] :=
  ((C10_order_source_ali 4 1 .symmetric false _ (some [4, 3]) (by decide) (by intro l h; cases h; decide)).2 1
    (by decide)).trans (by decide)

/-- **C10_ali_gather_in_range** (audit; totalisation): the model's gather `pyGet` wraps a negative index the way
Python does and reads `0` beyond the end, where torch raises `IndexError`. Neither ever happens: after any number
of passes over ANY `sources` vector every `start_idx` / `end_idx` entry lies in `[0, NN)` — so `C10_ali` does not
hold thanks to a default. -/
theorem C10_ali_gather_in_range (lobe : Nat) (wt : WinType) (sources : List Nat) :
    let idx0 : List Int := (List.range sources.length).map Int.ofNat
    let fin := (List.range lobe).foldl (fun st k => lobeStep wt sources sources.length st (k + 1)) (idx0, idx0)
    (∀ i ∈ fin.1, 0 ≤ i ∧ i < (sources.length : Int)) ∧ (∀ i ∈ fin.2, 0 ≤ i ∧ i < (sources.length : Int)) :=
  loopK_in_range wt sources lobe

/-- **C10_ali_runs_same_count** (audit; totalisation): `mkWins` (the model of `torch.stack([starts, ends], 1)`)
truncates to the shorter list where torch raises. For in-domain lengths the two `nonzero` calls return the same
number of rows, so nothing is truncated. (With `in_lens > T` the code finds no end for the last run and raises;
that is outside the theorems' domain and outside the documented one.) -/
theorem C10_ali_runs_same_count (T : Nat) (rows : List (List Int)) (inLens : Option (List Int))
    (hrows : ∀ r ∈ rows, r.length = T)
    (hin : ∀ l, inLens = some l → l.length = rows.length ∧ ∀ x ∈ l, 0 ≤ x ∧ x ≤ (T : Int)) :
    let masks := List.zipWith (fun row len => aliMasks T row len) rows (lensOpt rows.length inLens)
    (nonzero2From 0 (masks.map (·.1))).length = (nonzero2From 0 (masks.map (·.2))).length :=
  aliBatch_same_count T rows inLens hrows (fun l hl => (hin l hl).2)

example := C10_ali_runs_same_count 4 [[1, 1, 2, 5], [3, 3, 3, 4]] (some [4, 3]) (by decide)
  (by intro l h; cases h; decide)

/-- **C10_valid_inside** ('ali'), unconditional: every valid-only window of the whole branch lies
inside its sequence, `0 ≤ start < end ≤ in_lens[src]` (`T` when lengths are omitted). -/
theorem C10_valid_inside_ali (T lobe : Nat) (wt : WinType) (rows : List (List Int))
    (inLens : Option (List Int)) (hrows : ∀ r ∈ rows, r.length = T)
    (hin : ∀ l, inLens = some l → l.length = rows.length ∧ ∀ x ∈ l, 0 ≤ x ∧ x ≤ (T : Int))
    (w : Win) (hw : w ∈ aliBatch T lobe wt true rows inLens) :
    w.src < rows.length ∧ Inside w ((lensOf T rows.length inLens).getD w.src 0 : Nat) := by
  rw [C10_ali T lobe wt true rows inLens hrows hin] at hw
  obtain ⟨h1, _, h3⟩ := ali_spec_inside lobe wt rows _ w hw
  refine ⟨h1, ?_⟩
  unfold Inside at h3 ⊢
  omega

example : Inside ⟨0, 4, 0⟩ 4 :=
  (C10_valid_inside_ali 4 1 .symmetric [[1, 1, 2, 5], [3, 3, 3, 4]] (some [4, 3]) (by decide)
    (by intro l h; cases h; decide) ⟨0, 4, 0⟩ (by decide)).2

/-- **C10_ali_runs_wf**: the missing half of `C10_valid_inside_ali_partial` — the run lists the two
`nonzero` calls return for a batch (sources, starts, ends) satisfy `RunsWf`: run `i` starts before
run `j ≥ i` of the same sequence ends, and no run ends beyond `in_lens` of its sequence. -/
theorem C10_ali_runs_wf (T : Nat) (rows : List (List Int)) (inLens : Option (List Int))
    (hrows : ∀ r ∈ rows, r.length = T)
    (hin : ∀ l, inLens = some l → l.length = rows.length ∧ ∀ x ∈ l, 0 ≤ x ∧ x ≤ (T : Int)) :
    let masks := List.zipWith (fun row len => aliMasks T row len) rows (lensOpt rows.length inLens)
    RunsWf (fun n => (((lensOf T rows.length inLens).getD n 0 : Nat) : Int))
      ((nonzero2From 0 (masks.map (·.1))).map (·.1)) ((nonzero2From 0 (masks.map (·.1))).map (·.2))
      ((nonzero2From 0 (masks.map (·.2))).map (·.2)) :=
  aliBatch_runsWf T rows inLens hrows (fun l hl => (hin l hl).2)

example := C10_ali_runs_wf 4 [[1, 1, 2, 5], [3, 3, 3, 4]] (some [4, 3]) (by decide) (by intro l h; cases h; decide)

/-- **C10_valid_inside_ali_partial** (kept: the statement about the index arithmetic alone; its
hypothesis is discharged for the code's run lists by `C10_ali_runs_wf`, and `C10_valid_inside_ali`
is the unconditional clause): the lobe index arithmetic on the batch-flattened run lists
(the two shifted views `[: NN - offs]`, `[offs :]` and the `is_same` mask, for every lobe, window
type and batch) only produces windows inside their sequence, *provided* the run lists are
well-formed (`RunsWf`). -/
theorem C10_valid_inside_ali_partial (len : Nat → Int) (lobe : Nat) (wt : WinType)
    (sources starts ends : List Nat) (hwf : RunsWf len sources starts ends) (w : Win)
    (hw : w ∈ aliLobe lobe wt true sources starts ends) : Inside w (len w.src) :=
  aliLobe_valid_inside len lobe wt sources starts ends hwf w hw

/-- The hypothesis is satisfiable: runs `[0,2)`, `[2,3)` of one sequence of length 3. -/
theorem C10_runsWf_instance : RunsWf (fun _ => 3) [0, 0] [0, 2] [2, 3] := by
  intro i j n a b hij h1 h2 h3 h4
  show (a : Int) < b ∧ (b : Int) ≤ 3
  match i, j with
  | 0, 0 => simp at h3 h4; omega
  | 0, 1 => simp at h3 h4; omega
  | 1, 1 => simp at h3 h4; omega
  | 1, 0 => omega
  | _ + 2, _ => simp at h1
  | 0, _ + 2 => simp at h2
  | 1, _ + 2 => simp at h2

/-- Both hypotheses together (audit): the causal lobe-1 window of run 1 of that sequence. -/
example : Inside ⟨0, 3, 0⟩ 3 :=
  C10_valid_inside_ali_partial (fun _ => 3) 1 .causal [0, 0] [0, 2] [2, 3] C10_runsWf_instance ⟨0, 3, 0⟩ (by decide)

/-- The docstring example `[1]*4 + [2]*3 + [1] + [5]*2`: its run lists (computed by the model) and
the windows for lobe 1. -/
example : aliBatch 10 1 .symmetric true [[1, 1, 1, 1, 2, 2, 2, 1, 5, 5]] none = [⟨0, 8, 0⟩, ⟨4, 10, 0⟩] := by
  decide
example : aliBatch 10 1 .causal false [[1, 1, 1, 1, 2, 2, 2, 1, 5, 5]] none =
    [⟨0, 4, 0⟩, ⟨0, 7, 0⟩, ⟨4, 8, 0⟩, ⟨7, 10, 0⟩] := by decide
example : SlicePolicy.ali 1 .future false [[1, 1, 1, 1, 2, 2, 2, 1, 5, 5]] [10] =
    [⟨0, 7, 0⟩, ⟨4, 8, 0⟩, ⟨7, 10, 0⟩, ⟨8, 10, 0⟩] := by decide

/-! ## the consequence clause: chunking a data directory, utterance by utterance

`dirChunks` is the model of `_chunk_torch_spect_data_dir_do_work` (slicer on the unsqueezed
utterance, then the token chunker on the utterance's tokens expanded against its `M` slices; chunk
`n` is written under slice `n`'s name). `dirSpec` is the specification: one chunk per window the
policy prescribes, holding the utterance's tokens restricted to that window. Features and
alignments go through `ChunkBySlices` (property C09) and are checked at directory level only. -/

/-- **C10_dir**: for every well-formed, non-empty utterance, policy, window type, validity, lobe
and token options, the worker writes exactly one chunk per window the policy prescribes for the
utterance taken alone, in the policy's order, and the tokens of the chunk are the utterance's
tokens with known segments contained in (overlapping, if `partial`) the window, in order, each
passed through the code's `shiftTok`. -/
theorem C10_dir (policy : Policy) (wt : WinType) (vo : Bool) (lobe : Nat) (p retain : Bool) (u : Utt)
    (hali : u.ali.length = u.T) (hne : if policy = .ref then u.ref ≠ [] else u.T ≠ 0) :
    dirChunks policy wt vo lobe p retain u =
      .ok ((dirWindows policy lobe wt vo u).map fun w =>
        (w, (tokensKept p u.ref (w.start, w.stop) none).map (shiftTok retain w.start))) :=
  dirChunks_eq policy wt vo lobe p retain u hali hne

/-- An utterance without frames (without tokens, for `'ref'`) yields no chunk. -/
theorem C10_dir_empty (policy : Policy) (wt : WinType) (vo : Bool) (lobe : Nat) (p retain : Bool) (u : Utt)
    (he : if policy = .ref then u.ref = [] else u.T = 0) :
    dirChunks policy wt vo lobe p retain u = .ok [] :=
  dirChunks_empty policy wt vo lobe p retain u he

/-- **C10_dir_retain_partial**: with `--retain-token-boundaries` every written chunk is exactly
the specified one — the source restricted to its window. (The restriction `retain = true` is
forced by the known finding below.) -/
theorem C10_dir_retain_partial (policy : Policy) (wt : WinType) (vo : Bool) (lobe : Nat) (p : Bool) (u : Utt)
    (hali : u.ali.length = u.T) (hne : if policy = .ref then u.ref ≠ [] else u.T ≠ 0) :
    dirChunks policy wt vo lobe p true u = .ok (dirSpec policy lobe wt vo p true u) := by
  rw [C10_dir policy wt vo lobe p true u hali hne]
  unfold dirSpec tokensRow
  congr 1

/-- **C10_dir_plus_start**: without `--retain-token-boundaries` the windows, the kept tokens and
their order are as specified, but every boundary is `in + start` instead of `in - start`: the
written chunk is the specified chunk with `2·start` added to both boundaries (the known finding
`C10.tokens.boundaries_plus_start` at directory level) … -/
theorem C10_dir_plus_start (policy : Policy) (wt : WinType) (vo : Bool) (lobe : Nat) (p : Bool) (u : Utt)
    (hali : u.ali.length = u.T) (hne : if policy = .ref then u.ref ≠ [] else u.T ≠ 0) :
    dirChunks policy wt vo lobe p false u =
      .ok ((dirSpec policy lobe wt vo p false u).map fun c =>
        (c.1, c.2.map fun tk => (tk.1, tk.2.1 + 2 * c.1.start, tk.2.2 + 2 * c.1.start))) := by
  rw [C10_dir policy wt vo lobe p false u hali hne]
  unfold dirSpec tokensRow
  simp only [List.map_map, Function.comp_def]
  congr 1
  apply List.map_congr_left
  intro w _
  congr 1
  apply List.map_congr_left
  intro tk _
  simp only [shiftTok, relTok, Bool.false_eq_true, if_false]
  refine Prod.ext rfl (Prod.ext ?_ ?_) <;> simp only <;> omega

/-- … so a chunk is as specified exactly when its window starts at frame 0 or it holds no token
(`C10_tokens_relative_iff`); in particular the whole chunked utterance is as specified when every
window starts at 0. -/
theorem C10_dir_relative_iff (policy : Policy) (wt : WinType) (vo : Bool) (lobe : Nat) (p : Bool) (u : Utt)
    (hali : u.ali.length = u.T) (hne : if policy = .ref then u.ref ≠ [] else u.T ≠ 0) :
    dirChunks policy wt vo lobe p false u = .ok (dirSpec policy lobe wt vo p false u) ↔
      ∀ w ∈ dirWindows policy lobe wt vo u, w.start = 0 ∨ tokensKept p u.ref (w.start, w.stop) none = [] := by
  rw [C10_dir policy wt vo lobe p false u hali hne]
  unfold dirSpec tokensRow
  constructor
  · intro h w hw
    have h' := Except.ok.inj h
    have := List.map_inj_left.mp h' w hw
    simp only [Prod.mk.injEq, true_and] at this
    exact (C10_tokens_relative_iff w.start _).mp this
  · intro h
    congr 1
    apply List.map_congr_left
    intro w hw
    rw [(C10_tokens_relative_iff w.start _).mpr (h w hw)]

/-- Valid-only (no `--pad-mode`): every written chunk's window lies inside the utterance —
`0 ≤ start < end ≤ T` for `'fixed'` and `'ali'`, `≤` the end of the last token for `'ref'`. -/
theorem C10_dir_valid_inside (policy : Policy) (wt : WinType) (lobe : Nat) (u : Utt) (hali : u.ali.length = u.T)
    (w : Win) (hw : w ∈ dirWindows policy lobe wt true u) :
    Inside w (match policy with
      | .ref => refOther u.ref u.ref.length
      | _ => (u.T : Int)) := by
  cases policy
  · have := fixed_spec_inside lobe wt [u.T] w hw
    have h0 : w.src = 0 := by have := this.1; simp at this; omega
    have h2 := this.2
    rw [h0] at h2
    simpa using h2
  · obtain ⟨h1, _, h3⟩ := ali_spec_inside lobe wt [u.ali] [u.T] w hw
    have h0 : w.src = 0 := by simp at h1; omega
    rw [h0] at h3
    simp only [List.getD_cons_zero, hali, Nat.min_self] at h3
    exact h3
  · have := ref_spec_inside lobe wt [u.ref] [u.ref.length] [none] w hw
    have h0 : w.src = 0 := by have := this.1; simp at this; omega
    have h2 := this.2
    rw [h0] at h2
    simpa using h2

example : dirChunks .fixed .causal true 2 false true ⟨6, [0, 0, 1, 1, 1, 2], [(7, 0, 2), (8, 2, 5), (9, 5, 6)]⟩ =
    .ok [(⟨0, 3, 0⟩, [(7, 0, 2)]), (⟨3, 6, 0⟩, [(9, 5, 6)])] := by rfl
example : dirChunks .ali .symmetric false 0 true false ⟨6, [0, 0, 1, 1, 1, 2], [(7, 0, 2), (8, 2, 5), (9, 5, 6)]⟩ =
    .ok [(⟨0, 2, 0⟩, [(7, 0, 2)]), (⟨2, 5, 0⟩, [(8, 4, 7)]), (⟨5, 6, 0⟩, [(9, 10, 11)])] := by rfl
example : dirSpec .ali 0 .symmetric false true false ⟨6, [0, 0, 1, 1, 1, 2], [(7, 0, 2), (8, 2, 5), (9, 5, 6)]⟩ =
    [(⟨0, 2, 0⟩, [(7, 0, 2)]), (⟨2, 5, 0⟩, [(8, 0, 3)]), (⟨5, 6, 0⟩, [(9, 0, 1)])] := by decide

/-! ### non-vacuity of the `C10_dir*` theorems (audit): every theorem applied with all its hypotheses to one
utterance of 6 frames, three runs, three tokens; windows away from 0, tokens dropped / partially overlapping -/

/-- The utterance of the instances below. -/
def uEx : Utt := ⟨6, [0, 0, 1, 1, 1, 2], [(7, 0, 2), (8, 2, 5), (9, 5, 6)]⟩

example : dirChunks .fixed .symmetric false 1 true false uEx =
    .ok [(⟨0, 3, 0⟩, [(7, 0, 2), (8, 2, 5)]), (⟨2, 5, 0⟩, [(8, 4, 7)]), (⟨4, 7, 0⟩, [(8, 6, 9), (9, 9, 10)])] :=
  (C10_dir .fixed .symmetric false 1 true false uEx rfl (by decide)).trans (by decide)
example : dirChunks .ali .causal true 1 false true uEx =
    .ok [(⟨0, 5, 0⟩, [(7, 0, 2), (8, 2, 5)]), (⟨2, 6, 0⟩, [(8, 2, 5), (9, 5, 6)])] :=
  (C10_dir .ali .causal true 1 false true uEx rfl (by decide)).trans (by decide)
example : dirChunks .ref .future true 1 false false uEx =
    .ok [(⟨0, 3, 0⟩, [(7, 0, 2)]), (⟨2, 6, 0⟩, [(8, 4, 7), (9, 7, 8)])] :=
  (C10_dir .ref .future true 1 false false uEx rfl (by decide)).trans (by decide)
example : dirChunks .ali .symmetric false 2 true false ⟨0, [], [(7, 0, 2)]⟩ = .ok [] :=
  C10_dir_empty .ali .symmetric false 2 true false _ (by decide)
example : dirChunks .ref .symmetric false 2 true false ⟨3, [1, 1, 2], []⟩ = .ok [] :=
  C10_dir_empty .ref .symmetric false 2 true false _ (by decide)
example : dirChunks .ali .causal true 1 false true uEx = .ok (dirSpec .ali 1 .causal true false true uEx) :=
  C10_dir_retain_partial .ali .causal true 1 false uEx rfl (by decide)
example : dirChunks .ref .future true 1 false false uEx =
    .ok [(⟨0, 3, 0⟩, [(7, 0, 2)]), (⟨2, 6, 0⟩, [(8, 0 + 2 * 2, 3 + 2 * 2), (9, 3 + 2 * 2, 4 + 2 * 2)])] :=
  (C10_dir_plus_start .ref .future true 1 false uEx rfl (by decide)).trans (by decide)
-- the window [2,6) holds tokens and does not start at 0: the written chunk is NOT the specified one …
example : dirChunks .ref .future true 1 false false uEx ≠ .ok (dirSpec .ref 1 .future true false false uEx) := by
  rw [Ne, C10_dir_relative_iff .ref .future true 1 false uEx rfl (by decide)]; decide
-- … one run, one window starting at 0: as specified
example : dirChunks .ali .symmetric true 0 false false ⟨3, [4, 4, 4], [(7, 0, 2), (8, 2, 3)]⟩ =
    .ok (dirSpec .ali 0 .symmetric true false false ⟨3, [4, 4, 4], [(7, 0, 2), (8, 2, 3)]⟩) := by
  rw [C10_dir_relative_iff .ali .symmetric true 0 false _ rfl (by decide)]; decide
example : Inside ⟨2, 6, 0⟩ 6 := C10_dir_valid_inside .ref .future 1 uEx rfl ⟨2, 6, 0⟩ (by decide)
example : Inside ⟨0, 5, 0⟩ 6 := C10_dir_valid_inside .ali .causal 1 uEx rfl ⟨0, 5, 0⟩ (by decide)
-- valid-only drops the first run's window (no run to its left); the non-valid policy keeps it, clipped
example : dirWindows .ali 1 .causal true uEx = [⟨0, 5, 0⟩, ⟨2, 6, 0⟩] ∧
    dirWindows .ali 1 .causal false uEx = [⟨0, 2, 0⟩, ⟨0, 5, 0⟩, ⟨2, 6, 0⟩] := by decide

/-! ## the consequence clause, continued: features, alignments, file names, the files written

`dirWorker` (`Model/SlicingDir.lean`) is the whole of `_chunk_torch_spect_data_dir_do_work`: the slicer,
`format_utt.format(...)`, `ChunkBySlices` on `feats.expand(M, …)` and `alis.expand(M, …)` (C09's model
`PadChunk.chunkBySlicesT`, composed here with C09's theorems `C09_chunk` / `C09_chunk_reflect`), the token
chunker, the `assert` on the two length vectors, and the `torch.save` calls in order. -/

/-- **C10_dir_frames**: for every utterance `xs` (features, or the per-frame alignment), padding mode
(constant, replicate, reflect), pad value and list of windows the chunker accepts (`WinLegal`: any window
for constant padding, a non-empty utterance for replicate, less padding than frames for reflect),
`ChunkBySlices` on the utterance expanded against its `M` windows reports the lengths `end - start` and
row `n` cut at its length is the utterance restricted to window `n` — C09's pad-then-slice `chunkSeq`:
frame `start + i` of the utterance at position `i`, the requested padding outside `[0, T)`. -/
theorem C10_dir_frames {β} (mode : Mode) (value : β) (xs : List β) (ws : List Win)
    (hlegal : ∀ w ∈ ws, WinLegal mode xs.length w) :
    ∃ out, expandChunk mode value xs ws = .ok (out, ws.map fun w => chunkLen w.start w.stop) ∧
      cutRows out (ws.map fun w => chunkLen w.start w.stop)
        = ws.map fun w => chunkSeq mode value xs w.start w.stop :=
  expandChunk_spec mode value xs ws hlegal

/-- **C10_dir_frames_valid**: without `--pad-mode` every window the policy prescribes is accepted by the
chunker in every mode and the chunk is the plain slice `xs[start:end]` — no pad value enters. For `'ref'`
the utterance must be at least as long as the end of its last token (a well-formed directory). -/
theorem C10_dir_frames_valid {β} (policy : Policy) (wt : WinType) (lobe : Nat) (u : Utt)
    (hali : u.ali.length = u.T) (hpol : policy = .ref → refOther u.ref u.ref.length ≤ (u.T : Int))
    (mode : Mode) (value : β) (xs : List β) (hx : xs.length = u.T)
    (w : Win) (hw : w ∈ dirWindows policy lobe wt true u) :
    WinLegal mode xs.length w ∧
      chunkSeq mode value xs w.start w.stop = (xs.take w.stop.toNat).drop w.start.toNat := by
  have hin : Inside w (u.T : Int) := by
    have := C10_dir_valid_inside policy wt lobe u hali w hw
    cases policy
    · exact this
    · exact this
    · obtain ⟨h0, h1, h2⟩ := this
      exact ⟨h0, h1, Int.le_trans h2 (hpol rfl)⟩
  rw [← hx] at hin
  exact ⟨winLegal_inside mode xs.length w hin,
    chunkSeq_inside mode value xs w.start w.stop hin.1 (Int.le_of_lt hin.2.1) hin.2.2⟩

-- non-vacuity (audit): reflect and constant padding actually happening, on both sides
example : ∃ out, expandChunk .reflect (-1 : Int) [10, 11, 12, 13] [⟨2, 5, 0⟩, ⟨-1, 2, 0⟩] = .ok (out, [3, 3]) ∧
    cutRows out [3, 3] = [[12, 13, 12], [11, 10, 11]] :=
  C10_dir_frames .reflect (-1 : Int) [10, 11, 12, 13] [⟨2, 5, 0⟩, ⟨-1, 2, 0⟩] (by decide)
example : ∃ out, expandChunk .constant (-1 : Int) [10, 11, 12, 13] [⟨2, 6, 0⟩, ⟨-2, 1, 0⟩] = .ok (out, [4, 3]) ∧
    cutRows out [4, 3] = [[12, 13, -1, -1], [-1, -1, 10]] :=
  C10_dir_frames .constant (-1 : Int) [10, 11, 12, 13] [⟨2, 6, 0⟩, ⟨-2, 1, 0⟩] (by decide)
example : WinLegal .reflect 6 ⟨2, 6, 0⟩ ∧
    chunkSeq .reflect (-1 : Int) [10, 11, 12, 13, 14, 15] 2 6 = [12, 13, 14, 15] := by
  have := C10_dir_frames_valid .ref .future 1 uEx rfl (by decide) .reflect (-1 : Int) [10, 11, 12, 13, 14, 15] rfl
    ⟨2, 6, 0⟩ (by decide)
  exact ⟨this.1, this.2.trans (by decide)⟩

/-- **C10_dir_worker**: everything the worker writes for one utterance. For every policy, window type,
lobe, `--pad-mode` (or none), pad constant, token options, name format, prefix and suffix: one write per
window the policy prescribes for the utterance alone, in order; write `n` is named
`prefix + format_utt.format(utt_id, idx=n, start, end) + suffix` and holds the features and the alignment
restricted to the window with the requested padding (`chunkSeq`) and the tokens kept for the window
(`tokensKept`, passed through the code's `shiftTok`). Hypotheses: the data the policy reads exists, an
alignment has one label per frame, the utterance is non-empty, the chunker accepts the windows. -/
theorem C10_dir_worker {α} (fmt : Fmt) (pre suf utt : List Char) (policy : Policy) (wt : WinType) (lobe : Nat)
    (padMode : Option Mode) (padConst : α) (padConstAli : Int) (p retain : Bool) (s : Source α)
    (hhave : (policy = .ali → s.ali.isSome) ∧ (policy = .ref → s.ref.isSome))
    (hali : ∀ a, s.ali = some a → a.length = s.frames.length)
    (hne : if policy = .ref then s.utt.ref ≠ [] else s.frames ≠ [])
    (hlegal : ∀ w ∈ dirWindows policy lobe wt padMode.isNone s.utt,
      WinLegal (padMode.getD .constant) s.frames.length w) :
    dirWorker fmt pre suf utt policy wt lobe padMode padConst padConstAli p retain s =
      .ok ((dirWindows policy lobe wt padMode.isNone s.utt).zipIdx.map fun q =>
        writtenOf fmt pre suf utt (padMode.getD .constant) padConst padConstAli p retain s q.2 q.1) := by
  rw [dirWorker_eq fmt pre suf utt policy wt lobe padMode padConst padConstAli p retain s hhave hali hne hlegal,
    range_map_getD_eq_zipIdx]

/-- `--pad-mode constant` accepts every window; `--pad-mode replicate` every window of a non-empty
utterance: `C10_dir_worker` without a side condition on the windows. -/
theorem C10_dir_worker_padded {α} (fmt : Fmt) (pre suf utt : List Char) (policy : Policy) (wt : WinType)
    (lobe : Nat) (mode : Mode) (padConst : α) (padConstAli : Int) (p retain : Bool) (s : Source α)
    (hmode : mode = .constant ∨ (mode = .replicate ∧ s.frames ≠ []))
    (hhave : (policy = .ali → s.ali.isSome) ∧ (policy = .ref → s.ref.isSome))
    (hali : ∀ a, s.ali = some a → a.length = s.frames.length)
    (hne : if policy = .ref then s.utt.ref ≠ [] else s.frames ≠ []) :
    dirWorker fmt pre suf utt policy wt lobe (some mode) padConst padConstAli p retain s =
      .ok ((dirWindows policy lobe wt false s.utt).zipIdx.map fun q =>
        writtenOf fmt pre suf utt mode padConst padConstAli p retain s q.2 q.1) := by
  apply C10_dir_worker fmt pre suf utt policy wt lobe (some mode) padConst padConstAli p retain s hhave hali hne
  intro w _
  rcases hmode with rfl | ⟨rfl, hs⟩
  · exact winLegal_constant _ w
  · exact winLegal_replicate _ (by simpa using hs) w

/-- **C10_dir_worker_valid_only**: without `--pad-mode`, no side condition and no padding: chunk `n` holds
`feats[start:end]`, `alis[start:end]` and the tokens kept for the window. (For `'ref'`: the utterance is at
least as long as the end of its last token.) -/
theorem C10_dir_worker_valid_only {α} (fmt : Fmt) (pre suf utt : List Char) (policy : Policy) (wt : WinType)
    (lobe : Nat) (padConst : α) (padConstAli : Int) (p retain : Bool) (s : Source α)
    (hhave : (policy = .ali → s.ali.isSome) ∧ (policy = .ref → s.ref.isSome))
    (hali : ∀ a, s.ali = some a → a.length = s.frames.length)
    (hne : if policy = .ref then s.utt.ref ≠ [] else s.frames ≠ [])
    (hpol : policy = .ref → refOther s.utt.ref s.utt.ref.length ≤ (s.frames.length : Int)) :
    dirWorker fmt pre suf utt policy wt lobe none padConst padConstAli p retain s =
      .ok ((dirWindows policy lobe wt true s.utt).zipIdx.map fun q =>
        ⟨baseName fmt pre suf utt q.2 q.1, (s.frames.take q.1.stop.toNat).drop q.1.start.toNat,
         s.ali.map fun a => (a.take q.1.stop.toNat).drop q.1.start.toNat,
         s.ref.map fun r => (tokensKept p r (q.1.start, q.1.stop) none).map (shiftTok retain q.1.start)⟩) := by
  -- the slicer does not look at an alignment unless the policy is 'ali': give it one of the right length
  have key : ∀ w ∈ dirWindows policy lobe wt true s.utt, Inside w (s.frames.length : Int) := by
    intro w hw
    by_cases hp : policy = .ali
    · subst hp
      have hsome := hhave.1 rfl
      cases hs : s.ali with
      | none => simp [hs] at hsome
      | some a =>
        have := C10_dir_valid_inside .ali wt lobe s.utt (by simp [Source.utt, hs, hali a hs]) w hw
        simpa [Source.utt] using this
    · have hw' : w ∈ dirWindows policy lobe wt true ⟨s.utt.T, List.replicate s.utt.T 0, s.utt.ref⟩ := by
        cases policy
        · exact hw
        · exact absurd rfl hp
        · exact hw
      have := C10_dir_valid_inside policy wt lobe ⟨s.utt.T, List.replicate s.utt.T 0, s.utt.ref⟩ (by simp) w hw'
      cases policy
      · simpa [Source.utt] using this
      · exact absurd rfl hp
      · obtain ⟨h0, h1, h2⟩ := this
        exact ⟨h0, h1, Int.le_trans h2 (hpol rfl)⟩
  rw [dirWorker_eq fmt pre suf utt policy wt lobe none padConst padConstAli p retain s hhave hali hne
    (fun w hw => winLegal_inside _ _ w (key w hw))]
  simp only [Option.isNone_none, Option.getD_none]
  refine congrArg Except.ok ?_
  let G : Nat → Win → Written α := fun n w => ⟨baseName fmt pre suf utt n w,
      (s.frames.take w.stop.toNat).drop w.start.toNat,
      s.ali.map fun a => (a.take w.stop.toNat).drop w.start.toNat,
      s.ref.map fun r => (tokensKept p r (w.start, w.stop) none).map (shiftTok retain w.start)⟩
  refine (range_map_getD_congr _ (⟨0, 0, 0⟩ : Win) _ G ?_).trans (range_map_getD_eq_zipIdx _ (⟨0, 0, 0⟩ : Win) G)
  intro n w hw
  obtain ⟨h0, h1, h2⟩ := key w hw
  simp only [writtenOf, G]
  congr 1
  · exact chunkSeq_inside _ _ _ _ _ h0 (Int.le_of_lt h1) h2
  · cases hs : s.ali with
    | none => rfl
    | some a =>
      simp only [Option.map_some]
      rw [chunkSeq_inside _ _ _ _ _ h0 (Int.le_of_lt h1) (by rw [hali a hs]; exact h2)]

/-- With `--retain-token-boundaries` the tokens of every write are the specified ones (`tokensRow`); without,
each boundary is `in + start` (the known finding, `C10_dir_plus_start`). -/
theorem C10_dir_worker_tokens (p retain : Bool) (r : List Tok) (w : Win) :
    (tokensKept p r (w.start, w.stop) none).map (shiftTok retain w.start) =
      if retain then tokensRow p true r (w.start, w.stop) none
      else (tokensRow p false r (w.start, w.stop) none).map fun tk =>
        (tk.1, tk.2.1 + 2 * w.start, tk.2.2 + 2 * w.start) := by
  cases retain
  · simp only [Bool.false_eq_true, if_false, tokensRow, List.map_map]
    apply List.map_congr_left
    intro tk _
    simp only [shiftTok, relTok, Function.comp, Bool.false_eq_true, if_false]
    refine Prod.ext rfl (Prod.ext ?_ ?_) <;> simp only <;> omega
  · simp only [if_true, tokensRow]
    apply List.map_congr_left
    intro tk _
    simp [shiftTok, relTok]

/-! ### file names -/

/-- **C10_name_roundtrip**: a name made by the command's default `--format-utt`
(`{utt_id}.{start:05d}.{end:05d}`) read back from the right gives the utterance id — whatever characters
it holds, dots included — and the window, for every integer start and end (negative: `-0002`; wider than
five digits: not truncated). -/
theorem C10_name_roundtrip (utt : List Char) (i : Nat) (w : Win) :
    parseName (render defaultFmt utt i w) = some (utt, w.start, w.stop) :=
  parseName_render_default utt i w

/-- **C10_name_injective**: under the default format two file names (same prefix and suffix) are equal
exactly when utterance id, start and end are: distinct (utterance, window) pairs get distinct files, and
two chunks of one utterance share a file only if their windows are equal. -/
theorem C10_name_injective (pre suf utt utt' : List Char) (i i' : Nat) (w w' : Win) :
    baseName defaultFmt pre suf utt i w = baseName defaultFmt pre suf utt' i' w' ↔
      utt = utt' ∧ w.start = w'.start ∧ w.stop = w'.stop := by
  constructor
  · intro h
    unfold baseName at h
    rw [List.append_assoc, List.append_assoc] at h
    have h1 := List.append_cancel_left h
    have h2 := List.append_cancel_right h1
    have h3 := congrArg parseName h2
    rw [C10_name_roundtrip, C10_name_roundtrip] at h3
    simpa using h3
  · rintro ⟨rfl, hs, he⟩
    exact baseName_default_window pre suf utt i i' w w' hs he

/-- **C10_name_idx_injective**: with `{utt_id}.{idx}.{start}.{end}` names are equal only if utterance id,
chunk index, start and end are: every chunk of every utterance gets its own file. -/
theorem C10_name_idx_injective (pre suf utt utt' : List Char) (i i' : Nat) (w w' : Win)
    (h : baseName idxFmt pre suf utt i w = baseName idxFmt pre suf utt' i' w') :
    utt = utt' ∧ i = i' ∧ w.start = w'.start ∧ w.stop = w'.stop := by
  unfold baseName at h
  rw [List.append_assoc, List.append_assoc] at h
  have h2 := List.append_cancel_right (List.append_cancel_left h)
  have h3 := congrArg parseIdxName h2
  rw [parseIdxName_render, parseIdxName_render] at h3
  simp only [Option.some.injEq, Prod.mk.injEq] at h3
  exact ⟨h3.1, by omega, h3.2.2.1, h3.2.2.2⟩

example : render defaultFmt "spk1.a-1".toList 3 ⟨-2, 7, 0⟩ = "spk1.a-1.-0002.00007".toList := by decide +kernel
example : render defaultFmt "u".toList 0 ⟨99998, 100003, 0⟩ = "u.99998.100003".toList := by decide +kernel
example : render idxFmt "u".toList 12 ⟨-1, 4, 0⟩ = "u.12.-1.4".toList := by decide +kernel
example : parseName "a.b.00003.-0001".toList = some ("a.b".toList, 3, -1) := by decide +kernel

/-! ### the files a sub-directory holds -/

/-- **C10_dir_files** (default names): after the worker's writes for one utterance, taken in order with a
later write replacing an earlier one of the same name, (1) the name of every prescribed window holds exactly
that window's chunk (two equal windows share the name and write the same content), and (2) every name present
is the name of a prescribed window. -/
theorem C10_dir_files {α} (pre suf utt : List Char) (mode : Mode) (padConst : α) (padConstAli : Int)
    (p retain : Bool) (s : Source α) (ws : List Win) :
    let writes := (ws.zipIdx.map fun q =>
        writtenOf defaultFmt pre suf utt mode padConst padConstAli p retain s q.2 q.1).map fun o => (o.base, o)
    (∀ w ∈ ws, lookupFile writes (baseName defaultFmt pre suf utt 0 w)
        = some (writtenOf defaultFmt pre suf utt mode padConst padConstAli p retain s 0 w)) ∧
    (∀ name o, lookupFile writes name = some o →
        ∃ w ∈ ws, name = baseName defaultFmt pre suf utt 0 w ∧
          o = writtenOf defaultFmt pre suf utt mode padConst padConstAli p retain s 0 w) := by
  intro writes
  have hmem : ∀ q ∈ writes, ∃ w ∈ ws, q = (baseName defaultFmt pre suf utt 0 w,
      writtenOf defaultFmt pre suf utt mode padConst padConstAli p retain s 0 w) := by
    intro q hq
    simp only [writes, List.map_map, List.mem_map, Function.comp] at hq
    obtain ⟨⟨w, n⟩, hwn, rfl⟩ := hq
    refine ⟨w, (List.mem_zipIdx hwn).2.2 ▸ List.getElem_mem _, ?_⟩
    simp [writtenOf, baseName_default_idx pre suf utt n 0 w]
  have hcons : ∀ a ∈ writes, ∀ b ∈ writes, a.1 = b.1 → a.2 = b.2 := by
    intro a ha b hb hab
    obtain ⟨w, _, rfl⟩ := hmem a ha
    obtain ⟨w', _, rfl⟩ := hmem b hb
    obtain ⟨_, hs, he⟩ := (C10_name_injective pre suf utt utt 0 0 w w').1 hab
    simp [writtenOf, hs, he, baseName_default_window pre suf utt 0 0 w w' hs he]
  constructor
  · intro w hw
    obtain ⟨n, hn, rfl⟩ := List.getElem_of_mem hw
    have hin : (baseName defaultFmt pre suf utt 0 ws[n],
        writtenOf defaultFmt pre suf utt mode padConst padConstAli p retain s 0 ws[n]) ∈ writes := by
      simp only [writes, List.map_map, List.mem_map, Function.comp]
      refine ⟨(ws[n], n), ?_, ?_⟩
      · rw [List.mem_iff_getElem]
        exact ⟨n, by simpa using hn, by simp⟩
      · simp [writtenOf, baseName_default_idx pre suf utt n 0 ws[n]]
    exact lookupFile_consistent writes hcons _ hin
  · intro name o h
    obtain ⟨w, hw, he⟩ := hmem _ (lookupFile_mem writes name o h)
    exact ⟨w, hw, (Prod.mk.inj he).1, (Prod.mk.inj he).2⟩

-- the hypotheses of `C10_dir_worker` on a concrete run (replicate padding, windows [0,3) and [2,5) of 4 frames)
example : ∀ w ∈ dirWindows .fixed 1 .symmetric false
    (Source.utt (⟨[10, 11, 12, 13], some [5, 5, 6, 6], some [(1, 0, 2), (2, 2, 4)]⟩ : Source Int)),
    WinLegal .replicate 4 w := by decide +kernel
-- reflect padding: the window [2,5) needs one frame of padding on the right, fewer than the 4 frames
example : WinLegal .reflect 4 ⟨2, 5, 0⟩ ∧ ¬ WinLegal .reflect 1 ⟨-1, 1, 0⟩ := by decide
example : chunkSeq .reflect (-1 : Int) [10, 11, 12, 13] 2 5 = [12, 13, 12] := by decide

example : dirWorker defaultFmt "p-".toList ".pt".toList "u".toList .fixed .symmetric 1 (some .replicate)
      (-1 : Int) (-1) false true ⟨[10, 11, 12, 13], some [5, 5, 6, 6], some [(1, 0, 2), (2, 2, 4)]⟩ =
    .ok [⟨"p-u.00000.00003.pt".toList, [10, 11, 12], some [5, 5, 6], some [(1, 0, 2)]⟩,
         ⟨"p-u.00002.00005.pt".toList, [12, 13, 13], some [6, 6, 6], some [(2, 2, 4)]⟩] := by decide +kernel

/-! ### non-vacuity of the worker / name / file theorems (audit): all hypotheses together -/

/-- The source of the instances below: 4 frames, two runs, two tokens. -/
def sEx : Source Int := ⟨[10, 11, 12, 13], some [5, 5, 6, 6], some [(1, 0, 2), (2, 2, 4)]⟩

-- reflect padding, 'fixed' symmetric lobe 1: windows [0,3) and [2,5); the second needs one frame of padding
example : dirWorker defaultFmt "p-".toList ".pt".toList "u".toList .fixed .symmetric 1 (some .reflect)
      (-1 : Int) (-1) true false sEx =
    .ok [⟨"p-u.00000.00003.pt".toList, [10, 11, 12], some [5, 5, 6], some [(1, 0, 2), (2, 2, 4)]⟩,
         ⟨"p-u.00002.00005.pt".toList, [12, 13, 12], some [6, 6, 6], some [(2, 4, 6)]⟩] :=
  (C10_dir_worker defaultFmt "p-".toList ".pt".toList "u".toList .fixed .symmetric 1 (some .reflect) (-1 : Int) (-1)
    true false sEx (by decide) (by intro a h; cases h; rfl) (by decide) (by decide +kernel)).trans (by decide +kernel)
-- 'ali' through the padded corollary (constant padding): two EQUAL windows [0,4), both written, in order
example : dirWorker idxFmt [] [] "u".toList .ali .symmetric 1 (some .constant) (0 : Int) 0 false true sEx =
    .ok [⟨"u.0.0.4".toList, [10, 11, 12, 13], some [5, 5, 6, 6], some [(1, 0, 2), (2, 2, 4)]⟩,
         ⟨"u.1.0.4".toList, [10, 11, 12, 13], some [5, 5, 6, 6], some [(1, 0, 2), (2, 2, 4)]⟩] :=
  (C10_dir_worker_padded idxFmt [] [] "u".toList .ali .symmetric 1 .constant (0 : Int) 0 false true sEx
    (Or.inl rfl) (by decide) (by intro a h; cases h; rfl) (by decide)).trans (by decide +kernel)
example : dirWorker idxFmt [] [] "u".toList .ref .causal 1 (some .replicate) (0 : Int) 0 false true sEx =
    .ok [⟨"u.0.-1.2".toList, [10, 10, 11], some [5, 5, 5], some [(1, 0, 2)]⟩,
         ⟨"u.1.1.4".toList, [11, 12, 13], some [5, 6, 6], some [(2, 2, 4)]⟩] :=
  (C10_dir_worker_padded idxFmt [] [] "u".toList .ref .causal 1 .replicate (0 : Int) 0 false true sEx
    (Or.inr ⟨rfl, by decide⟩) (by decide) (by intro a h; cases h; rfl) (by decide)).trans (by decide +kernel)
-- valid-only: the padded first window of the previous run is dropped, no pad value enters
example : dirWorker idxFmt [] [] "u".toList .ref .causal 1 none (0 : Int) 0 false true sEx =
    .ok [⟨"u.0.1.4".toList, [11, 12, 13], some [5, 6, 6], some [(2, 2, 4)]⟩] :=
  (C10_dir_worker_valid_only idxFmt [] [] "u".toList .ref .causal 1 (0 : Int) 0 false true sEx
    (by decide) (by intro a h; cases h; rfl) (by decide) (by intro _; decide)).trans (by decide +kernel)
example : (tokensKept true [(1, 0, 2), (2, 2, 4)] (1, 4) none).map (shiftTok false 1) =
    [(1, -1 + 2 * 1, 1 + 2 * 1), (2, 1 + 2 * 1, 3 + 2 * 1)] :=
  (C10_dir_worker_tokens true false [(1, 0, 2), (2, 2, 4)] ⟨1, 4, 0⟩).trans (by decide)

-- names: a different chunk index / a different utterance id give a different file
example : baseName idxFmt "p".toList ".pt".toList "u".toList 0 ⟨0, 4, 0⟩ ≠
    baseName idxFmt "p".toList ".pt".toList "u".toList 1 ⟨0, 4, 0⟩ :=
  fun h => absurd (C10_name_idx_injective _ _ _ _ _ _ _ _ h).2.1 (by decide)
example : baseName defaultFmt "p".toList ".pt".toList "u.1".toList 0 ⟨0, 4, 0⟩ ≠
    baseName defaultFmt "p".toList ".pt".toList "u".toList 0 ⟨1, 4, 0⟩ :=
  fun h => absurd ((C10_name_injective _ _ _ _ _ _ _ _).1 h).1 (by decide)

-- files: the two equal windows [0,4) of the 'ali' run above share the default name; it holds that chunk
example : lookupFile (([(⟨0, 4, 0⟩ : Win), ⟨0, 4, 0⟩, ⟨2, 4, 0⟩].zipIdx.map fun q =>
      writtenOf defaultFmt [] [] "u".toList .constant (0 : Int) 0 false true sEx q.2 q.1).map fun o => (o.base, o))
      (baseName defaultFmt [] [] "u".toList 0 ⟨0, 4, 0⟩) =
    some ⟨"u.00000.00004".toList, [10, 11, 12, 13], some [5, 5, 6, 6], some [(1, 0, 2), (2, 2, 4)]⟩ :=
  ((C10_dir_files [] [] "u".toList .constant (0 : Int) 0 false true sEx [⟨0, 4, 0⟩, ⟨0, 4, 0⟩, ⟨2, 4, 0⟩]).1
    ⟨0, 4, 0⟩ (by decide)).trans (by decide +kernel)

end PdtVerif.Slicing
