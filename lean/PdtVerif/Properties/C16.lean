import PdtVerif.Lemmas.Checkpoint
/-!
# C16 — a crash during an epoch update never loses the last or best checkpoint

Model: `Model/Checkpoint.lean` (the mutating calls of `update_for_epoch` in the order the code
makes them; `Quirks.fixed` = the tree with `fixes/C16-*.diff` applied, `Quirks.pinned` = the pinned
tree). Spec: `Spec/Recoverable.lean` (`Rec`, `RecAt`, `ExactLB`, `AllLoadable`, `RecAll`, `Inj`).
Proofs: `Lemmas/Checkpoint.lean` (this file states the property theorems and instantiates them).

`Inj P`: the two file-name formats are injective in the epoch (they contain `{epoch}`).
`U tr e`: the state an uninterrupted run saves for epoch `e` (`tr` = any deterministic training).
-/
namespace PdtVerif.Checkpoint

/-! ## crash safety, operation by operation -/

/-- With epoch-keyed names the update never refuses (no `ValueError`). -/
theorem C16_never_refuses {P : Params} (hi : Inj P) (Q : Quirks) (vals : List (Option Int)) (k : Nat)
    (d : Disk) (s : Nat × Nat) : ∃ main cl, planUpdate Q P vals k d s = .ok (main, cl) :=
  c16_never_refuses hi Q vals k d s

/-- **Every single mutating call of every update preserves recoverability.** `d` is any disk on
which a new controller recovers (`Rec`: garbage allowed, so `d` may be the result of any number of
earlier crashes); the controller has `k` epochs recorded and saves the state `U tr (k+1)`; the
clean-up may run in any order and over any part `cl'` of the planned set; the process may be killed
after any number `i` of the mutating calls. -/
theorem C16_rec_step {P : Params} (hi : Inj P) (vals : List (Option Int)) (tr : Train) (d : Disk)
    (hrec : Rec P vals tr d) (k : Nat) (hk : recorded d = some k) (hlt : k < vals.length)
    (main : List FsOp) (cl : List Path)
    (hplan : planUpdate Quirks.fixed P vals k d (tr (k + 1) (U tr k)) = .ok (main, cl))
    (cl' : List Path) (hcl : ∀ p ∈ cl', p ∈ cl) (i : Nat) :
    Rec P vals tr (exec d ((opsOf main cl').take i)) :=
  c16_rec_step hi vals tr d hrec k hk hlt main cl hplan cl' hcl i

/-- The same for a complete update: afterwards `k+1` epochs are recorded. -/
theorem C16_rec_full {P : Params} (hi : Inj P) (vals : List (Option Int)) (tr : Train) (d : Disk)
    (k : Nat) (hrec : RecAt P vals tr d k) (hlt : k < vals.length)
    (main : List FsOp) (cl : List Path)
    (hplan : planUpdate Quirks.fixed P vals k d (tr (k + 1) (U tr k)) = .ok (main, cl))
    (cl' : List Path) (hcl : ∀ p ∈ cl', p ∈ cl) :
    RecAt P vals tr (exec d (opsOf main cl')) (k + 1) :=
  c16_rec_full hi vals tr d k hrec hlt main cl hplan cl' hcl

/-! ## sessions: any sequence of crashes and restarts -/

/-- A session (new controller, load last epoch, `j` complete updates, `i` mutating calls of the
next update, killed) leaves a recoverable disk. -/
theorem C16_rec_crashSession {P : Params} (hi : Inj P) (vals : List (Option Int)) (tr : Train) (d : Disk)
    (hrec : Rec P vals tr d) (j i : Nat) :
    Rec P vals tr (crashSession Quirks.fixed P vals tr d j i) :=
  c16_rec_crashSession hi vals tr d hrec j i

/-- **Resume.** Any number of sessions, each killed after any number of completed updates and any
number of mutating calls of the next one, followed by a session that runs to the end: the disk is
recoverable and all `vals.length` epochs are recorded. -/
theorem C16_resume {P : Params} (hi : Inj P) (vals : List (Option Int)) (tr : Train) (d : Disk)
    (hrec : Rec P vals tr d) (sched : List (Nat × Nat)) :
    RecAt P vals tr (faulty Quirks.fixed P vals tr d sched) vals.length :=
  c16_resume hi vals tr d hrec sched

/-- The history file after any crash/restart sequence equals the uninterrupted run's. -/
theorem C16_resume_history {P : Params} (hi : Inj P) (vals : List (Option Int)) (tr : Train)
    (hn : 0 < vals.length) (sched : List (Nat × Nat)) :
    (faulty Quirks.fixed P vals tr Disk.blank sched).csv =
      (runToEnd Quirks.fixed P vals tr Disk.blank).csv :=
  c16_resume_history hi vals tr hn sched

/-! ### non-vacuity: a concrete run -/

def exP : Params := ⟨true, fun e => e, fun e => e⟩
def exTr : Train := fun e s => (3 * s.1 + e, 5 * s.2 + e)
def exVals : List (Option Int) := [some 500, some 400, some 450]

theorem exP_inj : Inj exP := ⟨fun _ _ h => h, fun _ _ h => h⟩

/-- killed between the two renames of epoch 2, then killed during the clean-up of epoch 2 -/
example : recOk exP exVals exTr (crashSession Quirks.fixed exP exVals exTr Disk.blank 1 7) = true := by decide
example : recOk exP exVals exTr
    (crashSession Quirks.fixed exP exVals exTr (crashSession Quirks.fixed exP exVals exTr Disk.blank 1 7) 0 11)
    = true := by decide
example : (faulty Quirks.fixed exP exVals exTr Disk.blank [(1, 7), (0, 11)]).csv =
    some [.header, .row 1, .row 2, .row 3] := by decide

/-- the hypotheses of `C16_rec_step` hold on a concrete disk: first update of an empty directory,
killed after 7 of its mutating calls (between the two renames) -/
example : Rec exP exVals exTr
    (exec Disk.blank ((opsOf (saveOps exP Disk.blank 1 (1, 1) ++ histOps Quirks.fixed Disk.blank 1) []).take 7)) :=
  C16_rec_step exP_inj exVals exTr Disk.blank (Rec_blank exP exVals exTr).rec 0 rfl (by decide)
    (saveOps exP Disk.blank 1 (1, 1) ++ histOps Quirks.fixed Disk.blank 1) [] rfl [] (fun _ h => h) 7

/-- … and in the middle of a run, on a disk with leftovers of an earlier crash (a temp file and
the superseded checkpoint of epoch 1): `Rec` holds there (`decide`), so the theorem applies. -/
example : recOk exP exVals exTr (crashSession Quirks.fixed exP exVals exTr
    (crashSession Quirks.fixed exP exVals exTr Disk.blank 0 3) 1 10) = true := by decide

/-! ## exactness of the directory in crash-free runs (keep last and best only) -/

/-- One complete update, clean-up in any order: if the directory held exactly the files of the
last and best epoch before, it does so afterwards. -/
theorem C16_exact_step {P : Params} (hi : Inj P) (hkeep : P.keepLB = true) (vals : List (Option Int))
    (tr : Train) (d : Disk) (k : Nat) (hex : ExactLB P vals d k) (hk : k < vals.length)
    (main : List FsOp) (cl : List Path)
    (hplan : planUpdate Quirks.fixed P vals k d (tr (k + 1) (U tr k)) = .ok (main, cl))
    (cl' : List Path) (hcl : ∀ p, p ∈ cl' ↔ p ∈ cl) :
    ExactLB P vals (exec d (opsOf main cl')) (k + 1) :=
  c16_exact_step hi hkeep vals tr d k hex hk main cl hplan cl' hcl

/-- **Last-and-best only, no crash:** after every completed update `j` of a run that starts on an
empty directory, the directory holds exactly the files of the last and of the best epoch (and the
disk is recoverable). -/
theorem C16_exact_nocrash {P : Params} (hi : Inj P) (hkeep : P.keepLB = true) (vals : List (Option Int))
    (tr : Train) (j : Nat) (hj : j ≤ vals.length) :
    ∃ d, runLoop Quirks.fixed P vals tr j 0 (U tr 0) Disk.blank = (j, U tr j, d) ∧
      ExactLB P vals d j ∧ RecAt P vals tr d j :=
  c16_exact_nocrash hi hkeep vals tr j hj

example : exactLBOk exP exVals (runLoop Quirks.fixed exP exVals exTr 3 0 (0, 0) Disk.blank).2.2 3 = true := by
  decide

/-! ## keep everything: every recorded epoch stays loadable — with or without crashes -/

/-- Every single mutating call of a keep-everything update preserves `RecAll` (= `RecAt` and every
recorded epoch loadable with exactly its state). -/
theorem C16_keepall_step {P : Params} (hi : Inj P) (hkeep : P.keepLB = false) (vals : List (Option Int))
    (tr : Train) (d : Disk) (k : Nat) (h : RecAll P vals tr d k) (hlt : k < vals.length)
    (main : List FsOp) (cl : List Path)
    (hplan : planUpdate Quirks.fixed P vals k d (tr (k + 1) (U tr k)) = .ok (main, cl)) (i : Nat) :
    ∃ k', RecAll P vals tr (exec d ((opsOf main cl).take i)) k' :=
  c16_keepall_step hi hkeep vals tr d k h hlt main cl hplan i

/-- **Keep everything:** after any number of killed sessions and a final one that runs to the end,
every epoch `1..n` is loadable with exactly the state saved for it. -/
theorem C16_keepall_loadable {P : Params} (hi : Inj P) (hkeep : P.keepLB = false) (vals : List (Option Int))
    (tr : Train) (sched : List (Nat × Nat)) :
    AllLoadable P tr (faulty Quirks.fixed P vals tr Disk.blank sched) vals.length :=
  c16_keepall_loadable hi hkeep vals tr sched

def exPall : Params := ⟨false, fun e => e, fun e => e⟩

example : Inj exPall ∧ exPall.keepLB = false := ⟨⟨fun _ _ h => h, fun _ _ h => h⟩, rfl⟩
example : (List.range' 1 3).all (fun j => decide (loadState exPall
    (faulty Quirks.fixed exPall exVals exTr Disk.blank [(1, 7), (0, 2)]) j = some (U exTr j))) = true := by
  decide

/-! ## what is false of the code -/

/-- **Exactness after a crash is false** (known finding `C16.leak.tmp_or_superseded_after_crash`).
(1) killed after `torch.save` into the first temp file of epoch 1, restarted, run to the end: the
disk is recoverable, but a temp file stays. (2) killed after the history row of epoch 2 and before
the clean-up: the superseded checkpoint of epoch 1 stays for ever. -/
theorem C16_exact_after_crash_counterexample :
    (let d := faulty Quirks.fixed exP [some 500] exTr Disk.blank [(0, 3)]
     recOk exP [some 500] exTr d = true ∧ exactLBOk exP [some 500] d 1 = false ∧
       d.files.get (.tmp 0) = some (.model 1)) ∧
    (let d := faulty Quirks.fixed exP exVals exTr Disk.blank [(1, 10)]
     recOk exP exVals exTr d = true ∧ exactLBOk exP exVals d 3 = false ∧
       d.files.get (.model 1) = some (.model 1) ∧ bestOf exVals = 2) := by
  decide

/-- **Formats without the epoch field** (known finding `C16.format_without_epoch.window`).
(a) keep-last-and-best: as soon as the new epoch is not the best the update refuses (on any disk);
(b) when it is the best, the history row goes first: killed after 2 mutating calls the history
names epoch 2 while the checkpoint is still that of epoch 1 — not recoverable;
(c) killed between the two renames: model of epoch 2 with optimizer of epoch 1;
(d) keep-everything has the same window. -/
theorem C16_collision_counterexample :
    (∀ d s, planUpdate Quirks.fixed (constP true) [some 400, some 500] 1 d s = .error .wouldOverwriteBest) ∧
    (let d := crashSession Quirks.fixed (constP true) [some 500, some 400] exTr Disk.blank 1 2
     recorded d = some 2 ∧ loadState (constP true) d 2 = some (U exTr 1) ∧
       recOk (constP true) [some 500, some 400] exTr d = false) ∧
    (let d := crashSession Quirks.fixed (constP true) [some 500, some 400] exTr Disk.blank 1 9
     recorded d = some 2 ∧ loadState (constP true) d 2 = some ((U exTr 2).1, (U exTr 1).2)) ∧
    (let d := crashSession Quirks.fixed (constP false) [some 500, some 400] exTr Disk.blank 1 2
     recOk (constP false) [some 500, some 400] exTr d = false) := by
  refine ⟨fun d s => rfl, ?_, ?_, ?_⟩ <;> decide

/-- **General form of the window.** In every state the colliding update can start from (any
recoverable disk with `k ≥ 1` recorded epochs, any metric history, either keep mode) it either refuses
or — killed after its second mutating call — leaves a history that names an epoch whose checkpoint
paths still hold the previous epoch's state. -/
theorem C16_collision_window (keep : Bool) (vals : List (Option Int)) (tr : Train) (d : Disk) (k : Nat)
    (hk1 : 1 ≤ k) (hrec : RecAt (constP keep) vals tr d k)
    (hU : U tr (k + 1) ≠ U tr k) :
    (∃ e, planUpdate Quirks.fixed (constP keep) vals k d (U tr (k + 1)) = .error e) ∨
    (∃ main cl, planUpdate Quirks.fixed (constP keep) vals k d (U tr (k + 1)) = .ok (main, cl) ∧
      ¬ Rec (constP keep) vals tr (exec d ((opsOf main cl).take 2))) :=
  c16_collision_window keep vals tr d k hk1 hrec hU

/-- its hypotheses are satisfiable: the disk after epoch 1 of a constant-format run -/
example : recOk (constP false) [some 500, some 400] exTr
    (runLoop Quirks.fixed (constP false) [some 500, some 400] exTr 1 0 (0, 0) Disk.blank).2.2 = true ∧
    U exTr 2 ≠ U exTr 1 := by decide

/-! ## the two defects of the pinned tree that `fixes/C16-*.diff` repair -/

/-- Pinned `write_header = not exists(csv)`: killed between `open(csv, "a")` and the buffered write
of the first update (9 mutating calls), restarted: the header is never written and the next
controller cannot be constructed. The repaired variant recovers. -/
theorem C16_pinned_header_counterexample :
    (let d := faulty Quirks.pinned exP [some 500, some 400] exTr Disk.blank [(0, 9)]
     d.csv = some [.row 1, .row 2] ∧ recorded d = none) ∧
    (let d := faulty Quirks.fixed exP [some 500, some 400] exTr Disk.blank [(0, 9)]
     d.csv = some [.header, .row 1, .row 2] ∧ recOk exP [some 500, some 400] exTr d = true) := by
  decide

/-- Pinned keep-everything branch (`save_info_first = exists(...)`): killed between the two renames
of epoch 2, restarted, killed after the history row that is now written first: the history names
epoch 2, its optimizer file does not exist. The repaired variant recovers. -/
theorem C16_pinned_keepall_counterexample :
    (let P : Params := ⟨false, fun e => e, fun e => e⟩
     let d := crashSession Quirks.pinned P exVals exTr (crashSession Quirks.pinned P exVals exTr Disk.blank 1 7) 0 2
     recorded d = some 2 ∧ loadState P d 2 = none ∧ recOk P exVals exTr d = false) ∧
    (let P : Params := ⟨false, fun e => e, fun e => e⟩
     let d := crashSession Quirks.fixed P exVals exTr (crashSession Quirks.fixed P exVals exTr Disk.blank 1 7) 0 2
     recorded d = some 1 ∧ recOk P exVals exTr d = true) := by
  decide

end PdtVerif.Checkpoint
